// C08: online-mode players are admitted only after verified encryption and session auth.
//
// Live in-process proxy in online mode with the real auth.Authenticator (real RSA key)
// whose HTTP client is a scripted in-memory session server. A fake client plays PRNG-chosen
// login sequences (<= 5 ops) and an acceptor automaton decides each session from three
// sources: what the client saw, the session server's request log, and the proxy's API/events.
//
// admitted  := client decoded a LoginSuccess, or Proxy.PlayerByName(name) != nil, or a
//
//	LoginEvent/PostLoginEvent fired for the name.
//
// allowed   := (PreLogin forced offline)  OR
//
//	( first op is a login start with a valid name, PreLogin did not deny,
//	  only login-plugin-responses in between, then the FIRST encryption response carries
//	  the issued verify token and a 16-byte secret both RSA-encrypted under the proxy's
//	  key, the session server was asked exactly once for (reference digest of
//	  secret||pubkey, that username) and answered 200 with a profile,
//	  and the client could only read the LoginSuccess by decrypting with that secret ).
//
// Reference automaton: expect-ls -> [wait-plugin ->] expect-er -> done, anything illegal ->
// dead. wait-plugin is entered when the PreLogin subscriber asked the client 1..2 questions
// over login plugin messages (>= 1.13): the login completes only after the client answered
// all of them, so the encryption request (or, forced offline, the login success) is awaited
// only after the last answer. A second login start, an encryption response or an unknown
// packet in wait-plugin is as illegal as in any other sub-state. The statement says nothing
// about WHEN the encryption request may be sent relative to the answers, so a request seen
// while answers are outstanding is only counted, never judged.
//
// 1.19-1.19.2 (759/760) clients log in without a profile key (forceKeyAuthentication=false).
// Their encryption response has a second wire form, salt + signature. A key-less client has
// nothing that could make a signature valid: salt + arbitrary/empty signature bytes never
// permits admission. Salt + the RSA-encrypted exact token in the signature field literally
// "returned the exact verify token": judged like the unsalted valid response (admit or close).
//
// Violation: admitted && !allowed. Also: any out-of-order / duplicate / unknown login packet
// must end in a closed connection (and, when it precedes a complete exchange, no admission).
// Once the reference has refused a connection the fake client keeps playing its script for as
// long as the proxy keeps the connection open (it waits briefly for the token / question its
// next packet needs), so that a proxy that wrongly carried on is driven to the admission.
package c08

import (
	"bytes"
	"crypto/rand"
	"crypto/rsa"
	"crypto/sha1"
	"crypto/x509"
	"fmt"
	"io"
	"math/big"
	mrand "math/rand"
	"net/http"
	"strings"
	"sync"
	"testing"
	"time"

	"github.com/robinbraemer/event"
	"go.minekube.com/common/minecraft/component"
	"go.minekube.com/gate/pkg/edition/java/auth"
	jconfig "go.minekube.com/gate/pkg/edition/java/config"
	"go.minekube.com/gate/pkg/edition/java/proto/packet"
	"go.minekube.com/gate/pkg/edition/java/proxy"
	"go.minekube.com/gate/pkg/edition/java/proxy/message"
	"go.minekube.com/gate/pkg/edition/java/proxy/verifh/e2e"
	"go.minekube.com/gate/pkg/edition/java/proxy/verifh/lib"
	"go.minekube.com/gate/pkg/gate/proto"
)

// ---- scripted session server (http.RoundTripper, no sockets) ---------------------------

type sessReq struct {
	ServerID, Username, IP string
}

type sessionServer struct {
	mu      sync.Mutex
	outcome string
	name    string
	other   string // the name the "ok-other-name" profile carries
	id      string // undashed profile id, unique per session
	reqs    []sessReq
}

// set scripts the outcome for one login session. Every session gets its own profile id and
// its own names, so that events, registry entries and join requests can be attributed to the
// session that caused them: Gate fires PostLogin asynchronously and unregisters a player
// during teardown, i.e. possibly after the next session has started.
func (s *sessionServer) set(outcome, name, other, id string) {
	s.mu.Lock()
	s.outcome, s.name, s.other, s.id, s.reqs = outcome, name, other, id, nil
	s.mu.Unlock()
}

// otherName and profileID derive the per-session identities from the session index.
func otherName(i int) string { return fmt.Sprintf("N%d", i) }
func profileID(i int) string { return fmt.Sprintf("069a79f444e94726a5befca9%08x", i+1) }

func (s *sessionServer) requests() []sessReq {
	s.mu.Lock()
	defer s.mu.Unlock()
	return append([]sessReq(nil), s.reqs...)
}

func (s *sessionServer) RoundTrip(req *http.Request) (*http.Response, error) {
	q := req.URL.Query()
	s.mu.Lock()
	s.reqs = append(s.reqs, sessReq{q.Get("serverId"), q.Get("username"), q.Get("ip")})
	outcome, name, other, id := s.outcome, s.name, s.other, s.id
	s.mu.Unlock()
	mk := func(code int, body string) (*http.Response, error) {
		return &http.Response{StatusCode: code, Status: fmt.Sprint(code), Body: io.NopCloser(strings.NewReader(body)), Header: http.Header{}, Request: req}, nil
	}
	profile := fmt.Sprintf(`{"id":%q,"name":%q,"properties":[]}`, id, name)
	switch outcome {
	case "ok":
		return mk(200, profile)
	case "ok-other-name":
		return mk(200, fmt.Sprintf(`{"id":%q,"name":%q,"properties":[]}`, id, other))
	case "200-empty":
		return mk(200, "")
	case "204":
		return mk(204, "")
	case "401":
		return mk(401, `{"error":"unauthorized"}`)
	case "500":
		return mk(500, "oops")
	case "malformed":
		return mk(200, `{"id": 12, "name": [`)
	case "no-name":
		return mk(200, fmt.Sprintf(`{"id":%q}`, id))
	case "neterr":
		return nil, fmt.Errorf("dial tcp: connection refused")
	}
	return mk(500, "unscripted")
}

// javaDigest is the reference for the session server id (signed SHA-1 hex).
func javaDigest(secret, pub []byte) string {
	h := sha1.New()
	h.Write(secret)
	h.Write(pub)
	sum := h.Sum(nil)
	n := new(big.Int).SetBytes(sum)
	if sum[0]&0x80 != 0 {
		n.Sub(n, new(big.Int).Lsh(big.NewInt(1), 160))
	}
	return n.Text(16)
}

type op struct {
	Kind string `json:"op"`
	Arg  string `json:"arg,omitempty"`
}

type scenario struct {
	Protocol     int    `json:"protocol"`
	Name         string `json:"name"`
	PreLogin     string `json:"prelogin"`
	PluginMsgs   int    `json:"prelogin_plugin_messages"` // login plugin messages the PreLogin subscriber sends
	Session      string `json:"session_outcome"`
	Ops          []op   `json:"ops"`
	Burst        bool   `json:"burst"` // the packet after the first login start is sent without waiting for the proxy's reaction
	PreventProxy bool   `json:"prevent_proxy_connections"`
}

// firstLoginPluginProtocol: login plugin request/response exist since 1.13; for older clients
// SendLoginPluginMessage refuses and the PreLogin subscriber's messages do not exist.
const firstLoginPluginProtocol = 393

// saltedProtocol: only the 1.19-1.19.2 encryption response has the "salt + signature" form.
func saltedProtocol(p int) bool { return p == 759 || p == 760 }

func TestC08(t *testing.T) {
	r := lib.Start(t, "C08")
	defer r.Finish()
	r.Rule("one case = one login session against a live online-mode proxy: protocol from {47,340,759,760,761,763,764,767,775} (759/760 = key-less 1.19-1.19.2 login start); <=5 ops over {login-start(valid|invalid name), encryption-response(valid | wrong token | short token | other key | bad secret | 15-byte secret | swapped | 759/760 only, salted wire form: salt+random signature bytes, salt+RSA-encrypted token in the signature field, salt+empty signature), login-plugin-response(unknown id), answer-all / answer-one of the outstanding login plugin messages (or a repeated answer), unknown packet} incl. repeats; session-server outcome from {ok, ok-other-name, 200-empty, 204, 401, 500, malformed, no-name, neterr}; PreLogin result from {none, force-offline, deny} x PreLogin subscriber sends {0,1,2} login plugin messages with unique payloads (login completion then waits for the client's replies); burst = the packet after the first login start is not delayed until the proxy reacted; distinct = (ops, outcome, prelogin, plugin messages, burst, protocol class)")
	r.Assume("1.19-1.19.2 clients WITH a signed player key are not generated: a valid Mojang-signed key cannot be forged offline; key-less 1.19-1.19.2 clients are (forceKeyAuthentication=false)")
	r.Assume("the RSA key pair is generated by the harness and injected through auth.Options.PrivateKey; the session server is an http.RoundTripper")
	r.Assume("a salted 1.19 encryption response whose signature field holds the RSA-encrypted exact verify token is judged like an unsalted valid one: the statement's condition 'returned the exact verify token' is literally met; both admitting and closing are accepted")

	priv, err := rsa.GenerateKey(rand.Reader, 1024)
	if err != nil {
		t.Fatal(err)
	}
	other, _ := rsa.GenerateKey(rand.Reader, 1024)
	pubDER, _ := x509.MarshalPKIXPublicKey(priv.Public())
	ss := &sessionServer{}
	chanID, err := message.NewChannelIdentifier("verif", "c08")
	if err != nil {
		t.Fatal(err)
	}
	newHarness := func(prevent bool) (*e2e.Harness, *preLoginCtl, *evRec) {
		authn, err := auth.New(auth.Options{PrivateKey: priv, Client: &http.Client{Transport: ss}})
		if err != nil {
			t.Fatal(err)
		}
		h, err := e2e.New(e2e.Options{Authenticator: authn, Mutate: func(c *jconfig.Config) {
			c.OnlineMode = true
			c.ShouldPreventClientProxyConnections = prevent
		}})
		if err != nil {
			t.Fatal(err)
		}
		if _, err = h.AddBackend("lobby", e2e.Always(e2e.Behavior{Mode: e2e.Accept, Threshold: -1})); err != nil {
			t.Fatal(err)
		}
		h.Cfg.Try = []string{"lobby"}
		ctl := &preLoginCtl{}
		rec := &evRec{}
		event.Subscribe(h.Ev, 0, func(e *proxy.PreLoginEvent) {
			m := ctl.get()
			rec.add("prelogin:" + e.Username())
			// a subscriber that asks the joining client 0..2 questions over login plugin
			// messages; the proxy completes the login only after the client replied to all
			if m.msgs > 0 {
				if lpc, ok := e.Conn().(proxy.LoginPhaseConnection); ok {
					for j := 0; j < m.msgs; j++ {
						payload := ctl.nextPayload(m.tag)
						err := lpc.SendLoginPluginMessage(chanID, []byte(payload), &replyConsumer{ctl: ctl, tag: m.tag, payload: payload})
						ctl.sendResult(m.tag, err)
					}
				} else {
					ctl.sendResult(m.tag, fmt.Errorf("PreLoginEvent.Conn() is %T, no LoginPhaseConnection", e.Conn()))
				}
			}
			switch m.result {
			case "force-offline":
				e.ForceOfflineMode()
			case "deny":
				e.Deny(&component.Text{Content: "denied by verif"})
			}
		})
		event.Subscribe(h.Ev, 0, func(e *proxy.LoginEvent) { rec.add("login:" + e.Player().Username()) })
		event.Subscribe(h.Ev, 0, func(e *proxy.PostLoginEvent) { rec.add("postlogin:" + e.Player().Username()) })
		return h, ctl, rec
	}
	hA, ctlA, recA := newHarness(false)
	hB, ctlB, recB := newHarness(true)

	rng := r.Rng("cases")
	n := r.N(1500, 80000)
	protos := []proto.Protocol{47, 340, 759, 760, 761, 763, 764, 767, 775}
	erKinds := []string{"er-valid", "er-wrong-token", "er-short-token", "er-other-key", "er-bad-secret", "er-15-byte-secret", "er-swapped"}
	saltedKinds := []string{"er-salted-random-sig", "er-salted-token-as-sig", "er-salted-empty-sig"}
	sessions := []string{"ok", "ok", "ok", "ok-other-name", "200-empty", "204", "401", "500", "malformed", "no-name", "neterr"}
	var admittedOK, refused, closedOK, onlineReqsChecked int64
	stalls, keptOpen := 0, 0

	for i := 0; i < n; i++ {
		sc := scenario{Protocol: int(protos[rng.Intn(len(protos))]), Name: fmt.Sprintf("U%d_%d", r.Seed%1000, i), Session: sessions[rng.Intn(len(sessions))], PreLogin: "none", PreventProxy: rng.Intn(4) == 0}
		if len(sc.Name) > 16 {
			sc.Name = sc.Name[:16]
		}
		switch rng.Intn(8) {
		case 0:
			sc.PreLogin = "force-offline"
		case 1:
			sc.PreLogin = "deny"
		}
		if rng.Intn(3) == 0 {
			sc.PluginMsgs = 1 + rng.Intn(2)
		}
		sc.Burst = rng.Intn(5) == 0
		// encryption-response kinds that exist on this protocol's wire
		erPool := erKinds
		if saltedProtocol(sc.Protocol) {
			erPool = append(append(append([]string(nil), erKinds...), saltedKinds...), saltedKinds...)
		}
		erAny := func() string {
			if saltedProtocol(sc.Protocol) && rng.Intn(3) == 0 {
				return saltedKinds[rng.Intn(len(saltedKinds))]
			}
			if rng.Intn(2) == 0 {
				return "er-valid"
			}
			return erPool[rng.Intn(len(erPool))]
		}
		mk := func(kinds ...string) []op {
			var l []op
			for _, k := range kinds {
				l = append(l, op{Kind: k})
			}
			return l
		}
		random := func() {
			all := append([]string{"ls", "ls", "ls-invalid", "lpr", "unknown", "answer-all", "answer-one"}, erPool...)
			for k := 1 + rng.Intn(5); k > 0; k-- {
				sc.Ops = append(sc.Ops, op{Kind: all[rng.Intn(len(all))]})
			}
		}
		// op sequence: biased towards the valid shapes (LS, ER / LS, answers, ER) with mutations
		shape := rng.Intn(10)
		if sc.PluginMsgs > 0 {
			switch shape {
			case 0, 1:
				sc.Ops = mk("ls", "answer-all", erAny())
			case 2:
				sc.Ops = mk("ls", "ls", "answer-all", "er-valid")
			case 3:
				sc.Ops = mk("ls", "er-valid", "answer-all")
			case 4:
				sc.Ops = mk("ls", "answer-all", "ls", "er-valid")
			case 5:
				sc.Ops = mk("ls", "answer-one", "ls", "answer-all", "er-valid")
			case 6:
				sc.Ops = mk("ls", "answer-one", "answer-one", erAny())
			case 7:
				sc.Ops = mk("ls", "ls", "er-valid")
				if rng.Intn(3) == 0 {
					sc.Ops = mk("ls", "ls") // the duplicate alone: judged on the close only
				}
			default:
				random()
			}
		} else {
			switch {
			case shape < 4:
				sc.Ops = mk("ls", erAny())
			case shape < 6:
				sc.Ops = mk("ls", "lpr", "er-valid")
			default:
				random()
			}
		}
		// extra duplicates at the end sometimes
		if rng.Intn(5) == 0 {
			sc.Ops = append(sc.Ops, sc.Ops[rng.Intn(len(sc.Ops))])
		}
		if len(sc.Ops) > 5 {
			sc.Ops = sc.Ops[:5]
		}
		secret := make([]byte, 16)
		rng.Read(secret)
		// choices made while the session runs come from a per-session stream, so that the
		// case list does not depend on how far a session got
		xr := mrand.New(mrand.NewSource(rng.Int63()))
		r.LogCase(sc)
		h, ctl, rec := hA, ctlA, recA
		if sc.PreventProxy {
			h, ctl, rec = hB, ctlB, recB
		}
		tag := fmt.Sprint(i)
		ctl.set(preLoginMode{result: sc.PreLogin, msgs: sc.PluginMsgs, tag: tag})
		otherNm := otherName(i)
		ss.set(sc.Session, sc.Name, otherNm, profileID(i))
		rec.reset()
		mine := func(name string) bool { return name == sc.Name || name == otherNm }

		c := h.NewClient(e2e.ClientOpts{Protocol: proto.Protocol(sc.Protocol)})
		var erSeen *packet.EncryptionRequest
		erCount := 0
		var erMu sync.Mutex
		c.OnEncryptionRequest = func(_ *e2e.Client, req *packet.EncryptionRequest) {
			erMu.Lock()
			erSeen = req
			erCount++
			erMu.Unlock()
		}
		lastER := func() *packet.EncryptionRequest { erMu.Lock(); defer erMu.Unlock(); return erSeen }
		_ = c.Handshake("play.example.com", 25565, 2)

		// ---- the fake client's record of login plugin messages
		pluginIDs := func() (ids []int) {
			for _, rc := range c.Log() {
				if m, ok := rc.Packet.(*packet.LoginPluginMessage); ok {
					ids = append(ids, m.ID)
				}
			}
			return ids
		}
		answered := map[int]bool{}
		var answeredOrder []int
		outstanding := func() (ids []int) {
			for _, id := range pluginIDs() {
				if !answered[id] {
					ids = append(ids, id)
				}
			}
			return ids
		}

		// ---- reference automaton state
		// expect-ls -> (wait-plugin ->) expect-er -> done; any illegal packet -> dead
		st := "expect-ls"
		expectMsgs := 0 // login plugin messages the reference expects the client to be asked
		if sc.Protocol >= firstLoginPluginProtocol {
			expectMsgs = sc.PluginMsgs
		}
		refOutstanding := 0
		allowed := false
		forcedOffline := false
		mustClose := false
		validExchange := false
		stalled := false
		deadWhy := ""          // first reason the reference refused this connection
		needSettle := false    // burst: the reaction to the first login start was not awaited yet
		quiescentKill := false // the illegal packet was sent while the proxy had nothing to send on its own
		logLenAtKill := 0
		encEnabled := false
		erWhileWaiting := false
		usedPluginWait := false

		// admissionSeen: the proxy's side already shows this session's client as a player
		admissionSeen := func() bool {
			return rec.has("postlogin:"+sc.Name) || rec.has("postlogin:"+otherNm) ||
				h.P.PlayerByName(sc.Name) != nil || h.P.PlayerByName(otherNm) != nil
		}
		waitFor := func(cond func() bool) { // until the session is decided or cond holds
			deadline := time.Now().Add(10 * time.Second)
			for time.Now().Before(deadline) {
				if c.EOF() || c.GotLoginSuccess() || c.Kicked() != nil {
					return
				}
				if cond != nil && cond() {
					return
				}
				// a refused client that is registered / whose PostLogin fired is admitted: decided
				// (it may be unable to read the login success, e.g. under a cipher it did
				// not switch on)
				if st == "dead" && admissionSeen() {
					return
				}
				time.Sleep(100 * time.Microsecond)
			}
			stalled = true
		}
		settle := func() { // wait until the proxy has reacted to what was sent so far
			needSettle = false
			switch st {
			case "expect-er":
				waitFor(func() bool { return lastER() != nil })
			case "wait-plugin":
				// the encryption request does not come before the replies: wait for the questions
				waitFor(func() bool { return len(pluginIDs()) >= expectMsgs })
			default:
				waitFor(nil)
			}
		}
		// kill: the reference refuses the connection from here on
		kill := func(why string) {
			if st != "done" || sc.Protocol >= 764 {
				mustClose = true
			}
			if st != "done" {
				if st != "dead" {
					deadWhy = why
					quiescentKill = (st == "expect-er" || st == "wait-plugin") && !needSettle
					logLenAtKill = len(c.Log())
				}
				st = "dead"
			}
		}
		// patience: once the reference is dead a correct proxy is closing the connection. A
		// hostile client that wants to exploit a proxy that did NOT close waits for what its
		// next packet needs (a token, a question). This only makes the workload effective
		// against a broken proxy; it never enters a verdict.
		patience := func(need func() bool) {
			dl := time.Now().Add(200 * time.Millisecond)
			last, since := len(c.Log()), time.Now()
			for time.Now().Before(dl) {
				if c.EOF() {
					return
				}
				if l := len(c.Log()); l != last {
					last, since = l, time.Now()
				}
				if (need == nil || need()) && time.Since(since) > 15*time.Millisecond {
					return
				}
				time.Sleep(200 * time.Microsecond)
			}
		}
		afterFirstLS := func(next string) {
			if sc.Burst && (next == "ls" || next == "ls-invalid" || next == "lpr" || next == "unknown") {
				needSettle = true
				r.Count("burst_packets_sent_without_awaiting_reaction", 1)
				return
			}
			settle()
		}

		for oi, o := range sc.Ops {
			if c.EOF() || st == "done" {
				// after a completed exchange the fake client has left the login state (it
				// acknowledges / enters play like a vanilla client); later ops are not sent
				break
			}
			next := ""
			if oi+1 < len(sc.Ops) {
				next = sc.Ops[oi+1].Kind
			}
			isER := strings.HasPrefix(o.Kind, "er-")
			isAnswer := strings.HasPrefix(o.Kind, "answer-")
			if st == "dead" {
				switch {
				case isER:
					patience(func() bool { return lastER() != nil })
				case isAnswer:
					patience(func() bool { return len(outstanding()) > 0 })
				default:
					patience(nil)
				}
				if c.EOF() {
					break
				}
				r.Count("ops_sent_to_a_connection_the_reference_refused_but_still_open", 1)
			} else if needSettle && (isER || isAnswer) {
				settle()
			}
			switch {
			case o.Kind == "ls" || o.Kind == "ls-invalid":
				name := sc.Name
				if o.Kind == "ls-invalid" {
					name = "bad name!"
				}
				_ = c.LoginStart(name)
				if st == "expect-ls" {
					switch {
					case o.Kind == "ls-invalid":
						kill("invalid-username")
					case sc.PreLogin == "deny":
						kill("prelogin-denied")
					case expectMsgs > 0:
						st, refOutstanding, usedPluginWait = "wait-plugin", expectMsgs, true
						r.Count("sessions_with_plugin_message_prelogin", 1)
					case sc.PreLogin == "force-offline":
						st, forcedOffline, allowed = "done", true, true
					default:
						st = "expect-er"
					}
					if saltedProtocol(sc.Protocol) && st != "dead" {
						r.Count("keyless_1_19_login_starts_accepted_by_reference", 1)
					}
					afterFirstLS(next)
				} else {
					switch st {
					case "wait-plugin":
						r.Count("duplicate_login_start_while_awaiting_plugin_replies", 1)
						kill("duplicate-login-start:awaiting-plugin-replies")
					case "expect-er":
						r.Count("duplicate_login_start_while_awaiting_encryption_response", 1)
						kill("duplicate-login-start:awaiting-encryption-response")
					default:
						kill("duplicate-login-start")
					}
				}
			case o.Kind == "lpr":
				_ = c.Send(&packet.LoginPluginResponse{ID: 900 + xr.Intn(50), Success: xr.Intn(2) == 0, Data: []byte{1, 2}})
				// unknown ids are ignored in every login sub-state (C13); no state change
			case isAnswer:
				ids := outstanding()
				if len(ids) == 0 {
					// nothing to answer: a reply nobody asked for - either a repeated answer or
					// an unknown id; ignored like "lpr" in every sub-state
					id := 900 + xr.Intn(50)
					if len(answeredOrder) > 0 && xr.Intn(2) == 0 {
						id = answeredOrder[xr.Intn(len(answeredOrder))]
						r.Count("repeated_plugin_answers_sent", 1)
					}
					_ = c.Send(&packet.LoginPluginResponse{ID: id, Success: true, Data: []byte{3}})
					break
				}
				if o.Kind == "answer-one" {
					k := xr.Intn(len(ids))
					ids = ids[k : k+1]
				}
				if st == "wait-plugin" && lastER() != nil {
					// not judged: the statement does not speak about when the request may go
					// out relative to plugin replies; reported in the evidence and witnesses
					erWhileWaiting = true
				}
				for _, id := range ids {
					ok := xr.Intn(4) != 0
					_ = c.Send(&packet.LoginPluginResponse{ID: id, Success: ok, Data: []byte(fmt.Sprintf("re:%d", id))})
					answered[id] = true
					answeredOrder = append(answeredOrder, id)
					r.Count("plugin_answers_sent", 1)
				}
				if st == "wait-plugin" {
					// settle() made sure the client holds all questions, so ids are the
					// reference's outstanding ones
					refOutstanding -= len(ids)
					if refOutstanding <= 0 {
						if sc.PreLogin == "force-offline" {
							st, forcedOffline, allowed = "done", true, true
						} else {
							st = "expect-er"
						}
						settle()
					}
				}
			case o.Kind == "unknown":
				_ = c.SendRaw([]byte{0x7a, 1, 2, 3})
				kill("unknown-packet")
			default: // encryption responses
				req := lastER()
				pub := &priv.PublicKey
				token := []byte{9, 9, 9, 9}
				if req != nil {
					token = req.VerifyToken
				}
				sec := secret
				enable := false
				switch o.Kind {
				case "er-valid":
					enable = true
				case "er-wrong-token":
					token = append([]byte(nil), token...)
					token[0] ^= 0xff
				case "er-short-token":
					token = token[:len(token)-1]
				case "er-other-key":
					pub = &other.PublicKey
				case "er-bad-secret":
					sec = nil // replaced by garbage below
				case "er-15-byte-secret":
					sec = secret[:15]
				}
				wasExpectER := st == "expect-er" && req != nil
				salted := strings.HasPrefix(o.Kind, "er-salted-")
				switch {
				case o.Kind == "er-bad-secret":
					et, _ := rsa.EncryptPKCS1v15(rand.Reader, pub, token)
					garbage := make([]byte, 128)
					xr.Read(garbage)
					_ = c.Send(&packet.EncryptionResponse{SharedSecret: garbage, VerifyToken: et})
				case o.Kind == "er-swapped":
					es, _ := rsa.EncryptPKCS1v15(rand.Reader, pub, sec)
					et, _ := rsa.EncryptPKCS1v15(rand.Reader, pub, token)
					_ = c.Send(&packet.EncryptionResponse{SharedSecret: et, VerifyToken: es})
				case salted:
					// 1.19-1.19.2 "signed" wire form: bool false, int64 salt, then the bytes
					// of what would be the profile-key signature over token||salt. The client
					// has no profile key. The secret is good and the client switches its
					// cipher on like one that expects to get in.
					salt := xr.Int63() - xr.Int63()
					var sig []byte
					switch o.Kind {
					case "er-salted-random-sig":
						sig = make([]byte, []int{1, 64, 128, 256}[xr.Intn(4)])
						xr.Read(sig)
					case "er-salted-token-as-sig":
						sig, _ = rsa.EncryptPKCS1v15(rand.Reader, pub, token)
					case "er-salted-empty-sig":
						sig = []byte{}
					}
					es, _ := rsa.EncryptPKCS1v15(rand.Reader, pub, sec)
					resp := &packet.EncryptionResponse{SharedSecret: es, VerifyToken: sig, Salt: &salt}
					if req != nil {
						_ = c.SendThenEncrypt(resp, sec)
						encEnabled = true
					} else {
						_ = c.Send(resp)
					}
					r.Count("salted_responses_sent:"+strings.TrimPrefix(o.Kind, "er-salted-"), 1)
					if wasExpectER {
						r.Count("salted_responses_sent_as_the_awaited_response", 1)
					}
				default:
					// a client that holds a token switches its cipher on with a response it
					// believes in, also where the reference has already refused the connection
					// (it can then read a login success a broken proxy might send)
					_ = c.RespondEncryptionWithKey(pub, sec, token, enable && req != nil)
					if enable && req != nil && len(sec) == 16 {
						encEnabled = true
					}
				}
				if wasExpectER {
					// "er-salted-token-as-sig": the exact verify token came back RSA-encrypted
					// under the proxy's key, only in the field a keyed client would put its
					// signature in. The statement's conditions are literally met, so admission
					// is allowed (Gate and Velocity admit); a vanilla-like refusal is a close
					// without admission, which is accepted just as well.
					if o.Kind == "er-valid" || o.Kind == "er-salted-token-as-sig" {
						validExchange = true
						if strings.HasPrefix(sc.Session, "ok") {
							allowed = true
							st = "done"
						} else {
							kill("session-server:" + sc.Session)
						}
					} else {
						kill("bad-encryption-response:" + strings.TrimPrefix(o.Kind, "er-"))
					}
					settle()
				} else {
					switch st {
					case "wait-plugin":
						r.Count("encryption_response_while_awaiting_plugin_replies", 1)
						kill("encryption-response-before-request:awaiting-plugin-replies")
					case "expect-ls":
						kill("encryption-response-before-login-start")
					default:
						kill("encryption-response-out-of-order")
					}
				}
			}
		}
		// ---- settle the end state
		if needSettle && st != "dead" {
			settle()
		}
		closedInTime := true
		if mustClose {
			// until the proxy closed - or admitted the client, which decides the session the
			// other way without any further waiting
			closedInTime = false
			for dl := time.Now().Add(10 * time.Second); time.Now().Before(dl); {
				if c.EOF() {
					closedInTime = true
					break
				}
				if c.GotLoginSuccess() || admissionSeen() {
					break
				}
				time.Sleep(100 * time.Microsecond)
			}
		} else if allowed {
			st2 := st
			st = "done"
			settle()
			st = st2
		} else {
			// nothing decisive was sent (e.g. only plugin responses): give the proxy a round trip
			c2 := h.NewClient(e2e.ClientOpts{Protocol: 767})
			_ = c2.HandshakeProto(767, "x", 1, 1)
			_ = c2.Send(&packet.StatusRequest{})
			_, _ = c2.WaitFor(func(*e2e.Rec) bool { return true }, 5*time.Second)
			c2.Close()
		}
		r.Eval(1)
		// ---- observations
		gotSuccess := c.GotLoginSuccess()
		// a registered player or login events are admissions even if the client saw nothing
		// only this session's events: a late PostLogin of an earlier session carries that
		// session's names
		var evs []string
		preLogins := 0
		for _, e := range rec.list() {
			if k := strings.IndexByte(e, ':'); k >= 0 && mine(e[k+1:]) {
				evs = append(evs, e)
				if strings.HasPrefix(e, "prelogin:") {
					preLogins++
				}
			}
		}
		registered := false
		for _, nm := range []string{sc.Name, otherNm} {
			if p := h.P.PlayerByName(nm); p != nil && !c.EOF() {
				registered = true
			}
		}
		evAdmit := false
		for _, e := range evs {
			if strings.HasPrefix(e, "postlogin:") {
				evAdmit = true
			}
		}
		admitted := gotSuccess || evAdmit || registered
		var reqs []sessReq
		for _, q := range ss.requests() {
			if q.Username == sc.Name { // join checks carry the username the client sent
				reqs = append(reqs, q)
			}
		}
		sentMsgs, sendErrs, replies := ctl.stats(tag)
		gotMsgs := pluginIDs()
		erMu.Lock()
		erTotal := erCount
		erMu.Unlock()
		wit := func() map[string]any {
			return map[string]any{"scenario": sc, "client_log": fmt.Sprint(c.Log()), "events": evs, "session_requests": reqs, "login_success": gotSuccess, "registered": registered,
				"reference_refused_because": deadWhy, "prelogin_events": preLogins, "encryption_requests_seen": erTotal,
				"plugin_messages_sent_by_subscriber": sentMsgs, "plugin_message_ids_seen_by_client": gotMsgs, "plugin_replies_delivered_to_subscriber": replies,
				"encryption_request_seen_while_plugin_replies_outstanding": erWhileWaiting}
		}
		r.Count("login_plugin_messages_received_by_client", len(gotMsgs))
		r.Count("plugin_replies_delivered_to_subscriber", replies)
		r.Count("prelogin_events_observed", preLogins)
		if sendErrs > 0 {
			r.Count("plugin_message_sends_refused_by_proxy_api", sendErrs)
		}
		if erWhileWaiting {
			r.Count("encryption_request_seen_while_plugin_replies_outstanding_not_judged", 1)
		}
		// an observed admission is a fact, whatever else did or did not happen in time
		if admitted && !allowed {
			kind := "admitted-without-valid-exchange"
			if validExchange {
				kind = "admitted-despite-session-server:" + sc.Session
			} else if deadWhy != "" {
				kind += ":" + deadWhy
			}
			r.Violation(kind, "client was sent login success / registered although the online-mode conditions were not met", wit())
		}
		if mustClose && !closedInTime {
			// Did the proxy answer the illegal packet with more login protocol instead of
			// closing? In expect-er (request received) and wait-plugin (all questions
			// received) the proxy sends nothing on its own, so every non-disconnect packet
			// after the illegal one is a reaction to it (or to a later, equally illegal one).
			cont := 0
			if quiescentKill {
				for _, rc := range c.Log()[logLenAtKill:] {
					if _, isDisc := rc.Packet.(*packet.Disconnect); !isDisc {
						cont++
					}
				}
			}
			if cont > 0 && !admitted {
				keptOpen++
				r.Violation("illegal-login-packet-answered-and-connection-kept-open:"+deadWhy, fmt.Sprintf("the proxy reacted to an illegal login packet with %d further login packet(s) and did not close the connection within the watchdog", cont), wit())
				c.Close()
				if keptOpen > 4 {
					break
				}
				continue
			}
			if !admitted {
				stalled = true
			}
		}
		if stalled && admitted && !allowed {
			c.Close() // decided above
			continue
		}
		if stalled {
			stalls++
			r.Inconclusive(fmt.Sprintf("session %d did not settle within the watchdog (%v)", i, sc.Ops))
			c.Close()
			if stalls > 5 {
				r.Violation("login-session-stalls", "more than 5 login sessions never settled (no success, disconnect or close within 10 s)", wit())
				break
			}
			continue
		}
		if admitted && allowed && !forcedOffline {
			// session server asked exactly once, for the reference digest and this username
			onlineReqsChecked++
			want := javaDigest(secret, pubDER)
			if len(reqs) != 1 || reqs[0].ServerID != want || reqs[0].Username != sc.Name {
				r.Violation("session-request-mismatch", fmt.Sprintf("session server requests %v, want exactly one for serverId=%s username=%s", reqs, want, sc.Name), wit())
			}
			if len(reqs) == 1 && sc.PreventProxy && reqs[0].IP == "" {
				r.Violation("session-request-missing-ip", "prevent-client-proxy-connections is on but the join check carried no ip", wit())
			}
			if len(reqs) == 1 && !sc.PreventProxy && reqs[0].IP != "" {
				r.Violation("session-request-unexpected-ip", "join check carried an ip although the option is off", wit())
			}
			// encryption: the client only decodes frames after decrypting with the secret
			if gotSuccess && !encEnabled {
				r.Violation("login-success-not-encrypted", "login success was readable without decrypting", wit())
			}
			if !gotSuccess {
				r.Violation("registered-but-success-unreadable", "player admitted but the client could not read a login success under the negotiated secret", wit())
			}
			admittedOK++
			if usedPluginWait {
				r.Count("admitted_online_after_answering_all_plugin_messages", 1)
			}
			if saltedProtocol(sc.Protocol) {
				r.Count("admitted_keyless_1_19_after_valid_exchange", 1)
			}
			for _, o := range sc.Ops {
				if o.Kind == "er-salted-token-as-sig" {
					r.Count("admitted_on_salted_response_carrying_the_encrypted_exact_token", 1)
					break
				}
			}
		}
		if admitted && forcedOffline && usedPluginWait {
			r.Count("admitted_forced_offline_after_answering_all_plugin_messages", 1)
		}
		if !admitted {
			refused++
			if usedPluginWait && deadWhy != "" {
				r.Count("refused_sessions_that_had_entered_the_plugin_wait", 1)
			}
		}
		if forcedOffline && len(reqs) != 0 {
			r.Violation("session-server-asked-in-forced-offline", "pre-login forced offline mode but the session server was queried", wit())
		}
		if mustClose {
			closedOK++
		}
		var seq []string
		for _, o := range sc.Ops {
			seq = append(seq, o.Kind)
		}
		pclass := "pre-764"
		switch {
		case sc.Protocol >= 764:
			pclass = "764+"
		case saltedProtocol(sc.Protocol):
			pclass = "1.19-keyless"
		case sc.Protocol < firstLoginPluginProtocol:
			pclass = "pre-1.13"
		}
		r.Distinct(fmt.Sprintf("%v|%s|%s|%d|%v|%s", seq, sc.Session, sc.PreLogin, sc.PluginMsgs, sc.Burst, pclass))
		if r.WantSample() {
			r.Sample(map[string]any{"scenario": sc, "admitted": admitted, "allowed_by_reference": allowed, "session_requests": len(reqs), "reference_refused_because": deadWhy, "plugin_message_ids_seen_by_client": gotMsgs})
		}
		c.Close()
		c.WaitEOF(5 * time.Second)
		// the proxy unregisters the player during teardown, shortly after closing its end
		for dl := time.Now().Add(5 * time.Second); time.Now().Before(dl); {
			if h.P.PlayerByName(sc.Name) == nil && h.P.PlayerByName(otherNm) == nil {
				break
			}
			time.Sleep(100 * time.Microsecond)
		}
	}
	r.Set("sessions_admitted_after_full_valid_exchange", admittedOK)
	r.Set("sessions_refused", refused)
	r.Set("closures_observed_after_illegal_packet", closedOK)
	r.Set("session_server_requests_checked_against_reference_digest", onlineReqsChecked)
	if admittedOK == 0 && r.Violations() == 0 {
		r.Violation("no-valid-login-admitted", "not a single fully valid online-mode login was admitted: the monitor observed no positive case", nil)
	}
	_ = bytes.Equal
}

// preLoginMode is what the PreLogin subscriber does for the current session.
type preLoginMode struct {
	result string // none | force-offline | deny
	msgs   int    // login plugin messages to send
	tag    string // session index; payloads carry it, so late replies are attributable
}

type preLoginCtl struct {
	mu       sync.Mutex
	mode     preLoginMode
	seq      int
	sent     int
	sendErrs int
	replies  int
}

func (p *preLoginCtl) set(m preLoginMode) {
	p.mu.Lock()
	p.mode, p.seq, p.sent, p.sendErrs, p.replies = m, 0, 0, 0, 0
	p.mu.Unlock()
}
func (p *preLoginCtl) get() preLoginMode { p.mu.Lock(); defer p.mu.Unlock(); return p.mode }

// nextPayload returns a payload unique over the whole run (session tag + running number).
func (p *preLoginCtl) nextPayload(tag string) string {
	p.mu.Lock()
	defer p.mu.Unlock()
	p.seq++
	return fmt.Sprintf("c08/%s/%d", tag, p.seq)
}

func (p *preLoginCtl) sendResult(tag string, err error) {
	p.mu.Lock()
	defer p.mu.Unlock()
	if tag != p.mode.tag {
		return
	}
	if err != nil {
		p.sendErrs++
	} else {
		p.sent++
	}
}

func (p *preLoginCtl) stats(tag string) (sent, sendErrs, replies int) {
	p.mu.Lock()
	defer p.mu.Unlock()
	if tag != p.mode.tag {
		return 0, 0, 0
	}
	return p.sent, p.sendErrs, p.replies
}

// replyConsumer is the subscriber's MessageConsumer for one login plugin message.
type replyConsumer struct {
	ctl          *preLoginCtl
	tag, payload string
}

func (c *replyConsumer) OnMessageResponse([]byte) error {
	c.ctl.mu.Lock()
	if c.tag == c.ctl.mode.tag {
		c.ctl.replies++
	}
	c.ctl.mu.Unlock()
	return nil
}

type evRec struct {
	mu sync.Mutex
	l  []string
}

func (e *evRec) add(s string) { e.mu.Lock(); e.l = append(e.l, s); e.mu.Unlock() }
func (e *evRec) reset()       { e.mu.Lock(); e.l = nil; e.mu.Unlock() }
func (e *evRec) has(s string) bool {
	e.mu.Lock()
	defer e.mu.Unlock()
	for _, x := range e.l {
		if x == s {
			return true
		}
	}
	return false
}
func (e *evRec) list() []string {
	e.mu.Lock()
	defer e.mu.Unlock()
	return append([]string(nil), e.l...)
}
