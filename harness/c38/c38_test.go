// C38: config file reload fires once for the final content despite lost fs events.
//
// The real watch loop (reload.watchWithOptions through the verif hook) runs in a
// testing/synctest bubble on a real temporary directory with a FAKE watcher whose event
// delivery is drawn from the PRNG (dropped / duplicated / delayed / spurious / watcher errors /
// detach + re-attach). All deadlines are decided in virtual time, exactly.
//
// Time grid (so that "what was in the file when the callback ran" is unambiguous): file
// operations happen at x.5 ms, watcher events are delivered at x.75 ms, the loop's own timers
// (reconcile ticks, debounce) fire at x.0 or x.75 ms. The clock of a bubble only advances when
// every goroutine is durably blocked, so a file operation never overlaps with loop activity.
//
// Offline checker over {op(time, content after), callback(time, content read)}:
//
//	L  after the last content change at T, unless the last evaluated content already equals the
//	   final content, a callback that reads the final content occurs in (T, T+reconcile+debounce];
//	S1 never two callbacks in a row for the same content;
//	S2 never a callback for content equal to the last evaluated content (the content the watcher
//	   started with counts as evaluated).
//
// "Content a callback is for" = what the callback reads from the file, which is what Gate's
// real callback (loadLiveConfigCandidate) does; a missing file is the content "<absent>".
package c38

import (
	"context"
	"errors"
	"fmt"
	"math/rand"
	"os"
	"path/filepath"
	"strings"
	"sync"
	"sync/atomic"
	"testing"
	"testing/synctest"
	"time"

	"github.com/fsnotify/fsnotify"

	"go.minekube.com/gate/pkg/edition/java/proxy/verifh/lib"
	"go.minekube.com/gate/pkg/internal/reload"
)

const absent = "<absent>"

// ---- scenario ------------------------------------------------------------------------------

type evPlan struct {
	Kind    string        `json:"kind"` // write create remove rename chmod other dirgone error
	DelayMs int           `json:"delay_ms"`
	delay   time.Duration // DelayMs + 0.25 ms
}

type opPlan struct {
	Op      string   `json:"op"` // write replace delete recreate spurious
	Content string   `json:"content,omitempty"`
	GapMs   int      `json:"gap_ms"` // virtual ms since the previous op
	Events  []evPlan `json:"events"`
}

type scenario struct {
	Initial       string   `json:"initial"`
	ReconcileMs   int      `json:"reconcile_ms"` // 0 = Gate's default
	Mode          string   `json:"mode"`
	FactoryFails  int      `json:"factory_fails"` // re-attach attempts that fail after a detach
	RejectContent string   `json:"reject_content"`
	Ops           []opPlan `json:"ops"`
}

var alphabet = []string{"a", "b", "c"}
var gaps = []int{1, 1, 7, 20, 49, 60, 99, 100, 101, 130, 180, 249, 250, 251, 300, 420}
var delays = []int{0, 0, 0, 3, 30, 50, 99, 120, 260, 400}

func body(c string) []byte { return []byte("config: " + c + "\n") }

func genScenario(rng *rand.Rand) scenario {
	sc := scenario{Initial: alphabet[rng.Intn(3)]}
	if rng.Intn(8) == 0 {
		sc.Initial = absent
	}
	switch rng.Intn(5) {
	case 0:
		sc.ReconcileMs = []int{40, 100, 150, 300}[rng.Intn(4)]
	}
	sc.Mode = []string{"drop-all", "faithful", "lossy", "lossy", "lossy-spurious", "lossy-spurious"}[rng.Intn(6)]
	if rng.Intn(4) == 0 {
		sc.FactoryFails = rng.Intn(3)
	}
	if rng.Intn(3) == 0 {
		sc.RejectContent = alphabet[rng.Intn(3)]
	}
	n := 1 + rng.Intn(12)
	exists := sc.Initial != absent
	for i := 0; i < n; i++ {
		op := opPlan{GapMs: gaps[rng.Intn(len(gaps))]}
		k := rng.Intn(10)
		switch {
		case !exists:
			op.Op, op.Content = "recreate", alphabet[rng.Intn(3)]
			if k == 0 {
				op.Op = "replace"
			}
			exists = true
		case k <= 4:
			op.Op, op.Content = "write", alphabet[rng.Intn(3)]
		case k <= 7:
			op.Op, op.Content = "replace", alphabet[rng.Intn(3)]
		default:
			op.Op = "delete"
			exists = false
		}
		var natural []string
		switch op.Op {
		case "write":
			natural = []string{"write", "write"} // truncate + data, as inotify reports it
		case "replace":
			natural = []string{"other", "other", "create"} // tmp create/write, MOVED_TO path
		case "delete":
			natural = []string{"remove"}
		case "recreate":
			natural = []string{"create", "write"}
		}
		deliver := func(kind string) {
			d := 0
			if sc.Mode != "faithful" {
				d = delays[rng.Intn(len(delays))]
			}
			op.Events = append(op.Events, evPlan{Kind: kind, DelayMs: d})
		}
		switch sc.Mode {
		case "drop-all":
		case "faithful":
			for _, kd := range natural {
				deliver(kd)
			}
		default:
			for _, kd := range natural {
				switch x := rng.Intn(10); {
				case x < 4: // lost
				case x < 8:
					deliver(kd)
				default: // duplicated
					deliver(kd)
					deliver(kd)
				}
			}
			if sc.Mode == "lossy-spurious" && rng.Intn(3) == 0 {
				deliver([]string{"chmod", "write", "create", "remove", "rename", "other", "other", "dirgone", "error"}[rng.Intn(9)])
			}
		}
		sc.Ops = append(sc.Ops, op)
		// an event storm without any file change
		if sc.Mode == "lossy-spurious" && rng.Intn(6) == 0 && len(sc.Ops) < 12 {
			sp := opPlan{Op: "spurious", GapMs: gaps[rng.Intn(len(gaps))]}
			for j := 1 + rng.Intn(3); j > 0; j-- {
				sp.Events = append(sp.Events, evPlan{Kind: []string{"write", "create", "chmod", "remove", "other", "dirgone", "error"}[rng.Intn(7)], DelayMs: delays[rng.Intn(len(delays))]})
			}
			sc.Ops = append(sc.Ops, sp)
			i++
		}
	}
	for i := range sc.Ops {
		for j := range sc.Ops[i].Events {
			e := &sc.Ops[i].Events[j]
			e.delay = time.Duration(e.DelayMs)*time.Millisecond + 250*time.Microsecond
		}
	}
	return sc
}

// ---- fake watcher ---------------------------------------------------------------------------

type fakeWatcher struct {
	events chan fsnotify.Event
	errs   chan error
	closed chan struct{}
	once   sync.Once
}

func newFake() *fakeWatcher {
	return &fakeWatcher{events: make(chan fsnotify.Event), errs: make(chan error), closed: make(chan struct{})}
}
func (w *fakeWatcher) Events() <-chan fsnotify.Event { return w.events }
func (w *fakeWatcher) Errors() <-chan error          { return w.errs }
func (w *fakeWatcher) Close() error                  { w.once.Do(func() { close(w.closed) }); return nil }

// ---- run ------------------------------------------------------------------------------------

type logEntry struct {
	At      time.Duration `json:"at_ns"`
	What    string        `json:"what"` // op | callback
	Op      string        `json:"op,omitempty"`
	Content string        `json:"content"`
}

type result struct {
	log            []logEntry
	reconcile      time.Duration
	debounce       time.Duration
	delivered      int
	droppedClosed  int
	attaches       int
	end            time.Duration
	watchErr       error
	harnessProblem string
}

func readContent(path string) string {
	b, err := os.ReadFile(path)
	if err != nil {
		if errors.Is(err, os.ErrNotExist) {
			return absent
		}
		return "<unreadable>"
	}
	s := string(b)
	if strings.HasPrefix(s, "config: ") && strings.HasSuffix(s, "\n") {
		return strings.TrimSuffix(strings.TrimPrefix(s, "config: "), "\n")
	}
	return "<partial:" + s + ">"
}

func runScenario(t *testing.T, base string, sc scenario) (res result) {
	dir, err := os.MkdirTemp(base, "s")
	if err != nil {
		res.harnessProblem = err.Error()
		return
	}
	defer os.RemoveAll(dir)
	path := filepath.Join(dir, "config.yml")
	tmp := filepath.Join(dir, "config.yml.tmp")
	if sc.Initial != absent {
		if err := os.WriteFile(path, body(sc.Initial), 0o600); err != nil {
			res.harnessProblem = err.Error()
			return
		}
	}
	res.debounce = reload.VerifDebounce
	res.reconcile = reload.VerifReconcileInterval
	if sc.ReconcileMs > 0 {
		res.reconcile = time.Duration(sc.ReconcileMs) * time.Millisecond
	}

	synctest.Test(t, func(t *testing.T) {
		var (
			mu        sync.Mutex
			log       []logEntry
			cur       atomic.Pointer[fakeWatcher]
			delivered atomic.Int64
			dropped   atomic.Int64
			attaches  atomic.Int64
			failsLeft = sc.FactoryFails
			senders   sync.WaitGroup
		)
		t0 := time.Now()
		ctx, cancel := context.WithCancel(context.Background())
		factory := func(string) (reload.VerifEventWatcher, error) {
			if attaches.Load() > 0 && failsLeft > 0 {
				failsLeft--
				return nil, errors.New("injected: cannot create watcher")
			}
			w := newFake()
			cur.Store(w)
			attaches.Add(1)
			return w, nil
		}
		cb := func() error {
			c := readContent(path)
			mu.Lock()
			log = append(log, logEntry{At: time.Since(t0), What: "callback", Content: c})
			mu.Unlock()
			if c == sc.RejectContent || c == absent {
				return reload.Reject("invalid")
			}
			return nil
		}
		reconcileArg := time.Duration(0)
		if sc.ReconcileMs > 0 {
			reconcileArg = res.reconcile
		}
		if err := reload.VerifWatchWithOptions(ctx, path, cb, reconcileArg, factory, nil); err != nil {
			res.watchErr = err
			cancel()
			return
		}
		send := func(e evPlan) {
			senders.Add(1)
			go func() {
				defer senders.Done()
				time.Sleep(e.delay)
				w := cur.Load()
				if w == nil {
					dropped.Add(1)
					return
				}
				var ev fsnotify.Event
				switch e.Kind {
				case "write":
					ev = fsnotify.Event{Name: path, Op: fsnotify.Write}
				case "create":
					ev = fsnotify.Event{Name: path, Op: fsnotify.Create}
				case "remove":
					ev = fsnotify.Event{Name: path, Op: fsnotify.Remove}
				case "rename":
					ev = fsnotify.Event{Name: path, Op: fsnotify.Rename}
				case "chmod":
					ev = fsnotify.Event{Name: path, Op: fsnotify.Chmod}
				case "other":
					ev = fsnotify.Event{Name: tmp, Op: fsnotify.Create | fsnotify.Write}
				case "dirgone":
					ev = fsnotify.Event{Name: dir, Op: fsnotify.Rename}
				case "error":
					select {
					case w.errs <- errors.New("injected watcher error"):
						delivered.Add(1)
					case <-w.closed:
						dropped.Add(1)
					}
					return
				}
				select {
				case w.events <- ev:
					delivered.Add(1)
				case <-w.closed:
					dropped.Add(1)
				}
			}()
		}

		// file operations at x.5 ms
		time.Sleep(500 * time.Microsecond)
		for i, op := range sc.Ops {
			if i > 0 || op.GapMs > 0 {
				time.Sleep(time.Duration(op.GapMs) * time.Millisecond)
			}
			var ferr error
			switch op.Op {
			case "write", "recreate":
				ferr = os.WriteFile(path, body(op.Content), 0o600)
			case "replace":
				if ferr = os.WriteFile(tmp, body(op.Content), 0o600); ferr == nil {
					ferr = os.Rename(tmp, path)
				}
			case "delete":
				ferr = os.Remove(path)
			case "spurious":
			}
			if ferr != nil {
				res.harnessProblem = fmt.Sprintf("op %d %s: %v", i, op.Op, ferr)
			}
			mu.Lock()
			log = append(log, logEntry{At: time.Since(t0), What: "op", Op: op.Op, Content: readContent(path)})
			mu.Unlock()
			for _, e := range op.Events {
				send(e)
			}
		}
		// observe until well after the bound, then stop the loop
		time.Sleep(res.reconcile + res.debounce + 3*res.reconcile + 2*res.debounce + 500*time.Millisecond)
		res.end = time.Since(t0)
		cancel()
		if w := cur.Load(); w != nil {
			w.Close() // releases senders still parked on a detached watcher
		}
		senders.Wait()
		synctest.Wait()
		mu.Lock()
		res.log = append([]logEntry(nil), log...)
		mu.Unlock()
		res.delivered = int(delivered.Load())
		res.droppedClosed = int(dropped.Load())
		res.attaches = int(attaches.Load())
	})
	return res
}

// ---- checker --------------------------------------------------------------------------------

type finding struct{ sig, what string }

func check(sc scenario, res result) (out []finding, callbacks int, needed bool) {
	bound := res.reconcile + res.debounce
	content := sc.Initial
	evaluated := sc.Initial // the watcher starts from the content it fingerprints at Watch()
	var tStable time.Duration
	changed := false
	prevCb := ""
	havePrev := false
	for _, e := range res.log {
		switch e.What {
		case "op":
			if e.Content != content {
				content = e.Content
				tStable = e.At
				changed = true
			}
		case "callback":
			callbacks++
			if e.Content != content {
				out = append(out, finding{"harness-content-mismatch", fmt.Sprintf("callback at %v read %q but the op log says %q", e.At, e.Content, content)})
			}
			if havePrev && prevCb == e.Content {
				out = append(out, finding{"two-callbacks-in-a-row-for-same-content", fmt.Sprintf("callback at %v is for content %q, the same as the previous callback", e.At, e.Content)})
			} else if e.Content == evaluated {
				out = append(out, finding{"callback-for-content-equal-to-last-evaluated", fmt.Sprintf("callback at %v is for content %q which equals the content the watcher started with and nothing else was evaluated since", e.At, e.Content)})
			}
			prevCb, havePrev = e.Content, true
			evaluated = e.Content
		}
	}
	if !changed {
		return out, callbacks, false
	}
	// liveness: state at tStable
	evalAtStable := sc.Initial
	var hit bool
	for _, e := range res.log {
		if e.What != "callback" {
			continue
		}
		if e.At <= tStable {
			evalAtStable = e.Content
			continue
		}
		if e.Content == content && e.At <= tStable+bound {
			hit = true
		}
	}
	if evalAtStable == content {
		return out, callbacks, false
	}
	if !hit {
		late := ""
		for _, e := range res.log {
			if e.What == "callback" && e.At > tStable+bound && e.Content == content {
				late = fmt.Sprintf(" (first one came at %v)", e.At)
				break
			}
		}
		sig := "no-callback-for-final-content-within-reconcile-plus-debounce"
		if late == "" {
			sig = "no-callback-for-final-content-at-all"
		}
		out = append(out, finding{sig, fmt.Sprintf("content became %q at %v and stayed; last evaluated content was %q; no callback read the final content within %v%s (observed until %v)", content, tStable, evalAtStable, bound, late, res.end)})
	}
	return out, callbacks, true
}

func TestC38(t *testing.T) {
	r := lib.Start(t, "C38")
	defer r.Finish()
	r.Rule("each case is one scenario: initial content (a/b/c/absent), 1-12 operations over {in-place write, atomic rename-replace, delete, recreate, event storm without change} on the content alphabet {a,b,c} with PRNG gaps of 1-420 virtual ms, a watcher fault mode (drop-all / faithful / lossy: each natural event lost 40 %, duplicated 20 %, delayed 0-400 ms / lossy + spurious events, watcher errors, directory-gone detach with failing re-attach), default or injected reconcile interval; distinct = distinct (scenario, callback trace)")
	r.Assume("testing/synctest virtual clock: the bubble's time only advances when all its goroutines are durably blocked, so operations (x.5 ms) never overlap loop activity (x.0 / x.75 ms)")
	r.Assume("the content a callback is 'for' is what it reads from the file at that moment, as Gate's own reload callback does")

	base := t.TempDir()
	n := r.N(2500, 120000)
	rng := r.Rng("scenarios")
	modes := map[string]int{}
	var cbTotal, needed, delivered, dropped, reattach int
	for i := 0; i < n; i++ {
		sc := genScenario(rng)
		r.LogCase(sc)
		res := runScenario(t, base, sc)
		r.Eval(1)
		if res.harnessProblem != "" || res.watchErr != nil {
			r.Inconclusive(fmt.Sprintf("scenario %d could not run: %s %v", i, res.harnessProblem, res.watchErr))
			continue
		}
		fs, cbs, need := check(sc, res)
		modes[sc.Mode]++
		cbTotal += cbs
		delivered += res.delivered
		dropped += res.droppedClosed
		if res.attaches > 1 {
			reattach++
		}
		if need {
			needed++
		}
		var trace []string
		for _, e := range res.log {
			if e.What == "callback" {
				trace = append(trace, fmt.Sprintf("%s@%v", e.Content, e.At))
			}
		}
		r.Distinct(fmt.Sprintf("%+v|%v", sc, trace))
		for _, f := range fs {
			if f.sig == "harness-content-mismatch" {
				r.Inconclusive("harness: " + f.what)
				continue
			}
			r.Violation(f.sig, f.what, map[string]any{"scenario": sc, "log": res.log, "reconcile": res.reconcile.String(), "debounce": res.debounce.String()})
		}
		if r.WantSample() {
			r.Sample(map[string]any{"mode": sc.Mode, "initial": sc.Initial, "ops": len(sc.Ops), "callbacks": trace, "events_delivered": res.delivered})
		}
	}
	r.Set("scenarios_by_fault_mode", modes)
	r.Count("callbacks_observed", cbTotal)
	r.Count("scenarios_where_a_final_callback_was_required", needed)
	r.Count("watcher_events_delivered", delivered)
	r.Count("watcher_events_lost_on_detached_watcher", dropped)
	r.Count("scenarios_with_watcher_reattach", reattach)

	realFsnotify(t, r)
}

// realFsnotify drives the exported reload.Watch (real fsnotify, real clock) through a few
// sequences. Wall clock can only yield "held" or "inconclusive" here.
func realFsnotify(t *testing.T, r *lib.Run) {
	dir := t.TempDir()
	path := filepath.Join(dir, "config.yml")
	if err := os.WriteFile(path, body("a"), 0o600); err != nil {
		r.Inconclusive("real-fsnotify workload: " + err.Error())
		return
	}
	ctx, cancel := context.WithCancel(context.Background())
	defer cancel()
	var mu sync.Mutex
	var seen []string
	if err := reload.Watch(ctx, path, func() error {
		c := readContent(path)
		mu.Lock()
		seen = append(seen, c)
		mu.Unlock()
		return nil
	}); err != nil {
		r.Inconclusive("real-fsnotify workload: Watch: " + err.Error())
		return
	}
	steps := [][]string{{"b"}, {"c", "a", "b", "c"}, {"-", "a"}, {"b", "b", "c"}}
	for i, seq := range steps {
		final := ""
		for _, c := range seq {
			if c == "-" {
				_ = os.Remove(path)
				final = absent
				continue
			}
			tmp := path + ".tmp"
			if i%2 == 0 {
				_ = os.WriteFile(path, body(c), 0o600)
			} else {
				_ = os.WriteFile(tmp, body(c), 0o600)
				_ = os.Rename(tmp, path)
			}
			final = c
		}
		ok := false
		deadline := time.Now().Add(10 * time.Second)
		for time.Now().Before(deadline) {
			mu.Lock()
			ok = len(seen) > 0 && seen[len(seen)-1] == final
			mu.Unlock()
			if ok {
				break
			}
			time.Sleep(20 * time.Millisecond)
		}
		r.Eval(1)
		if !ok {
			r.Inconclusive(fmt.Sprintf("real-fsnotify workload: no callback for final content %q within the 10 s watchdog", final))
		} else {
			r.Count("real_fsnotify_sequences_reloaded", 1)
		}
	}
}
