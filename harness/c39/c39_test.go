// C39: Floodgate identity data is authentic and interoperable with Floodgate.
//
// Oracle: ref/floodgateref, an independent transcription of Floodgate's AesCipher +
// Base64Topping (+ the JDK's basic Base64 decoder) + BedrockData record. Gate's floodgate
// package is only ever the system under observation.
//
// Monitors, per generated message (key of 16/24/32 bytes, 12 field record, original host):
//
//	A  reference-encoded data  -> Gate ReadHostname: accepted, same original host, same fields
//	B  Gate WriteHostname      -> reference Decrypt + BedrockData.fromString: same fields
//	C  data under another key (random key of any legal length, and the key with one bit
//	   flipped) -> Gate must reject
//	D  every mutant of the encoded data (all 255 single-byte substitutions at every position,
//	   insertions, deletions, structural mutations, raw bit flips re-encoded canonically)
//	   -> Gate must reject, and must not panic
//
// READING of "altered in any byte is rejected" (clause D). The statement defines the codec by
// reference to Floodgate itself ("Floodgate's own encoder", "Floodgate's decoder"), so an
// accepted mutant is judged by what Floodgate's decoder does with the same bytes:
//
//   - Gate accepts the mutant, the reference (Java semantics) rejects it      -> VIOLATION.
//     (Example class: CR/LF inside the Base64 text. java.util.Base64.getDecoder() throws on
//     them, Go's encoding/base64 silently skips them.)
//   - Gate accepts the mutant and the reference accepts it too, decoding the SAME plaintext,
//     and Gate returns the SAME fields                                          -> no violation.
//     This is the one malleability that Floodgate's own transport has: the JDK decoder (like
//     Go's non-strict one) does not check the unused low bits of the last Base64 unit, so
//     e.g. "...QQ==" and "...QR==" are two spellings of the same authenticated ciphertext.
//     An earlier version of this monitor let these pass ("more than Floodgate delivers").
//     The statement, however, says "altered in any byte is rejected", Gate decodes strictly
//     (fix 96dfe51) and does reject them, and a seeded change that dropped the strictness
//     went unseen; they are now a violation (…:noncanonical-base64-spelling:<where>).
//   - Gate accepts and returns fields different from the original record       -> VIOLATION.
//   - Gate documents the hostname as  original\x00data[:port] . Bytes after the first ':' of
//     the second item are, by that framing, not part of the data; a mutant whose data part is
//     byte-identical to the original is not "altered data" (counted as accepted_data_unaltered).
//   - Gate rejects something Floodgate would accept (unpadded Base64)           -> no violation,
//     rejection is what the clause asks for.
//   - any panic                                                                -> VIOLATION.
package c39

import (
	"bytes"
	"encoding/hex"
	"fmt"
	"math/rand"
	"regexp"
	"runtime"
	"strconv"
	"strings"
	"sync"
	"testing"

	"go.minekube.com/gate/pkg/edition/bedrock/geyser/floodgate"
	"go.minekube.com/gate/pkg/edition/java/proxy/verifh/lib"
	ref "go.minekube.com/gate/pkg/edition/java/proxy/verifh/ref/floodgateref"
)

type message struct {
	idx    int
	key    []byte
	orig   string
	rec    ref.Record
	blob   []byte // encoded data the mutants are derived from
	source string // "floodgate-ref" or "gate"
	fg     *floodgate.Floodgate
	ivEnd  int // index of the splitter in blob
}

type worker struct {
	r        *lib.Run
	classN   map[string]int
	counts   map[string]int
	mutants  int
	rejected int
	sigN     map[string]int
	mu       *sync.Mutex // guards sigN shared between workers
}

func (w *worker) count(k string, n int) { w.counts[k] += n }

func (w *worker) flush() {
	for k, v := range w.counts {
		w.r.Count(k, v)
	}
	for k, v := range w.classN {
		w.r.Count("mutants:"+k, v)
	}
	w.counts = map[string]int{}
	w.classN = map[string]int{}
}

// violation builds the witness lazily: only the first few per signature are materialised.
func (w *worker) violation(sig, what string, wit func() map[string]any) {
	w.violationf(sig, func() string { return what }, wit)
}

func (w *worker) violationf(sig string, what func() string, wit func() map[string]any) {
	w.mu.Lock()
	w.sigN[sig]++
	n := w.sigN[sig]
	w.mu.Unlock()
	if n > 3 {
		if n%4096 == 0 {
			w.r.Violation(sig, "", nil) // keep the run's tally alive without paying for a witness
		}
		w.count("violating_cases:"+sig, 1)
		return
	}
	w.count("violating_cases:"+sig, 1)
	w.r.Violation(sig, what(), wit())
}

var nonAlnum = regexp.MustCompile(`[^A-Za-z0-9]+`)

func slug(s string) string {
	s = strings.Trim(nonAlnum.ReplaceAllString(s, "-"), "-")
	if len(s) > 70 {
		s = s[:70]
	}
	return s
}

type readResult struct {
	orig  string
	bd    *floodgate.BedrockData
	err   error
	panic any
}

func safeRead(fg *floodgate.Floodgate, host string) (res readResult) {
	defer func() {
		if p := recover(); p != nil {
			res.panic = p
		}
	}()
	res.orig, res.bd, res.err = fg.ReadHostname(host)
	return
}

// fieldsOf renders Gate's typed result in Floodgate's wire form.
func fieldsOf(bd *floodgate.BedrockData) ref.Record {
	px := "0"
	if bd.Proxy {
		px = "1"
	}
	return ref.Record{
		bd.Version, bd.Username, strconv.FormatInt(bd.Xuid, 10), strconv.Itoa(bd.DeviceOS.ID), bd.Language,
		strconv.Itoa(bd.UIProfile), strconv.Itoa(bd.InputMode), bd.IP, bd.LinkedPlayer, px, bd.SubscribeID, bd.VerifyCode,
	}
}

var fieldNames = [...]string{"version", "username", "xuid", "deviceOs", "language", "uiProfile", "inputMode", "ip", "linkedPlayer", "fromProxy", "subscribeId", "verifyCode"}

func firstDiff(a, b ref.Record) string {
	for i := range a {
		if a[i] != b[i] {
			return fieldNames[i]
		}
	}
	return ""
}

func typed(rec ref.Record) *floodgate.BedrockData {
	atoi := func(s string) int { v, _ := strconv.Atoi(s); return v }
	x, _ := strconv.ParseInt(rec[ref.FXuid], 10, 64)
	return &floodgate.BedrockData{
		Version: rec[ref.FVersion], Username: rec[ref.FUsername], Xuid: x,
		DeviceOS: floodgate.DeviceOSFromID(atoi(rec[ref.FDeviceOS])), Language: rec[ref.FLanguage],
		UIProfile: atoi(rec[ref.FUIProfile]), InputMode: atoi(rec[ref.FInputMode]), IP: rec[ref.FIP],
		LinkedPlayer: rec[ref.FLinkedPlayer], Proxy: rec[ref.FFromProxy] == "1",
		SubscribeID: rec[ref.FSubscribeID], VerifyCode: rec[ref.FVerifyCode],
	}
}

// ---- generators -----------------------------------------------------------------------

var stringPool = []string{
	"", "a", "Steve", "Alex 123", "xX_Pro_Xx", "名前", "Ünï cödé", "emoji😀", "a:b", "a;b;c", "=!^>", "^Floodgate^>", "AAAA!AAAA",
	"with space ", " lead", "tab\there", "line\nfeed", "crlf\r\n", "é́", "‮RTL", "null", strings.Repeat("W", 16), strings.Repeat("長", 32),
	strings.Repeat("x", 255),
}

func genString(rng *rand.Rand, allowEmpty bool) string {
	for {
		var s string
		switch rng.Intn(4) {
		case 0:
			s = stringPool[rng.Intn(len(stringPool))]
		case 1:
			n := rng.Intn(20)
			b := make([]byte, n)
			for i := range b {
				b[i] = "abcdefghijklmnopqrstuvwxyzABCDEFGHIJKLMNOPQRSTUVWXYZ0123456789_ .-:"[rng.Intn(67)]
			}
			s = string(b)
		case 2:
			n := rng.Intn(12)
			rs := make([]rune, n)
			for i := range rs {
				switch rng.Intn(4) {
				case 0:
					rs[i] = rune(0x20 + rng.Intn(0x5f))
				case 1:
					rs[i] = rune(0xa0 + rng.Intn(0x500))
				case 2:
					rs[i] = rune(0x4e00 + rng.Intn(0x2000))
				default:
					rs[i] = rune(0x1f600 + rng.Intn(0x40))
				}
			}
			s = string(rs)
		default:
			s = strconv.Itoa(rng.Intn(100000))
		}
		if strings.ContainsRune(s, 0) || (!allowEmpty && s == "") {
			continue
		}
		return s
	}
}

func genXuid(rng *rand.Rand) int64 {
	switch rng.Intn(6) {
	case 0:
		return []int64{1, 9, 10, 281474976710655, 2535400000000000, 9223372036854775807, 4294967296, 2147483648}[rng.Intn(8)]
	case 1:
		return 2535400000000000 + rng.Int63n(100000000000000)
	default:
		return 1 + rng.Int63n(9223372036854775806)
	}
}

func genRecord(rng *rand.Rand) ref.Record {
	var r ref.Record
	r[ref.FVersion] = genString(rng, true)
	r[ref.FUsername] = genString(rng, false) // Floodgate never sends an empty gamertag
	r[ref.FXuid] = strconv.FormatInt(genXuid(rng), 10)
	r[ref.FDeviceOS] = strconv.Itoa(rng.Intn(16)) // DeviceOs ordinals 0..15
	r[ref.FLanguage] = []string{"en_US", "de_DE", "zh_CN", "", "pt_BR"}[rng.Intn(5)]
	r[ref.FUIProfile] = strconv.Itoa([]int{0, 1, 2, -1, 2147483647}[rng.Intn(5)])
	r[ref.FInputMode] = strconv.Itoa([]int{0, 1, 2, 3, 4, -2147483648}[rng.Intn(6)])
	r[ref.FIP] = []string{"127.0.0.1", "203.0.113.10", "2001:db8::1", "::1", "", "10.0.0.1"}[rng.Intn(6)]
	switch rng.Intn(3) {
	case 0:
		r[ref.FLinkedPlayer] = "null" // BedrockData.toString() of an unlinked player
	case 1:
		r[ref.FLinkedPlayer] = "JavaName;069a79f4-44e9-4726-a5be-fca90e38aaf5;00000000-0000-0000-0009-01f2b1e0a3c5"
	default:
		r[ref.FLinkedPlayer] = genString(rng, true)
	}
	r[ref.FFromProxy] = strconv.Itoa(rng.Intn(2))
	r[ref.FSubscribeID] = strconv.Itoa([]int{0, 1, 77, -1, 2147483647, rng.Intn(1 << 30)}[rng.Intn(6)]) // int in Floodgate
	if rng.Intn(12) == 0 {
		r[ref.FVerifyCode] = ""
	} else {
		r[ref.FVerifyCode] = genString(rng, false)
	}
	return r
}

var origHosts = []string{"play.example.org", "mc.example.com:19132", "127.0.0.1", "[::1]:25565", "bedrock.例え.jp", "a", "h.example:1"}

func genMessage(r *lib.Run, idx int) (*message, *rand.Rand) {
	rng := r.Rng(fmt.Sprintf("msg-%d", idx))
	m := &message{idx: idx}
	m.key = make([]byte, []int{16, 24, 32}[idx%3])
	rng.Read(m.key)
	m.orig = origHosts[rng.Intn(len(origHosts))]
	m.rec = genRecord(rng)
	var err error
	m.fg, err = floodgate.NewFloodgate(append([]byte(nil), m.key...))
	if err != nil {
		r.Violation("NewFloodgate-rejects-legal-key-length", fmt.Sprintf("NewFloodgate refused a %d byte key: %v", len(m.key), err), map[string]any{"key_len": len(m.key)})
		return nil, rng
	}
	return m, rng
}

func region(m *message, i int) string {
	switch {
	case i < len(ref.Header)-1:
		return "identifier"
	case i == len(ref.Header)-1:
		return "version-byte"
	case i < m.ivEnd:
		return "iv"
	case i == m.ivEnd:
		return "splitter"
	case i < len(m.blob) && m.blob[i] == '=':
		return "padding"
	default:
		return "ciphertext"
	}
}

func diffKind(m *message, data []byte) string {
	i := 0
	for i < len(data) && i < len(m.blob) && data[i] == m.blob[i] {
		i++
	}
	switch {
	case len(data) == len(m.blob):
		return "substitution@" + region(m, i)
	case len(data) == len(m.blob)+1:
		return "insertion@" + region(m, i)
	case len(data) == len(m.blob)-1:
		return "deletion@" + region(m, i)
	}
	return "multi-byte@" + region(m, i)
}

// judgeHost runs Gate on one hostile hostname derived from m and decides the outcome.
func (w *worker) judgeHost(m *message, host string, class string) {
	res := safeRead(m.fg, host)
	if res.panic != nil {
		w.count("panics", 1)
		sig := "ReadHostname-panics:" + slug(fmt.Sprint(res.panic))
		w.violationf(sig, func() string { return fmt.Sprintf("ReadHostname panicked on altered data (%s): %v", class, res.panic) }, func() map[string]any {
			return map[string]any{"message": m.idx, "class": class, "key_hex": hex.EncodeToString(m.key), "original_data": string(m.blob),
				"hostname_quoted": strconv.Quote(host), "panic": fmt.Sprint(res.panic)}
		})
		return
	}
	if res.err != nil {
		w.rejected++
		return
	}
	// accepted: find the data item by Gate's documented framing original\x00data[:port]
	parts := strings.Split(host, "\x00")
	var data []byte
	if len(parts) == 2 {
		d := parts[1]
		if k := strings.IndexByte(d, ':'); k >= 0 {
			d = d[:k]
		}
		data = []byte(d)
	}
	got := ref.Record{}
	if res.bd != nil {
		got = fieldsOf(res.bd)
	}
	wit := func(extra map[string]any) func() map[string]any {
		return func() map[string]any {
			o := map[string]any{"message": m.idx, "class": class, "key_hex": hex.EncodeToString(m.key), "original_data": string(m.blob),
				"hostname_quoted": strconv.Quote(host), "gate_fields": got[:], "original_fields": m.rec[:]}
			for k, v := range extra {
				o[k] = v
			}
			return o
		}
	}
	if len(parts) != 2 || res.bd == nil {
		w.violation("ReadHostname-accepts-unframed-hostname", "ReadHostname returned success for a hostname that has no single data item", wit(nil))
		return
	}
	if bytes.Equal(data, m.blob) {
		if d := firstDiff(got, m.rec); d != "" {
			w.violation("ReadHostname-decodes-different-fields:"+d, "unaltered data decoded to other fields", wit(nil))
			return
		}
		w.count("accepted_data_unaltered", 1)
		return
	}
	plain, rerr := ref.Decrypt(m.key, data)
	if rerr != nil {
		kind := diffKind(m, data)
		sig := "ReadHostname-accepts-altered-data:" + kind
		if stripped := bytes.ReplaceAll(bytes.ReplaceAll(data, []byte{'\r'}, nil), []byte{'\n'}, nil); len(stripped) != len(data) && bytes.Equal(stripped, m.blob) {
			// the only difference is CR/LF characters, which encoding/base64 skips
			sig = "ReadHostname-accepts-altered-data:cr-lf-skipped-by-base64"
		}
		w.count("accepted_but_floodgate_rejects", 1)
		w.violationf(sig, func() string {
			return fmt.Sprintf("Gate accepted altered data that Floodgate's decoder rejects (%v); mutation class %s, difference %s", rerr, class, kind)
		}, wit(map[string]any{"reference_error": rerr.Error()}))
		return
	}
	if string(plain) != m.rec.String() {
		// a forgery: both decoders authenticate a different plaintext (would mean broken GCM)
		w.violation("altered-data-authenticates-to-other-plaintext", "a mutant authenticated to a different plaintext in the reference as well", wit(nil))
		return
	}
	if d := firstDiff(got, m.rec); d != "" {
		w.violation("ReadHostname-accepted-mutant-decodes-different-fields:"+d, "an accepted mutant decoded to fields other than the original ones", wit(nil))
		return
	}
	// The statement is literal: "data ... altered in any byte is rejected". The data part of
	// this hostname differs from what the encoder produced and Gate accepted it. That the JDK
	// decoder shares the malleability (unused low bits of the last Base64 unit, optional
	// padding) does not make the bytes unaltered; Gate decodes strictly since fix 96dfe51 and
	// rejects every such spelling, so correct code passes this clause.
	w.count("accepted_java_equivalent_spelling", 1)
	kind := diffKind(m, data)
	w.violationf("ReadHostname-accepts-altered-data:noncanonical-base64-spelling:"+kind, func() string {
		return fmt.Sprintf("Gate accepted data that differs from the encoder's output in %s (it decodes to the same ciphertext only because unused Base64 bits / padding are not checked); mutation class %s", kind, class)
	}, wit(nil))
}

func (w *worker) judge(m *message, mut []byte, class string) {
	if bytes.Equal(mut, m.blob) {
		return
	}
	w.mutants++
	w.classN[class]++
	w.judgeHost(m, m.orig+"\x00"+string(mut), class)
}

func cat(parts ...[]byte) []byte {
	var out []byte
	for _, p := range parts {
		out = append(out, p...)
	}
	return out
}

// ---- per message work -----------------------------------------------------------------

func (w *worker) runMessage(m *message, rng *rand.Rand, exhaustive bool, other *message) {
	r := w.r
	plain := m.rec.String()
	iv := make([]byte, ref.IVLength)
	rng.Read(iv)
	refBlob, err := ref.Encrypt(m.key, iv, []byte(plain))
	if err != nil {
		r.Inconclusive("reference encoder failed: " + err.Error())
		return
	}
	base := func() map[string]any {
		return map[string]any{"message": m.idx, "key_hex": hex.EncodeToString(m.key), "fields": m.rec[:], "original_host": m.orig, "reference_data": string(refBlob)}
	}

	// A: reference-encoded -> Gate
	m.blob, m.source = refBlob, "floodgate-ref"
	m.ivEnd = bytes.IndexByte(m.blob, ref.Splitter)
	res := safeRead(m.fg, m.orig+"\x00"+string(refBlob))
	w.count("A_reference_encoded_read_by_gate", 1)
	switch {
	case res.panic != nil:
		w.violation("ReadHostname-panics-on-valid-data", fmt.Sprintf("panic on Floodgate-encoded data: %v", res.panic), base)
	case res.err != nil:
		w.violation("ReadHostname-rejects-floodgate-encoded-data", "Gate rejected data produced by the Floodgate encoder: "+res.err.Error(), base)
	case res.orig != m.orig:
		w.violation("ReadHostname-original-host-differs", fmt.Sprintf("original host %q decoded as %q", m.orig, res.orig), base)
	default:
		if d := firstDiff(fieldsOf(res.bd), m.rec); d != "" {
			got := fieldsOf(res.bd)
			w.violation("ReadHostname-decodes-different-fields:"+d, "Floodgate-encoded data decoded to other fields", func() map[string]any {
				o := base()
				o["gate_fields"] = got[:]
				return o
			})
		} else {
			w.count("A_same_fields", 1)
		}
	}

	// B: Gate-encoded -> reference decoder
	var gateBlob []byte
	func() {
		defer func() {
			if p := recover(); p != nil {
				w.violation("WriteHostname-panics", fmt.Sprint(p), base)
			}
		}()
		host, err := m.fg.WriteHostname(m.orig, typed(m.rec))
		w.count("B_gate_encoded", 1)
		if err != nil {
			w.violation("WriteHostname-fails-on-valid-record", err.Error(), base)
			return
		}
		ps := strings.Split(host, "\x00")
		if len(ps) != 2 || ps[0] != m.orig {
			w.violation("WriteHostname-framing", "WriteHostname output is not original\\x00data", func() map[string]any {
				o := base()
				o["gate_hostname"] = strconv.Quote(host)
				return o
			})
			return
		}
		gateBlob = []byte(ps[1])
		pt, err := ref.Decrypt(m.key, gateBlob)
		if err != nil {
			w.violation("gate-encoded-data-rejected-by-floodgate:"+slug(err.Error()), "Floodgate's decoder rejects data encoded by Gate: "+err.Error(), func() map[string]any {
				o := base()
				o["gate_data"] = string(gateBlob)
				return o
			})
			gateBlob = nil
			return
		}
		if string(pt) != plain {
			w.violation("gate-encoded-plaintext-differs", "Gate-encoded data decrypts to another record", func() map[string]any {
				o := base()
				o["reference_plaintext"] = strconv.Quote(string(pt))
				return o
			})
			return
		}
		if m.rec.HasTrailingEmpty() {
			// String.split drops a trailing empty verifyCode: Floodgate cannot carry this record
			// in its own format either, so BedrockData.fromString is not consulted.
			w.count("B_trailing_empty_field_not_parsed_by_java_split", 1)
		} else {
			rec, err := ref.ParseRecord(string(pt))
			if err != nil {
				w.violation("gate-encoded-record-rejected-by-BedrockData-fromString", err.Error(), base)
				return
			} else if d := firstDiff(rec, m.rec); d != "" {
				w.violation("gate-encoded-fields-differ:"+d, "Floodgate decodes other fields from Gate-encoded data", base)
				return
			}
		}
		w.count("B_same_fields", 1)
		// Gate reading its own encoding is not part of the statement (only Floodgate's decoder
		// is named for Gate-encoded data): observed and counted, a panic excepted.
		rr := safeRead(m.fg, host)
		switch {
		case rr.panic != nil:
			w.violation("ReadHostname-panics-on-valid-data", fmt.Sprintf("panic on Gate-encoded data: %v", rr.panic), base)
		case rr.err != nil || rr.bd == nil || firstDiff(fieldsOf(rr.bd), m.rec) != "":
			w.count("observation_gate_does_not_read_its_own_encoding", 1)
		default:
			w.count("observation_gate_reads_its_own_encoding", 1)
		}
	}()

	// C: other keys
	for k := 0; k < 4; k++ {
		ok := make([]byte, []int{16, 24, 32}[rng.Intn(3)])
		rng.Read(ok)
		label := "random-key"
		if k == 0 {
			ok = append([]byte(nil), m.key...)
			ok[rng.Intn(len(ok))] ^= 1 << uint(rng.Intn(8))
			label = "one-bit-flipped-key"
		}
		if bytes.Equal(ok, m.key) {
			continue
		}
		fg2, err := floodgate.NewFloodgate(ok)
		if err != nil {
			continue
		}
		rr := safeRead(fg2, m.orig+"\x00"+string(refBlob))
		w.count("C_other_key_reads", 1)
		if rr.panic != nil {
			w.violation("ReadHostname-panics:"+slug(fmt.Sprint(rr.panic)), "panic reading data under another key", base)
		} else if rr.err == nil {
			w.violation("ReadHostname-accepts-data-under-another-key:"+label, "data encrypted under another key was accepted", func() map[string]any {
				o := base()
				o["other_key_hex"] = hex.EncodeToString(ok)
				return o
			})
		} else {
			w.count("C_other_key_rejected", 1)
		}
	}

	// D: mutants. A quarter of the messages are mutated from Gate's own encoding.
	if gateBlob != nil && m.idx%4 == 3 {
		m.blob, m.source = gateBlob, "gate"
		m.ivEnd = bytes.IndexByte(m.blob, ref.Splitter)
	}
	w.mutate(m, rng, exhaustive, other)
	r.Eval(w.mutants + 3)
	w.count("mutants", w.mutants)
	w.count("rejected", w.rejected)
	w.mutants, w.rejected = 0, 0
	w.flush()
}

func (w *worker) mutate(m *message, rng *rand.Rand, exhaustive bool, other *message) {
	r := w.r
	b := m.blob
	hl := len(ref.Header)
	ivB64, ctB64 := b[hl:m.ivEnd], b[m.ivEnd+1:]
	r.Distinct(fmt.Sprintf("msg %d len=%d key=%d src=%s", m.idx, len(b), len(m.key), m.source))

	// D1: every single-byte substitution at every position
	if exhaustive {
		mut := append([]byte(nil), b...)
		for p := range b {
			for v := 0; v < 256; v++ {
				if byte(v) == b[p] {
					continue
				}
				mut[p] = byte(v)
				w.judge(m, mut, "substitution")
			}
			mut[p] = b[p]
			r.Distinct(fmt.Sprintf("sub %d@%d", m.idx, p))
		}
		w.count("messages_with_exhaustive_substitution", 1)
		w.count("positions_exhaustively_substituted", len(b))
	} else {
		mut := append([]byte(nil), b...)
		for k := 0; k < 400; k++ {
			p := rng.Intn(len(b))
			mut[p] = byte(rng.Intn(256))
			w.judge(m, mut, "substitution")
			mut[p] = b[p]
		}
	}

	// D2: insertions at every position
	ins := []byte{0x00, '\n', '\r', ' ', '\t', '=', '!', ':', 'A', '/', '+', '-', '_', '>', '^', 0x7f, 0x80, 0xff, byte(rng.Intn(256)), byte(rng.Intn(256))}
	if exhaustive && m.idx%16 == 0 {
		ins = ins[:0]
		for v := 0; v < 256; v++ {
			ins = append(ins, byte(v))
		}
	}
	for p := 0; p <= len(b); p++ {
		for _, c := range ins {
			w.judge(m, cat(b[:p], []byte{c}, b[p:]), "insertion")
		}
	}
	r.Distinct(fmt.Sprintf("ins %d x%d", m.idx, len(ins)))

	// D3: deletions: every byte, every adjacent pair, every aligned/unaligned 4-char unit
	for p := 0; p < len(b); p++ {
		w.judge(m, cat(b[:p], b[p+1:]), "deletion-1")
		if p+2 <= len(b) {
			w.judge(m, cat(b[:p], b[p+2:]), "deletion-2")
		}
		if p+4 <= len(b) {
			w.judge(m, cat(b[:p], b[p+4:]), "deletion-4")
		}
	}
	// truncation to every prefix and every suffix
	for p := 0; p < len(b); p++ {
		w.judge(m, b[:p], "truncate-prefix")
		w.judge(m, b[p:], "truncate-suffix")
	}
	r.Distinct(fmt.Sprintf("del %d", m.idx))

	// D4: structural
	st := func(class string, mut []byte) { w.judge(m, mut, class) }
	st("drop-header", b[hl:])
	st("double-header", cat(ref.Header, b))
	st("lowercase-identifier", cat([]byte("^floodgate^>"), b[hl:]))
	for v := 0; v < 256; v++ {
		st("version-byte", cat(b[:hl-1], []byte{byte(v)}, b[hl:]))
	}
	// move the splitter to every other place (includes IVs of 3, 6, 9, 15 ... bytes)
	noSplit := cat(ivB64, ctB64)
	for p := 0; p <= len(noSplit); p++ {
		st("move-splitter", cat(ref.Header, noSplit[:p], []byte{ref.Splitter}, noSplit[p:]))
	}
	st("no-splitter", cat(ref.Header, noSplit))
	st("swap-halves", cat(ref.Header, ctB64, []byte{ref.Splitter}, ivB64))
	st("empty-iv", cat(ref.Header, []byte{ref.Splitter}, ctB64))
	st("empty-ciphertext", cat(ref.Header, ivB64, []byte{ref.Splitter}))
	st("iv-twice", cat(ref.Header, ivB64, ivB64, []byte{ref.Splitter}, ctB64))
	st("ciphertext-twice", cat(ref.Header, ivB64, []byte{ref.Splitter}, ctB64, ctB64))
	st("splitter-twice", cat(ref.Header, ivB64, []byte{ref.Splitter, ref.Splitter}, ctB64))
	// IVs of other lengths, canonically encoded
	for _, n := range []int{0, 1, 3, 8, 11, 13, 16, 24, 96} {
		x := make([]byte, n)
		rng.Read(x)
		st("iv-of-other-length", cat(ref.Header, ref.JavaBase64Encode(x), []byte{ref.Splitter}, ctB64))
	}
	// Base64 spelling variants
	trimmed := bytes.TrimRight(ctB64, "=")
	pad := len(ctB64) - len(trimmed)
	st("padding-stripped", cat(b[:m.ivEnd+1], trimmed))
	st("padding-extra-1", cat(b, []byte("=")))
	st("padding-extra-2", cat(b, []byte("==")))
	st("padding-extra-4", cat(b, []byte("====")))
	if pad == 2 {
		st("padding-one-of-two", cat(b[:m.ivEnd+1], trimmed, []byte("=")))
	}
	st("iv-padded", cat(ref.Header, ivB64, []byte("="), []byte{ref.Splitter}, ctB64))
	st("iv-padded-4", cat(ref.Header, ivB64, []byte("===="), []byte{ref.Splitter}, ctB64))
	us := []byte(strings.NewReplacer("+", "-", "/", "_").Replace(string(b[hl:])))
	st("urlsafe-alphabet", cat(ref.Header, us))
	for _, ws := range []string{"\n", "\r\n", "\r", " ", "\t", "\x0b", "\x0c", "\u00a0", "\u2028"} {
		st("whitespace-appended", cat(b, []byte(ws)))
		st("whitespace-after-iv", cat(b[:m.ivEnd], []byte(ws), b[m.ivEnd:]))
		st("whitespace-after-splitter", cat(b[:m.ivEnd+1], []byte(ws), b[m.ivEnd+1:]))
		st("whitespace-before-padding", cat(b[:m.ivEnd+1], trimmed, []byte(ws), ctB64[len(trimmed):]))
		st("whitespace-after-header", cat(ref.Header, []byte(ws), b[hl:]))
		st("whitespace-before-header", cat([]byte(ws), b))
		// MIME style line wrapping every 76 / 64 / 4 characters
		for _, every := range []int{76, 64, 4} {
			var wrapped []byte
			for i := 0; i < len(ctB64); i += every {
				e := i + every
				if e > len(ctB64) {
					e = len(ctB64)
				}
				wrapped = append(wrapped, ctB64[i:e]...)
				if e < len(ctB64) {
					wrapped = append(wrapped, ws...)
				}
			}
			st("line-wrapped", cat(b[:m.ivEnd+1], wrapped))
		}
	}
	for _, sfx := range []string{"A", "AA", "AAAA", "!", "!AAAA", ":", ":19132", ":x", "\x00", "\x00extra", ".", "%00"} {
		st("suffix-appended", cat(b, []byte(sfx)))
		st("prefix-prepended", cat([]byte(sfx), b))
	}
	// D5: raw bit flips (iv | ciphertext | tag), canonically re-encoded: only GCM can catch these
	rawIV, _ := ref.JavaBase64Decode(ivB64)
	rawCT, _ := ref.JavaBase64Decode(ctB64)
	enc := func(iv, ct []byte) []byte {
		return cat(ref.Header, ref.JavaBase64Encode(iv), []byte{ref.Splitter}, ref.JavaBase64Encode(ct))
	}
	for i := 0; i < len(rawIV)*8; i++ {
		x := append([]byte(nil), rawIV...)
		x[i/8] ^= 1 << uint(i%8)
		st("raw-bitflip-iv", enc(x, rawCT))
	}
	for i := 0; i < len(rawCT)*8; i++ {
		x := append([]byte(nil), rawCT...)
		x[i/8] ^= 1 << uint(i%8)
		cl := "raw-bitflip-ciphertext"
		if i/8 >= len(rawCT)-16 {
			cl = "raw-bitflip-tag"
		}
		st(cl, enc(rawIV, x))
	}
	for n := 1; n <= 16 && n <= len(rawCT); n++ {
		st("raw-tag-truncated", enc(rawIV, rawCT[:len(rawCT)-n]))
	}
	st("raw-zero-tag", enc(rawIV, cat(rawCT[:len(rawCT)-16], make([]byte, 16))))
	st("raw-byte-appended", enc(rawIV, cat(rawCT, []byte{0})))
	fresh := make([]byte, 12)
	rng.Read(fresh)
	st("raw-fresh-iv", enc(fresh, rawCT))
	if other != nil && other.blob != nil {
		// splice with a message under the same... different key: iv or ciphertext of another message
		ob := other.blob
		oe := bytes.IndexByte(ob, ref.Splitter)
		if oe > 0 {
			st("splice-other-iv", cat(ref.Header, ob[hl:oe], []byte{ref.Splitter}, ctB64))
			st("splice-other-ciphertext", cat(ref.Header, ivB64, []byte{ref.Splitter}, ob[oe+1:]))
			st("other-message-other-key", ob)
		}
	}
	r.Distinct(fmt.Sprintf("struct %d", m.idx))

	// D6: hostname level framing
	hs := func(class, host string) {
		w.mutants++
		w.classN[class]++
		w.judgeHost(m, host, class)
	}
	hs("host-no-nul", m.orig+string(b))
	hs("host-data-only", string(b))
	hs("host-empty", "")
	hs("host-only-nul", "\x00")
	hs("host-three-parts", m.orig+"\x00"+string(b)+"\x00203.0.113.7\x00069a79f444e94726a5befca90e38aaf5")
	hs("host-data-first", string(b)+"\x00"+m.orig)
	hs("host-double-nul", m.orig+"\x00\x00"+string(b))
	hs("host-colon-before-data", m.orig+"\x00:"+string(b))
	// D7: random data behind a valid header (no relation to the message)
	for k := 0; k < 64; k++ {
		a := make([]byte, rng.Intn(40))
		c := make([]byte, rng.Intn(120))
		rng.Read(a)
		rng.Read(c)
		var mut []byte
		switch k % 4 {
		case 0:
			mut = cat(ref.Header, ref.JavaBase64Encode(a), []byte{ref.Splitter}, ref.JavaBase64Encode(c))
		case 1:
			mut = cat(ref.Header, a, []byte{ref.Splitter}, c)
		case 2:
			mut = cat(ref.Header, ref.JavaBase64Encode(a), ref.JavaBase64Encode(c))
		default:
			mut = cat(a, c)
		}
		if bytes.IndexByte(mut, 0) >= 0 {
			mut = bytes.ReplaceAll(mut, []byte{0}, []byte{1})
		}
		st("random-data", mut)
	}
}

func TestC39(t *testing.T) {
	r := lib.Start(t, "C39")
	defer r.Finish()
	r.Rule("a message = (key of 16/24/32 bytes, 12 field BedrockData record with empty/Unicode/long/':' fields, original host, 12 byte IV), encoded by the reference Floodgate codec (3 of 4) or by Gate (1 of 4); cases = the message itself (A ref->Gate, B Gate->ref, C other keys) plus every mutant of its encoded data: all 255 substitutions at every byte position, insertions of 20 (every 16th message: 256) byte values at every position, deletions of 1/2/4 bytes at every position, every prefix/suffix, structural mutants (header, version byte, splitter moved to every position, swapped halves, IVs of other lengths, padding/whitespace/line-wrapping/url-safe spellings, appended/prepended bytes), every raw bit flip of iv|ciphertext|tag re-encoded canonically, splices with another message, hostname framing variants, random data behind a valid header; distinct = (message, mutation position/class)")
	r.Assume("ref/floodgateref transcribes Floodgate's AesCipher, Base64Topping (java.util.Base64 basic decoder: no whitespace, optional padding, trailing bits unchecked), FloodgateCipher header/version check and BedrockData.fromString from memory; AES-GCM itself is crypto/aes+crypto/cipher on both sides")
	r.Assume("an accepted mutant is a violation unless the bytes Gate's documented framing original\\x00data[:port] treats as data are unaltered")

	nExh := r.N(200, 4000) // messages with exhaustive substitution
	nLight := r.N(120, 2000)
	total := nExh + nLight

	workers := runtime.NumCPU()
	if workers > 16 {
		workers = 16
	}
	var mu sync.Mutex
	sigN := map[string]int{}
	jobs := make(chan int, workers)
	var wg sync.WaitGroup
	for g := 0; g < workers; g++ {
		wg.Add(1)
		go func() {
			defer wg.Done()
			w := &worker{r: r, counts: map[string]int{}, classN: map[string]int{}, sigN: sigN, mu: &mu}
			for idx := range jobs {
				m, rng := genMessage(r, idx)
				if m == nil {
					continue
				}
				// the "other" message for splices: deterministic neighbour under another key
				var other *message
				if om, orng := genMessage(r, idx+1000003); om != nil {
					iv := make([]byte, 12)
					orng.Read(iv)
					om.blob, _ = ref.Encrypt(om.key, iv, []byte(om.rec.String()))
					other = om
				}
				r.LogCase(map[string]any{"message": idx, "key_len": len(m.key)})
				w.runMessage(m, rng, idx < nExh, other)
				if r.WantSample() {
					r.Sample(map[string]any{"message": idx, "key_len": len(m.key), "source_of_mutated_data": m.source, "original_host": m.orig,
						"fields": m.rec[:], "data": lib.Trunc(string(m.blob), 120), "data_len": len(m.blob)})
				}
			}
			w.flush()
		}()
	}
	for i := 0; i < total; i++ {
		jobs <- i
	}
	close(jobs)
	wg.Wait()
	r.Set("messages", total)
	r.Set("workers", workers)
}
