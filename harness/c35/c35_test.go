// C35: live config changes are atomic, validated and versioned by content.
//
// Real gate.New (Lite enabled, never started). 2-8 concurrent clients call ApplyLiveConfig /
// ApplyLiveConfigIfVersion / ConfigSnapshot / Java().Config() (route snapshot); call and return
// are stamped at the client boundary with one atomic counter; every history (<= 40 ops) is
// decided by porcupine against a sequential model:
//
//	state  = (content, routes) of the current configuration
//	apply  : candidate == state -> unchanged | invalid -> invalid | other-than-routes -> unsupported
//	         | otherwise applied, state := candidate          (rejections leave the state alone)
//	applyIf: expected version != version(state) -> precondition_failed (reports version(state)),
//	         else as apply                                    (compare-and-swap)
//	snapshot: returns (state.content, version(state)); routes: returns state.routes
//	api-get : GetConfig of the config API = snapshot (payload decoded by the harness)
//	api-apply(if_match=v, document | merge patch): the CAS of the model. It takes effect only if
//	         v is the version of the state at its linearisation point; a merge patch is evaluated
//	         against the configuration current AT THAT POINT (the empty patch yields the current
//	         configuration, a patch that sets the route list yields current-with-these-routes).
//	         Without if_match, with a stale one, or with an undecodable / invalid / not-route-only
//	         result it is rejected and leaves the state alone.
//	api-validate: no effect; valid documents pass, invalid ones are rejected.
//
// The API operations (api_test.go) go through the in-process connect service
// (internal/api.Service -> gate.ConfigHandlerImpl) and are recorded in the SAME histories as the
// direct appliers (Gate.ApplyLiveConfig is what a file reload calls): the handler's own mutex
// serialises API requests only, so whether its version check and its commit are one atomic step
// shows only against direct appliers. API candidates of "bulk" histories carry route tables of
// some hundred routes, which stretches the handler's decode/merge/validate phase between taking
// its snapshot and committing.
//
// "Content" is the JSON document of the configuration as marshalled by the harness; versions are
// opaque strings related to contents only through what the API returned, and must form a
// bijection with contents within and across histories. Further checks: every snapshot equals
// exactly one submitted route-only candidate or the initial configuration; at quiescence
// rejected candidates leave snapshot, version and the Java proxy's routes unchanged; published
// configuration does not alias the submitted candidate.
//
// Reading: a candidate that is both invalid and changes other settings may be answered with
// either rejection code. The version reported with precondition_failed is treated as a read of
// the current version (the code documents it as such).
package c35

import (
	"crypto/sha256"
	"encoding/hex"
	"encoding/json"
	"fmt"
	"math/rand"
	"runtime"
	"sort"
	"strings"
	"sync"
	"sync/atomic"
	"testing"
	"time"

	"github.com/anishathalye/porcupine"

	liteconfig "go.minekube.com/gate/pkg/edition/java/lite/config"
	"go.minekube.com/gate/pkg/edition/java/ping"
	"go.minekube.com/gate/pkg/edition/java/proxy/verifh/lib"
	"go.minekube.com/gate/pkg/gate"
	gcfg "go.minekube.com/gate/pkg/gate/config"
	"go.minekube.com/gate/pkg/util/configutil"
)

// ---- contents ---------------------------------------------------------------------------------

func keyOf(v any) string {
	b, err := json.Marshal(v)
	if err != nil {
		return "unmarshalable:" + err.Error()
	}
	s := sha256.Sum256(b)
	return hex.EncodeToString(s[:8])
}

func route(uid int) liteconfig.Route {
	rt := liteconfig.Route{
		Host:         []string{fmt.Sprintf("r%d.example.test", uid)},
		Backend:      []string{fmt.Sprintf("b%d.example.test:25565", uid)},
		CachePingTTL: configutil.Duration(time.Duration(uid+1) * time.Second),
	}
	switch uid % 4 {
	case 1:
		rt.Host = append(rt.Host, fmt.Sprintf("alt%d.example.test", uid))
		rt.Backend = append(rt.Backend, fmt.Sprintf("c%d.example.test:25566", uid))
		rt.Strategy = liteconfig.StrategyRoundRobin
	case 2:
		rt.Fallback = &liteconfig.Status{Version: ping.Version{Name: fmt.Sprintf("offline-%d", uid), Protocol: -1}}
		rt.ProxyProtocol = true
	case 3:
		rt.ModifyVirtualHost = true
		rt.TCPShieldRealIP = true
	}
	return rt
}

func initialConfig() *gcfg.Config {
	c := gcfg.DefaultConfig
	c.Config.Bind = "127.0.0.1:25565"
	c.Config.Lite.Enabled = true
	c.Config.Lite.Routes = []liteconfig.Route{route(1000)}
	c.Config.Status.Motd = yamlNormalMotd() // see api_test.go: documents sent through the config API are YAML
	c.Config.Status.Favicon = "data:image/png;base64,iVBORw0KGgo=" // the default is 5 KB of base64 that every marshal under -race would pay for (an empty favicon does not survive ConfigSnapshot: see C37)
	// own the reference-typed members so that histories do not share mutable state
	c.Config.Servers = map[string]string{}
	c.Config.ForcedHosts = map[string][]string{}
	c.Config.Try = []string{}
	return &c
}

const (
	clsRoute   = "route"            // valid, differs from the initial config in Lite routes only
	clsInvalid = "invalid"          // routes only, but does not validate
	clsOther   = "nonroute"         // valid, changes something else (with or without a route change)
	clsBoth    = "invalid+nonroute" // either rejection code
	clsNil     = "nil"
)

type cand struct {
	cfg   *gcfg.Config
	class string
	key   string // content key ("nil" for the nil candidate)
	rkey  string
	desc  string
}

func mkCand(rng *rand.Rand, class string, uid int, bulk ...int) cand {
	if class == clsNil {
		return cand{class: clsNil, key: "nil", desc: "nil"}
	}
	c := initialConfig()
	routes := []liteconfig.Route{route(uid)}
	if uid%3 == 0 {
		routes = append(routes, route(uid+500))
	}
	desc := fmt.Sprintf("%s#%d", class, uid)
	if len(bulk) > 0 && bulk[0] > 0 {
		// a large route table (valid routes, unique per uid): decoding and validating it takes the
		// API handler the longer the larger it is
		for i := 0; i < bulk[0]; i++ {
			routes = append(routes, route(20000+uid*1000+i))
		}
		desc += fmt.Sprintf("+%droutes", bulk[0])
	}
	switch class {
	case clsRoute:
	case clsInvalid:
		switch rng.Intn(4) {
		case 0:
			routes[0].Strategy = "not-a-strategy"
		case 1:
			routes[0].Backend = nil
		case 2:
			routes[0].Host = nil
		default:
			routes = nil // no routes at all
		}
	case clsOther, clsBoth:
		switch rng.Intn(6) {
		case 0:
			c.Config.Bind = "127.0.0.1:25566"
		case 1:
			c.Config.Debug = true
		case 2:
			c.Config.Quota.Connections.Burst = 11
		case 3:
			c.HealthService.Bind = "127.0.0.1:9091"
		case 4:
			c.Config.ReadTimeout = configutil.Duration(31 * time.Second)
		default:
			c.NoAutoReload = true
		}
		if class == clsOther && rng.Intn(3) == 0 {
			routes = []liteconfig.Route{route(1000)} // nothing but the other setting changes
		}
		if class == clsBoth {
			routes[0].Strategy = "not-a-strategy"
		}
	}
	c.Config.Lite.Routes = routes
	return cand{cfg: c, class: class, key: keyOf(c), rkey: keyOf(routes), desc: desc}
}

// ---- history ----------------------------------------------------------------------------------

type opIn struct {
	Kind     string // snapshot routes apply applyif api-get api-apply api-validate
	Form     string // api-apply / api-validate: yaml json patch patch-noop garbage
	Noop     bool   // api-apply: the candidate is whatever is current at the linearisation point
	Cand     string // content key of the candidate
	CandR    string
	Class    string
	Desc     string
	ExpRaw   string // expected version as passed
	ExpKey   string // content whose version that is ("?" if it is nobody's version)
	ExpLabel string
}

type opOut struct {
	Code    string
	Version string
	VerKey  string
	Snap    string
	Routes  string
}

type state struct{ C, R string }

var model = porcupine.Model{
	Init: func() any { return state{} }, // replaced per history
	Step: func(st, in, out any) (bool, any) {
		s, i, o := st.(state), in.(opIn), out.(opOut)
		switch i.Kind {
		case "snapshot", "api-get":
			return o.Snap == s.C && o.VerKey == s.C, s
		case "routes":
			return o.Routes == s.R, s
		case "api-validate":
			return apiValidateOK(i, o), s
		case "api-apply":
			return apiApplyStep(s, i, o, relaxNone)
		}
		if i.Kind == "applyif" && i.ExpKey != s.C {
			return o.Code == "precondition_failed" && o.VerKey == s.C, s
		}
		switch {
		case i.Class == clsNil:
			return o.Code == "invalid", s
		case i.Cand == s.C:
			return o.Code == "unchanged" && o.VerKey == s.C, s
		case i.Class == clsInvalid:
			return o.Code == "invalid", s
		case i.Class == clsOther:
			return o.Code == "unsupported", s
		case i.Class == clsBoth:
			return o.Code == "invalid" || o.Code == "unsupported", s
		default:
			return o.Code == "applied" && o.VerKey == i.Cand, state{i.Cand, i.CandR}
		}
	},
	Equal: func(a, b any) bool { return a.(state) == b.(state) },
	DescribeOperation: func(in, out any) string {
		i, o := in.(opIn), out.(opOut)
		switch i.Kind {
		case "snapshot":
			return fmt.Sprintf("Snapshot -> content %s version-of %s", o.Snap, o.VerKey)
		case "routes":
			return fmt.Sprintf("Java().Config().Lite.Routes -> %s", o.Routes)
		case "apply":
			return fmt.Sprintf("Apply(%s %s) -> %s version-of %s", i.Desc, i.Cand, o.Code, o.VerKey)
		default:
			return fmt.Sprintf("ApplyIfVersion(%s %s, expected=%s version-of %s) -> %s version-of %s", i.Desc, i.Cand, i.ExpLabel, i.ExpKey, o.Code, o.VerKey)
		}
	},
}

type rec struct {
	client    int
	call, ret int64
	in        opIn
	out       opOut
}

// global content<->version relation across histories
var (
	verMu        sync.Mutex
	versionOf    = map[string]string{} // content key -> version
	contentOf    = map[string]string{} // version -> content key
	crossHistory int
)

func relate(r *lib.Run, key, version string, wit func() any) {
	if version == "" || key == "" {
		return
	}
	verMu.Lock()
	defer verMu.Unlock()
	if v, ok := versionOf[key]; ok {
		crossHistory++
		if v != version {
			r.Violation("same-content-different-version", "one configuration content was reported with two different versions", map[string]any{"content": key, "versions": []string{v, version}, "history": wit()})
		}
	} else {
		versionOf[key] = version
	}
	if k, ok := contentOf[version]; ok {
		if k != key {
			r.Violation("different-content-same-version", "two different configuration contents were reported with one version", map[string]any{"version": version, "contents": []string{k, key}, "history": wit()})
		}
	} else {
		contentOf[version] = key
	}
}

type scriptOp struct {
	Kind   string // snapshot routes apply applyif api-get api-apply api-validate
	Class  string // candidate class, or "identical"
	UID    int
	Exp    string // last | initial | garbage | empty | older
	Yields int
	Form   string `json:",omitempty"` // api-apply / api-validate: yaml json patch patch-noop garbage
	Bulk   int    `json:",omitempty"` // extra routes in the candidate (API candidates of bulk histories)
	Spin   int    `json:",omitempty"` // PRNG-chosen amount of busy work before the call (spreads direct applies over the API window)
}

// History shapes. "mixed": the original generator plus the API operations in the mix.
// "api-race": client 0 opens with an API apply carrying a fresh if_match while the others open
// with direct applies (what a file reload does) after a PRNG-chosen amount of busy work, so that
// their commits spread over the API request's decode/merge/validate phase; then a mixed tail.
const (
	shapeMixed   = "mixed"
	shapeAPIRace = "api-race"
)

func pickClass(rng *rand.Rand) string {
	switch k := rng.Intn(20); {
	case k < 9:
		return clsRoute
	case k < 12:
		return clsInvalid
	case k < 15:
		return clsOther
	case k < 16:
		return clsBoth
	case k < 17:
		return clsNil
	default:
		return "identical"
	}
}

func pickAPIForm(rng *rand.Rand) string {
	return []string{"patch", "patch", "patch", "yaml", "yaml", "json", "patch-noop", "garbage"}[rng.Intn(8)]
}

func genScripts(rng *rand.Rand, shape string, bulk int) [][]scriptOp {
	g := 2 + rng.Intn(7)
	budget := 38
	if shape == shapeAPIRace {
		g = 2 + rng.Intn(3)
		budget = 16
	}
	scripts := make([][]scriptOp, g)
	uids := rng.Perm(40)
	next := 0
	uid := func() int { u := uids[next%len(uids)]; next++; return u } // unique within the history for applied candidates
	for i := range scripts {
		n := 1 + rng.Intn(6)
		if shape == shapeAPIRace {
			n = 1 + rng.Intn(3)
		}
		for j := 0; j < n && budget > 0; j++ {
			budget--
			op := scriptOp{Yields: rng.Intn(4) * rng.Intn(3)}
			if shape == shapeAPIRace && j == 0 {
				// the opening move
				if i == 0 {
					op.Kind, op.Exp, op.Class, op.UID, op.Bulk, op.Yields = "api-apply", "last", clsRoute, uid(), bulk, 0
					op.Form = []string{"patch", "patch", "yaml", "json", "patch-noop"}[rng.Intn(5)]
				} else {
					op.Kind, op.Class, op.UID = "apply", clsRoute, uid()
					if rng.Intn(4) == 0 {
						op.Kind, op.Exp = "applyif", "last"
					}
					op.Spin = rng.Intn(60) * rng.Intn(60)
				}
				scripts[i] = append(scripts[i], op)
				continue
			}
			switch k := rng.Intn(26); {
			case k < 4:
				op.Kind = "snapshot"
			case k < 6:
				op.Kind = "routes"
			case k < 12:
				op.Kind = "apply"
			case k < 20:
				op.Kind = "applyif"
			case k < 21:
				op.Kind = "api-get"
			case k < 22:
				op.Kind = "api-validate"
			default:
				op.Kind = "api-apply"
			}
			if op.Kind == "applyif" || op.Kind == "api-apply" {
				op.Exp = []string{"last", "last", "last", "last", "initial", "older", "garbage", "empty"}[rng.Intn(8)]
			}
			switch op.Kind {
			case "apply", "applyif":
				op.Class = pickClass(rng)
				op.UID = uid()
			case "api-apply", "api-validate":
				op.Class = pickClass(rng)
				op.UID = uid()
				op.Form = pickAPIForm(rng)
				op.Bulk = bulk
				if op.Class == clsNil {
					op.Class, op.Form = clsRoute, "garbage" // there is no nil document; the undecodable payload takes its place
				}
				if op.Kind == "api-validate" && op.Form == "patch-noop" {
					op.Form = "yaml" // ValidateConfig takes documents only
				}
				if op.Kind == "api-validate" && op.Form == "patch" {
					op.Form = "json"
				}
			}
			scripts[i] = append(scripts[i], op)
		}
	}
	return scripts
}

var clock atomic.Int64

// runHistory runs one history on g. A Gate is reused for a batch of histories (gate.New costs
// ~90 ms under -race: key generation); the state a history starts from is whatever the previous
// one left, revealed by the sequential prefix (snapshot + route read).
func runHistory(r *lib.Run, rng *rand.Rand, hid string, g *gate.Gate, svc *apiClient, shape string, bulk int) (sig string, nOps int, bad bool) {
	scripts := genScripts(rng, shape, bulk)
	seedBase := rng.Int63()
	init := initialConfig()
	r.LogCase(map[string]any{"history": hid, "shape": shape, "bulk": bulk, "scripts": scripts})
	violationsBefore := r.Violations()
	defer func() { bad = bad || r.Violations() != violationsBefore }()

	var (
		mu    sync.Mutex
		recs  []rec
		cands = map[string]cand{} // submitted candidates by content key
	)
	add := func(rc rec, c *cand) {
		mu.Lock()
		recs = append(recs, rc)
		if c != nil && c.cfg != nil {
			cands[c.key] = *c
		}
		mu.Unlock()
	}
	doSnapshot := func(client int) (*gcfg.Config, string) {
		c0 := clock.Add(1)
		snap, ver, err := g.ConfigSnapshot()
		c1 := clock.Add(1)
		out := opOut{Version: ver}
		if err != nil {
			out.Code = "error:" + err.Error()
		} else {
			out.Snap = keyOf(snap)
		}
		add(rec{client: client, call: c0, ret: c1, in: opIn{Kind: "snapshot"}, out: out}, nil)
		return snap, ver
	}
	// sequential prefix: reveals the content this history starts from and its version
	startSnap, initVer := doSnapshot(100)
	if startSnap == nil {
		r.Violation("snapshot-error", "ConfigSnapshot failed on a quiescent Gate", map[string]any{"history": hid})
		return "", 0, true
	}
	initKey := keyOf(startSnap)
	initR := keyOf(g.Java().Config().Lite.Routes)
	if rk := keyOf(startSnap.Config.Lite.Routes); rk != initR {
		r.Violation("quiescent-routes-differ-from-snapshot", "at quiescence the Java proxy's routes are not the routes of the configuration snapshot", map[string]any{"history": hid, "snapshot_routes": rk, "proxy_routes": initR})
		return "", 0, true
	}

	var wg sync.WaitGroup
	start := make(chan struct{})
	var ready sync.WaitGroup
	ready.Add(len(scripts))
	for ci := range scripts {
		wg.Add(1)
		go func(ci int) {
			defer wg.Done()
			crng := rand.New(rand.NewSource(seedBase + int64(ci)))
			lastVer, olderVer := initVer, initVer
			var lastSnap *gcfg.Config
			see := func(v string) {
				if v != "" && v != lastVer {
					olderVer, lastVer = lastVer, v
				}
			}
			// candidates and API payloads that do not depend on what the client sees at run time are
			// built in front of the barrier: building a large document must not delay the opening
			// move of an api-race history
			type prep struct {
				cd      cand
				payload string
				isPatch bool
			}
			prepared := map[int]prep{}
			for oi, op := range scripts[ci] {
				switch {
				case op.Class == "identical" || op.Class == "":
				case op.Kind == "api-apply" || op.Kind == "api-validate":
					cd := mkCand(crng, op.Class, op.UID, op.Bulk)
					pl, ip := apiPayload(crng, cd, op.Form)
					prepared[oi] = prep{cd, pl, ip}
				case op.Kind == "apply" || op.Kind == "applyif":
					prepared[oi] = prep{cd: mkCand(crng, op.Class, op.UID)}
				}
			}
			ready.Done()
			<-start
			for oi, op := range scripts[ci] {
				for y := 0; y < op.Yields; y++ {
					runtime.Gosched()
				}
				spin(op.Spin)
				switch op.Kind {
				case "snapshot":
					s, v := doSnapshot(ci)
					lastSnap = s
					see(v)
				case "api-get":
					c0 := clock.Add(1)
					snap, ver, code := svc.get()
					c1 := clock.Add(1)
					out := opOut{Version: ver, Code: code}
					if snap != nil {
						out.Snap = keyOf(snap)
						lastSnap = snap
					}
					see(ver)
					add(rec{client: ci, call: c0, ret: c1, in: opIn{Kind: "api-get"}, out: out}, nil)
				case "api-apply", "api-validate":
					var cd cand
					var payload string
					var isPatch bool
					if op.Class == "identical" {
						src := lastSnap
						if src == nil {
							src = initialConfig()
						}
						cd = cand{cfg: src, class: clsRoute, key: keyOf(src), rkey: keyOf(src.Config.Lite.Routes), desc: "identical-to-last-seen"}
						payload, isPatch = apiPayload(crng, cd, op.Form)
					} else {
						cd, payload, isPatch = prepared[oi].cd, prepared[oi].payload, prepared[oi].isPatch
					}
					in := opIn{Kind: op.Kind, Form: op.Form, Cand: cd.key, CandR: cd.rkey, Class: cd.class, Desc: cd.desc}
					switch op.Form {
					case "patch-noop":
						in.Noop, in.Class, in.Cand, in.CandR, in.Desc = true, clsRoute, "", "", "empty-merge-patch"
					case "garbage":
						in.Class, in.Cand, in.CandR, in.Desc = clsUndecodable, "", "", "undecodable-payload"
					}
					if op.Kind == "api-validate" {
						c0 := clock.Add(1)
						code := svc.validate(payload)
						c1 := clock.Add(1)
						add(rec{client: ci, call: c0, ret: c1, in: in, out: opOut{Code: code}}, nil)
						break
					}
					switch op.Exp {
					case "last":
						in.ExpRaw = lastVer
					case "older":
						in.ExpRaw = olderVer
					case "initial":
						in.ExpRaw = initVer
					case "garbage":
						in.ExpRaw = "stale"
					case "empty":
						in.ExpRaw = ""
					}
					in.ExpLabel = op.Exp
					c0 := clock.Add(1)
					code, ver := svc.apply(payload, isPatch, in.ExpRaw)
					c1 := clock.Add(1)
					see(ver)
					var cp *cand
					if !in.Noop && in.Class != clsUndecodable {
						cp = &cd
					}
					add(rec{client: ci, call: c0, ret: c1, in: in, out: opOut{Code: code, Version: ver}}, cp)
				case "routes":
					c0 := clock.Add(1)
					jc := g.Java().Config()
					c1 := clock.Add(1)
					add(rec{client: ci, call: c0, ret: c1, in: opIn{Kind: "routes"}, out: opOut{Routes: keyOf(jc.Lite.Routes)}}, nil)
				default:
					var cd cand
					if op.Class == "identical" {
						src := lastSnap
						if src == nil {
							src = initialConfig()
						}
						cd = cand{cfg: src, class: clsRoute, key: keyOf(src), rkey: keyOf(src.Config.Lite.Routes), desc: "identical-to-last-seen"}
					} else {
						cd = prepared[oi].cd
					}
					in := opIn{Kind: op.Kind, Cand: cd.key, CandR: cd.rkey, Class: cd.class, Desc: cd.desc}
					var res gate.LiveConfigResult
					var c0, c1 int64
					if op.Kind == "apply" {
						c0 = clock.Add(1)
						res = g.ApplyLiveConfig(cd.cfg)
						c1 = clock.Add(1)
					} else {
						switch op.Exp {
						case "last":
							in.ExpRaw = lastVer
						case "older":
							in.ExpRaw = olderVer
						case "initial":
							in.ExpRaw = initVer
						case "garbage":
							in.ExpRaw = "stale"
						case "empty":
							in.ExpRaw = ""
						}
						in.ExpLabel = op.Exp
						c0 = clock.Add(1)
						res = g.ApplyLiveConfigIfVersion(cd.cfg, in.ExpRaw)
						c1 = clock.Add(1)
					}
					see(res.Version)
					out := opOut{Code: res.Code, Version: res.Version}
					if (res.Code == "applied") != res.Applied || (res.Code == "unchanged") != res.Unchanged {
						out.Code = fmt.Sprintf("inconsistent(code=%s applied=%v unchanged=%v)", res.Code, res.Applied, res.Unchanged)
					}
					add(rec{client: ci, call: c0, ret: c1, in: in, out: out}, &cd)
				}
			}
		}(ci)
	}
	ready.Wait()
	close(start)
	if ok, _ := lib.Returns(30*time.Second, wg.Wait); !ok {
		if blk, proven := lib.SelfDeadlockProof(lib.Goroutines(), "gate.(*Gate)"); proven {
			r.Violation("apply-self-deadlock", "a live-config call never returned: the goroutine re-enters reloadMu", map[string]any{"scripts": scripts, "stack": blk})
		} else {
			r.Inconclusive("history " + hid + " did not quiesce within the watchdog")
		}
		return "", 0, true
	}

	// ---- quiescent checks (sequential suffix, still part of the history) -----------------------
	finalSnap, finalVer := doSnapshot(101)
	{
		c0 := clock.Add(1)
		jc := g.Java().Config()
		c1 := clock.Add(1)
		add(rec{client: 101, call: c0, ret: c1, in: opIn{Kind: "routes"}, out: opOut{Routes: keyOf(jc.Lite.Routes)}}, nil)
		if jc.Bind != init.Config.Bind || jc.Debug != init.Config.Debug || !jc.Lite.Enabled {
			r.Violation("java-proxy-non-route-setting-changed", "the Java proxy's effective non-route settings changed through live applies", map[string]any{"scripts": scripts, "bind": jc.Bind, "debug": jc.Debug})
		}
	}
	witness := func() any { return map[string]any{"history": hid, "scripts": scripts, "ops": describe(recs)} }

	// rejected candidates leave configuration, version and routes unchanged (exact: no concurrency)
	if finalSnap != nil {
		frng := rand.New(rand.NewSource(seedBase - 1))
		for _, cls := range []string{clsInvalid, clsOther, clsBoth, clsNil, "stale-version"} {
			cd := mkCand(frng, clsRoute, 900+frng.Intn(50))
			if cls != "stale-version" {
				cd = mkCand(frng, cls, 900+frng.Intn(50))
			}
			beforeRoutes := keyOf(g.Java().Config().Lite.Routes)
			var res gate.LiveConfigResult
			switch {
			case cls == "stale-version":
				res = g.ApplyLiveConfigIfVersion(cd.cfg, "not-"+finalVer)
			case frng.Intn(2) == 0:
				res = g.ApplyLiveConfig(cd.cfg)
			default:
				res = g.ApplyLiveConfigIfVersion(cd.cfg, finalVer)
			}
			after, afterVer, err := g.ConfigSnapshot()
			afterRoutes := keyOf(g.Java().Config().Lite.Routes)
			r.Count("sequential_rejections_checked", 1)
			w := map[string]any{"candidate": cd.desc, "class": cls, "result": fmt.Sprintf("%+v", res), "history": hid}
			switch {
			case res.Applied || res.Code == "applied" || res.Code == "unchanged":
				r.Violation("rejectable-candidate-accepted-"+cls, "a candidate that must be rejected was answered "+res.Code, w)
			case err != nil:
				r.Violation("snapshot-error-after-rejection", err.Error(), w)
			case keyOf(after) != keyOf(finalSnap):
				r.Violation("rejected-candidate-changed-configuration", "snapshot content differs before/after a rejected "+cls+" candidate", w)
			case afterVer != finalVer:
				r.Violation("rejected-candidate-changed-version", "version differs before/after a rejected "+cls+" candidate", w)
			case afterRoutes != beforeRoutes:
				r.Violation("rejected-candidate-changed-routes", "the Java proxy's routes differ before/after a rejected "+cls+" candidate", w)
			}
			if finalSnap == nil || afterVer != finalVer {
				break
			}
		}
		// CAS with the current version and the current content is a no-op
		if res := g.ApplyLiveConfigIfVersion(finalSnap, finalVer); res.Code != "unchanged" || res.Version != finalVer {
			r.Violation("snapshot-reapplied-with-its-own-version-not-unchanged", "ApplyLiveConfigIfVersion(snapshot, its version) must be 'unchanged' with the same version", map[string]any{"result": fmt.Sprintf("%+v", res), "history": hid})
		}
		// published configuration must not alias submitted candidates
		mu.Lock()
		for _, c := range cands {
			if c.cfg != nil && len(c.cfg.Config.Lite.Routes) > 0 && len(c.cfg.Config.Lite.Routes[0].Host) > 0 && c.cfg != finalSnap {
				c.cfg.Config.Lite.Routes[0].Host[0] = "mutated-after-submit.example.test"
				c.cfg.Config.Lite.Routes[0].CachePingTTL = configutil.Duration(77 * time.Hour)
			}
		}
		mu.Unlock()
		if again, v2, err := g.ConfigSnapshot(); err == nil {
			if keyOf(again) != keyOf(finalSnap) || v2 != finalVer {
				r.Violation("published-config-aliases-submitted-candidate", "mutating a candidate object after the call changed the published configuration/version", map[string]any{"history": hid, "scripts": scripts})
			}
		}
	}

	// ---- content <-> version relation -----------------------------------------------------------
	localVer := map[string]string{} // version -> content key (this history)
	for _, rc := range recs {
		var key string
		switch {
		case rc.in.Kind == "snapshot" || rc.in.Kind == "api-get":
			key = rc.out.Snap
		case rc.in.Kind == "api-apply":
			// an accepted API apply reports the version of the configuration it left in place: its
			// candidate (the empty merge patch has no content of its own)
			if rc.out.Code != apiOK || rc.in.Noop || rc.in.Cand == "" {
				continue
			}
			key = rc.in.Cand
		case rc.out.Code == "applied" || rc.out.Code == "unchanged":
			key = rc.in.Cand
		default:
			continue
		}
		relate(r, key, rc.out.Version, witness)
		if rc.out.Version != "" {
			if _, ok := localVer[rc.out.Version]; !ok {
				localVer[rc.out.Version] = key
			}
		}
	}
	resolve := func(v string) string {
		if k, ok := localVer[v]; ok {
			return k
		}
		return "?"
	}

	// ---- snapshot membership ----------------------------------------------------------------------
	for _, rc := range recs {
		if (rc.in.Kind != "snapshot" && rc.in.Kind != "api-get") || rc.out.Snap == "" {
			continue
		}
		r.Count("snapshots_observed", 1)
		if rc.in.Kind == "api-get" {
			r.Count("api_get_config_documents_decoded", 1)
		}
		if rc.out.Snap == initKey {
			continue
		}
		c, ok := cands[rc.out.Snap]
		switch {
		case !ok:
			r.Violation("snapshot-equals-no-submitted-candidate", "a snapshot is neither the initial configuration nor any submitted candidate (partial or mixed publication)", witness())
		case c.class != clsRoute:
			r.Violation("snapshot-equals-rejectable-candidate-"+c.class, "a snapshot equals a candidate that must never be applied", witness())
		}
	}

	// ---- porcupine ------------------------------------------------------------------------------
	ops := make([]porcupine.Operation, 0, len(recs))
	codes := map[string]int{}
	apiCodes := map[string]int{}
	for _, rc := range recs {
		in, out := rc.in, rc.out
		if in.Kind == "applyif" || in.Kind == "api-apply" {
			in.ExpKey = resolve(in.ExpRaw)
		}
		if out.Version != "" {
			out.VerKey = resolve(out.Version)
		} else if out.Code == "applied" || out.Code == "unchanged" || out.Code == "precondition_failed" || in.Kind == "snapshot" || in.Kind == "api-get" || (in.Kind == "api-apply" && out.Code == apiOK) {
			out.VerKey = "?missing"
		}
		if in.Kind == "apply" || in.Kind == "applyif" {
			codes[out.Code]++
		}
		if strings.HasPrefix(in.Kind, "api-") {
			apiCodes[in.Kind+":"+in.Form+":"+out.Code]++
			codes[in.Kind+"="+out.Code]++
		}
		ops = append(ops, porcupine.Operation{ClientId: rc.client, Input: in, Call: rc.call, Output: out, Return: rc.ret})
	}
	m := model
	m.Init = func() any { return state{initKey, initR} }
	res, _ := porcupine.CheckOperationsVerbose(m, ops, 20*time.Second)
	r.Count("histories_checked_by_porcupine", 1)
	switch res {
	case porcupine.Illegal:
		r.Count("porcupine_illegal", 1)
		r.Violation(classifyIllegal(recs, ops, state{initKey, initR}), "the recorded history of live-config calls is not linearizable w.r.t. the validated compare-and-swap model", witness())
	case porcupine.Unknown:
		r.Inconclusive("porcupine timed out on history " + hid)
	}
	for c, n := range codes {
		if !strings.HasPrefix(c, "api-") {
			r.Count("result_"+c, n)
		}
	}
	for c, n := range apiCodes {
		r.Count("api_result:"+c, n)
	}
	r.Count("histories_shape_"+shape, 1)
	if bulk > 0 {
		r.Count("histories_with_bulk_route_tables_in_api_candidates", 1)
	}

	// interleaving signature: order in which applied candidates took effect + overlap degree
	sort.Slice(recs, func(i, j int) bool { return recs[i].call < recs[j].call })
	var applied []string
	overlap := 0
	for i, rc := range recs {
		if rc.out.Code == "applied" || (rc.in.Kind == "api-apply" && rc.out.Code == apiOK) {
			applied = append(applied, rc.in.Desc)
		}
		for j := i + 1; j < len(recs) && recs[j].call < rc.ret; j++ {
			overlap++
		}
		if rc.in.Kind != "api-apply" {
			continue
		}
		// what the API window saw: direct appliers that committed while this API apply was running
		r.Count("api_apply_calls", 1)
		direct := 0
		for _, o := range recs {
			if (o.in.Kind == "apply" || o.in.Kind == "applyif") && o.out.Code == "applied" && o.call < rc.ret && o.ret > rc.call {
				direct++
			}
		}
		if direct > 0 {
			r.Count("api_apply_calls_overlapped_by_a_direct_apply_that_committed", 1)
			switch {
			case rc.out.Code == apiOK:
				r.Count("api_apply_accepted_with_a_direct_commit_overlapping", 1)
			case rc.out.Code == apiFailedPrecondition && rc.in.ExpLabel == "last":
				r.Count("api_apply_rejected_as_stale_with_a_direct_commit_overlapping", 1)
			}
		}
	}
	r.Count("overlapping_call_pairs", overlap)
	return fmt.Sprintf("shape=%s g=%d ops=%d applied=%v codes=%v overlap=%d", shape, len(scripts), len(recs), applied, codes, overlap), len(recs), false
}

// classifyIllegal looks for the most specific explanation of a non-linearizable history.
func classifyIllegal(recs []rec, ops []porcupine.Operation, init state) string {
	if sig := classifyAPI(ops, init); sig != "" {
		return sig
	}
	// two successful conditional applies of different candidates on the same expected version
	byExp := map[string]map[string]bool{}
	for _, o := range ops {
		in, out := o.Input.(opIn), o.Output.(opOut)
		if in.Kind == "applyif" && out.Code == "applied" {
			if byExp[in.ExpKey] == nil {
				byExp[in.ExpKey] = map[string]bool{}
			}
			byExp[in.ExpKey][in.Cand] = true
		}
		if out.Code == "applied" && in.Class != clsRoute {
			return "history-not-linearizable-rejectable-candidate-applied-" + in.Class
		}
		if strings.HasPrefix(out.Code, "inconsistent") {
			return "history-not-linearizable-inconsistent-result-flags"
		}
		if out.Code == "prepare_failed" {
			return "history-not-linearizable-prepare-failed"
		}
	}
	for _, set := range byExp {
		if len(set) > 1 {
			return "history-not-linearizable-two-conditional-applies-won-on-one-version"
		}
	}
	for _, o := range ops {
		in, out := o.Input.(opIn), o.Output.(opOut)
		if (in.Kind == "snapshot" || in.Kind == "api-get") && out.Snap != out.VerKey {
			return "history-not-linearizable-snapshot-content-and-version-disagree"
		}
		if (out.Code == "applied" || out.Code == "unchanged") && out.VerKey != in.Cand {
			return "history-not-linearizable-result-version-is-not-the-candidates"
		}
	}
	return "history-not-linearizable"
}

func describe(recs []rec) []string {
	rs := append([]rec(nil), recs...)
	sort.Slice(rs, func(i, j int) bool { return rs[i].call < rs[j].call })
	out := make([]string, 0, len(rs))
	for _, rc := range rs {
		in, o := rc.in, rc.out
		s := fmt.Sprintf("c%d [%d,%d] %s", rc.client, rc.call, rc.ret, in.Kind)
		switch in.Kind {
		case "snapshot", "api-get":
			s += fmt.Sprintf(" -> %s content=%s version=%.12s", o.Code, o.Snap, o.Version)
		case "api-validate":
			s += fmt.Sprintf("(%s content=%s as %s) -> %s", in.Desc, in.Cand, in.Form, o.Code)
		case "api-apply":
			s += fmt.Sprintf("(%s content=%s as %s, if_match=%s:%.12s) -> %s version=%.12s", in.Desc, in.Cand, in.Form, in.ExpLabel, in.ExpRaw, o.Code, o.Version)
		case "routes":
			s += fmt.Sprintf(" -> routes=%s", o.Routes)
		default:
			s += fmt.Sprintf("(%s content=%s", in.Desc, in.Cand)
			if in.Kind == "applyif" {
				s += fmt.Sprintf(", expected=%s:%.12s", in.ExpLabel, in.ExpRaw)
			}
			s += fmt.Sprintf(") -> %s version=%.12s", o.Code, o.Version)
		}
		out = append(out, s)
	}
	return out
}

func TestC35(t *testing.T) {
	r := lib.Start(t, "C35")
	defer r.Finish()
	r.Rule("each case is one short concurrent history (<= 40 ops) on a real gate.New (Lite enabled, not started; reused for 25 histories): barrier-released clients with PRNG yields issue ConfigSnapshot / Java().Config() / ApplyLiveConfig / ApplyLiveConfigIfVersion and, through the in-process connect service of the config API, GetConfig / ValidateConfig / ApplyConfig with candidates {valid route change carrying an id unique in the history, invalid route set, valid non-route change, invalid+non-route, nil resp. undecodable payload, identical to the client's last snapshot}, API payload forms {full YAML document, full JSON document, JSON merge patch naming the route list, empty merge patch, garbage} and expected versions / if_match {last seen, older, initial, garbage, empty}. Shapes (deterministic walk): mixed (2-8 clients) and api-race (every 3rd history: client 0 opens with an API apply carrying a fresh if_match, 1-3 others open with a direct apply after PRNG-chosen busy work; every 2nd of those with a bulk route table of 40/100/200 routes in the API candidates). distinct = distinct (shape, scripts, order of applied candidates, result codes, number of overlapping call pairs)")
	r.Assume("porcupine v1.3.0 decides linearizability of each recorded history; call/return stamps come from one atomic counter at the client boundary")
	r.Assume("API operations are reduced to (connect code | ok, version string); GetConfig payloads are decoded by the harness with gopkg.in/yaml.v3 into Gate's configuration type; histories start from the YAML-normal form of the default configuration (its MOTD is the only member that changes when written as YAML and read back)")
	r.Assume("content = encoding/json document of the configuration value as marshalled by the harness; versions are opaque and only related to contents by what the API returned")

	n := r.N(320, 4000)
	workers := r.N(4, 12)
	var wg sync.WaitGroup
	var sigMu sync.Mutex
	sigs := map[string]struct{}{}
	var totalOps atomic.Int64
	for w := 0; w < workers; w++ {
		wg.Add(1)
		go func(w int) {
			defer wg.Done()
			rng := r.Rng(fmt.Sprintf("histories-%d", w))
			var g *gate.Gate
			var svc *apiClient
			onThisGate := 0
			for h := w; h < n; h += workers {
				hid := fmt.Sprintf("w%d-h%d", w, h)
				// deterministic shape walk: every 3rd history is an api-race, every 2nd of those (and
				// every 6th mixed one) carries bulk route tables in its API candidates
				shape, bulk := shapeMixed, 0
				if h%3 == 1 {
					shape = shapeAPIRace
				}
				if (shape == shapeAPIRace && h%2 == 0) || h%30 == 0 {
					bulk = []int{40, 100, 200}[(h/3)%3]
				}
				if g == nil || onThisGate >= 25 {
					var err error
					if g, err = gate.New(gate.Options{Config: initialConfig()}); err != nil {
						r.Inconclusive("gate.New failed: " + err.Error())
						g = nil
						continue
					}
					onThisGate = 0
					r.Count("gate_instances", 1)
				}
				if onThisGate == 0 {
					svc = newAPIClient(g)
				}
				onThisGate++
				sig, nops, bad := runHistory(r, rng, hid, g, svc, shape, bulk)
				r.Eval(1)
				if bad {
					g = nil // never let one defect cascade into the following histories
				}
				if bulk > 0 && g != nil {
					// between histories (not part of any): shrink the route table again, or every
					// snapshot of the following histories on this Gate would pay for it
					g.ApplyLiveConfig(mkCand(rng, clsRoute, 700+h%40).cfg)
				}
				if sig == "" {
					continue
				}
				totalOps.Add(int64(nops))
				r.Distinct(sig)
				sigMu.Lock()
				sigs[sig] = struct{}{}
				sigMu.Unlock()
				if r.WantSample() {
					r.Sample(map[string]any{"history": hid, "signature": sig})
				}
			}
		}(w)
	}
	wg.Wait()
	r.Set("api_yaml_documents_assembled_from_initial_document_and_routes_selftest_ok", yamlSplice().ok)
	r.Set("operations_recorded", totalOps.Load())
	r.Set("distinct_interleaving_signatures", len(sigs))
	verMu.Lock()
	r.Set("distinct_contents_with_known_version", len(versionOf))
	r.Set("content_version_pairs_rechecked_across_histories", crossHistory)
	verMu.Unlock()
}
