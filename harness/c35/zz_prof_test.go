package c35

import (
	"fmt"
	"sync"
	"time"
)

var (
	profMu sync.Mutex
	profD  = map[string]time.Duration{}
	profN  = map[string]int{}
)

func prof(name string, t0 time.Time) {
	d := time.Since(t0)
	profMu.Lock()
	profD[name] += d
	profN[name]++
	profMu.Unlock()
}

func profDump() {
	for k, d := range profD {
		fmt.Printf("PROF %-24s n=%6d total=%8.2fs avg=%7.2fms\n", k, profN[k], d.Seconds(), d.Seconds()*1000/float64(profN[k]))
	}
}
