package c35

// The config API as a second family of operations in C35's histories.
//
// Requests go through the in-process connect service (internal/api.Service, which delegates to
// gate.ConfigHandlerImpl) without any network. What an operation reports is reduced to the
// connect error code (or "ok") and the version string; documents returned by GetConfig are
// decoded by the harness with gopkg.in/yaml.v3 into Gate's configuration type (the same
// marshalers the direct path's contents are computed with, none of the version / equality /
// merge code under judgement).
//
// Payloads are produced from the very candidates the direct appliers use:
//
//	yaml   yaml.Marshal(candidate)
//	json   the same document as JSON with the YAML key names
//	patch  a JSON Merge Patch (RFC 7386): the difference of the candidate to the INITIAL
//	       configuration plus, always, the complete route list (arrays are replaced wholesale by
//	       a merge patch, so the result is "the configuration current at the linearisation point
//	       with these routes"; every reachable configuration differs from the initial one in
//	       routes only, so that result is the candidate itself whatever the current one is)
//	patch-noop  the empty patch {} : the result is the configuration current at that point
//	garbage     an undecodable payload / a document with an unknown key
//
// Model (apiApplyStep): see the package comment. Reading of the statement where it leaves
// latitude: WHICH rejection a request with several grounds for rejection gets is not fixed (the
// handler validates before it compares versions, Gate.ApplyLiveConfigIfVersion the other way
// round); with a single ground the code is fixed (stale or missing if_match / not route-only:
// failed_precondition resp. invalid_argument for a missing if_match; invalid or undecodable:
// invalid_argument).

import (
	"context"
	"encoding/json"
	"fmt"
	"maps"
	"math/rand"
	"reflect"
	"strings"
	"sync"

	"connectrpc.com/connect"
	"github.com/anishathalye/porcupine"
	"gopkg.in/yaml.v3"

	"go.minekube.com/gate/pkg/gate"
	gcfg "go.minekube.com/gate/pkg/gate/config"
	"go.minekube.com/gate/pkg/internal/api"
	pb "go.minekube.com/gate/pkg/internal/api/gen/minekube/gate/v1"
	"go.minekube.com/gate/pkg/util/configutil"
)

const (
	clsUndecodable = "undecodable"

	apiOK                 = "ok"
	apiFailedPrecondition = "failed_precondition"
	apiInvalidArgument    = "invalid_argument"
)

type apiClient struct{ svc *api.Service }

func newAPIClient(g *gate.Gate) *apiClient {
	return &apiClient{svc: api.NewService(g.Java(), gate.NewConfigHandler(g, ""))}
}

func apiCode(err error) string {
	if err == nil {
		return apiOK
	}
	return connect.CodeOf(err).String()
}

func (c *apiClient) get() (*gcfg.Config, string, string) {
	resp, err := c.svc.GetConfig(context.Background(), connect.NewRequest(&pb.GetConfigRequest{}))
	if err != nil {
		return nil, "", apiCode(err)
	}
	var cfg gcfg.Config
	if err := yaml.Unmarshal([]byte(resp.Msg.GetPayload()), &cfg); err != nil {
		return nil, resp.Msg.GetVersion(), "undecodable-payload:" + err.Error()
	}
	return &cfg, resp.Msg.GetVersion(), apiOK
}

func (c *apiClient) validate(payload string) string {
	_, err := c.svc.ValidateConfig(context.Background(), connect.NewRequest(&pb.ValidateConfigRequest{Config: payload}))
	return apiCode(err)
}

func (c *apiClient) apply(payload string, patch bool, ifMatch string) (code, version string) {
	req := &pb.ApplyConfigRequest{IfMatch: ifMatch}
	if patch {
		req.Input = &pb.ApplyConfigRequest_MergePatch{MergePatch: payload}
	} else {
		req.Input = &pb.ApplyConfigRequest_Config{Config: payload}
	}
	resp, err := c.svc.ApplyConfig(context.Background(), connect.NewRequest(req))
	if err != nil {
		return apiCode(err), ""
	}
	return apiOK, resp.Msg.GetVersion()
}

// ---- payloads ---------------------------------------------------------------------------------

// yamlNormalMotd is the default MOTD after one pass through YAML. The default configuration's
// MOTD is the only member whose encoding/json document changes when the configuration is written
// as YAML and read back (adjacent parts of equal colour are merged by the legacy-text codec; a
// second pass changes nothing). Every configuration Gate ever holds in production has been read
// from YAML, and a document that went through the API has, too; the histories therefore start
// from the YAML-normal form, so that "differs in Lite routes only" means the same thing for a
// candidate handed over as a value and for the same candidate handed over as a document.
var yamlNormalMotd = sync.OnceValue(func() *configutil.Component {
	c := gcfg.DefaultConfig
	b, err := yaml.Marshal(&c)
	if err != nil {
		panic(err)
	}
	var o gcfg.Config
	if err := yaml.Unmarshal(b, &o); err != nil {
		panic(err)
	}
	return o.Config.Status.Motd
})

// tree is the configuration as a generic document with the YAML key names.
func tree(c *gcfg.Config) map[string]any {
	b, err := yaml.Marshal(c)
	if err != nil {
		panic(err)
	}
	var v map[string]any
	if err := yaml.Unmarshal(b, &v); err != nil {
		panic(err)
	}
	return v
}

// mergeDiff returns the RFC 7386 patch that turns from into to (nil if they are equal).
func mergeDiff(from, to any) (any, bool) {
	fo, fok := from.(map[string]any)
	t, tok := to.(map[string]any)
	if !fok || !tok {
		if reflect.DeepEqual(from, to) {
			return nil, false
		}
		return to, true
	}
	out := map[string]any{}
	for k, tv := range t {
		fv, has := fo[k]
		if !has {
			out[k] = tv
			continue
		}
		if d, changed := mergeDiff(fv, tv); changed {
			out[k] = d
		}
	}
	for k := range fo {
		if _, has := t[k]; !has {
			out[k] = nil
		}
	}
	return out, len(out) > 0
}

var initialTree = tree(initialConfig())

// routesTree is the generic document of a route list (YAML key names).
func routesTree(c *gcfg.Config) any {
	b, err := yaml.Marshal(c.Config.Lite.Routes)
	if err != nil {
		panic(err)
	}
	var v any
	if err := yaml.Unmarshal(b, &v); err != nil {
		panic(err)
	}
	if v == nil {
		return []any{}
	}
	return v
}

// initRoutesOnly reports whether the candidate is, by construction (mkCand), the initial
// configuration with another route list. Its documents can then be assembled from the initial
// configuration's document and the document of the routes alone, which is much cheaper under the
// race detector than encoding the whole configuration for every request.
func initRoutesOnly(cd cand) bool {
	return (cd.class == clsRoute || cd.class == clsInvalid) && cd.desc != "identical-to-last-seen"
}

// yamlSplice holds the initial configuration's YAML document cut around the block of
// config.lite.routes; ok=false (fall back to encoding the whole value) unless a self-test showed
// that the spliced document decodes to exactly the candidate for every route shape.
var yamlSplice = sync.OnceValue(func() (sp struct {
	head, tail, indent string
	ok                 bool
}) {
	b, err := yaml.Marshal(initialConfig())
	if err != nil {
		return
	}
	lines := strings.SplitAfter(string(b), "\n")
	at := -1
	for i, l := range lines {
		if strings.TrimSpace(l) == "routes:" && i > 0 {
			// the one below config.lite: the next line is the first list item, indented deeper
			ind := l[:len(l)-len(strings.TrimLeft(l, " "))]
			if i+1 < len(lines) && strings.HasPrefix(lines[i+1], ind+" ") && strings.HasPrefix(strings.TrimLeft(lines[i+1], " "), "- host:") {
				if at >= 0 {
					return // ambiguous
				}
				at = i
			}
		}
	}
	if at < 0 {
		return
	}
	keyIndent := lines[at][:len(lines[at])-len(strings.TrimLeft(lines[at], " "))]
	itemIndent := lines[at+1][:len(lines[at+1])-len(strings.TrimLeft(lines[at+1], " "))]
	end := at + 1
	for end < len(lines) && strings.HasPrefix(lines[end], itemIndent) {
		end++
	}
	sp.head = strings.Join(lines[:at], "") + keyIndent + "routes:"
	sp.tail = strings.Join(lines[end:], "")
	sp.indent = itemIndent
	sp.ok = true
	// self-test over all route shapes, an empty list and a mutilated route
	rng := rand.New(rand.NewSource(1))
	for uid := 0; uid < 12 && sp.ok; uid++ {
		for _, cls := range []string{clsRoute, clsInvalid} {
			cd := mkCand(rng, cls, uid, uid%3)
			var back gcfg.Config
			if err := yaml.Unmarshal([]byte(splicedYAML(sp.head, sp.tail, sp.indent, cd.cfg)), &back); err != nil || keyOf(&back) != cd.key {
				sp.ok = false
			}
		}
	}
	return
})

func splicedYAML(head, tail, indent string, c *gcfg.Config) string {
	if len(c.Config.Lite.Routes) == 0 {
		return head + " []\n" + tail
	}
	b, err := yaml.Marshal(c.Config.Lite.Routes)
	if err != nil {
		panic(err)
	}
	var sb strings.Builder
	sb.Grow(len(head) + len(tail) + 2*len(b))
	sb.WriteString(head)
	sb.WriteString("\n")
	for _, l := range strings.SplitAfter(string(b), "\n") {
		if l != "" {
			sb.WriteString(indent)
			sb.WriteString(l)
		}
	}
	sb.WriteString(tail)
	return sb.String()
}

func apiPayload(rng *rand.Rand, cd cand, form string) (payload string, isPatch bool) {
	switch form {
	case "yaml":
		if sp := yamlSplice(); sp.ok && initRoutesOnly(cd) {
			return splicedYAML(sp.head, sp.tail, sp.indent, cd.cfg), false
		}
		b, err := yaml.Marshal(cd.cfg)
		if err != nil {
			panic(err)
		}
		return string(b), false
	case "json":
		var doc any
		if initRoutesOnly(cd) {
			// the initial document with the routes exchanged (copied along the path only)
			top := maps.Clone(initialTree)
			cfgNode := maps.Clone(top["config"].(map[string]any))
			liteNode := maps.Clone(cfgNode["lite"].(map[string]any))
			liteNode["routes"] = routesTree(cd.cfg)
			cfgNode["lite"] = liteNode
			top["config"] = cfgNode
			doc = top
		} else {
			doc = tree(cd.cfg)
		}
		b, err := json.Marshal(doc)
		if err != nil {
			panic(err)
		}
		return string(b), false
	case "patch":
		patch := map[string]any{}
		// candidates of the route / invalid classes are the initial configuration with other
		// routes by construction (mkCand); everything else is compared member by member
		if !initRoutesOnly(cd) {
			if d, changed := mergeDiff(initialTree, tree(cd.cfg)); changed {
				patch, _ = d.(map[string]any)
			}
		}
		// always name the complete route list
		cfgNode, _ := patch["config"].(map[string]any)
		if cfgNode == nil {
			cfgNode = map[string]any{}
			patch["config"] = cfgNode
		}
		liteNode, _ := cfgNode["lite"].(map[string]any)
		if liteNode == nil {
			liteNode = map[string]any{}
			cfgNode["lite"] = liteNode
		}
		liteNode["routes"] = routesTree(cd.cfg)
		b, err := json.Marshal(patch)
		if err != nil {
			panic(err)
		}
		return string(b), true
	case "patch-noop":
		return []string{`{}`, `{"config":{}}`, `{"config":{"lite":{}}}`, ` {"config": {"lite": {"nonexistent-key-removed": null}}} `}[rng.Intn(4)], true
	default: // garbage
		k := rng.Intn(6)
		switch k {
		case 0:
			return `{"config":{"lite":{"routes":[`, true
		case 1:
			return `{"config":{"lite":{"routes":"not-a-list"}}}`, true
		case 2:
			return `{"config":{"noSuchSetting":true}}`, true
		case 3:
			return "config: [unclosed", false
		case 4:
			return "config:\n  noSuchSetting: true\n", false
		default:
			return "config:\n  bind: 127.0.0.1:25565\n---\nconfig:\n  bind: 127.0.0.1:25565\n", false
		}
	}
}

// ---- model ------------------------------------------------------------------------------------

func apiValidateOK(i opIn, o opOut) bool {
	switch i.Class {
	case clsInvalid, clsBoth, clsUndecodable:
		// rejected; with which code is not the property's business (an undecodable document is
		// answered with code "unknown" by ValidateConfig and "invalid_argument" by ApplyConfig)
		return o.Code != apiOK
	default: // a valid document, route-only or not: validation does not care what can be reloaded
		return o.Code == apiOK
	}
}

// apiApplyStep is the sequential specification of ApplyConfig. relax != 0 is NOT part of the
// oracle: classifyAPI uses the weaker specifications to name a non-linearizable history.
//
//	relaxPatchBase  if_match must be current, but a merge patch may have been evaluated against
//	                an earlier configuration than the one current at the linearisation point
//	relaxVersion    additionally an apply may commit although its if_match is not current
const (
	relaxNone = iota
	relaxPatchBase
	relaxVersion
)

func apiApplyStep(s state, i opIn, o opOut, relax int) (bool, any) {
	relaxed := relax == relaxVersion
	var grounds []string
	if i.ExpRaw == "" {
		grounds = append(grounds, apiInvalidArgument) // if_match is required
	} else if i.ExpKey != s.C && !relaxed {
		grounds = append(grounds, apiFailedPrecondition)
	}
	switch i.Class {
	case clsInvalid, clsUndecodable:
		grounds = append(grounds, apiInvalidArgument)
	case clsOther:
		grounds = append(grounds, apiFailedPrecondition)
	case clsBoth:
		grounds = append(grounds, apiInvalidArgument, apiFailedPrecondition)
	}
	if relaxed && o.Code == apiFailedPrecondition && i.ExpRaw != "" {
		return true, s // rejected as stale at whatever point the version was looked at
	}
	if len(grounds) > 0 {
		for _, g := range grounds {
			if o.Code == g {
				return true, s
			}
		}
		return false, s
	}
	if o.Code != apiOK {
		return false, s
	}
	if relax != relaxNone {
		// the empty patch may have been evaluated against an earlier configuration (the routes key
		// of that one is unknown to this two-key model; it is only used by "routes" reads)
		if i.Noop {
			return true, state{o.VerKey, relaxedRoutes}
		}
		return o.VerKey == i.Cand, state{i.Cand, i.CandR}
	}
	cand, candR := i.Cand, i.CandR
	if i.Noop {
		cand, candR = s.C, s.R
	}
	if o.VerKey != cand {
		return false, s
	}
	return true, state{cand, candR}
}

const relaxedRoutes = "?relaxed"

// classifyAPI names a non-linearizable history in which API applies took part, by the weakest of
// the relaxed specifications (see apiApplyStep) under which the history IS linearizable.
func classifyAPI(ops []porcupine.Operation, init state) string {
	apiAccepted := false
	for _, o := range ops {
		if in := o.Input.(opIn); in.Kind == "api-apply" && o.Output.(opOut).Code == apiOK {
			apiAccepted = true
		}
	}
	if !apiAccepted {
		return ""
	}
	for _, lvl := range []struct {
		relax int
		sig   string
	}{
		{relaxPatchBase, "history-not-linearizable-api-merge-patch-evaluated-against-an-earlier-configuration"},
		{relaxVersion, "history-not-linearizable-api-apply-committed-although-if-match-was-not-current"},
	} {
		m := model
		m.Init = func() any { return init }
		strict := model.Step
		m.Step = func(st, in, out any) (bool, any) {
			s, i, o := st.(state), in.(opIn), out.(opOut)
			if i.Kind == "api-apply" {
				return apiApplyStep(s, i, o, lvl.relax)
			}
			if i.Kind == "routes" && s.R == relaxedRoutes {
				return true, s
			}
			return strict(st, in, out)
		}
		if porcupine.CheckOperations(m, ops) {
			return lvl.sig
		}
	}
	return "history-not-linearizable-with-api-applies"
}

// spin is PRNG-chosen busy work (a count, not a duration) in front of a call.
func spin(n int) {
	x := uint64(88172645463325252)
	for i := 0; i < n*50; i++ {
		x ^= x << 13
		x ^= x >> 7
		x ^= x << 17
	}
	if x == 0 {
		fmt.Print("")
	}
}
