// C19: the server address the proxy sends to a backend.
//
//   - forwarding none / velocity (and any mode when the target server brings its own
//     HandshakeAddresser, which by Gate's documented contract replaces the forwarding scheme):
//     the first NUL-separated part of the address is the player's virtual host, for every
//     client type, Forge marker and address hook that appends.
//   - legacy / BungeeGuard forwarding: the address is exactly
//     backendAddr NUL playerIP NUL undashedUUID NUL json(properties [+extraData] [+token])
//     as a BungeeCord-style backend parses it (split on NUL into exactly 4, JSON array of
//     {name,value,signature}).
//
// Observation points (through verif_hooks_c19.go, which only constructs and calls):
//
//	client Handshake -> real handshakeSessionHandler.handleHandshake (derives the connection
//	type and the stored virtual host) -> real serverConnection.startHandshake on a recording
//	backend connection -> the Handshake packet buffered for the backend. A second stream calls
//	serverConnection.handshakeAddr directly with arbitrary vHost strings and forced types.
//
// The oracle (reference constructor + parser below) imports no Gate code.
package c19

import (
	"encoding/hex"
	"encoding/json"
	"errors"
	"fmt"
	"math/rand"
	"net"
	"net/netip"
	"strings"
	"testing"

	"go.minekube.com/gate/pkg/edition/java/config"
	"go.minekube.com/gate/pkg/edition/java/lite"
	"go.minekube.com/gate/pkg/edition/java/profile"
	"go.minekube.com/gate/pkg/edition/java/proto/packet"
	"go.minekube.com/gate/pkg/edition/java/proto/version"
	"go.minekube.com/gate/pkg/edition/java/proxy"
	"go.minekube.com/gate/pkg/edition/java/proxy/phase"
	"go.minekube.com/gate/pkg/edition/java/proxy/verifh/lib"
	"go.minekube.com/gate/pkg/gate/proto"
	"go.minekube.com/gate/pkg/util/netutil"
	"go.minekube.com/gate/pkg/util/uuid"
)

// ---- reference ---------------------------------------------------------------------------

func firstPart(s string) string {
	if i := strings.IndexByte(s, 0); i >= 0 {
		return s[:i]
	}
	return s
}

// refClear is what a downstream Gate Lite extracts as the routing host: the first NUL part,
// without a TCPShield "///" payload and surrounding dots.
func refClear(s string) string {
	s = firstPart(s)
	if i := strings.Index(s, "///"); i >= 0 {
		s = s[:i]
	}
	return strings.Trim(s, ".")
}

type refProp struct {
	Name      string  `json:"name"`
	Value     string  `json:"value"`
	Signature *string `json:"signature"`
}

// parseBungee parses a forwarded address the way a BungeeCord-aware backend does.
func parseBungee(addr string) (parts []string, props []refProp, err error) {
	parts = strings.Split(addr, "\x00")
	if len(parts) != 4 {
		return parts, nil, fmt.Errorf("%d NUL-separated parts, want 4", len(parts))
	}
	dec := json.NewDecoder(strings.NewReader(parts[3]))
	var raw any
	if err := dec.Decode(&raw); err != nil {
		return parts, nil, fmt.Errorf("properties are not JSON: %w", err)
	}
	if dec.More() {
		return parts, nil, errors.New("trailing data after the JSON property list")
	}
	if raw == nil {
		return parts, nil, nil // JSON null: Gson yields a null Property[]
	}
	if _, ok := raw.([]any); !ok {
		return parts, nil, errors.New("properties are not a JSON array")
	}
	if err := json.Unmarshal([]byte(parts[3]), &props); err != nil {
		return parts, nil, fmt.Errorf("properties are not a list of {name,value,signature}: %w", err)
	}
	return parts, props, nil
}

// ---- generators --------------------------------------------------------------------------

var baseHosts = []string{
	"play.example.org", "mc.hypixel.net", "localhost", "LOBBY.Example.COM", "a", "survival", "play.example.org.",
	"xn--mnchen-3ya.de", "192.168.1.20", "10.0.0.5", "FORGE.example.com", "example.com.FORGE", "fml.example.com",
	"sub.sub2.sub3.example.co.uk", "münchen.example", "host_with_underscore.lan", "a-b-c.d", "1.1.1.1", "0",
	strings.Repeat("a", 63) + ".example.com", strings.Repeat("longlabel.", 20) + "net",
}

var colonHosts = []string{
	"::1", "2001:db8::5", "fe80::1%eth0", "::ffff:10.0.0.1", "2001:db8:0:0:0:0:0:1", "play.example.org:25565",
	"play.example.org///203.0.113.9:51000///1700000000", "::", "[::1]",
}

var suffixes = []string{
	"", "", "", "\x00FML\x00", "\x00FML2\x00", "\x00FML3\x00", "\x00FORGE", "\x00FORGE2", "\x00FORGE12", "\x00FORGEx",
	"\x00FML\x00\x00extra", "\x00something", "\x00FML3\x00\x00more\x00parts", "\x00", "\x00\x00", "\x00FML2\x00FORGE",
	"\x00fml\x00", "\x00FML", "\x00FML3", "\x00floodgate-data-0123456789abcdef", "\x00FORGE\x00tail",
}

type hostCase struct {
	Addr  string // what the client put into Handshake.ServerAddress
	Class string
}

func genHost(rng *rand.Rand) hostCase {
	var h hostCase
	switch k := rng.Intn(20); {
	case k == 0:
		h = hostCase{"", "empty"}
	case k <= 3:
		h = hostCase{colonHosts[rng.Intn(len(colonHosts))], "colon"}
	case k == 4:
		// random printable label soup
		n := 1 + rng.Intn(40)
		b := make([]byte, n)
		const al = "abcdefghijklmnopqrstuvwxyzABCDEFGHIJKLMNOPQRSTUVWXYZ0123456789-_."
		for i := range b {
			b[i] = al[rng.Intn(len(al))]
		}
		h = hostCase{string(b), "random"}
	default:
		h = hostCase{baseHosts[rng.Intn(len(baseHosts))], "name"}
	}
	suf := suffixes[rng.Intn(len(suffixes))]
	if suf != "" {
		h.Class += "+nul"
	}
	h.Addr += suf
	return h
}

// protocols the proxy accepts (input data: the list of supported versions)
var protocols = func() (ps []int) {
	for _, v := range version.SupportedVersions {
		ps = append(ps, int(v.Protocol))
	}
	return
}()

var propNames = []string{"textures", "extraData", "bungeeguard-token", "forgeClient", "x", "", "näme", "with\"quote", "with\x00nul"}
var propValues = []string{"", "ewogICJ0aW1lc3RhbXAiIDogMTcwMDAwMDAwMDAwMCwKfQ==", "plain", "quo\"te", "back\\slash", "nul\x00inside", "\x01FML\x00",
	"<html>&amp;</html>", "line\nbreak\ttab", "ünïcödé ✓ 🎮", "  ", "[{\"name\":\"inj\"}]", "]", "null", strings.Repeat("A", 600)}

func genProps(rng *rand.Rand) []profile.Property {
	switch rng.Intn(8) {
	case 0:
		return nil
	case 1:
		return []profile.Property{}
	case 2:
		return []profile.Property{{Name: "textures", Value: propValues[1], Signature: "c2lnbmF0dXJl"}}
	}
	n := 1 + rng.Intn(4)
	ps := make([]profile.Property, 0, n+rng.Intn(3)) // spare capacity: appends must not leak into the profile
	for i := 0; i < n; i++ {
		p := profile.Property{Name: propNames[rng.Intn(len(propNames))], Value: propValues[rng.Intn(len(propValues))]}
		if rng.Intn(2) == 0 {
			p.Signature = propValues[rng.Intn(len(propValues))]
		}
		ps = append(ps, p)
	}
	return ps
}

type remoteCase struct {
	Addr net.Addr
	IP   string // the textual IP a backend must receive
}

func genRemote(rng *rand.Rand) remoteCase {
	port := uint16(1024 + rng.Intn(60000))
	var a netip.Addr
	switch rng.Intn(6) {
	case 0, 1:
		a = netip.AddrFrom4([4]byte{byte(1 + rng.Intn(223)), byte(rng.Intn(256)), byte(rng.Intn(256)), byte(rng.Intn(256))})
	case 2:
		var b [16]byte
		rng.Read(b[:])
		b[0] = 0x20
		a = netip.AddrFrom16(b)
	case 3:
		a = netip.MustParseAddr("::1")
	case 4:
		a = netip.MustParseAddr("fe80::1").WithZone([]string{"eth0", "1", "wlan0"}[rng.Intn(3)])
	default: // IPv4-mapped, as a dual-stack listener reports IPv4 peers in 16-byte form
		a = netip.AddrFrom16(netip.AddrFrom4([4]byte{10, byte(rng.Intn(256)), byte(rng.Intn(256)), byte(1 + rng.Intn(254))}).As16())
	}
	ta := net.TCPAddrFromAddrPort(netip.AddrPortFrom(a, port))
	return remoteCase{Addr: ta, IP: a.Unmap().String()}
}

var backendAddrs = []string{"10.0.0.1:25566", "127.0.0.1:25565", "[2001:db8::1]:25565", "backend.local:25565", "lobby:30000", "backend-without-port"}

// host part of each backend address, by construction
var backendHosts = map[string]string{"10.0.0.1:25566": "10.0.0.1", "127.0.0.1:25565": "127.0.0.1", "[2001:db8::1]:25565": "2001:db8::1",
	"backend.local:25565": "backend.local", "lobby:30000": "lobby", "backend-without-port": "backend-without-port"}

// serverInfo variants: plain, or with a HandshakeAddresser that keeps the host as prefix.
type appendingServer struct {
	proxy.ServerInfo
	suffix string
	calls  *int
	got    *string
}

func (a appendingServer) HandshakeAddr(def string, _ proxy.Player) string {
	*a.calls++
	*a.got = def
	return def + a.suffix
}

type backendAddresser struct {
	suffix string
	err    error
	calls  int
	got    string
}

func (b *backendAddresser) BackendHandshakeAddr(def string, _ proxy.Player, _ proxy.RegisteredServer) (string, error) {
	b.calls++
	b.got = def
	if b.err != nil {
		return "", b.err
	}
	return def + b.suffix, nil
}

var forcedTypes = map[string]phase.ConnectionType{
	"vanilla": phase.Vanilla, "legacyforge": phase.LegacyForge, "modernforge": phase.ModernForge,
	"undetermined": phase.Undetermined, "undetermined17": phase.Undetermined17,
}

func typeName(t phase.ConnectionType) string {
	for n, v := range forcedTypes {
		if v == t {
			return n
		}
	}
	return "other"
}

var modes = []config.ForwardingMode{config.NoneForwardingMode, config.VelocityForwardingMode, config.LegacyForwardingMode, config.BungeeGuardForwardingMode}

type caseDesc struct {
	Stream      string `json:"stream"`
	Mode        string `json:"mode"`
	ClientHost  string `json:"client_host"`
	ClientPort  int    `json:"client_port"`
	Protocol    int    `json:"protocol"`
	ConnType    string `json:"conn_type"`
	ForcedType  bool   `json:"forced_type"`
	VHostArg    string `json:"vhost_arg,omitempty"`
	Remote      string `json:"remote"`
	Backend     string `json:"backend"`
	ServerHook  string `json:"server_hook"`
	BackendHook string `json:"backend_hook"`
	Props       any    `json:"props"`
	Secret      string `json:"secret,omitempty"`
	Got         string `json:"got,omitempty"`
	Err         string `json:"err,omitempty"`
}

func TestC19(t *testing.T) {
	r := lib.Start(t, "C19")
	defer r.Finish()
	r.Rule("each case is one backend connection attempt: (client ServerAddress incl. NUL parts/Forge tokens/IPv6 or colon hosts, port, protocol) fed to the real handleHandshake, then (forwarding mode, remote address, backend address, profile properties, optional ServerInfo HandshakeAddresser / BackendHandshakeAddresser that append or error, optionally a forced connection type) fed to the real startHandshake (stream A) or handshakeAddr with an arbitrary vHost string (stream B); the address produced is judged by the reference constructor/BungeeCord-style parser; distinct = distinct full case description")
	r.Assume("verif_hooks_c19.go only builds the minimal Proxy/connectedPlayer/serverConnection over a recording MinecraftConn and calls handleHandshake/startHandshake/handshakeAddr unchanged")
	r.Assume("the 'backend address' of the statement is ServerInfo.Addr().String(); the player's IP is the unmapped textual IP (with zone) of the player's remote address")
	r.Assume("R: an empty property list may be encoded as JSON null (Gson reads it as no properties); a Forge player may carry one additional extraData property (BungeeForge); absent and empty signature are the same; a ServerInfo that implements HandshakeAddresser replaces the forwarding scheme (documented on the interface) and is then judged by the first-part rule; a wholly empty client host is replaced by the backend host (no virtual host to preserve)")

	n := r.N(30000, 1000000)
	rng := r.Rng("cases")
	classes := map[string]int{}
	for i := 0; i < n; i++ {
		mode := modes[rng.Intn(len(modes))]
		h := genHost(rng)
		port := []int{25565, 25565, 25577, 1, 65535, 2556, 443}[rng.Intn(7)]
		protocol := protocols[rng.Intn(len(protocols))]
		rem := genRemote(rng)
		backend := backendAddrs[rng.Intn(len(backendAddrs))]
		props := genProps(rng)
		secret := []string{"s3cr3t", "", "with\"quote", "tok\x00en", "ünï"}[rng.Intn(5)]
		cfg := &config.Config{Forwarding: config.Forwarding{Mode: mode, BungeeGuardSecret: secret, VelocitySecret: "v"}}
		id := uuid.UUID{}
		rng.Read(id[:])
		prof := &profile.GameProfile{ID: id, Name: "Player" + fmt.Sprint(rng.Intn(100)), Properties: props}
		propsBefore := append([]profile.Property(nil), props...)

		desc := caseDesc{Mode: string(mode), ClientHost: h.Addr, ClientPort: port, Protocol: protocol, Remote: rem.Addr.String(), Backend: backend, Props: props, Secret: secret}

		// server info + hooks
		var si proxy.ServerInfo = proxy.NewServerInfo("backend", netutil.NewAddr(backend, "tcp"))
		serverCalls, serverGot := 0, ""
		serverHook := ""
		if rng.Intn(5) == 0 {
			serverHook = []string{"", "\x00connect-session-token", "\x00a\x00b"}[rng.Intn(3)]
			si = appendingServer{ServerInfo: si, suffix: serverHook, calls: &serverCalls, got: &serverGot}
			desc.ServerHook = fmt.Sprintf("append %q", serverHook)
		}
		var ba *backendAddresser
		if rng.Intn(4) == 0 {
			ba = &backendAddresser{suffix: []string{"", "\x00floodgate-encrypted-data", "\x00x\x00y\x00"}[rng.Intn(3)]}
			desc.BackendHook = fmt.Sprintf("append %q", ba.suffix)
			if rng.Intn(6) == 0 {
				ba.err = errors.New("encode failed")
				desc.BackendHook = "error"
			}
		}

		// --- client handshake through the real handler
		hs := &packet.Handshake{ProtocolVersion: protocol, ServerAddress: h.Addr, Port: port, NextStatus: 2}
		r.LogCase(desc)
		connType, vhost, refused := proxy.VerifC19ClientHandshake(cfg, hs, "tcp")
		if refused {
			// velocity mode refuses < 1.13; nothing reaches a backend
			r.Count("client_handshake_refused", 1)
			if !(mode == config.VelocityForwardingMode && protocol < 393) {
				r.Count("client_handshake_refused_unexpected", 1)
			}
			continue
		}
		if connType == nil {
			connType = phase.Undetermined
		}
		if rng.Intn(3) == 0 {
			names := []string{"vanilla", "legacyforge", "modernforge", "undetermined", "undetermined17"}
			connType = forcedTypes[names[rng.Intn(len(names))]]
			desc.ForcedType = true
		}
		desc.ConnType = typeName(connType)

		spec := proxy.VerifC19Spec{Config: cfg, Remote: rem.Addr, Protocol: proto.Protocol(protocol), ConnType: connType,
			VirtualHost: vhost, Profile: prof, Server: si}
		if ba != nil {
			spec.BackendAddresser = ba
		}

		var got string
		var err error
		clientHostForOracle := h.Addr
		streamB := rng.Intn(4) == 0
		if streamB {
			desc.Stream = "handshakeAddr"
			// arbitrary vHost argument, independent of how the virtual host was stored
			arg := genHost(rng).Addr
			if arg == "" {
				arg = "h"
			}
			desc.VHostArg = arg
			clientHostForOracle = arg
			got, err = proxy.VerifC19HandshakeAddr(spec, arg)
		} else {
			desc.Stream = "startHandshake"
			var out *packet.Handshake
			out, err = proxy.VerifC19StartHandshake(spec)
			if err == nil {
				if out == nil {
					r.Eval(1)
					r.Violation("no-handshake-buffered", "startHandshake returned no error but buffered no Handshake for the backend", desc)
					continue
				}
				got = out.ServerAddress
				if out.ProtocolVersion != protocol || out.NextStatus != 2 {
					r.Violation("backend-handshake-protocol-or-state", fmt.Sprintf("backend handshake carries protocol %d next %d, client had %d", out.ProtocolVersion, out.NextStatus, protocol), desc)
				}
			}
		}
		r.Eval(1)
		desc.Got = got
		if err != nil {
			desc.Err = err.Error()
		}

		forwarding := (mode == config.LegacyForwardingMode || mode == config.BungeeGuardForwardingMode) && desc.ServerHook == ""
		isForge := connType == phase.LegacyForge || connType == phase.ModernForge
		class := fmt.Sprintf("%s/%s/%s/srvhook=%v/behook=%v", desc.Stream, mode, desc.ConnType, desc.ServerHook != "", desc.BackendHook != "")
		classes[class]++
		r.Distinct(fmt.Sprintf("%+v", desc))

		// profile must not be modified by address construction
		if len(prof.Properties) != len(propsBefore) {
			r.Violation("profile-properties-modified", "address construction changed the player's profile property list", desc)
		} else {
			for k := range propsBefore {
				if prof.Properties[k] != propsBefore[k] {
					r.Violation("profile-properties-modified", "address construction changed the player's profile property list", desc)
					break
				}
			}
		}

		if forwarding {
			// ---- clause 2: exact BungeeCord format
			if err != nil {
				r.Violation("forwarding-address-error", "legacy/BungeeGuard forwarding returned an error instead of an address", desc)
				continue
			}
			if ba != nil && ba.calls > 0 {
				r.Count("backend_addresser_called_in_forwarding_mode", 1)
			}
			parts, gotProps, perr := parseBungee(got)
			if perr != nil {
				sig := "forwarding-properties-not-a-json-list"
				if len(parts) != 4 {
					sig = "forwarding-address-not-4-nul-parts"
				}
				r.Violation(sig+"-"+string(mode), "forwarded address is not parseable by a BungeeCord backend: "+perr.Error(), desc)
				continue
			}
			if parts[0] != backend {
				r.Violation("forwarding-backend-address-part", fmt.Sprintf("part 0 is %q, backend address is %q", parts[0], backend), desc)
			}
			if parts[1] != rem.IP {
				r.Violation("forwarding-player-ip-part", fmt.Sprintf("part 1 is %q, player IP is %q", parts[1], rem.IP), desc)
			}
			if parts[2] != hex.EncodeToString(id[:]) {
				r.Violation("forwarding-uuid-part", fmt.Sprintf("part 2 is %q, undashed UUID is %q", parts[2], hex.EncodeToString(id[:])), desc)
			}
			// expected list: profile properties in order, then optionally extraData (Forge), then the token
			rest := gotProps
			bad := ""
			for k, p := range propsBefore {
				if len(rest) == 0 {
					bad = fmt.Sprintf("property %d missing", k)
					break
				}
				g := rest[0]
				rest = rest[1:]
				sig := ""
				if g.Signature != nil {
					sig = *g.Signature
				}
				if g.Name != p.Name || g.Value != p.Value || sig != p.Signature {
					bad = fmt.Sprintf("property %d is {%q,%q,%q}, want {%q,%q,%q}", k, g.Name, g.Value, sig, p.Name, p.Value, p.Signature)
					break
				}
			}
			if bad == "" && isForge && len(rest) > 0 && rest[0].Name == "extraData" &&
				(strings.HasPrefix(rest[0].Value, "\x01FML") || strings.HasPrefix(rest[0].Value, "\x01FORGE")) {
				rest = rest[1:]
				r.Count("forge_extraData_property_seen", 1)
			}
			if bad != "" {
				r.Violation("forwarding-properties-differ", "forwarded property list differs from the player's profile: "+bad, desc)
				continue
			}
			if mode == config.BungeeGuardForwardingMode {
				if len(rest) != 1 || rest[0].Name != "bungeeguard-token" || rest[0].Value != secret {
					r.Violation("bungeeguard-token-missing-or-wrong", fmt.Sprintf("after the profile properties the list holds %d entries; want exactly the bungeeguard-token with the configured secret", len(rest)), desc)
				} else {
					r.Count("bungeeguard_token_verified", 1)
				}
			} else if len(rest) != 0 {
				r.Violation("forwarding-extra-properties", fmt.Sprintf("%d unexpected extra properties forwarded", len(rest)), desc)
			}
			if len(propsBefore) == 0 && mode == config.LegacyForwardingMode && parts[3] == "null" {
				r.Count("empty_list_encoded_as_json_null", 1)
			}
			r.Count("forwarding_addresses_parsed", 1)
		} else {
			// ---- clause 1: the host stays the first NUL part
			usesBackendHook := ba != nil && !((mode == config.LegacyForwardingMode || mode == config.BungeeGuardForwardingMode) && desc.ServerHook == "")
			if err != nil {
				if usesBackendHook && ba.err != nil {
					r.Count("backend_addresser_error_propagated", 1)
				} else {
					r.Violation("handshake-address-error", "address construction failed without a failing hook: "+err.Error(), desc)
				}
				continue
			}
			if usesBackendHook && ba.err != nil {
				r.Violation("backend-addresser-error-swallowed", "the BackendHandshakeAddresser failed but an address was produced", desc)
				continue
			}
			want := firstPart(clientHostForOracle)
			substituted := false
			if !streamB && h.Addr == "" {
				// no virtual host at all: Gate substitutes the backend host
				r.Count("empty_client_host_substituted", 1)
				substituted = true
				want = backendHosts[backend]
			}
			gotFirst := firstPart(got)
			switch {
			case gotFirst != want:
				// one signature per way the host got lost; consequences of a lost host (hooks
				// receiving it) are not reported separately
				sig := "host-first-part-differs"
				switch {
				case substituted:
					sig = "empty-client-host-not-replaced-by-backend-host"
				case !streamB && gotFirst == want+fmt.Sprintf(":%d", port):
					sig = "host-first-part-has-client-port-appended"
				case strings.HasPrefix(want, "[") && gotFirst == strings.Trim(want, "[]"):
					sig = "host-first-part-brackets-stripped"
				case isForge && (gotFirst == "" || strings.HasPrefix(gotFirst, "FML") || strings.HasPrefix(gotFirst, "FORGE")):
					sig = "forge-token-replaced-host"
				case desc.ServerHook != "" || desc.BackendHook != "":
					sig = "host-first-part-differs-with-addresser-hook"
				}
				r.Violation(sig, fmt.Sprintf("first NUL part of the backend address is %q, the player's virtual host is %q", gotFirst, want), desc)
			case !substituted && lite.ClearVirtualHost(got) != refClear(clientHostForOracle):
				// what a downstream Gate Lite routes on
				r.Violation("downstream-routing-host-differs", fmt.Sprintf("ClearVirtualHost(address) = %q, routing host of the client's address is %q", lite.ClearVirtualHost(got), refClear(clientHostForOracle)), desc)
			case desc.ServerHook != "" && serverCalls > 0 && firstPart(serverGot) != want:
				// hooks that were consulted must have been given the host as first part too
				r.Violation("server-hook-given-other-host", fmt.Sprintf("HandshakeAddresser received %q", serverGot), desc)
			case usesBackendHook && ba.calls > 0 && firstPart(ba.got) != want:
				r.Violation("backend-hook-given-other-host", fmt.Sprintf("BackendHandshakeAddresser received %q", ba.got), desc)
			}
			if desc.ServerHook != "" && serverCalls > 0 {
				r.Count("server_hook_consulted", 1)
			}
			if usesBackendHook && ba.calls > 0 {
				r.Count("backend_hook_consulted", 1)
			}
			if isForge {
				marker := false
				for _, pt := range strings.Split(got, "\x00")[1:] {
					if strings.HasPrefix(pt, "FML") || strings.HasPrefix(pt, "FORGE") {
						marker = true
					}
				}
				if marker {
					r.Count("forge_marker_present_after_host", 1)
				} else {
					r.Count("forge_marker_absent", 1)
				}
			}
			r.Count("first_part_checked", 1)
		}
		if r.WantSample() {
			r.Sample(desc)
		}
	}
	r.Set("case_classes", len(classes))
	top := map[string]int{}
	for k, v := range classes {
		if len(top) < 40 {
			top[k] = v
		}
	}
	r.Set("case_class_counts_sample", top)
}
