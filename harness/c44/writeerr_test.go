// C44, write-error family: "a connection closed by a write error runs its session teardown
// exactly once and later writes report the connection as closed".
//
// The race family of c44_test.go injects one plain error value and always has a read loop
// running, so the read side can notice a dead socket on the writers' behalf. Here the WRITE
// ERROR is the only thing that can close the connection, and it has the shapes real sockets
// produce:
//
//   - transports: the in-memory conn with an injected error value of a real shape
//     (*net.OpError wrapping net.ErrClosed / ECONNRESET / EPIPE / a timeout, the same wrapped
//     once more, bare errnos, net.ErrClosed, io.ErrClosedPipe, os.ErrDeadlineExceeded,
//     context.DeadlineExceeded, a plain error), and real loopback TCP connections whose peer
//     resets (SO_LINGER 0), whose peer closes gracefully (FIN, then RST to the next segment),
//     whose underlying net.Conn is closed directly by another holder, or whose peer stops
//     reading until the kernel's write deadline expires;
//   - read loop: not started yet (writes during a handshake, before `go readLoop()`), running,
//     or started with auto-reading paused (server switches, event handling);
//   - the write that meets the error: WritePacket, Write, BufferPacket/BufferPayload followed
//     by Flush, a buffered payload larger than the write buffer, a bare Flush; 1-3 writers.
//
// Oracle, once every writer returned and at least one of them got a write error that is not
// ErrClosedConn (that writer's own call is then responsible for the close; no waiting for a
// read loop): Disconnected() ran exactly once, Closed(conn), the underlying conn is closed,
// every later write kind reports the connection as closed; after further Close calls the
// teardown count is still one.
package c44

import (
	"context"
	"errors"
	"fmt"
	"io"
	"net"
	"os"
	"sync"
	"sync/atomic"
	"syscall"
	"time"

	"go.minekube.com/gate/pkg/edition/java/netmc"
	"go.minekube.com/gate/pkg/edition/java/proto/packet"
	"go.minekube.com/gate/pkg/edition/java/proto/state"
	"go.minekube.com/gate/pkg/edition/java/proxy/verifh/lib"
	"go.minekube.com/gate/pkg/gate/proto"
)

type weCase struct {
	Transport   string `json:"transport"`
	Shape       string `json:"injected_error_shape,omitempty"`
	FailAfter   int64  `json:"fail_writes_after,omitempty"`
	ReadLoop    string `json:"read_loop"`
	FirstKind   string `json:"first_write_kind"`
	Writers     int    `json:"writers"`
	Proto       int    `json:"protocol"`
	Backend     bool   `json:"backend_side_conn"`
	ExtraCloses int    `json:"closes_afterwards"`
}

var weShapes = []struct {
	name string
	err  func() error
}{
	{"OpError(write:net.ErrClosed)", func() error {
		return &net.OpError{Op: "write", Net: "tcp", Err: net.ErrClosed}
	}},
	{"OpError(write:ECONNRESET)", func() error {
		return &net.OpError{Op: "write", Net: "tcp", Err: os.NewSyscallError("write", syscall.ECONNRESET)}
	}},
	{"OpError(write:EPIPE)", func() error {
		return &net.OpError{Op: "write", Net: "tcp", Err: os.NewSyscallError("write", syscall.EPIPE)}
	}},
	{"OpError(write:timeout)", func() error {
		return &net.OpError{Op: "write", Net: "tcp", Err: os.ErrDeadlineExceeded}
	}},
	{"OpError(write:ETIMEDOUT)", func() error {
		return &net.OpError{Op: "write", Net: "tcp", Err: os.NewSyscallError("write", syscall.ETIMEDOUT)}
	}},
	{"wrapped-OpError(write:net.ErrClosed)", func() error {
		return fmt.Errorf("tls: failed to send record: %w", &net.OpError{Op: "write", Net: "tcp", Err: net.ErrClosed})
	}},
	{"wrapped-OpError(write:ECONNRESET)", func() error {
		return fmt.Errorf("proxyproto: %w", &net.OpError{Op: "write", Net: "tcp", Err: os.NewSyscallError("write", syscall.ECONNRESET)})
	}},
	{"ECONNRESET", func() error { return syscall.ECONNRESET }},
	{"EPIPE", func() error { return syscall.EPIPE }},
	{"net.ErrClosed", func() error { return net.ErrClosed }},
	{"io.ErrClosedPipe", func() error { return io.ErrClosedPipe }},
	{"os.ErrDeadlineExceeded", func() error { return os.ErrDeadlineExceeded }},
	{"context.DeadlineExceeded", func() error { return context.DeadlineExceeded }},
	{"plain", func() error { return errors.New("injected: something went wrong while writing") }},
}

var (
	weTransports = []string{"tcp-peer-reset", "tcp-peer-close", "tcp-base-closed", "tcp-write-timeout"}
	weReadLoops  = []string{"not-started", "running", "paused"}
	weKinds      = []string{"WritePacket", "Write", "Write-big", "BufferPacket+Flush", "BufferPayload+Flush", "BufferPayload-big", "Flush"}
)

// writeErrorFamily runs the family on r (called from TestC44).
func writeErrorFamily(r *lib.Run) {
	rng := r.Rng("write-errors")
	rounds := r.N(12, 240)
	pairer, err := lib.NewTCPPairer()
	if err != nil {
		r.Inconclusive("write-error family: no loopback listener: " + err.Error())
		return
	}
	defer pairer.Close()

	// deterministic case list: every (transport or injected shape) x read-loop state x first
	// write kind, `rounds` times with PRNG-chosen remaining parameters
	var cases []weCase
	protos := []int{47, 340, 758, 763, 767, 775}
	for round := 0; round < rounds; round++ {
		for _, rl := range weReadLoops {
			for _, kind := range weKinds {
				fill := func(c weCase) weCase {
					c.ReadLoop, c.FirstKind = rl, kind
					c.Writers = 1 + rng.Intn(3)
					if rng.Intn(2) == 0 {
						c.Writers = 1
					}
					c.Proto = protos[rng.Intn(len(protos))]
					c.Backend = rng.Intn(2) == 0
					c.ExtraCloses = rng.Intn(3)
					return c
				}
				for _, sh := range weShapes {
					c := fill(weCase{Transport: "mem", Shape: sh.name})
					if rng.Intn(2) == 0 {
						c.FailAfter = int64(rng.Intn(300))
					}
					cases = append(cases, c)
				}
				for _, tr := range weTransports {
					if round%4 != 0 {
						continue // real sockets every fourth round
					}
					if tr == "tcp-write-timeout" && round%12 != 0 {
						continue // each costs a real write timeout
					}
					cases = append(cases, fill(weCase{Transport: tr}))
				}
			}
		}
	}

	byTransport := map[string]int{}
	msByTransport := map[string]int64{}
	famStart := time.Now()
	byShape := map[string]int{}
	byReadLoop := map[string]int{}
	byKind := map[string]int{}
	var decided, notReached, closedByOther, probes int64

	for i, cd := range cases {
		caseStart := time.Now()
		r.LogCase(map[string]any{"family": "write-error", "case": cd})
		var base net.Conn
		var memEnd *lib.Conn
		var tcpBase, tcpPeer *net.TCPConn
		var peerCloser io.Closer
		writeTimeout := 30 * time.Second
		if cd.Transport == "mem" {
			a, b := lib.Pipe()
			for _, sh := range weShapes {
				if sh.name == cd.Shape {
					a.FailWritesAfter(cd.FailAfter, sh.err())
				}
			}
			go func() { _, _ = io.Copy(io.Discard, b) }()
			base, memEnd, peerCloser = a, a, b
		} else {
			a, b, err := pairer.Pair()
			if err != nil {
				r.Inconclusive(fmt.Sprintf("write-error case %d: no loopback pair: %v", i, err))
				continue
			}
			base, tcpBase, tcpPeer, peerCloser = a, a, b, b
			if cd.Transport == "tcp-write-timeout" {
				writeTimeout = 40 * time.Millisecond
				_ = a.SetWriteBuffer(4096)
				_ = b.SetReadBuffer(4096)
			}
		}
		dir := proto.ServerBound
		if cd.Backend {
			dir = proto.ClientBound
		}
		conn, readLoop := netmc.NewMinecraftConn(context.Background(), base, dir, 30*time.Second, writeTimeout, -1, nil)
		pv := proto.Protocol(cd.Proto)
		conn.SetProtocol(pv)
		var disc, handled, panicked atomic.Int32
		h := &handler{&disc, &handled, &panicked, &sync.Map{}}
		conn.SetActiveSessionHandler(state.Play, h)
		pid, _ := state.Play.ServerBound.ProtocolRegistry(pv).PacketID(&packet.KeepAlive{})

		var loopDone chan struct{}
		switch cd.ReadLoop {
		case "paused":
			conn.SetAutoReading(false)
			fallthrough
		case "running":
			loopDone = make(chan struct{})
			go func() { readLoop(); close(loopDone) }()
		}

		// the fault
		switch cd.Transport {
		case "tcp-peer-reset":
			lib.ResetTCP(tcpPeer)
			lib.WaitTCPState(tcpBase, 2*time.Second, lib.TCPClose)
		case "tcp-peer-close":
			_ = tcpPeer.Close()
			lib.WaitTCPState(tcpBase, 2*time.Second, lib.TCPCloseWait, lib.TCPClose)
		case "tcp-base-closed":
			_ = tcpBase.Close() // another holder of the raw conn closes it
		}

		small := append(varint(int(pid)), 0, 0, 0, 0, 0, 0, 0, 9)
		big := append(varint(int(pid)), make([]byte, 6000)...)
		if cd.Transport == "tcp-write-timeout" {
			big = append(varint(int(pid)), make([]byte, 256<<10)...)
		}
		do := func(kind string) error {
			switch kind {
			case "WritePacket":
				return conn.WritePacket(&packet.KeepAlive{RandomID: 6})
			case "Write":
				return conn.Write(small)
			case "Write-big":
				return conn.Write(big)
			case "BufferPacket+Flush":
				if err := conn.BufferPacket(&packet.KeepAlive{RandomID: 6}); err != nil {
					return err
				}
				return conn.Flush()
			case "BufferPayload+Flush":
				if err := conn.BufferPayload(small); err != nil {
					return err
				}
				return conn.Flush()
			case "BufferPayload-big":
				return conn.BufferPayload(big)
			default:
				return conn.Flush()
			}
		}
		first := 0
		for k, kind := range weKinds {
			if kind == cd.FirstKind {
				first = k
			}
		}
		results := make([]weRes, cd.Writers)
		var wg sync.WaitGroup
		start := make(chan struct{})
		for w := 0; w < cd.Writers; w++ {
			wg.Add(1)
			go func(w int) {
				defer wg.Done()
				<-start
				for j := 0; j < 60; j++ {
					kind := weKinds[(first+w+j)%len(weKinds)]
					if cd.Transport == "tcp-write-timeout" {
						// Gate arms the write deadline in Flush only: the first operation is one
						// that flushes, the following ones outgrow the socket buffers
						switch {
						case j > 0:
							kind = []string{"Write-big", "BufferPayload-big"}[(w+j)%2]
						case kind == "Write-big" || kind == "BufferPayload-big":
							kind = "Flush"
						}
					}
					if err := do(kind); err != nil {
						results[w] = weRes{err, kind}
						return
					}
					if cd.Transport == "tcp-peer-close" && kind != "Flush" {
						// the peer answers the segment just sent with a RST
						lib.WaitTCPState(tcpBase, time.Second, lib.TCPClose)
					}
				}
			}(w)
		}
		close(start)
		ok, _ := lib.Returns(30*time.Second, wg.Wait)
		r.Eval(1)
		if !ok {
			r.Inconclusive(fmt.Sprintf("write-error case %d: writers did not return within the watchdog", i))
			continue
		}
		var genuine *weRes
		anyErr := false
		for w := range results {
			if results[w].err == nil {
				continue
			}
			anyErr = true
			if genuine == nil && !errors.Is(results[w].err, netmc.ErrClosedConn) {
				genuine = &results[w]
			}
		}
		finish := func() bool { // ends the connection and waits for the read loop
			_ = conn.Close()
			_ = peerCloser.Close()
			if loopDone != nil {
				select {
				case <-loopDone:
				case <-time.After(30 * time.Second):
					r.Inconclusive(fmt.Sprintf("write-error case %d: read loop did not end within the watchdog", i))
					return false
				}
			}
			return true
		}
		switch {
		case !anyErr:
			// the fault never reached a writer (cannot happen with the injected errors)
			notReached++
			finish()
			continue
		case genuine == nil:
			// every failing write only saw ErrClosedConn: the read loop closed first and may
			// still be tearing down; judged at quiescence below
			closedByOther++
			if loopDone != nil {
				select {
				case <-loopDone:
				case <-time.After(30 * time.Second):
					r.Inconclusive(fmt.Sprintf("write-error case %d: read loop did not end within the watchdog", i))
					continue
				}
			}
		}
		shape := "ErrClosedConn"
		hit := "-"
		if genuine != nil {
			shape, hit = lib.ErrShape(genuine.err), genuine.kind
		}
		witness := map[string]any{"case": cd, "write_error": fmt.Sprint(results), "write_error_shape": shape, "failing_write": hit}
		if d := disc.Load(); d != 1 {
			r.Violation(fmt.Sprintf("write-error-teardown-count-%d:%s", min(int(d), 2), shape),
				fmt.Sprintf("a %s failed with %q but session teardown (Disconnected) ran %d times, want exactly 1 (read loop %s)", hit, fmt.Sprint(genuineErr(genuine)), d, cd.ReadLoop), witness)
		}
		if !netmc.Closed(conn) {
			r.Violation("write-error-not-closed:"+shape,
				fmt.Sprintf("a %s failed with %q but the connection is not closed afterwards (read loop %s)", hit, fmt.Sprint(genuineErr(genuine)), cd.ReadLoop), witness)
		}
		underlyingClosed := false
		if memEnd != nil {
			underlyingClosed = memEnd.Closed()
		} else {
			underlyingClosed = errors.Is(tcpBase.SetDeadline(time.Time{}), net.ErrClosed)
		}
		if !underlyingClosed {
			r.Violation("write-error-underlying-conn-left-open:"+shape, "a write failed but the underlying net.Conn was not closed", witness)
		}
		for _, k := range []string{"WritePacket", "Write", "BufferPacket+Flush", "BufferPayload+Flush"} {
			probes++
			if err := do(k); !closedErr(err) {
				r.Violation("write-after-write-error-not-reported:"+k,
					fmt.Sprintf("%s after a write had failed with %q returned %v, want a closed-connection error", k, fmt.Sprint(genuineErr(genuine)), err), witness)
			}
		}
		for k := 0; k < cd.ExtraCloses; k++ {
			switch k % 2 {
			case 0:
				_ = conn.Close()
			case 1:
				_ = netmc.CloseUnknown(conn)
			}
		}
		if !finish() {
			continue
		}
		if d := disc.Load(); d != 1 {
			r.Violation(fmt.Sprintf("write-error-teardown-count-%d-after-closes:%s", min(int(d), 2), shape),
				fmt.Sprintf("after a write error and %d further Close calls session teardown ran %d times in total, want exactly 1", cd.ExtraCloses+1, d), witness)
		}
		decided++
		byTransport[cd.Transport]++
		msByTransport[cd.Transport] += time.Since(caseStart).Milliseconds()
		byShape[shape]++
		byReadLoop[cd.ReadLoop]++
		byKind[hit]++
		r.Distinct(fmt.Sprintf("we|%s|%s|%d|%s|%s|%d|%d|%v|%d|%s", cd.Transport, cd.Shape, cd.FailAfter, cd.ReadLoop, cd.FirstKind, cd.Writers, cd.Proto, cd.Backend, cd.ExtraCloses, shape))
		if i%97 == 0 && r.WantSample() {
			r.Sample(map[string]any{"family": "write-error", "case": cd, "observed_write_error": fmt.Sprint(genuineErr(genuine)), "shape": shape, "failing_write": hit, "disconnected_calls": disc.Load()})
		}
	}
	r.Set("write_error_family", map[string]any{
		"wall_s":                              time.Since(famStart).Seconds(),
		"wall_ms_by_transport":                msByTransport,
		"cases_decided":                       decided,
		"by_transport":                        byTransport,
		"by_observed_write_error_shape":       byShape,
		"by_read_loop_state":                  byReadLoop,
		"by_write_kind_that_met_the_error":    byKind,
		"write_probes_after_the_write_error":  probes,
		"cases_where_no_writer_met_the_fault": notReached,
		"cases_closed_by_the_read_loop_first": closedByOther,
		"cases_listed":                        len(cases),
	})
}

type weRes struct {
	err  error
	kind string
}

func genuineErr(w *weRes) error {
	if w == nil {
		return netmc.ErrClosedConn
	}
	return w.err
}
