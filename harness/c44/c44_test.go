// C44: connections tear down exactly once and survive handler panics.
//
// Each case builds a real netmc.MinecraftConn over a buffered in-memory connection with a
// recording session handler and runs a PRNG-chosen race of closers (Close, CloseWith,
// CloseUnknown), writers hitting an injected write error, the peer closing (read loop
// ends) and handler panics (error and non-error values, runtime errors).
//
// Oracles (all at quiescence = read loop returned and every closer returned):
//   - Disconnected() ran exactly once over all handlers ever installed on the conn;
//   - every write that BEGAN after some Close call RETURNED reports the connection as
//     closed (non-nil error that is ErrClosedConn or a closed-connection error);
//   - the process is still alive and packets after a panicking one are still handled.
package c44

import (
	"context"
	"encoding/binary"
	"errors"
	"fmt"
	"io"
	"net"
	"strings"
	"sync"
	"sync/atomic"
	"testing"
	"time"

	"go.minekube.com/gate/pkg/edition/java/netmc"
	"go.minekube.com/gate/pkg/edition/java/proto/packet"
	"go.minekube.com/gate/pkg/edition/java/proto/state"
	"go.minekube.com/gate/pkg/edition/java/proxy/verifh/lib"
	"go.minekube.com/gate/pkg/gate/proto"
)

type handler struct {
	disc     *atomic.Int32
	handled  *atomic.Int32
	panicked *atomic.Int32
	seen     *sync.Map // keep-alive id -> struct{}
}

func (h *handler) HandlePacket(pc *proto.PacketContext) {
	ka, ok := pc.Packet.(*packet.KeepAlive)
	if !ok {
		return
	}
	h.seen.Store(ka.RandomID, struct{}{})
	switch ka.RandomID % 8 {
	case 1:
		h.panicked.Add(1)
		panic(errors.New("handler error panic"))
	case 2:
		h.panicked.Add(1)
		panic("handler string panic")
	case 3:
		h.panicked.Add(1)
		var m map[int]int
		m[1] = 1 // runtime error
	case 4:
		h.panicked.Add(1)
		var p *packet.KeepAlive
		_ = p.RandomID // nil deref
	case 5:
		h.panicked.Add(1)
		panic(42)
	}
	h.handled.Add(1)
}
func (h *handler) Disconnected() { h.disc.Add(1) }
func (h *handler) Activated()    {}
func (h *handler) Deactivated()  {}

func varint(v int) []byte {
	var b []byte
	u := uint32(v)
	for {
		if u&^0x7f == 0 {
			return append(b, byte(u))
		}
		b = append(b, byte(u&0x7f|0x80))
		u >>= 7
	}
}

func keepAliveFrame(protocol, pid int, id int64) []byte {
	var body []byte
	if protocol < 340 { // before 1.12.2 the keep-alive id is a VarInt
		body = append(varint(pid), varint(int(id))...)
	} else {
		body = append(varint(pid), make([]byte, 8)...)
		binary.BigEndian.PutUint64(body[len(body)-8:], uint64(id))
	}
	return append(varint(len(body)), body...)
}

func closedErr(err error) bool {
	if err == nil {
		return false
	}
	if errors.Is(err, netmc.ErrClosedConn) || errors.Is(err, io.ErrClosedPipe) || errors.Is(err, net.ErrClosed) {
		return true
	}
	s := err.Error()
	return strings.Contains(s, "closed") || strings.Contains(s, "broken pipe")
}

type caseDesc struct {
	Proto     int      `json:"protocol"`
	Closers   []string `json:"closers"`
	Writers   int      `json:"writers"`
	FailAfter int64    `json:"fail_writes_after"`
	PeerEOF   bool     `json:"peer_eof"`
	Packets   []int64  `json:"keepalive_ids"`
	Switch    bool     `json:"switch_handler"`
	CloseErr  bool     `json:"socket_close_reports_error"`
}

func TestC44(t *testing.T) {
	r := lib.Start(t, "C44")
	defer r.Finish()
	r.Rule("one case = one real MinecraftConn (client side, play state) with PRNG-chosen concurrent closers {Close, CloseWith(Disconnect), CloseUnknown}, 0-4 writer goroutines, an optional injected write error at byte N, optional peer EOF, and a stream of keep-alives of which some make the handler panic (error, string, int, nil-map write, nil deref); distinct = distinct case descriptor + observed close-winner signature")
	r.Assume("closed-ness of a write is judged on the error value: ErrClosedConn or a closed-connection error of the underlying conn")
	rng := r.Rng("cases")
	n := r.N(8000, 200000)
	protos := []proto.Protocol{47, 340, 758, 763, 767, 775}
	closerKinds := []string{"Close", "CloseWith", "CloseUnknown"}
	winners := map[string]int{}
	var panicsContained, postPanicHandled, writesAfterClose, eofClosed, failClosed, closeErrCases int64

	for i := 0; i < n; i++ {
		cd := caseDesc{Proto: int(protos[rng.Intn(len(protos))]), Writers: rng.Intn(5), FailAfter: -1}
		for k := rng.Intn(5); k > 0; k-- {
			cd.Closers = append(cd.Closers, closerKinds[rng.Intn(3)])
		}
		if rng.Intn(3) == 0 {
			cd.FailAfter = int64(rng.Intn(200))
		}
		cd.PeerEOF = rng.Intn(3) == 0 || (len(cd.Closers) == 0 && cd.FailAfter < 0)
		cd.Switch = rng.Intn(4) == 0
		cd.CloseErr = rng.Intn(4) == 0
		for k := rng.Intn(12); k > 0; k-- {
			cd.Packets = append(cd.Packets, int64(rng.Intn(64))+int64(i)*64)
		}
		r.LogCase(cd)

		proxyEnd, peer := lib.Pipe()
		if cd.FailAfter >= 0 {
			proxyEnd.FailWritesAfter(cd.FailAfter, errors.New("injected: connection reset by peer"))
		}
		if cd.CloseErr {
			// the socket's own Close reports an error (already closed by another holder of the raw
			// conn, a TLS wrapper failing its close-notify, ...): teardown must run all the same
			proxyEnd.FailClose(errors.New("injected: close tcp: use of closed network connection"))
			closeErrCases++
		}
		conn, readLoop := netmc.NewMinecraftConn(context.Background(), proxyEnd, proto.ServerBound, 30*time.Second, 30*time.Second, -1, nil)
		pv := proto.Protocol(cd.Proto)
		conn.SetProtocol(pv)
		var disc, handled, panicked atomic.Int32
		seen := &sync.Map{}
		h := &handler{&disc, &handled, &panicked, seen}
		conn.SetActiveSessionHandler(state.Play, h)
		pid, ok := state.Play.ServerBound.ProtocolRegistry(pv).PacketID(&packet.KeepAlive{})
		if !ok {
			t.Fatalf("no keepalive id for %d", pv)
		}

		// peer: drains what the proxy writes, sends the keep-alives, then maybe closes
		go func() { _, _ = io.Copy(io.Discard, peer) }()
		loopDone := make(chan struct{})
		go func() { readLoop(); close(loopDone) }()

		var closeReturned atomic.Int64 // logical time of first Close return (0 = none yet)
		var clock atomic.Int64
		var wg sync.WaitGroup
		start := make(chan struct{})
		type wres struct {
			began int64
			err   error
			kind  string
		}
		var wmu sync.Mutex
		var wr []wres
		var firstCloser atomic.Value

		wg.Add(1)
		go func() { // peer sender
			defer wg.Done()
			<-start
			for _, id := range cd.Packets {
				_, _ = peer.Write(keepAliveFrame(cd.Proto, int(pid), id))
			}
			if cd.PeerEOF {
				_ = peer.Close()
			}
		}()
		for _, kind := range cd.Closers {
			wg.Add(1)
			go func(kind string) {
				defer wg.Done()
				<-start
				var err error
				switch kind {
				case "Close":
					err = conn.Close()
				case "CloseWith":
					err = netmc.CloseWith(conn, &packet.KeepAlive{RandomID: 7})
				case "CloseUnknown":
					err = netmc.CloseUnknown(conn)
				}
				if err == nil || !errors.Is(err, netmc.ErrClosedConn) {
					firstCloser.CompareAndSwap(nil, kind)
				}
				closeReturned.CompareAndSwap(0, clock.Add(1))
			}(kind)
		}
		for w := 0; w < cd.Writers; w++ {
			wg.Add(1)
			go func(w int) {
				defer wg.Done()
				<-start
				for k := 0; k < 6; k++ {
					began := clock.Add(1)
					var err error
					kind := ""
					switch (w + k) % 4 {
					case 0:
						kind = "WritePacket"
						err = conn.WritePacket(&packet.KeepAlive{RandomID: int64(k)})
					case 1:
						kind = "Write"
						err = conn.Write(append(varint(int(pid)), 0, 0, 0, 0, 0, 0, 0, 9))
					case 2:
						kind = "BufferPacket"
						err = conn.BufferPacket(&packet.KeepAlive{RandomID: int64(k)})
					case 3:
						kind = "BufferPayload"
						err = conn.BufferPayload(append(varint(int(pid)), 0, 0, 0, 0, 0, 0, 0, 9))
					}
					wmu.Lock()
					wr = append(wr, wres{began, err, kind})
					wmu.Unlock()
				}
			}(w)
		}
		if cd.Switch {
			wg.Add(1)
			go func() {
				defer wg.Done()
				<-start
				conn.SetActiveSessionHandler(state.Play, &handler{&disc, &handled, &panicked, seen})
			}()
		}
		close(start)
		ok1, _ := lib.Returns(30*time.Second, wg.Wait)
		r.Eval(1)
		if !ok1 {
			r.Inconclusive(fmt.Sprintf("case %d: closers/writers did not return within the watchdog", i))
			continue
		}
		// make sure the connection ends: if nothing closed it, the peer does
		willClose := len(cd.Closers) > 0 || cd.PeerEOF
		if !willClose {
			_ = peer.Close()
		}
		select {
		case <-loopDone:
		case <-time.After(30 * time.Second):
			r.Inconclusive(fmt.Sprintf("case %d: read loop did not end within the watchdog", i))
			continue
		}
		// ---- oracles ----------------------------------------------------------------
		if d := disc.Load(); d != 1 {
			r.Violation(fmt.Sprintf("teardown-count-%d", min(int(d), 2)), fmt.Sprintf("session teardown (Disconnected) ran %d times, want exactly 1", d), cd)
		}
		// probes after everything returned: every write kind must report closed
		probes := map[string]error{
			"WritePacket":   conn.WritePacket(&packet.KeepAlive{RandomID: 1}),
			"Write":         conn.Write(append(varint(int(pid)), 0, 0, 0, 0, 0, 0, 0, 9)),
			"BufferPacket":  conn.BufferPacket(&packet.KeepAlive{RandomID: 1}),
			"BufferPayload": conn.BufferPayload(append(varint(int(pid)), 0, 0, 0, 0, 0, 0, 0, 9)),
		}
		for k, err := range probes {
			writesAfterClose++
			if !closedErr(err) {
				r.Violation("write-after-close-not-reported:"+k, fmt.Sprintf("%s after teardown returned %v, want a closed-connection error", k, err), cd)
			}
		}
		if cr := closeReturned.Load(); cr != 0 {
			for _, w := range wr {
				if w.began > cr {
					writesAfterClose++
					if !closedErr(w.err) {
						r.Violation("write-after-close-not-reported:"+w.kind, fmt.Sprintf("%s that began after a Close call returned got %v", w.kind, w.err), cd)
					}
				}
			}
		}
		if !netmc.Closed(conn) {
			r.Violation("not-closed-at-quiescence", "connection context not cancelled after the read loop ended", cd)
		}
		if disc.Load() == 1 && disc.Load() != 0 {
			// teardown closes the underlying conn: peer must observe EOF/closed
			if !proxyEnd.Closed() {
				r.Violation("underlying-conn-left-open", "teardown ran but the underlying net.Conn was not closed", cd)
			}
		}
		pn := int64(panicked.Load())
		panicsContained += pn
		if pn > 0 {
			postPanicHandled += int64(handled.Load())
		}
		// every keep-alive sent before any close (no closers, no proxy-side writers whose write could fail) must have been handled or panicked
		if len(cd.Closers) == 0 && cd.Writers == 0 && !cd.Switch {
			got := 0
			seen.Range(func(_, _ any) bool { got++; return true })
			uniq := map[int64]struct{}{}
			for _, id := range cd.Packets {
				uniq[id] = struct{}{}
			}
			if got != len(uniq) {
				r.Violation("packets-after-panic-not-handled", fmt.Sprintf("handler saw %d of %d keep-alives although only the peer's EOF ended the connection (a handler panic must not end the read loop)", got, len(uniq)), cd)
			}
		}
		w, _ := firstCloser.Load().(string)
		if w == "" {
			if cd.FailAfter >= 0 && cd.Writers > 0 {
				w = "write-error-or-eof"
				failClosed++
			} else {
				w = "read-loop-end"
				eofClosed++
			}
		}
		winners[w]++
		r.Distinct(fmt.Sprintf("%v|%s|%d", cd.Closers, w, cd.Writers) + fmt.Sprint(cd.FailAfter, cd.PeerEOF, cd.Switch, len(cd.Packets), cd.Proto))
		if r.WantSample() {
			r.Sample(map[string]any{"case": cd, "teardown_winner": w, "disconnected_calls": disc.Load(), "handler_panics": pn, "handled": handled.Load()})
		}
	}
	writeErrorFamily(r)
	r.Set("teardown_winner_histogram", winners)
	r.Set("handler_panics_contained", panicsContained)
	r.Set("packets_handled_in_runs_with_panics", postPanicHandled)
	r.Set("write_probes_after_close", writesAfterClose)
	r.Set("cases_where_the_socket_close_itself_reports_an_error", closeErrCases)
	r.Set("closed_by_read_loop_end", eofClosed)
	r.Set("closed_by_write_error_or_eof", failClosed)
}
