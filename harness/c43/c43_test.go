// C43: server list pings get one well-formed response and an exact echo.
//
// A real proxy (classic mode, no ping handlers) is driven over in-memory connections by a
// fake client that sends PRNG-chosen status-phase sequences (<= 4 ops over {request,
// ping(8 random bytes), login start, unknown id, garbage}) announcing supported, unknown,
// negative and huge protocol numbers. A client-side acceptor automaton decides each
// session:
//
//	request (first)    -> exactly one status response; version.protocol == client's if Gate
//	                      supports it else Gate's newest; players.online == PlayerCount()
//	ping after request -> one reply whose payload is byte-identical, then the connection closes
//	repeated request / any other packet -> no further response, connection closes
//	ping without a request: the statement does not say whether it is answered; only
//	"closes afterwards and nothing but (at most) the exact echo is sent" is checked.
package c43

import (
	"bytes"
	"encoding/json"
	"fmt"
	"testing"
	"time"

	"go.minekube.com/gate/pkg/edition/java/proto/packet"
	"go.minekube.com/gate/pkg/edition/java/proto/version"
	"go.minekube.com/gate/pkg/edition/java/proxy/verifh/e2e"
	"go.minekube.com/gate/pkg/edition/java/proxy/verifh/lib"
	"go.minekube.com/gate/pkg/gate/proto"
)

type op struct {
	Kind   string `json:"op"`
	Data   []byte `json:"data,omitempty"`
	WideID bool   `json:"wide_packet_id,omitempty"`
}

type scenario struct {
	Protocol int  `json:"protocol"`
	Players  int  `json:"players_online"`
	Ops      []op `json:"ops"`
}

func supported(p int) bool {
	for _, v := range version.SupportedVersions {
		if int(v.Protocol) == p {
			return true
		}
	}
	return false
}

func TestC43(t *testing.T) {
	r := lib.Start(t, "C43")
	defer r.Finish()
	r.Rule("one case = one status session against a live in-process proxy with 0-3 players online: handshake(next=status) announcing a protocol from {every supported, 0, 3, 6, 48, 777, 9999, -1, -5, 2^31-1, random} followed by <= 4 ops over {request, ping, login-start, unknown-id, garbage}; distinct = (protocol class, op sequence, players)")
	r.Assume("closure is observed as EOF on the client's buffered in-memory connection; a missing EOF counts only if it reproduces in a fresh run with a 3x watchdog")
	rng := r.Rng("cases")
	n := r.N(4000, 80000)

	var protos []int
	for _, v := range version.SupportedVersions {
		protos = append(protos, int(v.Protocol))
	}
	weird := []int{0, 3, 6, 48, 777, 9999, -1, -5, 1<<31 - 1, 100, 500, 1000, -2}
	newest := int(version.MaximumVersion.Protocol)
	kinds := []string{"request", "ping", "login", "unknown", "garbage"}

	// harnesses with 0..3 players online, reused across sessions
	hs := map[int]*e2e.Harness{}
	for k := 0; k <= 3; k++ {
		h, err := e2e.New(e2e.Options{})
		if err != nil {
			t.Fatal(err)
		}
		if _, err = h.AddBackend("lobby", e2e.Always(e2e.Behavior{Mode: e2e.Accept, Threshold: -1})); err != nil {
			t.Fatal(err)
		}
		h.Cfg.Try = []string{"lobby"}
		for i := 0; i < k; i++ {
			c := h.NewClient(e2e.ClientOpts{Protocol: 767})
			if res := c.Login(fmt.Sprintf("P%d_%d", k, i), "example.com"); !res.Joined {
				t.Fatalf("setup login failed: %+v", res)
			}
		}
		if h.P.PlayerCount() != k {
			t.Fatalf("setup: PlayerCount=%d want %d", h.P.PlayerCount(), k)
		}
		hs[k] = h
	}
	var responses, echoes, closes, nonCanonicalPings int64
	var churnRejected, churnJoinLeave, churnSeq int
	churnRng := r.Rng("churn")
	stalls := 0

	run := func(sc scenario, wd time.Duration) (stalled bool) {
		h := hs[sc.Players]
		c := h.NewClient(e2e.ClientOpts{Protocol: proto.Protocol(sc.Protocol)})
		defer c.Close()
		_ = c.HandshakeProto(sc.Protocol, "example.com", 25565, 1)
		wantProto := newest
		if supported(sc.Protocol) {
			wantProto = sc.Protocol
		}
		requested := false
		expectClosed := false
		expectResponses := 0
		var expectEcho []byte // payload expected as last packet (may be nil)
		echoOptional := false
		nonCanonical := false
		for _, o := range sc.Ops {
			switch o.Kind {
			case "request":
				_ = c.Send(&packet.StatusRequest{})
			case "ping":
				_ = c.SendRaw(pingPayload(o))
			case "login":
				// a login-start as a 1.20 client would send it in the LOGIN state has id 0 and
				// would be read as a status request with trailing bytes (the statement is silent
				// on that); use a packet that exists only in the login state instead
				_ = c.SendRaw(append([]byte{0x02, 0x01, 0x00}, o.Data...))
			case "unknown":
				_ = c.SendRaw(append([]byte{0x7f}, o.Data...))
			case "garbage":
				_ = c.SendBytes(o.Data)
			}
			if expectClosed {
				continue // whatever follows a closing op must be ignored
			}
			switch {
			case o.Kind == "request" && !requested:
				requested = true
				expectResponses = 1
			case o.Kind == "ping":
				expectEcho = pingPayload(o)
				// A ping that is not the canonical nine bytes (data behind the long, or the packet
				// id spelled as a two-byte VarInt) is something a vanilla server refuses; closing
				// without an echo is accepted for it, an echo that is not the bytes sent is not.
				echoOptional = !requested || len(o.Data) != 8 || o.WideID
				nonCanonical = len(o.Data) != 8 || o.WideID
				expectClosed = true
			default:
				expectClosed = true
			}
		}
		if !expectClosed {
			// session left open by the client: wait for the response (if any), then close ourselves
			if expectResponses == 1 {
				if _, err := c.WaitFor(func(r *e2e.Rec) bool { return true }, wd); err != nil {
					if err == e2e.ErrTimeout {
						return true
					}
				}
			}
			// let a (wrong) second response surface: round-trip a second connection through the proxy
			c2 := h.NewClient(e2e.ClientOpts{Protocol: 767})
			_ = c2.HandshakeProto(767, "x", 1, 1)
			_ = c2.Send(&packet.StatusRequest{})
			_, _ = c2.WaitFor(func(r *e2e.Rec) bool { return true }, wd)
			c2.Close()
		} else {
			if !c.WaitEOF(wd) {
				return true
			}
			closes++
		}
		log := c.Log()
		wit := func() map[string]any {
			var got []string
			for _, rc := range log {
				got = append(got, fmt.Sprintf("id=0x%02x len=%d %x", rc.ID, len(rc.Payload), trunc(rc.Payload, 40)))
			}
			return map[string]any{"scenario": sc, "client_received": got}
		}
		// classify received packets
		var resp []*e2e.Rec
		var others []*e2e.Rec
		for _, rc := range log {
			if rc.ID == 0x00 {
				resp = append(resp, rc)
			} else {
				others = append(others, rc)
			}
		}
		pclass := "supported"
		if !supported(sc.Protocol) {
			pclass = "unsupported"
		}
		if len(resp) != expectResponses {
			r.Violation(fmt.Sprintf("status-response-count:%d-want-%d", min(len(resp), 2), expectResponses), fmt.Sprintf("got %d status responses, want %d", len(resp), expectResponses), wit())
		}
		if len(resp) >= 1 && expectResponses == 1 {
			responses++
			sr, ok := resp[0].Packet.(*packet.StatusResponse)
			if !ok {
				r.Violation("status-response-undecodable", "status response does not decode as a string", wit())
			} else {
				var js struct {
					Version struct {
						Protocol int    `json:"protocol"`
						Name     string `json:"name"`
					} `json:"version"`
					Players *struct {
						Online int `json:"online"`
						Max    int `json:"max"`
					} `json:"players"`
				}
				if err := json.Unmarshal([]byte(sr.Status), &js); err != nil {
					r.Violation("status-response-not-json", err.Error(), wit())
				} else {
					if js.Version.Protocol != wantProto {
						r.Violation("status-protocol:"+pclass+"-client-protocol", fmt.Sprintf("client protocol %d: advertised protocol %d, want %d", sc.Protocol, js.Version.Protocol, wantProto), wit())
					}
					if js.Players == nil || js.Players.Online != sc.Players {
						r.Violation("status-online-count", fmt.Sprintf("players.online=%v, PlayerCount()=%d", js.Players, sc.Players), wit())
					}
				}
			}
		}
		// echo
		switch {
		case expectEcho != nil && !echoOptional:
			if len(others) != 1 || !bytes.Equal(others[0].Payload, expectEcho) {
				r.Violation("ping-echo-mismatch", fmt.Sprintf("ping not answered with exactly one byte-identical payload (got %d other packets)", len(others)), wit())
			} else {
				echoes++
				// the echo must be the last thing sent
				if others[0].Seq != len(log)-1 {
					r.Violation("packet-after-echo", "something was sent after the ping echo", wit())
				}
			}
		case expectEcho != nil && echoOptional:
			if len(others) > 1 || (len(others) == 1 && !bytes.Equal(others[0].Payload, expectEcho)) {
				sig, what := "ping-echo-mismatch", "ping without request answered with something other than its exact echo"
				if nonCanonical {
					sig, what = "ping-echo-mismatch:ping-with-extra-data-or-wide-id", "a ping carrying data behind the long / a two-byte packet id was answered with something other than the bytes sent"
				}
				r.Violation(sig, what, wit())
			}
		default:
			if len(others) != 0 {
				r.Violation("unexpected-status-packet", fmt.Sprintf("proxy sent %d unexpected packets", len(others)), wit())
			}
		}
		return false
	}

	for i := 0; i < n; i++ {
		sc := scenario{Players: rng.Intn(4)}
		switch rng.Intn(3) {
		case 0:
			sc.Protocol = protos[rng.Intn(len(protos))]
		case 1:
			sc.Protocol = weird[rng.Intn(len(weird))]
		default:
			sc.Protocol = protos[i%len(protos)]
			if rng.Intn(4) == 0 {
				sc.Protocol = rng.Intn(2000) - 100
			}
		}
		for k := 1 + rng.Intn(4); k > 0; k-- {
			o := op{Kind: kinds[rng.Intn(len(kinds))]}
			if rng.Intn(3) > 0 && len(sc.Ops) < 2 {
				o.Kind = []string{"request", "ping"}[len(sc.Ops)] // bias to the vanilla sequence
			}
			switch o.Kind {
			case "ping":
				o.Data = make([]byte, 8)
				switch rng.Intn(6) {
				case 0:
					o.Data = make([]byte, 9+rng.Intn(8)) // data behind the long
				case 1:
					o.WideID = true // packet id 1 spelled 81 00
				}
				rng.Read(o.Data)
				if len(o.Data) != 8 || o.WideID {
					nonCanonicalPings++
				}
			case "unknown", "login":
				o.Data = make([]byte, rng.Intn(6))
				rng.Read(o.Data)
			case "garbage":
				// bytes that cannot be (the start of) a valid frame: a length prefix that is
				// negative or above 2^21-1 (a short random prefix could just be an incomplete
				// frame the proxy rightly keeps waiting for)
				o.Data = [][]byte{{0xff, 0xff, 0xff, 0xff, 0x0f}, {0xff, 0xff, 0xff, 0x7f}, {0x80, 0x80, 0x80, 0x01}, {0xff, 0xff, 0xff, 0xff, 0xff, 0x01}}[rng.Intn(4)]
			}
			sc.Ops = append(sc.Ops, o)
		}
		// Session churn between status exchanges: logins that are refused (a duplicate of an
		// online name) and players that join and leave again must not move the advertised count
		// away from the number of players that are online (the harness knows that number: the k
		// players logged in at set-up, none of whom ever leaves).
		if churnRng.Intn(6) == 0 {
			h := hs[sc.Players]
			switch kind := churnRng.Intn(2); {
			case kind == 0 && sc.Players > 0:
				c := h.NewClient(e2e.ClientOpts{Protocol: 767})
				res := c.Login(fmt.Sprintf("P%d_%d", sc.Players, churnRng.Intn(sc.Players)), "example.com")
				c.Close()
				c.WaitEOF(10 * time.Second)
				if res.Joined {
					r.Inconclusive("churn: a duplicate login of an online name was admitted (judged by C11, not here)")
				}
				churnRejected++
			default:
				name := fmt.Sprintf("T%d_%d", sc.Players, churnSeq)
				churnSeq++
				c := h.NewClient(e2e.ClientOpts{Protocol: 767})
				res := c.Login(name, "example.com")
				c.Close()
				c.WaitEOF(10 * time.Second)
				if res.Joined {
					for dl := time.Now().Add(10 * time.Second); h.P.PlayerByName(name) != nil && time.Now().Before(dl); {
						time.Sleep(200 * time.Microsecond)
					}
					churnJoinLeave++
				}
			}
		}
		r.LogCase(sc)
		stalled := run(sc, 10*time.Second)
		r.Eval(1)
		if stalled {
			stalls++
			if stalls > 3 {
				r.Inconclusive("more than 3 stalled sessions: stopping early (the first ones were re-run for confirmation)")
				break
			}
			if run(sc, 30*time.Second) {
				r.Violation("status-connection-left-open", "the connection was not closed / no response arrived, reproduced in a second run with a 30 s watchdog", sc)
			} else {
				r.Inconclusive("a status session exceeded the 10 s watchdog once but not when repeated")
			}
		}
		pc := "supported"
		if !supported(sc.Protocol) {
			pc = fmt.Sprintf("unsupported:%d", sc.Protocol)
		}
		var seq string
		for _, o := range sc.Ops {
			seq += o.Kind[:1]
		}
		r.Distinct(fmt.Sprintf("%s|%s|%d", pc, seq, sc.Players))
		if r.WantSample() {
			r.Sample(sc)
		}
	}
	r.Set("status_responses_checked", responses)
	r.Set("ping_echoes_checked", echoes)
	r.Set("churn_duplicate_logins_refused_between_status_sessions", churnRejected)
	r.Set("churn_players_joined_and_left_between_status_sessions", churnJoinLeave)
	r.Set("pings_with_extra_data_or_wide_packet_id", nonCanonicalPings)
	r.Set("closures_observed", closes)
}

func trunc(b []byte, n int) []byte {
	if len(b) > n {
		return b[:n]
	}
	return b
}

// pingPayload is the frame payload of a ping op as sent: packet id 1 (one byte, or the
// two-byte VarInt 81 00) followed by the op's data.
func pingPayload(o op) []byte {
	if o.WideID {
		return append([]byte{0x81, 0x00}, o.Data...)
	}
	return append([]byte{0x01}, o.Data...)
}
