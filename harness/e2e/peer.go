package e2e

import (
	"bytes"
	"errors"
	"fmt"
	"sync"
	"sync/atomic"
	"time"

	"go.minekube.com/gate/pkg/edition/java/proto/state"
	"go.minekube.com/gate/pkg/edition/java/proto/state/states"
	"go.minekube.com/gate/pkg/edition/java/proxy/verifh/lib"
	"go.minekube.com/gate/pkg/gate/proto"
)

// Clock is the one logical clock of a harness: every observation gets a stamp from it.
var Clock atomic.Int64

// Now returns the next logical time stamp.
func Now() int64 { return Clock.Add(1) }

// Rec is one packet received by a fake peer.
type Rec struct {
	Seq       int
	At        int64 // logical time of receipt
	State     states.State
	ID        int
	Payload   []byte       // packet id + data, as received after deframing
	Packet    proto.Packet // decoded body if the id is known to Gate's registry and decodes; else nil
	DecodeErr error
}

func (r *Rec) String() string {
	if r.Packet != nil {
		return fmt.Sprintf("#%d %s 0x%02x %T", r.Seq, r.State, r.ID, r.Packet)
	}
	return fmt.Sprintf("#%d %s 0x%02x raw[%d]", r.Seq, r.State, r.ID, len(r.Payload))
}

// Peer is a fake client or fake backend end of a connection.
type Peer struct {
	Name  string
	Conn  *lib.Conn
	In    proto.Direction // direction of the packets this peer receives
	Out   proto.Direction // direction of the packets this peer sends
	Proto proto.Protocol

	wmu       sync.Mutex
	wstate    *state.Registry
	wthresh   int
	enc       *cfb8
	SentBytes atomic.Int64

	br      *byteReader
	rthresh int
	rstate  *state.Registry // only touched by the reader goroutine (and before it starts)

	mu     sync.Mutex
	cond   *sync.Cond
	log    []*Rec
	cursor int
	eof    bool
	err    error
	EOFAt  int64

	// OnPacket runs inline on the reader goroutine, before the next frame is read, so it can
	// switch states/compression/encryption exactly at the packet boundary.
	OnPacket func(*Rec)
}

func newPeer(name string, c *lib.Conn, in, out proto.Direction, p proto.Protocol) *Peer {
	pe := &Peer{Name: name, Conn: c, In: in, Out: out, Proto: p, wstate: state.Handshake, rstate: state.Handshake, wthresh: -1, rthresh: -1}
	pe.br = &byteReader{r: c}
	pe.cond = sync.NewCond(&pe.mu)
	return pe
}

// start launches the reader goroutine.
func (p *Peer) start() { go p.readLoop() }

func (p *Peer) readLoop() {
	for {
		payload, err := readFrame(p.br, p.rthresh)
		if err != nil {
			p.mu.Lock()
			p.eof, p.err, p.EOFAt = true, err, Now()
			p.cond.Broadcast()
			p.mu.Unlock()
			return
		}
		if len(payload) == 0 {
			continue
		}
		rd := bytes.NewReader(payload)
		id, _, err := readVarInt(rd)
		rec := &Rec{At: Now(), State: p.rstate.State, ID: id, Payload: payload}
		if err == nil {
			reg := state.FromDirection(p.In, p.rstate, p.Proto)
			if reg != nil {
				if pk := reg.CreatePacket(proto.PacketID(id)); pk != nil {
					ctx := &proto.PacketContext{Direction: p.In, Protocol: p.Proto, PacketID: proto.PacketID(id), Packet: pk, Payload: payload}
					derr := safeDecode(pk, ctx, rd)
					if derr == nil {
						rec.Packet = pk
					} else {
						rec.DecodeErr = derr
					}
				}
			}
		}
		p.mu.Lock()
		rec.Seq = len(p.log)
		p.log = append(p.log, rec)
		p.mu.Unlock()
		if p.OnPacket != nil {
			p.OnPacket(rec)
		}
		p.mu.Lock()
		p.cond.Broadcast()
		p.mu.Unlock()
	}
}

func safeDecode(pk proto.Packet, ctx *proto.PacketContext, rd *bytes.Reader) (err error) {
	defer func() {
		if r := recover(); r != nil {
			err = fmt.Errorf("panic: %v", r)
		}
	}()
	return pk.Decode(ctx, rd)
}

// SetReadState must only be called from OnPacket (reader goroutine) or before start.
func (p *Peer) SetReadState(s *state.Registry) { p.rstate = s }

// SetReadCompression must only be called from OnPacket or before start.
func (p *Peer) SetReadCompression(t int) { p.rthresh = t }

// SetWriteState switches the state used to look up ids of sent packets.
func (p *Peer) SetWriteState(s *state.Registry) { p.wmu.Lock(); p.wstate = s; p.wmu.Unlock() }

// SetWriteCompression switches framing of sent packets.
func (p *Peer) SetWriteCompression(t int) { p.wmu.Lock(); p.wthresh = t; p.wmu.Unlock() }

// EnableEncryption turns on AES/CFB8 in both directions (call from OnPacket at the boundary).
func (p *Peer) EnableEncryption(secret []byte) error {
	dec, err := newCFB8(secret, true)
	if err != nil {
		return err
	}
	enc, err := newCFB8(secret, false)
	if err != nil {
		return err
	}
	p.br.dec.Store(dec)
	p.wmu.Lock()
	p.enc = enc
	p.wmu.Unlock()
	return nil
}

// SendThenEncrypt is for an encryption response sent from a goroutine other than the reader:
// decryption of everything received from now on is switched on first (the proxy sends nothing
// between its request and our response, and encrypts everything after it), then pk goes out
// in plaintext, then encryption of what we send is switched on. Enabling decryption only
// after the send would let the reader goroutine take the proxy's encrypted reply for
// plaintext whenever this goroutine is descheduled in between.
func (p *Peer) SendThenEncrypt(pk proto.Packet, secret []byte) error {
	dec, err := newCFB8(secret, true)
	if err != nil {
		return err
	}
	enc, err := newCFB8(secret, false)
	if err != nil {
		return err
	}
	payload, err := p.EncodePacket(pk)
	if err != nil {
		return err
	}
	p.br.dec.Store(dec)
	p.wmu.Lock()
	defer p.wmu.Unlock()
	fr := encodeFrame(payload, p.wthresh)
	if p.enc != nil {
		p.enc.xor(fr, fr)
	}
	n, err := p.Conn.Write(fr)
	p.SentBytes.Add(int64(n))
	p.enc = enc
	return err
}

// EncodePacket encodes pk to its payload (id + body) for the current write state.
func (p *Peer) EncodePacket(pk proto.Packet) ([]byte, error) {
	p.wmu.Lock()
	st := p.wstate
	p.wmu.Unlock()
	return EncodeFor(pk, p.Out, st, p.Proto)
}

// EncodeFor encodes a packet for (direction, state, protocol) with Gate's packet encoder.
func EncodeFor(pk proto.Packet, dir proto.Direction, st *state.Registry, pv proto.Protocol) ([]byte, error) {
	reg := state.FromDirection(dir, st, pv)
	if reg == nil {
		return nil, fmt.Errorf("no registry for %v %v %v", dir, st, pv)
	}
	id, ok := reg.PacketID(pk)
	if !ok {
		return nil, fmt.Errorf("%T not registered in %s %s for protocol %d", pk, st, dir, pv)
	}
	var buf bytes.Buffer
	buf.Write(putVarInt(nil, int(id)))
	ctx := &proto.PacketContext{Direction: dir, Protocol: pv, PacketID: id, Packet: pk}
	if err := pk.Encode(ctx, &buf); err != nil {
		return nil, err
	}
	return buf.Bytes(), nil
}

// Send encodes and writes a packet.
func (p *Peer) Send(pk proto.Packet) error {
	payload, err := p.EncodePacket(pk)
	if err != nil {
		return err
	}
	return p.SendRaw(payload)
}

// SendRaw frames and writes payload (packet id + data).
func (p *Peer) SendRaw(payload []byte) error {
	p.wmu.Lock()
	defer p.wmu.Unlock()
	fr := encodeFrame(payload, p.wthresh)
	if p.enc != nil {
		p.enc.xor(fr, fr)
	}
	n, err := p.Conn.Write(fr)
	p.SentBytes.Add(int64(n))
	return err
}

// SendBytes writes raw bytes without framing (hostile input).
func (p *Peer) SendBytes(b []byte) error {
	p.wmu.Lock()
	defer p.wmu.Unlock()
	if p.enc != nil {
		b = append([]byte(nil), b...)
		p.enc.xor(b, b)
	}
	_, err := p.Conn.Write(b)
	return err
}

// ErrTimeout is returned by the wait helpers when the generous watchdog fires.
var ErrTimeout = errors.New("watchdog timeout")

// WaitFor consumes received packets until pred matches one (returned) or the peer's stream
// ended / the watchdog fired.
func (p *Peer) WaitFor(pred func(*Rec) bool, d time.Duration) (*Rec, error) {
	deadline := time.Now().Add(d)
	timer := time.AfterFunc(d, func() { p.mu.Lock(); p.cond.Broadcast(); p.mu.Unlock() })
	defer timer.Stop()
	p.mu.Lock()
	defer p.mu.Unlock()
	for {
		for p.cursor < len(p.log) {
			r := p.log[p.cursor]
			p.cursor++
			if pred(r) {
				return r, nil
			}
		}
		if p.eof {
			return nil, fmt.Errorf("stream ended: %w", p.err)
		}
		if !time.Now().Before(deadline) {
			return nil, ErrTimeout
		}
		p.cond.Wait()
	}
}

// WaitPacket waits for a packet of type T.
func WaitPacket[T proto.Packet](p *Peer, d time.Duration) (T, *Rec, error) {
	var zero T
	r, err := p.WaitFor(func(r *Rec) bool { _, ok := r.Packet.(T); return ok }, d)
	if err != nil {
		return zero, nil, err
	}
	return r.Packet.(T), r, nil
}

// WaitEOF waits until the peer's read side ended (the other side closed).
func (p *Peer) WaitEOF(d time.Duration) bool {
	timer := time.AfterFunc(d, func() { p.mu.Lock(); p.cond.Broadcast(); p.mu.Unlock() })
	defer timer.Stop()
	deadline := time.Now().Add(d)
	p.mu.Lock()
	defer p.mu.Unlock()
	for !p.eof {
		if !time.Now().Before(deadline) {
			return false
		}
		p.cond.Wait()
	}
	return true
}

// EOF reports whether the stream has ended.
func (p *Peer) EOF() bool { p.mu.Lock(); defer p.mu.Unlock(); return p.eof }

// Log returns a snapshot of everything received so far.
func (p *Peer) Log() []*Rec {
	p.mu.Lock()
	defer p.mu.Unlock()
	return append([]*Rec(nil), p.log...)
}

// Close closes this end.
func (p *Peer) Close() { _ = p.Conn.Close() }
