package e2e

import (
	"context"
	"errors"
	"fmt"
	"net"
	"sync"
	"time"

	"github.com/robinbraemer/event"
	"go.minekube.com/common/minecraft/component"
	"go.minekube.com/gate/pkg/edition/java/auth"
	jconfig "go.minekube.com/gate/pkg/edition/java/config"
	"go.minekube.com/gate/pkg/edition/java/proto/packet"
	cfgpacket "go.minekube.com/gate/pkg/edition/java/proto/packet/config"
	"go.minekube.com/gate/pkg/edition/java/proto/state"
	"go.minekube.com/gate/pkg/edition/java/proto/state/states"
	"go.minekube.com/gate/pkg/edition/java/proto/util"
	"go.minekube.com/gate/pkg/edition/java/proxy"
	"go.minekube.com/gate/pkg/edition/java/proxy/verifh/lib"
	"go.minekube.com/gate/pkg/gate/proto"
	"go.minekube.com/gate/pkg/util/uuid"
)

// Watchdog is the generous wall-clock bound used by the wait helpers; its expiry is never a
// verdict by itself.
var Watchdog = 20 * time.Second

// Harness is one real proxy plus its fake peers.
type Harness struct {
	P   *proxy.Proxy
	Ev  event.Manager
	Cfg *jconfig.Config

	mu       sync.Mutex
	backends map[string]*Backend
	clients  []*Client
	nextPort int
}

// Options configures a Harness.
type Options struct {
	Mutate        func(*jconfig.Config)
	Authenticator auth.Authenticator
}

// New builds a proxy with e2e defaults: offline mode, forwarding none, quotas and packet
// limiter off, compression off (threshold -1) unless Mutate changes them.
func New(o Options) (*Harness, error) {
	cfg := jconfig.DefaultConfig
	cfg.OnlineMode = false
	cfg.Forwarding.Mode = jconfig.NoneForwardingMode
	cfg.Quota.Connections.Enabled = false
	cfg.Quota.Logins.Enabled = false
	cfg.PacketLimiter.PacketsPerSecond = -1
	cfg.PacketLimiter.BytesPerSecond = -1
	cfg.Compression.Threshold = -1
	cfg.Servers = map[string]string{}
	cfg.Try = nil
	cfg.ForcedHosts = map[string][]string{}
	cfg.BuiltinCommands = false
	cfg.Lite.Enabled = false
	cfg.Bedrock.Enabled = false
	cfg.ForceKeyAuthentication = false
	if o.Mutate != nil {
		o.Mutate(&cfg)
	}
	ev := event.New()
	p, err := proxy.New(proxy.Options{Config: &cfg, EventMgr: ev, Authenticator: o.Authenticator})
	if err != nil {
		return nil, err
	}
	return &Harness{P: p, Ev: ev, Cfg: &cfg, backends: map[string]*Backend{}, nextPort: 30000}, nil
}

// ---------------------------------------------------------------------------------------
// Backends

// Mode is what a fake backend does with a connection.
type Mode string

const (
	Accept         Mode = "accept"
	RefuseDial     Mode = "refuse"                // Dial returns an error
	KickLogin      Mode = "kick-login"            // Disconnect instead of login success
	KickConfig     Mode = "kick-config"           // (>=764) Disconnect in configuration
	KickPlay       Mode = "kick-play"             // Disconnect right after JoinGame
	HangLogin      Mode = "hang-login"            // never answers the login
	CloseLogin     Mode = "close-login"           // closes after reading the login
	HangConfig     Mode = "hang-config"           // (>=764) never finishes configuration
	OnlineMode     Mode = "online"                // sends an encryption request (misconfigured backend)
	NoForwarding   Mode = "no-forwarding-request" // velocity mode: login success without asking for forwarding
	CloseHandshake Mode = "close-handshake"       // closes after reading the handshake, before the login start is answered or even read
)

// Behavior scripts one backend connection.
type Behavior struct {
	Mode      Mode
	Threshold int // compression threshold the backend sets (-1 none)
	// VelocityRequest: if non-nil the backend sends velocity:player_info with this data
	// before login success and records the response.
	VelocityRequest []byte
	SendVelocity    bool
	// ConfigPayloads are sent (raw) in configuration before FinishedUpdate (>=764).
	ConfigPackets []proto.Packet
	// Delay before answering the login (stimulus, wall clock).
	LoginDelay time.Duration
	KickReason string
	// KickDelay (KickPlay only): wait this long after JoinGame before kicking (stimulus).
	KickDelay time.Duration
	// KickKeepOpen: after sending a Disconnect the backend does NOT close its end; it is up
	// to the proxy to close the connection of a backend that kicked the player.
	KickKeepOpen bool
	// DialDelay makes Dial itself slow (a backend that is slow at the connect stage); the
	// dial gives up early if the proxy's context ends.
	DialDelay time.Duration
	// BeforeJoin, if set, is called on the connection's reader goroutine when the backend is
	// about to send JoinGame (login answered, configuration finished); it may block to stall
	// the join. If the proxy has closed the connection meanwhile, JoinGame is not sent.
	BeforeJoin func(bc *BackendConn)
}

// Backend is a registered fake backend server.
type Backend struct {
	Name string
	H    *Harness
	Addr net.Addr

	mu       sync.Mutex
	behave   func(n int) Behavior
	conns    []*BackendConn
	dials    int
	DialHook func(n int) // called on each dial (stimulus: delays)
	// DialObserver, if set, is told about every dial (also refused ones, which create no
	// BackendConn) with the context the proxy passed and the behaviour chosen for it.
	DialObserver func(n int, ctx context.Context, beh Behavior, at int64)
}

// BackendConn is one accepted connection on a fake backend.
type BackendConn struct {
	*Peer
	B                *Backend
	N                int
	Behavior         Behavior
	DialAt           int64
	mu               sync.Mutex
	Handshake        *packet.Handshake
	Login            *packet.ServerLogin
	LoginAt          int64
	JoinedAt         int64 // JoinGame sent
	VelocityResponse *packet.LoginPluginResponse
	joined           chan struct{}
	loginSeen        chan struct{}
	EntityID         int
	// DialCtx is the context the proxy passed to Dial (it derives from the context given to
	// ConnectionRequest.Connect, so values a monitor put there identify the request).
	DialCtx context.Context
	// Logical stamps taken by the fake backend *before* it acts, so that anything the proxy
	// does in reaction carries a later stamp: AnswerAt before the login is answered (success,
	// kick or close), JoinSendAt before JoinGame is written, FailAt before the backend kicks
	// or closes on its own initiative (any phase). Zero = did not happen.
	AnswerAt   int64
	JoinSendAt int64
	FailAt     int64
	// ProxyCloseAt is stamped synchronously inside the proxy's Close() of its end of the
	// connection (EOFAt is when the fake backend's reader noticed, which is later).
	ProxyCloseAt int64
}

// Stamps is a consistent copy of the logical time stamps of one backend connection.
type Stamps struct {
	DialAt, LoginAt, AnswerAt, JoinSendAt, JoinedAt, FailAt, EOFAt, ProxyCloseAt int64
}

// Stamps returns the stamps recorded so far (EOFAt: the proxy closed its end).
func (bc *BackendConn) Stamps() Stamps {
	bc.mu.Lock()
	st := Stamps{DialAt: bc.DialAt, LoginAt: bc.LoginAt, AnswerAt: bc.AnswerAt, JoinSendAt: bc.JoinSendAt, JoinedAt: bc.JoinedAt, FailAt: bc.FailAt, ProxyCloseAt: bc.ProxyCloseAt}
	bc.mu.Unlock()
	bc.Peer.mu.Lock()
	st.EOFAt = bc.Peer.EOFAt
	bc.Peer.mu.Unlock()
	return st
}

func (bc *BackendConn) stamp(f *int64) {
	bc.mu.Lock()
	if *f == 0 {
		*f = Now()
	}
	bc.mu.Unlock()
}

type serverInfo struct {
	name string
	addr net.Addr
	b    *Backend
}

func (s *serverInfo) Name() string   { return s.name }
func (s *serverInfo) Addr() net.Addr { return s.addr }
func (s *serverInfo) Dial(ctx context.Context, player proxy.Player) (net.Conn, error) {
	return s.b.dial(ctx, player)
}

// AddBackend registers a fake backend whose n-th connection behaves as behave(n).
func (h *Harness) AddBackend(name string, behave func(n int) Behavior) (*Backend, error) {
	h.mu.Lock()
	h.nextPort++
	port := h.nextPort
	h.mu.Unlock()
	b := &Backend{Name: name, H: h, behave: behave, Addr: &net.TCPAddr{IP: net.IPv4(10, 9, 0, 1), Port: port}}
	if _, err := h.P.Register(&serverInfo{name: name, addr: b.Addr, b: b}); err != nil {
		return nil, err
	}
	h.mu.Lock()
	h.backends[name] = b
	h.mu.Unlock()
	return b, nil
}

// Always returns a behaviour function that ignores n.
func Always(b Behavior) func(int) Behavior { return func(int) Behavior { return b } }

// SetBehavior replaces the behaviour function.
func (b *Backend) SetBehavior(f func(n int) Behavior) { b.mu.Lock(); b.behave = f; b.mu.Unlock() }

// Conns returns the connections accepted so far.
func (b *Backend) Conns() []*BackendConn {
	b.mu.Lock()
	defer b.mu.Unlock()
	return append([]*BackendConn(nil), b.conns...)
}

// Dials returns how many times the proxy dialled this backend.
func (b *Backend) Dials() int { b.mu.Lock(); defer b.mu.Unlock(); return b.dials }

// Server returns the registered server.
func (b *Backend) Server() proxy.RegisteredServer { return b.H.P.Server(b.Name) }

func (b *Backend) dial(ctx context.Context, player proxy.Player) (net.Conn, error) {
	start := Now() // the proxy called Dial: the request has been admitted
	b.mu.Lock()
	n := b.dials
	b.dials++
	beh := b.behave(n)
	hook := b.DialHook
	obs := b.DialObserver
	b.mu.Unlock()
	if obs != nil {
		obs(n, ctx, beh, start)
	}
	if hook != nil {
		hook(n)
	}
	if beh.DialDelay > 0 {
		t := time.NewTimer(beh.DialDelay)
		select {
		case <-t.C:
		case <-ctx.Done():
			t.Stop()
		}
	}
	if beh.Mode == RefuseDial {
		return nil, &net.OpError{Op: "dial", Net: "tcp", Addr: b.Addr, Err: errors.New("connection refused")}
	}
	if ctx.Err() != nil {
		return nil, ctx.Err()
	}
	proxyEnd, backendEnd := lib.Pipe()
	proxyEnd.SetAddrs(&net.TCPAddr{IP: net.IPv4(10, 9, 0, 2), Port: 40000 + n}, b.Addr)
	pv := player.Protocol()
	bc := &BackendConn{B: b, N: n, Behavior: beh, DialAt: start, DialCtx: ctx, joined: make(chan struct{}), loginSeen: make(chan struct{}), EntityID: 1000 + n}
	bc.Peer = newPeer(fmt.Sprintf("backend %s#%d", b.Name, n), backendEnd, proto.ServerBound, proto.ClientBound, pv)
	bc.Peer.OnPacket = bc.onPacket
	proxyEnd.OnClose(func() { bc.stamp(&bc.ProxyCloseAt) })
	b.mu.Lock()
	b.conns = append(b.conns, bc)
	b.mu.Unlock()
	bc.start()
	return proxyEnd, nil
}

// WaitJoined waits until this connection sent JoinGame.
func (bc *BackendConn) WaitJoined(d time.Duration) bool {
	select {
	case <-bc.joined:
		return true
	case <-time.After(d):
		return false
	}
}

// WaitLogin waits until the backend received the login start.
func (bc *BackendConn) WaitLogin(d time.Duration) bool {
	select {
	case <-bc.loginSeen:
		return true
	case <-time.After(d):
		return false
	}
}

func (bc *BackendConn) kick(st states.State) {
	reason := bc.Behavior.KickReason
	if reason == "" {
		reason = "kicked by " + bc.B.Name
	}
	bc.stamp(&bc.FailAt)
	_ = bc.Send(packet.NewDisconnect(&component.Text{Content: reason}, bc.Proto, st))
	if bc.Behavior.KickKeepOpen {
		return
	}
	bc.Close()
}

func (bc *BackendConn) onPacket(r *Rec) {
	switch pk := r.Packet.(type) {
	case *packet.Handshake:
		bc.mu.Lock()
		bc.Handshake = pk
		bc.mu.Unlock()
		if bc.Behavior.Mode == CloseHandshake {
			bc.stamp(&bc.FailAt)
			bc.Close()
			return
		}
		if pk.NextStatus == 1 {
			bc.SetReadState(state.Status)
			bc.SetWriteState(state.Status)
		} else {
			bc.SetReadState(state.Login)
			bc.SetWriteState(state.Login)
		}
	case *packet.ServerLogin:
		bc.mu.Lock()
		bc.Login = pk
		bc.LoginAt = r.At
		bc.mu.Unlock()
		close(bc.loginSeen)
		if bc.Behavior.LoginDelay > 0 {
			time.Sleep(bc.Behavior.LoginDelay)
		}
		switch bc.Behavior.Mode {
		case KickLogin:
			bc.stamp(&bc.AnswerAt)
			bc.kick(states.LoginState)
			return
		case HangLogin:
			return
		case CloseLogin:
			bc.stamp(&bc.AnswerAt)
			bc.stamp(&bc.FailAt)
			bc.Close()
			return
		case OnlineMode:
			_ = bc.Send(&packet.EncryptionRequest{ServerID: "", PublicKey: []byte{1, 2, 3}, VerifyToken: []byte{1, 2, 3, 4}})
			return
		}
		if bc.Behavior.SendVelocity {
			_ = bc.Send(&packet.LoginPluginMessage{ID: 77, Channel: "velocity:player_info", Data: bc.Behavior.VelocityRequest})
			return // continue when the response arrives
		}
		bc.finishLogin()
	case *packet.LoginPluginResponse:
		bc.mu.Lock()
		bc.VelocityResponse = pk
		bc.mu.Unlock()
		bc.finishLogin()
	case *packet.LoginAcknowledged:
		bc.SetReadState(state.Config)
		bc.SetWriteState(state.Config)
		switch bc.Behavior.Mode {
		case KickConfig:
			bc.kick(states.ConfigState)
			return
		case HangConfig:
			return
		}
		for _, cp := range bc.Behavior.ConfigPackets {
			_ = bc.Send(cp)
		}
		_ = bc.Send(&cfgpacket.FinishedUpdate{})
	case *cfgpacket.FinishedUpdate:
		if r.State == states.ConfigState {
			bc.SetReadState(state.Play)
			bc.SetWriteState(state.Play)
			bc.sendJoin()
		}
	}
}

func (bc *BackendConn) finishLogin() {
	if t := bc.Behavior.Threshold; t >= 0 {
		_ = bc.Send(&packet.SetCompression{Threshold: t})
		bc.SetWriteCompression(t)
		bc.SetReadCompression(t)
	}
	bc.mu.Lock()
	name := "unknown"
	if bc.Login != nil {
		name = bc.Login.Username
	}
	bc.mu.Unlock()
	bc.stamp(&bc.AnswerAt)
	_ = bc.Send(&packet.ServerLoginSuccess{UUID: uuid.OfflinePlayerUUID(name), Username: name})
	if bc.Proto < 764 {
		bc.SetReadState(state.Play)
		bc.SetWriteState(state.Play)
		bc.sendJoin()
	}
	// >= 764: wait for LoginAcknowledged (read state stays Login)
}

func (bc *BackendConn) sendJoin() {
	if f := bc.Behavior.BeforeJoin; f != nil {
		f(bc)
		if bc.Conn.PeerClosed() {
			return // the proxy gave this connection up while the join was stalled
		}
	}
	bc.stamp(&bc.JoinSendAt)
	_ = bc.Send(MakeJoinGame(bc.Proto, bc.EntityID))
	bc.mu.Lock()
	bc.JoinedAt = Now()
	bc.mu.Unlock()
	close(bc.joined)
	if bc.Behavior.Mode == KickPlay {
		if bc.Behavior.KickDelay > 0 {
			time.Sleep(bc.Behavior.KickDelay)
		}
		bc.kick(states.PlayState)
	}
}

// MakeJoinGame builds a JoinGame that Gate can encode and decode for the protocol.
func MakeJoinGame(pv proto.Protocol, entityID int) *packet.JoinGame {
	lt := "default"
	ln := "minecraft:overworld"
	j := &packet.JoinGame{
		EntityID: entityID, Gamemode: 1, Dimension: 0, Difficulty: 1, MaxPlayers: 20, LevelType: &lt,
		ViewDistance: 8, SimulationDistance: 8, PreviousGamemode: -1,
		LevelNames:    []string{"minecraft:overworld"},
		DimensionInfo: &packet.DimensionInfo{RegistryIdentifier: "minecraft:overworld", LevelName: &ln},
	}
	if pv >= 735 && pv < 764 {
		// empty compound: TAG_Compound followed by TAG_End
		j.Registry = util.CompoundBinaryTag{Type: 10, Data: []byte{0}}
		j.CurrentDimensionData = util.CompoundBinaryTag{Type: 10, Data: []byte{0}}
	}
	return j
}

// AwaitCurrentServer waits until the proxy's API reports the named player as connected to
// the named server (the switch is complete only then: JoinGame reaches the client slightly
// before the proxy records the new current server).
func (h *Harness) AwaitCurrentServer(player, server string, d time.Duration) bool {
	deadline := time.Now().Add(d)
	for {
		if p := h.P.PlayerByName(player); p != nil {
			if cs := p.CurrentServer(); cs != nil && cs.Server().ServerInfo().Name() == server {
				return true
			}
		}
		if !time.Now().Before(deadline) {
			return false
		}
		time.Sleep(200 * time.Microsecond)
	}
}
