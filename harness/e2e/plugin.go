package e2e

// Additions for the plugin-message monitors (C24, C25). Everything here is additive: a
// second kind of fake backend whose progress through login / configuration / join is
// *gated* by the test (so that "the backend is not ready yet" is a state the workload
// holds for as long as it likes instead of a sleep), and a few read-only accessors on Peer.
// The scripted Backend of harness.go is not touched.

import (
	"context"
	"errors"
	"fmt"
	"net"
	"sync"
	"time"

	"go.minekube.com/gate/pkg/edition/java/proto/packet"
	cfgpacket "go.minekube.com/gate/pkg/edition/java/proto/packet/config"
	"go.minekube.com/gate/pkg/edition/java/proto/packet/plugin"
	"go.minekube.com/gate/pkg/edition/java/proto/state"
	"go.minekube.com/gate/pkg/edition/java/proto/state/states"
	"go.minekube.com/gate/pkg/edition/java/proxy"
	"go.minekube.com/gate/pkg/edition/java/proxy/verifh/lib"
	"go.minekube.com/gate/pkg/gate/proto"
	"go.minekube.com/gate/pkg/util/uuid"
)

// WriteState returns the state whose packet ids this peer currently uses for sending.
func (p *Peer) WriteState() states.State {
	p.wmu.Lock()
	defer p.wmu.Unlock()
	return p.wstate.State
}

// AwaitWriteState polls until the peer sends in state st (the reader goroutine of a fake
// client switches it at the packet boundary).
func (p *Peer) AwaitWriteState(st states.State, d time.Duration) bool {
	deadline := time.Now().Add(d)
	for {
		if p.WriteState() == st {
			return true
		}
		if p.EOF() || !time.Now().Before(deadline) {
			return p.WriteState() == st
		}
		time.Sleep(100 * time.Microsecond)
	}
}

// PluginRec is one plugin message a fake peer received.
type PluginRec struct {
	Seq     int
	At      int64
	State   states.State
	Channel string
	Data    []byte
}

// PluginMessages returns the plugin messages received so far, in order of receipt.
func (p *Peer) PluginMessages() []PluginRec {
	var out []PluginRec
	for _, r := range p.Log() {
		if pm, ok := r.Packet.(*plugin.Message); ok {
			out = append(out, PluginRec{Seq: r.Seq, At: r.At, State: r.State, Channel: pm.Channel, Data: pm.Data})
		}
	}
	return out
}

// Stage is a point in a backend connection's life where a GatedBackend can be held.
type Stage string

const (
	// StageDial: inside ServerInfo.Dial, before the connection exists (blocks the dial).
	StageDial Stage = "dial"
	// StageLogin: login start received, login success not sent yet (blocks the backend's reader).
	StageLogin Stage = "login"
	// StageConfig (>= 764): LoginAcknowledged received and the backend is in configuration; it
	// keeps reading (and recording) but does not send FinishedUpdate until released.
	StageConfig Stage = "config"
	// StageJoin: the backend is in play and keeps reading, but does not send JoinGame until
	// released.
	StageJoin Stage = "join"
)

var allStages = []Stage{StageDial, StageLogin, StageConfig, StageJoin}

// GatedBackend is a registered fake backend every connection of which stops at the held
// stages until the test releases it.
type GatedBackend struct {
	Name string
	H    *Harness
	Addr net.Addr

	mu    sync.Mutex
	hold  map[Stage]bool
	conns []*GatedConn
	dials int
	slots []*dialSlot // per dial: gate + reached
}

type dialSlot struct{ gate, reached chan struct{} }

// slot returns the gate pair of the n-th dial (0-based), creating it on demand.
func (b *GatedBackend) slot(n int) *dialSlot {
	b.mu.Lock()
	defer b.mu.Unlock()
	for len(b.slots) <= n {
		b.slots = append(b.slots, &dialSlot{gate: make(chan struct{}), reached: make(chan struct{})})
	}
	return b.slots[n]
}

// GatedConn is one connection accepted by a GatedBackend.
type GatedConn struct {
	*Peer
	B *GatedBackend
	N int

	mu        sync.Mutex
	hold      map[Stage]bool
	gate      map[Stage]chan struct{}
	reached   map[Stage]chan struct{}
	reachedAt map[Stage]int64
	Login     *packet.ServerLogin
	EntityID  int
	JoinSent  int64
	joinOnce  sync.Once
	cfgOnce   sync.Once
}

type gatedInfo struct {
	name string
	addr net.Addr
	b    *GatedBackend
}

func (s *gatedInfo) Name() string   { return s.name }
func (s *gatedInfo) Addr() net.Addr { return s.addr }
func (s *gatedInfo) Dial(ctx context.Context, player proxy.Player) (net.Conn, error) {
	return s.b.dial(ctx, player)
}

// AddGatedBackend registers a gated fake backend; connections dialled from now on stop at
// the given stages.
func (h *Harness) AddGatedBackend(name string, hold ...Stage) (*GatedBackend, error) {
	h.mu.Lock()
	h.nextPort++
	port := h.nextPort
	h.mu.Unlock()
	b := &GatedBackend{Name: name, H: h, Addr: &net.TCPAddr{IP: net.IPv4(10, 9, 1, 1), Port: port},
		hold: map[Stage]bool{}}
	for _, s := range hold {
		b.hold[s] = true
	}
	if _, err := h.P.Register(&gatedInfo{name: name, addr: b.Addr, b: b}); err != nil {
		return nil, err
	}
	return b, nil
}

// Hold replaces the set of stages at which connections dialled from now on stop.
func (b *GatedBackend) Hold(stages ...Stage) {
	b.mu.Lock()
	b.hold = map[Stage]bool{}
	for _, s := range stages {
		b.hold[s] = true
	}
	b.mu.Unlock()
}

// Server returns the registered server.
func (b *GatedBackend) Server() proxy.RegisteredServer { return b.H.P.Server(b.Name) }

// Dials returns how many times the proxy dialled this backend.
func (b *GatedBackend) Dials() int { b.mu.Lock(); defer b.mu.Unlock(); return b.dials }

// Conns returns the connections accepted so far.
func (b *GatedBackend) Conns() []*GatedConn {
	b.mu.Lock()
	defer b.mu.Unlock()
	return append([]*GatedConn(nil), b.conns...)
}

// AwaitDialing waits until the proxy is inside its n-th Dial (0-based) of this backend.
func (b *GatedBackend) AwaitDialing(n int, d time.Duration) bool {
	select {
	case <-b.slot(n).reached:
		return true
	case <-time.After(d):
		return false
	}
}

// ReleaseDial lets the n-th dial, held at StageDial, proceed (may be called before it starts).
func (b *GatedBackend) ReleaseDial(n int) {
	ch := b.slot(n).gate
	select {
	case <-ch:
	default:
		close(ch)
	}
}

// AwaitConn waits until the n-th connection (0-based) exists.
func (b *GatedBackend) AwaitConn(n int, d time.Duration) *GatedConn {
	deadline := time.Now().Add(d)
	for {
		b.mu.Lock()
		if len(b.conns) > n {
			c := b.conns[n]
			b.mu.Unlock()
			return c
		}
		b.mu.Unlock()
		if !time.Now().Before(deadline) {
			return nil
		}
		time.Sleep(100 * time.Microsecond)
	}
}

func (b *GatedBackend) dial(ctx context.Context, player proxy.Player) (net.Conn, error) {
	b.mu.Lock()
	n := b.dials
	b.dials++
	hold := map[Stage]bool{}
	for s, v := range b.hold {
		hold[s] = v
	}
	b.mu.Unlock()
	sl := b.slot(n)
	close(sl.reached)
	if hold[StageDial] {
		select {
		case <-sl.gate:
		case <-ctx.Done():
			return nil, ctx.Err()
		case <-time.After(4 * Watchdog):
			return nil, errors.New("gated backend: dial gate never released")
		}
	}
	if ctx.Err() != nil {
		return nil, ctx.Err()
	}
	proxyEnd, backendEnd := lib.Pipe()
	proxyEnd.SetAddrs(&net.TCPAddr{IP: net.IPv4(10, 9, 1, 2), Port: 41000 + n}, b.Addr)
	gc := &GatedConn{B: b, N: n, hold: hold, gate: map[Stage]chan struct{}{}, reached: map[Stage]chan struct{}{},
		reachedAt: map[Stage]int64{}, EntityID: 2000 + n}
	for _, s := range allStages {
		gc.gate[s] = make(chan struct{})
		gc.reached[s] = make(chan struct{})
	}
	gc.Peer = newPeer(fmt.Sprintf("gated %s#%d", b.Name, n), backendEnd, proto.ServerBound, proto.ClientBound, player.Protocol())
	gc.Peer.OnPacket = gc.onPacket
	b.mu.Lock()
	b.conns = append(b.conns, gc)
	b.mu.Unlock()
	gc.start()
	return proxyEnd, nil
}

// ProxyEnd-side fault injection is done through the lib.Conn returned to the proxy; the
// backend's own end is gc.Conn.

func (gc *GatedConn) markReached(s Stage) {
	gc.mu.Lock()
	if _, ok := gc.reachedAt[s]; !ok {
		gc.reachedAt[s] = Now()
		close(gc.reached[s])
	}
	gc.mu.Unlock()
}

// AwaitStage waits until the connection arrived at stage s (whether or not it is held there).
func (gc *GatedConn) AwaitStage(s Stage, d time.Duration) bool {
	select {
	case <-gc.reached[s]:
		return true
	case <-time.After(d):
		return false
	}
}

// ReachedAt returns the logical stamp at which the stage was reached (0 = not yet).
func (gc *GatedConn) ReachedAt(s Stage) int64 { gc.mu.Lock(); defer gc.mu.Unlock(); return gc.reachedAt[s] }

// Release lets the connection proceed past stage s. For StageConfig and StageJoin, which do
// not block the reader, the pending action (FinishedUpdate resp. JoinGame) is performed by
// the calling goroutine if the stage was already reached, else by the reader when it gets
// there.
func (gc *GatedConn) Release(s Stage) {
	gc.mu.Lock()
	wasHeld := gc.hold[s]
	gc.hold[s] = false
	_, arrived := gc.reachedAt[s]
	ch := gc.gate[s]
	gc.mu.Unlock()
	select {
	case <-ch:
	default:
		close(ch)
	}
	if wasHeld && arrived {
		switch s {
		case StageConfig:
			gc.finishConfig()
		case StageJoin:
			gc.sendJoin()
		}
	}
}

func (gc *GatedConn) held(s Stage) bool { gc.mu.Lock(); defer gc.mu.Unlock(); return gc.hold[s] }

func (gc *GatedConn) waitGate(s Stage) {
	gc.markReached(s)
	if !gc.held(s) {
		return
	}
	select {
	case <-gc.gate[s]:
	case <-time.After(4 * Watchdog):
	}
}

func (gc *GatedConn) onPacket(r *Rec) {
	switch pk := r.Packet.(type) {
	case *packet.Handshake:
		if pk.NextStatus == 1 {
			gc.SetReadState(state.Status)
			gc.SetWriteState(state.Status)
		} else {
			gc.SetReadState(state.Login)
			gc.SetWriteState(state.Login)
		}
	case *packet.ServerLogin:
		gc.mu.Lock()
		gc.Login = pk
		gc.mu.Unlock()
		gc.waitGate(StageLogin)
		_ = gc.Send(&packet.ServerLoginSuccess{UUID: uuid.OfflinePlayerUUID(pk.Username), Username: pk.Username})
		if gc.Proto < 764 {
			gc.SetReadState(state.Play)
			gc.SetWriteState(state.Play)
			gc.arriveJoin()
		}
	case *packet.LoginAcknowledged:
		gc.SetReadState(state.Config)
		gc.SetWriteState(state.Config)
		// arrive at StageConfig: decide under the lock whether the reader or Release acts
		gc.mu.Lock()
		gc.reachedAt[StageConfig] = Now()
		close(gc.reached[StageConfig])
		heldNow := gc.hold[StageConfig]
		gc.mu.Unlock()
		if !heldNow {
			gc.finishConfig()
		}
	case *cfgpacket.FinishedUpdate:
		if r.State == states.ConfigState {
			gc.SetReadState(state.Play)
			gc.SetWriteState(state.Play)
			gc.arriveJoin()
		}
	}
}

func (gc *GatedConn) arriveJoin() {
	gc.mu.Lock()
	gc.reachedAt[StageJoin] = Now()
	close(gc.reached[StageJoin])
	heldNow := gc.hold[StageJoin]
	gc.mu.Unlock()
	if !heldNow {
		gc.sendJoin()
	}
}

func (gc *GatedConn) finishConfig() {
	gc.cfgOnce.Do(func() { _ = gc.Send(&cfgpacket.FinishedUpdate{}) })
}

func (gc *GatedConn) sendJoin() {
	gc.joinOnce.Do(func() {
		gc.mu.Lock()
		gc.JoinSent = Now()
		gc.mu.Unlock()
		_ = gc.Send(MakeJoinGame(gc.Proto, gc.EntityID))
	})
}

// SendPlugin sends a plugin message in the connection's current write state.
func (p *Peer) SendPlugin(channel string, data []byte) error {
	return p.Send(&plugin.Message{Channel: channel, Data: data})
}

// NewClientWithHook is NewClient with a function that runs on the client's reader goroutine
// before the default reaction to each received packet. It may block, which makes the fake
// client a slow one (e.g. one that takes its time to acknowledge FinishedUpdate).
func (h *Harness) NewClientWithHook(o ClientOpts, pre func(c *Client, r *Rec)) *Client {
	proxyEnd, clientEnd := lib.Pipe()
	if o.RemoteAddr != nil {
		proxyEnd.SetAddrs(&net.TCPAddr{IP: net.IPv4(10, 0, 0, 1), Port: 25565}, o.RemoteAddr)
	} else {
		h.mu.Lock()
		h.nextPort++
		port := h.nextPort
		h.mu.Unlock()
		proxyEnd.SetAddrs(&net.TCPAddr{IP: net.IPv4(10, 0, 0, 1), Port: 25565}, &net.TCPAddr{IP: net.IPv4(10, 1, byte(port>>8), byte(port)), Port: port})
	}
	c := &Client{H: h, AutoKeepAlive: true, joinCh: make(chan struct{}, 64), successCh: make(chan struct{}), handleDone: make(chan struct{})}
	c.Peer = newPeer("client", clientEnd, proto.ClientBound, proto.ServerBound, o.Protocol)
	c.Peer.OnPacket = func(r *Rec) {
		if pre != nil {
			pre(c, r)
		}
		c.onPacket(r)
	}
	c.Secret = make([]byte, 16)
	h.mu.Lock()
	h.clients = append(h.clients, c)
	h.mu.Unlock()
	c.start()
	go func() { h.P.HandleConn(proxyEnd); close(c.handleDone) }()
	return c
}
