package e2e

// Additions for the end-to-end layers of the C17 and C22 monitors. Additive only.

import (
	"go.minekube.com/gate/pkg/edition/java/proto/state"
)

// HandshakeRaw writes payload (packet id + body of a handshake the caller encoded with its
// own codec) and moves the client to the state the handshake announced (1 status, else
// login), exactly like HandshakeProto does for a Gate-encoded handshake.
func (c *Client) HandshakeRaw(payload []byte, next int) error {
	switch next {
	case 1:
		c.Peer.rstateSet(state.Status)
	default:
		c.Peer.rstateSet(state.Login)
	}
	err := c.SendRaw(payload)
	switch next {
	case 1:
		c.SetWriteState(state.Status)
	default:
		c.SetWriteState(state.Login)
	}
	return err
}

// LoginName returns the user name of the login start this backend connection received
// ("" and false while none has arrived).
func (bc *BackendConn) LoginName() (string, bool) {
	bc.mu.Lock()
	defer bc.mu.Unlock()
	if bc.Login == nil {
		return "", false
	}
	return bc.Login.Username, true
}

// HandshakeHost returns the server address of the handshake this backend connection received.
func (bc *BackendConn) HandshakeHost() (string, bool) {
	bc.mu.Lock()
	defer bc.mu.Unlock()
	if bc.Handshake == nil {
		return "", false
	}
	return bc.Handshake.ServerAddress, true
}
