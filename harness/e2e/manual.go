package e2e

// Additions for the login-plugin-message and keep-alive monitors (C13, C18). Everything
// here is additive: a third kind of fake backend, the ManualBackend, whose connections do
// NOTHING on their own - the test sends every packet of the backend's side (login plugin
// requests, login success, configuration end, keep-alives, StartUpdate, JoinGame) when it
// wants to, the reader goroutine only follows the protocol state (handshake -> login ->
// [configuration ->] play, and play <-> configuration on a reconfiguration) and records.
//
// The bodies of the packets these monitors judge (login plugin request/response, keep-alive)
// are encoded and decoded HERE, byte by byte, not with Gate's packet structs: Gate's codec of
// these packets is part of what is observed. Only the packet id of a type is looked up in
// Gate's registry (it differs per protocol version and state).

import (
	"context"
	"encoding/binary"
	"errors"
	"fmt"
	"net"
	"sync"
	"time"

	"go.minekube.com/gate/pkg/edition/java/proto/packet"
	cfgpacket "go.minekube.com/gate/pkg/edition/java/proto/packet/config"
	"go.minekube.com/gate/pkg/edition/java/proto/state"
	"go.minekube.com/gate/pkg/edition/java/proto/state/states"
	"go.minekube.com/gate/pkg/edition/java/proxy"
	"go.minekube.com/gate/pkg/edition/java/proxy/verifh/lib"
	"go.minekube.com/gate/pkg/gate/proto"
	"go.minekube.com/gate/pkg/util/uuid"
)

// ---------------------------------------------------------------------------------------
// own byte codec

// PutVarInt appends v as a protocol VarInt.
func PutVarInt(b []byte, v int) []byte { return putVarInt(b, v) }

// GetVarInt reads a VarInt from the front of b.
func GetVarInt(b []byte) (v, n int, ok bool) {
	var u uint32
	for i := 0; i < 5 && i < len(b); i++ {
		u |= uint32(b[i]&0x7f) << (7 * i)
		if b[i]&0x80 == 0 {
			return int(int32(u)), i + 1, true
		}
	}
	return 0, 0, false
}

// PacketIDOf looks the packet id of pk's type up in Gate's registry.
func PacketIDOf(pk proto.Packet, dir proto.Direction, st *state.Registry, pv proto.Protocol) (int, bool) {
	reg := state.FromDirection(dir, st, pv)
	if reg == nil {
		return 0, false
	}
	id, ok := reg.PacketID(pk)
	return int(id), ok
}

// Login-state packet ids of the login plugin exchange; they have been the same on every
// protocol version since the packets were introduced (1.13).
const (
	LoginPluginRequestID  = 0x04 // clientbound
	LoginPluginResponseID = 0x02 // serverbound
)

// LoginPluginRequest is a login plugin request as parsed from the wire by this package.
type LoginPluginRequest struct {
	At      int64
	Seq     int // position in the peer's log
	ID      int
	Channel string
	Data    []byte
}

// LoginPluginReply is a login plugin response as parsed from the wire by this package.
type LoginPluginReply struct {
	At      int64
	Seq     int
	ID      int
	Success bool
	Data    []byte // the bytes after the success flag (empty, never nil)
}

// EncodeLoginPluginRequest builds the payload (packet id + body) of a login plugin request.
func EncodeLoginPluginRequest(id int, channel string, data []byte) []byte {
	b := PutVarInt(nil, LoginPluginRequestID)
	b = PutVarInt(b, id)
	b = PutVarInt(b, len(channel))
	b = append(b, channel...)
	return append(b, data...)
}

// EncodeLoginPluginResponse builds the payload (packet id + body) of a login plugin response.
func EncodeLoginPluginResponse(id int, success bool, data []byte) []byte {
	b := PutVarInt(nil, LoginPluginResponseID)
	b = PutVarInt(b, id)
	if success {
		b = append(b, 1)
	} else {
		b = append(b, 0)
	}
	return append(b, data...)
}

// ParseLoginPluginRequest parses a received login-state record as a login plugin request.
func ParseLoginPluginRequest(r *Rec) (LoginPluginRequest, bool) {
	if r.State != states.LoginState || r.ID != LoginPluginRequestID {
		return LoginPluginRequest{}, false
	}
	b := r.Payload
	_, n, ok := GetVarInt(b)
	if !ok {
		return LoginPluginRequest{}, false
	}
	b = b[n:]
	id, n, ok := GetVarInt(b)
	if !ok {
		return LoginPluginRequest{}, false
	}
	b = b[n:]
	l, n, ok := GetVarInt(b)
	if !ok || l < 0 || n+l > len(b) {
		return LoginPluginRequest{}, false
	}
	ch := string(b[n : n+l])
	return LoginPluginRequest{At: r.At, Seq: r.Seq, ID: id, Channel: ch, Data: append([]byte{}, b[n+l:]...)}, true
}

// ParseLoginPluginReply parses a received login-state record as a login plugin response.
func ParseLoginPluginReply(r *Rec) (LoginPluginReply, bool) {
	if r.State != states.LoginState || r.ID != LoginPluginResponseID {
		return LoginPluginReply{}, false
	}
	b := r.Payload
	_, n, ok := GetVarInt(b)
	if !ok {
		return LoginPluginReply{}, false
	}
	b = b[n:]
	id, n, ok := GetVarInt(b)
	if !ok || n >= len(b) {
		return LoginPluginReply{}, false
	}
	return LoginPluginReply{At: r.At, Seq: r.Seq, ID: id, Success: b[n] != 0, Data: append([]byte{}, b[n+1:]...)}, true
}

// LoginPluginRequests returns the login plugin requests this peer received so far.
func (p *Peer) LoginPluginRequests() []LoginPluginRequest {
	var out []LoginPluginRequest
	for _, r := range p.Log() {
		if m, ok := ParseLoginPluginRequest(r); ok {
			out = append(out, m)
		}
	}
	return out
}

// LoginPluginReplies returns the login plugin responses this peer received so far.
func (p *Peer) LoginPluginReplies() []LoginPluginReply {
	var out []LoginPluginReply
	for _, r := range p.Log() {
		if m, ok := ParseLoginPluginReply(r); ok {
			out = append(out, m)
		}
	}
	return out
}

// KeepAliveRec is a keep-alive received by a fake peer, parsed by this package.
type KeepAliveRec struct {
	At    int64
	Seq   int
	State states.State
	ID    int64
}

// EncodeKeepAlive builds the payload of a keep-alive this peer would send in state st
// (protocols >= 1.12.2: the id is a big-endian int64).
func (p *Peer) EncodeKeepAlive(st *state.Registry, id int64) ([]byte, error) {
	if p.Proto < 340 {
		return nil, fmt.Errorf("keep-alive codec of protocol %d not implemented", p.Proto)
	}
	pid, ok := PacketIDOf(&packet.KeepAlive{}, p.Out, st, p.Proto)
	if !ok {
		return nil, fmt.Errorf("no keep-alive in %s for protocol %d", st, p.Proto)
	}
	b := PutVarInt(nil, pid)
	return binary.BigEndian.AppendUint64(b, uint64(id)), nil
}

// SendKeepAliveIn sends a keep-alive with the packet id of state st; the returned stamp is
// taken BEFORE the bytes are written.
func (p *Peer) SendKeepAliveIn(st *state.Registry, id int64) (int64, error) {
	b, err := p.EncodeKeepAlive(st, id)
	if err != nil {
		return 0, err
	}
	at := Now()
	return at, p.SendRaw(b)
}

// SendKeepAlive sends a keep-alive in the peer's current write state.
func (p *Peer) SendKeepAlive(id int64) (int64, error) {
	p.wmu.Lock()
	st := p.wstate
	p.wmu.Unlock()
	return p.SendKeepAliveIn(st, id)
}

// KeepAlives returns the keep-alives this peer received so far: every record whose packet id
// is the keep-alive id of the state the peer was reading in, with an 8-byte body.
func (p *Peer) KeepAlives() []KeepAliveRec {
	var out []KeepAliveRec
	for _, r := range p.Log() {
		var reg *state.Registry
		switch r.State {
		case states.PlayState:
			reg = state.Play
		case states.ConfigState:
			reg = state.Config
		default:
			continue
		}
		pid, ok := PacketIDOf(&packet.KeepAlive{}, p.In, reg, p.Proto)
		if !ok || pid != r.ID {
			continue
		}
		_, n, ok := GetVarInt(r.Payload)
		if !ok || len(r.Payload)-n != 8 {
			continue
		}
		out = append(out, KeepAliveRec{At: r.At, Seq: r.Seq, State: r.State, ID: int64(binary.BigEndian.Uint64(r.Payload[n:]))})
	}
	return out
}

// AwaitLog polls until cond holds for the peer's log, the stream ended, or d passed.
func (p *Peer) AwaitLog(cond func(log []*Rec) bool, d time.Duration) bool {
	deadline := time.Now().Add(d)
	timer := time.AfterFunc(d, func() { p.mu.Lock(); p.cond.Broadcast(); p.mu.Unlock() })
	defer timer.Stop()
	p.mu.Lock()
	defer p.mu.Unlock()
	for {
		if cond(p.log) {
			return true
		}
		if p.eof || !time.Now().Before(deadline) {
			return false
		}
		p.cond.Wait()
	}
}

// ---------------------------------------------------------------------------------------
// ManualBackend

// ManualBackend is a registered fake backend whose connections are driven by the test.
type ManualBackend struct {
	Name string
	H    *Harness
	Addr net.Addr

	mu    sync.Mutex
	cond  *sync.Cond
	conns []*ManualConn
	dials int
}

// ManualConn is one connection accepted by a ManualBackend.
type ManualConn struct {
	*Peer
	B *ManualBackend
	N int

	mu          sync.Mutex
	cond        *sync.Cond
	Handshake   *packet.Handshake
	Login       *packet.ServerLogin
	loginAcked  bool // LoginAcknowledged received (>= 764)
	configAcks  int  // FinishedUpdate received while reading CONFIG (the proxy acknowledged the end of a configuration)
	reconfAcks  int  // FinishedUpdate received while reading PLAY (the proxy acknowledged a StartUpdate)
	EntityID    int
	JoinSentAt  int64
	ProxyClosed int64 // stamped inside the proxy's Close of its end
}

type manualInfo struct {
	name string
	addr net.Addr
	b    *ManualBackend
}

func (s *manualInfo) Name() string   { return s.name }
func (s *manualInfo) Addr() net.Addr { return s.addr }
func (s *manualInfo) Dial(ctx context.Context, player proxy.Player) (net.Conn, error) {
	return s.b.dial(ctx, player)
}

// AddManualBackend registers a manual fake backend.
func (h *Harness) AddManualBackend(name string) (*ManualBackend, error) {
	h.mu.Lock()
	h.nextPort++
	port := h.nextPort
	h.mu.Unlock()
	b := &ManualBackend{Name: name, H: h, Addr: &net.TCPAddr{IP: net.IPv4(10, 9, 2, 1), Port: port}}
	b.cond = sync.NewCond(&b.mu)
	if _, err := h.P.Register(&manualInfo{name: name, addr: b.Addr, b: b}); err != nil {
		return nil, err
	}
	return b, nil
}

// Server returns the registered server.
func (b *ManualBackend) Server() proxy.RegisteredServer { return b.H.P.Server(b.Name) }

// Dials returns how many times the proxy dialled this backend.
func (b *ManualBackend) Dials() int { b.mu.Lock(); defer b.mu.Unlock(); return b.dials }

// Conns returns the connections accepted so far.
func (b *ManualBackend) Conns() []*ManualConn {
	b.mu.Lock()
	defer b.mu.Unlock()
	return append([]*ManualConn(nil), b.conns...)
}

// AwaitConn waits until the n-th connection (0-based) exists.
func (b *ManualBackend) AwaitConn(n int, d time.Duration) *ManualConn {
	deadline := time.Now().Add(d)
	timer := time.AfterFunc(d, func() { b.mu.Lock(); b.cond.Broadcast(); b.mu.Unlock() })
	defer timer.Stop()
	b.mu.Lock()
	defer b.mu.Unlock()
	for len(b.conns) <= n {
		if !time.Now().Before(deadline) {
			return nil
		}
		b.cond.Wait()
	}
	return b.conns[n]
}

func (b *ManualBackend) dial(ctx context.Context, player proxy.Player) (net.Conn, error) {
	if ctx.Err() != nil {
		return nil, ctx.Err()
	}
	b.mu.Lock()
	n := b.dials
	b.dials++
	b.mu.Unlock()
	proxyEnd, backendEnd := lib.Pipe()
	proxyEnd.SetAddrs(&net.TCPAddr{IP: net.IPv4(10, 9, 2, 2), Port: 42000 + n}, b.Addr)
	mc := &ManualConn{B: b, N: n, EntityID: 3000 + n}
	mc.cond = sync.NewCond(&mc.mu)
	mc.Peer = newPeer(fmt.Sprintf("manual %s#%d", b.Name, n), backendEnd, proto.ServerBound, proto.ClientBound, player.Protocol())
	mc.Peer.OnPacket = mc.onPacket
	proxyEnd.OnClose(func() {
		mc.mu.Lock()
		if mc.ProxyClosed == 0 {
			mc.ProxyClosed = Now()
		}
		mc.cond.Broadcast()
		mc.mu.Unlock()
	})
	b.mu.Lock()
	b.conns = append(b.conns, mc)
	b.cond.Broadcast()
	b.mu.Unlock()
	mc.start()
	return proxyEnd, nil
}

func (mc *ManualConn) onPacket(r *Rec) {
	switch pk := r.Packet.(type) {
	case *packet.Handshake:
		mc.mu.Lock()
		mc.Handshake = pk
		mc.mu.Unlock()
		if pk.NextStatus == 1 {
			mc.SetReadState(state.Status)
			mc.SetWriteState(state.Status)
		} else {
			mc.SetReadState(state.Login)
			mc.SetWriteState(state.Login)
		}
	case *packet.ServerLogin:
		mc.mu.Lock()
		mc.Login = pk
		mc.cond.Broadcast()
		mc.mu.Unlock()
	case *packet.LoginAcknowledged:
		mc.SetReadState(state.Config)
		mc.SetWriteState(state.Config)
		mc.mu.Lock()
		mc.loginAcked = true
		mc.cond.Broadcast()
		mc.mu.Unlock()
	case *cfgpacket.FinishedUpdate:
		switch r.State {
		case states.ConfigState:
			mc.SetReadState(state.Play)
			mc.SetWriteState(state.Play)
			mc.mu.Lock()
			mc.configAcks++
			mc.cond.Broadcast()
			mc.mu.Unlock()
		case states.PlayState:
			mc.SetReadState(state.Config)
			mc.SetWriteState(state.Config)
			mc.mu.Lock()
			mc.reconfAcks++
			mc.cond.Broadcast()
			mc.mu.Unlock()
		}
	}
}

func (mc *ManualConn) await(cond func() bool, d time.Duration) bool {
	deadline := time.Now().Add(d)
	timer := time.AfterFunc(d, func() { mc.mu.Lock(); mc.cond.Broadcast(); mc.mu.Unlock() })
	defer timer.Stop()
	mc.mu.Lock()
	defer mc.mu.Unlock()
	for !cond() {
		if mc.ProxyClosed != 0 || !time.Now().Before(deadline) {
			return cond()
		}
		mc.cond.Wait()
	}
	return true
}

// AwaitLogin waits until the proxy's login start arrived.
func (mc *ManualConn) AwaitLogin(d time.Duration) bool {
	return mc.await(func() bool { return mc.Login != nil }, d)
}

// AwaitConfig (>= 764) waits until the proxy acknowledged the login: the connection is in
// configuration now.
func (mc *ManualConn) AwaitConfig(d time.Duration) bool {
	return mc.await(func() bool { return mc.loginAcked }, d)
}

// AwaitConfigAcks waits until the proxy acknowledged the end of n configuration phases
// (the connection is in play after each).
func (mc *ManualConn) AwaitConfigAcks(n int, d time.Duration) bool {
	return mc.await(func() bool { return mc.configAcks >= n }, d)
}

// AwaitReconfigAcks waits until the proxy acknowledged n StartUpdates (the connection is in
// configuration after each).
func (mc *ManualConn) AwaitReconfigAcks(n int, d time.Duration) bool {
	return mc.await(func() bool { return mc.reconfAcks >= n }, d)
}

// IsProxyClosed reports whether the proxy closed its end.
func (mc *ManualConn) IsProxyClosed() bool {
	mc.mu.Lock()
	defer mc.mu.Unlock()
	return mc.ProxyClosed != 0
}

// SendLoginPluginRequest sends a login plugin request (own encoding); the stamp is taken
// before the write.
func (mc *ManualConn) SendLoginPluginRequest(id int, channel string, data []byte) (int64, error) {
	at := Now()
	return at, mc.SendRaw(EncodeLoginPluginRequest(id, channel, data))
}

// SendLoginSuccess answers the login. Below 1.20.2 the connection is in play afterwards;
// from 1.20.2 on it stays in login until the proxy acknowledges (AwaitConfig).
func (mc *ManualConn) SendLoginSuccess() error {
	mc.mu.Lock()
	name := "unknown"
	if mc.Login != nil {
		name = mc.Login.Username
	}
	mc.mu.Unlock()
	if mc.Proto < 764 {
		// the proxy sends nothing in the login state after it has the login success, so the
		// switch of the read state is ordered before the reader's next use of it
		mc.Peer.rstateSet(state.Play)
	}
	err := mc.Send(&packet.ServerLoginSuccess{UUID: uuid.OfflinePlayerUUID(name), Username: name})
	if mc.Proto < 764 {
		mc.SetWriteState(state.Play)
	}
	return err
}

// SendFinishConfig ends the backend's configuration phase (the proxy acknowledges it after
// the client did: AwaitConfigAcks).
func (mc *ManualConn) SendFinishConfig() error { return mc.Send(&cfgpacket.FinishedUpdate{}) }

// SendStartReconfig asks for a reconfiguration while in play (AwaitReconfigAcks).
func (mc *ManualConn) SendStartReconfig() error {
	if mc.WriteState() != states.PlayState {
		return errors.New("not in play")
	}
	return mc.Send(&cfgpacket.StartUpdate{})
}

// SendJoin sends JoinGame.
func (mc *ManualConn) SendJoin() error {
	mc.mu.Lock()
	mc.JoinSentAt = Now()
	mc.mu.Unlock()
	return mc.Send(MakeJoinGame(mc.Proto, mc.EntityID))
}

// ---------------------------------------------------------------------------------------
// a client that does not leave the login phase by itself

// NewClientHoldingLoginAck is NewClient for the login-phase monitors: a 1.20.2+ client records
// the login success but does NOT acknowledge it (so it stays in the login state, where login
// plugin requests can still reach it and be answered) until the returned release function is
// called, which sends LoginAcknowledged and moves the client to configuration. Older clients
// behave as with NewClient (the login success itself ends their login phase); release is a
// no-op for them.
func (h *Harness) NewClientHoldingLoginAck(o ClientOpts) (c *Client, release func() error) {
	proxyEnd, clientEnd := lib.Pipe()
	if o.RemoteAddr != nil {
		proxyEnd.SetAddrs(&net.TCPAddr{IP: net.IPv4(10, 0, 0, 1), Port: 25565}, o.RemoteAddr)
	} else {
		h.mu.Lock()
		h.nextPort++
		port := h.nextPort
		h.mu.Unlock()
		proxyEnd.SetAddrs(&net.TCPAddr{IP: net.IPv4(10, 0, 0, 1), Port: 25565}, &net.TCPAddr{IP: net.IPv4(10, 1, byte(port>>8), byte(port)), Port: port})
	}
	c = &Client{H: h, AutoKeepAlive: true, joinCh: make(chan struct{}, 64), successCh: make(chan struct{}), handleDone: make(chan struct{})}
	c.Peer = newPeer("client", clientEnd, proto.ClientBound, proto.ServerBound, o.Protocol)
	c.Peer.OnPacket = func(r *Rec) {
		if pk, ok := r.Packet.(*packet.ServerLoginSuccess); ok && r.State == states.LoginState && c.Proto >= 764 {
			c.mu.Lock()
			first := c.LoginSuccess == nil
			if first {
				c.LoginSuccess = pk
				c.LoginSuccessAt = r.At
			}
			c.mu.Unlock()
			if first {
				close(c.successCh)
			}
			return
		}
		c.onPacket(r)
	}
	c.Secret = make([]byte, 16)
	h.mu.Lock()
	h.clients = append(h.clients, c)
	h.mu.Unlock()
	c.start()
	go func() { h.P.HandleConn(proxyEnd); close(c.handleDone) }()
	var once sync.Once
	release = func() (err error) {
		once.Do(func() {
			if c.Proto < 764 {
				return
			}
			// the proxy sends configuration packets only after it has the acknowledgement
			c.Peer.rstateSet(state.Config)
			err = c.Send(&packet.LoginAcknowledged{})
			c.SetWriteState(state.Config)
		})
		return err
	}
	return c, release
}

// LoginSuccesses counts the login success packets the client received in the login state.
func (c *Client) LoginSuccesses() (n int, firstAt int64, firstSeq int) {
	firstSeq = -1
	for _, r := range c.Log() {
		if _, ok := r.Packet.(*packet.ServerLoginSuccess); ok && r.State == states.LoginState {
			if n == 0 {
				firstAt, firstSeq = r.At, r.Seq
			}
			n++
		}
	}
	return n, firstAt, firstSeq
}
