package e2e

import (
	"testing"
	"time"

	"go.minekube.com/gate/pkg/edition/java/proto/packet"
	"go.minekube.com/gate/pkg/gate/proto"
)

func TestSmoke(t *testing.T) {
	for _, pv := range []proto.Protocol{47, 340, 754, 758, 759, 760, 761, 763, 764, 765, 766, 767, 770, 775, 776} {
		h, err := New(Options{})
		if err != nil {
			t.Fatal(err)
		}
		b, err := h.AddBackend("lobby", Always(Behavior{Mode: Accept, Threshold: -1}))
		if err != nil {
			t.Fatal(err)
		}
		h.Cfg.Try = []string{"lobby"}
		c := h.NewClient(ClientOpts{Protocol: pv})
		t0 := time.Now()
		res := c.Login("Alice", "example.com")
		if !res.Joined {
			t.Errorf("proto %d: not joined: %+v kicked=%v log=%v", pv, res, ReasonText(res.Kicked), c.Log())
			continue
		}
		bc := b.Conns()[0]
		// backend -> client keepalive, client echoes, backend receives
		_ = bc.Send(&packet.KeepAlive{RandomID: 4242})
		_, _, err = WaitPacket[*packet.KeepAlive](bc.Peer, 5*time.Second)
		if err != nil {
			t.Errorf("proto %d: keepalive roundtrip: %v", pv, err)
		}
		t.Logf("proto %d ok in %v players=%d", pv, time.Since(t0), h.P.PlayerCount())
		c.Close()
	}
}
