package e2e

import (
	"bytes"
	"testing"

	"go.minekube.com/gate/pkg/edition/java/proto/packet"
	"go.minekube.com/gate/pkg/edition/java/proto/state"
	"go.minekube.com/gate/pkg/gate/proto"
)

func TestJoinEnc(t *testing.T) {
	for _, pv := range []proto.Protocol{735, 751, 754, 758, 759, 763} {
		b, err := EncodeFor(MakeJoinGame(pv, 5), proto.ClientBound, state.Play, pv)
		if err != nil {
			t.Errorf("%d enc: %v", pv, err)
			continue
		}
		rd := bytes.NewReader(b)
		readVarInt(rd)
		j := &packet.JoinGame{}
		err = safeDecode(j, &proto.PacketContext{Direction: proto.ClientBound, Protocol: pv}, rd)
		t.Logf("%d enc ok len=%d dec err=%v left=%d", pv, len(b), err, rd.Len())
	}
}
