package e2e

// Resource-pack packets on the fake peers, written and parsed by this package's own byte
// codec (from the protocol documentation), so that what a fake backend sends and what the
// fake peers read does not go through Gate's packet structs. Only the packet IDs are looked
// up in Gate's registry (workload selection: which id carries the packet on a protocol).
//
//	request  (clientbound): [uuid >= 1.20.3] url:string hash:string [forced:bool hasPrompt:bool [prompt] >= 1.17]
//	response (serverbound): [uuid >= 1.20.3] [hash:string <= 1.9.4] status:varint
//	remove   (clientbound, >= 1.20.3): hasID:bool [uuid]

import (
	"fmt"

	"go.minekube.com/gate/pkg/edition/java/proto/packet"
	"go.minekube.com/gate/pkg/edition/java/proto/state"
	"go.minekube.com/gate/pkg/edition/java/proto/state/states"
	"go.minekube.com/gate/pkg/gate/proto"
)

// PackRequest is a resource-pack request as this package writes / reads it.
type PackRequest struct {
	ID        [16]byte // >= 765
	URL       string
	Hash      string
	Forced    bool   // >= 755
	HasPrompt bool   // >= 755
	Prompt    string // text of the prompt when written; raw bytes (as string) when parsed
}

// PackResponse is a resource-pack response as parsed from the wire.
type PackResponse struct {
	ID     [16]byte // >= 765
	Hash   string   // <= 110
	Status int
}

func regOf(st states.State) *state.Registry {
	switch st {
	case states.ConfigState:
		return state.Config
	case states.PlayState:
		return state.Play
	}
	return nil
}

func putString(b []byte, s string) []byte { return append(putVarInt(b, len(s)), s...) }

func getString(b []byte) (string, []byte, bool) {
	l, n, ok := GetVarInt(b)
	if !ok || l < 0 || n+l > len(b) {
		return "", nil, false
	}
	return string(b[n : n+l]), b[n+l:], true
}

// EncodePackRequest builds the payload (id + body) of a request sent by a backend to the
// proxy in state st.
func EncodePackRequest(pv proto.Protocol, st *state.Registry, q PackRequest) ([]byte, error) {
	pid, ok := PacketIDOf(&packet.ResourcePackRequest{}, proto.ClientBound, st, pv)
	if !ok {
		return nil, fmt.Errorf("no resource pack request in %s for protocol %d", st, pv)
	}
	b := putVarInt(nil, pid)
	if pv >= 765 {
		b = append(b, q.ID[:]...)
	}
	b = putString(b, q.URL)
	b = putString(b, q.Hash)
	if pv >= 755 {
		b = append(b, boolByte(q.Forced), boolByte(q.HasPrompt))
		if q.HasPrompt {
			if pv >= 765 {
				// network NBT (nameless root): TAG_Compound { TAG_String "text": prompt } TAG_End
				b = append(b, 0x0a, 0x08, 0x00, 0x04, 't', 'e', 'x', 't', byte(len(q.Prompt)>>8), byte(len(q.Prompt)))
				b = append(b, q.Prompt...)
				b = append(b, 0x00)
			} else {
				b = putString(b, fmt.Sprintf(`{"text":%q}`, q.Prompt))
			}
		}
	}
	return b, nil
}

func boolByte(v bool) byte {
	if v {
		return 1
	}
	return 0
}

// ParsePackRequest parses a record received by a fake client as a resource-pack request;
// ok is false when the record is not one.
func ParsePackRequest(pv proto.Protocol, r *Rec) (q PackRequest, ok bool) {
	reg := regOf(r.State)
	if reg == nil {
		return q, false
	}
	pid, has := PacketIDOf(&packet.ResourcePackRequest{}, proto.ClientBound, reg, pv)
	if !has || pid != r.ID {
		return q, false
	}
	_, n, vok := GetVarInt(r.Payload)
	if !vok {
		return q, false
	}
	b := r.Payload[n:]
	if pv >= 765 {
		if len(b) < 16 {
			return q, false
		}
		copy(q.ID[:], b[:16])
		b = b[16:]
	}
	var sok bool
	if q.URL, b, sok = getString(b); !sok {
		return q, false
	}
	if q.Hash, b, sok = getString(b); !sok {
		return q, false
	}
	if pv >= 755 {
		if len(b) < 2 {
			return q, false
		}
		q.Forced, q.HasPrompt = b[0] != 0, b[1] != 0
		q.Prompt = string(b[2:])
	}
	return q, true
}

// EncodePackResponse builds the payload of a response a client sends in state st.
func EncodePackResponse(pv proto.Protocol, st *state.Registry, p PackResponse) ([]byte, error) {
	pid, ok := PacketIDOf(&packet.ResourcePackResponse{}, proto.ServerBound, st, pv)
	if !ok {
		return nil, fmt.Errorf("no resource pack response in %s for protocol %d", st, pv)
	}
	b := putVarInt(nil, pid)
	if pv >= 765 {
		b = append(b, p.ID[:]...)
	}
	if pv <= 110 {
		b = putString(b, p.Hash)
	}
	return putVarInt(b, p.Status), nil
}

// ParsePackResponse parses a record received by a fake backend as a resource-pack response.
func ParsePackResponse(pv proto.Protocol, r *Rec) (p PackResponse, ok bool) {
	reg := regOf(r.State)
	if reg == nil {
		return p, false
	}
	pid, has := PacketIDOf(&packet.ResourcePackResponse{}, proto.ServerBound, reg, pv)
	if !has || pid != r.ID {
		return p, false
	}
	_, n, vok := GetVarInt(r.Payload)
	if !vok {
		return p, false
	}
	b := r.Payload[n:]
	if pv >= 765 {
		if len(b) < 16 {
			return p, false
		}
		copy(p.ID[:], b[:16])
		b = b[16:]
	}
	if pv <= 110 {
		var sok bool
		if p.Hash, b, sok = getString(b); !sok {
			return p, false
		}
	}
	st, k, vok := GetVarInt(b)
	if !vok || k != len(b) {
		return p, false
	}
	p.Status = st
	return p, true
}

// EncodePackRemove builds the payload of a RemoveResourcePack (>= 1.20.3) a backend sends;
// id nil removes all packs.
func EncodePackRemove(pv proto.Protocol, st *state.Registry, id *[16]byte) ([]byte, error) {
	pid, ok := PacketIDOf(&packet.RemoveResourcePack{}, proto.ClientBound, st, pv)
	if !ok {
		return nil, fmt.Errorf("no resource pack removal in %s for protocol %d", st, pv)
	}
	b := putVarInt(nil, pid)
	if id == nil {
		return append(b, 0), nil
	}
	return append(append(b, 1), id[:]...), nil
}

// IsPackRemove reports whether a record received by a fake client is a RemoveResourcePack.
func IsPackRemove(pv proto.Protocol, r *Rec) bool {
	reg := regOf(r.State)
	if reg == nil {
		return false
	}
	pid, has := PacketIDOf(&packet.RemoveResourcePack{}, proto.ClientBound, reg, pv)
	return has && pid == r.ID
}

// WriteRegistry returns the registry of the state this peer currently sends in.
func (p *Peer) WriteRegistry() *state.Registry {
	p.wmu.Lock()
	defer p.wmu.Unlock()
	return p.wstate
}
