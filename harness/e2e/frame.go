// Package e2e is the in-process end-to-end harness: a real proxy.Proxy driven through its
// public API (proxy.New, Register(ServerInfo with Dial), HandleConn) over buffered
// in-memory connections, with scripted fake clients and fake backends.
//
// Framing, compression and encryption on the fake peers are implemented here,
// independently of Gate's codec (Gate's own encoder/decoder is what is under observation
// on both legs). Packet *bodies* are built/parsed with Gate's packet structs on demand and
// tolerantly: a body the fake peer cannot decode is kept as raw bytes, never an error.
package e2e

import (
	"bytes"
	"compress/zlib"
	"crypto/aes"
	"crypto/cipher"
	"errors"
	"fmt"
	"io"
	"sync/atomic"
)

// cfb8 is AES/CFB8 (8-bit feedback), which the Minecraft protocol uses and Go lacks.
type cfb8 struct {
	b       cipher.Block
	iv      []byte
	tmp     []byte
	decrypt bool
}

func newCFB8(key []byte, decrypt bool) (*cfb8, error) {
	b, err := aes.NewCipher(key)
	if err != nil {
		return nil, err
	}
	iv := make([]byte, 16)
	copy(iv, key)
	return &cfb8{b: b, iv: iv, tmp: make([]byte, 16), decrypt: decrypt}, nil
}

func (c *cfb8) xor(dst, src []byte) {
	for i := range src {
		c.b.Encrypt(c.tmp, c.iv)
		in := src[i]
		out := in ^ c.tmp[0]
		copy(c.iv, c.iv[1:])
		if c.decrypt {
			c.iv[15] = in
		} else {
			c.iv[15] = out
		}
		dst[i] = out
	}
}

func putVarInt(b []byte, v int) []byte {
	u := uint32(v)
	for {
		if u&^0x7f == 0 {
			return append(b, byte(u))
		}
		b = append(b, byte(u&0x7f|0x80))
		u >>= 7
	}
}

func readVarInt(r io.ByteReader) (int, int, error) {
	var v uint32
	for i := 0; i < 5; i++ {
		b, err := r.ReadByte()
		if err != nil {
			return 0, i, err
		}
		v |= uint32(b&0x7f) << (7 * i)
		if b&0x80 == 0 {
			return int(int32(v)), i + 1, nil
		}
	}
	return 0, 5, errors.New("varint too long")
}

// encodeFrame frames payload (packet id + data) for the wire.
func encodeFrame(payload []byte, threshold int) []byte {
	if threshold < 0 {
		return append(putVarInt(make([]byte, 0, len(payload)+5), len(payload)), payload...)
	}
	var inner []byte
	if len(payload) >= threshold {
		var zb bytes.Buffer
		zw := zlib.NewWriter(&zb)
		_, _ = zw.Write(payload)
		_ = zw.Close()
		inner = append(putVarInt(nil, len(payload)), zb.Bytes()...)
	} else {
		inner = append([]byte{0}, payload...)
	}
	return append(putVarInt(make([]byte, 0, len(inner)+5), len(inner)), inner...)
}

type byteReader struct {
	r io.Reader
	// dec is switched on from OnPacket (reader goroutine) or, for exchanges driven by the
	// test goroutine, *before* the packet that makes the proxy start encrypting is sent; it
	// is loaded after every underlying Read returns, so bytes that arrive afterwards are
	// always decrypted and no interleaving reads ciphertext as plaintext.
	dec atomic.Pointer[cfb8]
	one [1]byte
}

func (b *byteReader) ReadByte() (byte, error) {
	_, err := io.ReadFull(b, b.one[:])
	return b.one[0], err
}

func (b *byteReader) Read(p []byte) (int, error) {
	n, err := b.r.Read(p)
	if dec := b.dec.Load(); n > 0 && dec != nil {
		dec.xor(p[:n], p[:n])
	}
	return n, err
}

const maxFrame = 1<<21 - 1

// readFrame reads one frame and returns its payload (packet id + data).
func readFrame(br *byteReader, threshold int) ([]byte, error) {
	l, _, err := readVarInt(br)
	if err != nil {
		return nil, err
	}
	if l < 0 || l > maxFrame {
		return nil, fmt.Errorf("peer sent frame length %d", l)
	}
	buf := make([]byte, l)
	if _, err = io.ReadFull(br, buf); err != nil {
		return nil, err
	}
	if threshold < 0 {
		return buf, nil
	}
	rd := bytes.NewReader(buf)
	dl, _, err := readVarInt(rd)
	if err != nil {
		return nil, err
	}
	if dl == 0 {
		return buf[len(buf)-rd.Len():], nil
	}
	if dl < 0 || dl > 64<<20 {
		return nil, fmt.Errorf("peer sent claimed size %d", dl)
	}
	zr, err := zlib.NewReader(rd)
	if err != nil {
		return nil, err
	}
	out := make([]byte, dl)
	if _, err = io.ReadFull(zr, out); err != nil {
		return nil, fmt.Errorf("inflate: %w", err)
	}
	return out, nil
}
