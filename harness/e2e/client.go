package e2e

import (
	"crypto/rand"
	"crypto/rsa"
	"crypto/x509"
	"fmt"
	"net"
	"sync"
	"time"

	"go.minekube.com/gate/pkg/edition/java/proto/packet"
	cfgpacket "go.minekube.com/gate/pkg/edition/java/proto/packet/config"
	"go.minekube.com/gate/pkg/edition/java/proto/state"
	"go.minekube.com/gate/pkg/edition/java/proto/state/states"
	"go.minekube.com/gate/pkg/edition/java/proxy/verifh/lib"
	"go.minekube.com/gate/pkg/gate/proto"
)

// Client is a fake Minecraft client connected to the proxy.
type Client struct {
	*Peer
	H *Harness

	// AutoKeepAlive echoes keep-alives like a vanilla client (default true).
	AutoKeepAlive bool
	// OnEncryptionRequest, if set, replaces the default (valid) online-mode response.
	OnEncryptionRequest func(c *Client, req *packet.EncryptionRequest)
	// Secret is the shared secret the default online-mode response uses.
	Secret []byte

	mu            sync.Mutex
	LoginSuccess  *packet.ServerLoginSuccess
	LoginSuccessAt int64
	Disconnect    *packet.Disconnect
	DisconnectAt  int64
	JoinGames     []*Rec
	EncRequest    *packet.EncryptionRequest
	joinCh        chan struct{}
	successCh     chan struct{}
	Encrypted     bool
	handleDone    chan struct{}
}

// ClientOpts configures a fake client connection.
type ClientOpts struct {
	Protocol   proto.Protocol
	RemoteAddr net.Addr
	// ChunkMax > 0 delivers the client's bytes to the proxy in reads of 1..ChunkMax bytes.
	ChunkMax int
	ChunkSeed string
}

// NewClient opens a connection to the proxy (HandleConn runs on its own goroutine).
func (h *Harness) NewClient(o ClientOpts) *Client {
	proxyEnd, clientEnd := lib.Pipe()
	if o.RemoteAddr != nil {
		proxyEnd.SetAddrs(&net.TCPAddr{IP: net.IPv4(10, 0, 0, 1), Port: 25565}, o.RemoteAddr)
	} else {
		h.mu.Lock()
		h.nextPort++
		port := h.nextPort
		h.mu.Unlock()
		proxyEnd.SetAddrs(&net.TCPAddr{IP: net.IPv4(10, 0, 0, 1), Port: 25565}, &net.TCPAddr{IP: net.IPv4(10, 1, byte(port >> 8), byte(port)), Port: port})
	}
	c := &Client{H: h, AutoKeepAlive: true, joinCh: make(chan struct{}, 64), successCh: make(chan struct{}), handleDone: make(chan struct{})}
	c.Peer = newPeer("client", clientEnd, proto.ClientBound, proto.ServerBound, o.Protocol)
	c.Peer.OnPacket = c.onPacket
	c.Secret = make([]byte, 16)
	_, _ = rand.Read(c.Secret)
	h.mu.Lock()
	h.clients = append(h.clients, c)
	h.mu.Unlock()
	c.start()
	go func() { h.P.HandleConn(proxyEnd); close(c.handleDone) }()
	return c
}

// HandleConnReturned reports whether the proxy's HandleConn for this client has returned.
func (c *Client) HandleConnReturned(d time.Duration) bool {
	select {
	case <-c.handleDone:
		return true
	case <-time.After(d):
		return false
	}
}

// Handshake sends the handshake and moves the client to the next state.
func (c *Client) Handshake(host string, port int, next int) error {
	return c.HandshakeProto(int(c.Proto), host, port, next)
}

// HandshakeProto sends a handshake announcing an arbitrary protocol number.
func (c *Client) HandshakeProto(pv int, host string, port int, next int) error {
	// the read state is switched BEFORE the handshake bytes are written: the proxy cannot
	// answer before it has read them, which orders this write before the reader's use
	switch next {
	case 1:
		c.Peer.rstateSet(state.Status)
	default:
		c.Peer.rstateSet(state.Login)
	}
	err := c.Send(&packet.Handshake{ProtocolVersion: pv, ServerAddress: host, Port: port, NextStatus: next})
	switch next {
	case 1:
		c.SetWriteState(state.Status)
	default:
		c.SetWriteState(state.Login)
	}
	return err
}

// rstateSet sets the read state from outside the reader goroutine; only safe while the
// proxy cannot have sent anything yet (right after the handshake).
func (p *Peer) rstateSet(s *state.Registry) { p.mu.Lock(); p.rstate = s; p.mu.Unlock() }

// LoginStart sends the login start packet.
func (c *Client) LoginStart(name string) error {
	return c.Send(&packet.ServerLogin{Username: name})
}

func (c *Client) onPacket(r *Rec) {
	switch pk := r.Packet.(type) {
	case *packet.SetCompression:
		if r.State == states.LoginState {
			c.SetReadCompression(pk.Threshold)
			c.SetWriteCompression(pk.Threshold)
		}
	case *packet.EncryptionRequest:
		c.mu.Lock()
		c.EncRequest = pk
		c.mu.Unlock()
		if c.OnEncryptionRequest != nil {
			c.OnEncryptionRequest(c, pk)
			return
		}
		_ = c.RespondEncryption(pk, c.Secret, pk.VerifyToken)
	case *packet.ServerLoginSuccess:
		c.mu.Lock()
		c.LoginSuccess = pk
		c.LoginSuccessAt = r.At
		c.mu.Unlock()
		close(c.successCh)
		if c.Proto >= 764 {
			_ = c.Send(&packet.LoginAcknowledged{})
			c.SetWriteState(state.Config)
			c.SetReadState(state.Config)
		} else {
			c.SetWriteState(state.Play)
			c.SetReadState(state.Play)
		}
	case *packet.Disconnect:
		c.mu.Lock()
		if c.Disconnect == nil {
			c.Disconnect = pk
			c.DisconnectAt = r.At
		}
		c.mu.Unlock()
	case *packet.KeepAlive:
		if c.AutoKeepAlive {
			_ = c.Send(pk)
		}
	case *cfgpacket.KnownPacks:
		if r.State == states.ConfigState {
			_ = c.Send(pk)
		}
	case *cfgpacket.FinishedUpdate:
		if r.State == states.ConfigState {
			_ = c.Send(&cfgpacket.FinishedUpdate{})
			c.SetWriteState(state.Play)
			c.SetReadState(state.Play)
		}
	case *cfgpacket.StartUpdate:
		if r.State == states.PlayState {
			// acknowledge and enter configuration
			_ = c.Send(&cfgpacket.FinishedUpdate{})
			c.SetWriteState(state.Config)
			c.SetReadState(state.Config)
		}
	case *packet.JoinGame:
		c.mu.Lock()
		c.JoinGames = append(c.JoinGames, r)
		c.mu.Unlock()
		select {
		case c.joinCh <- struct{}{}:
		default:
		}
	}
}

// RespondEncryption sends an encryption response carrying secret and token, RSA-encrypted
// with the public key of req, and enables encryption with secret on this client.
func (c *Client) RespondEncryption(req *packet.EncryptionRequest, secret, token []byte) error {
	pubAny, err := x509.ParsePKIXPublicKey(req.PublicKey)
	if err != nil {
		return err
	}
	pub, ok := pubAny.(*rsa.PublicKey)
	if !ok {
		return fmt.Errorf("not an RSA key")
	}
	return c.RespondEncryptionWithKey(pub, secret, token, true)
}

// RespondEncryptionWithKey is RespondEncryption with an explicit key (possibly the wrong one).
func (c *Client) RespondEncryptionWithKey(pub *rsa.PublicKey, secret, token []byte, enable bool) error {
	es, err := rsa.EncryptPKCS1v15(rand.Reader, pub, secret)
	if err != nil {
		return err
	}
	et, err := rsa.EncryptPKCS1v15(rand.Reader, pub, token)
	if err != nil {
		return err
	}
	resp := &packet.EncryptionResponse{SharedSecret: es, VerifyToken: et}
	if enable && len(secret) == 16 {
		if err = c.SendThenEncrypt(resp, secret); err != nil {
			return err
		}
		c.mu.Lock()
		c.Encrypted = true
		c.mu.Unlock()
		return nil
	}
	return c.Send(resp)
}

// LoginResult is what a login attempt ended with.
type LoginResult struct {
	Success    bool // login success received
	Joined     bool // JoinGame received
	Kicked     *packet.Disconnect
	Closed     bool
	TimedOut   bool
}

// Login performs handshake + login start and waits until the client joined a backend
// (JoinGame), was disconnected, or the watchdog fired.
func (c *Client) Login(name, host string) LoginResult {
	_ = c.Handshake(host, 25565, 2)
	_ = c.LoginStart(name)
	return c.AwaitJoin(Watchdog)
}

// AwaitJoin waits for JoinGame / disconnect / close.
func (c *Client) AwaitJoin(d time.Duration) LoginResult {
	deadline := time.After(d)
	tick := time.NewTicker(2 * time.Millisecond)
	defer tick.Stop()
	for {
		c.mu.Lock()
		res := LoginResult{Success: c.LoginSuccess != nil, Joined: len(c.JoinGames) > 0, Kicked: c.Disconnect}
		c.mu.Unlock()
		if res.Joined || res.Kicked != nil {
			return res
		}
		if c.EOF() {
			c.mu.Lock()
			res = LoginResult{Success: c.LoginSuccess != nil, Joined: len(c.JoinGames) > 0, Kicked: c.Disconnect, Closed: true}
			c.mu.Unlock()
			return res
		}
		select {
		case <-deadline:
			res.TimedOut = true
			return res
		case <-c.joinCh:
		case <-tick.C:
		}
	}
}

// AwaitJoinCount waits until n JoinGame packets were received in total.
func (c *Client) AwaitJoinCount(n int, d time.Duration) bool {
	deadline := time.Now().Add(d)
	for time.Now().Before(deadline) {
		c.mu.Lock()
		k := len(c.JoinGames)
		c.mu.Unlock()
		if k >= n {
			return true
		}
		if c.EOF() {
			return false
		}
		time.Sleep(2 * time.Millisecond)
	}
	return false
}

// Joins returns the number of JoinGame packets received.
func (c *Client) Joins() int { c.mu.Lock(); defer c.mu.Unlock(); return len(c.JoinGames) }

// GotLoginSuccess reports whether login success was received.
func (c *Client) GotLoginSuccess() bool { c.mu.Lock(); defer c.mu.Unlock(); return c.LoginSuccess != nil }

// Kicked returns the disconnect packet received, if any.
func (c *Client) Kicked() *packet.Disconnect { c.mu.Lock(); defer c.mu.Unlock(); return c.Disconnect }

// ReasonText returns a printable form of a disconnect reason.
func ReasonText(d *packet.Disconnect) string {
	if d == nil || d.Reason == nil {
		return ""
	}
	if j, err := d.Reason.AsJson(); err == nil {
		return string(j)
	}
	return fmt.Sprintf("%+v", d.Reason)
}

// IsEncrypted reports whether the client enabled encryption.
func (c *Client) IsEncrypted() bool { c.mu.Lock(); defer c.mu.Unlock(); return c.Encrypted }
