package litefwd

import (
	"context"
	"fmt"
	"net"
	"time"

	"go.minekube.com/gate/pkg/edition/java/netmc"
	"go.minekube.com/gate/pkg/edition/java/proto/state"
	"go.minekube.com/gate/pkg/gate/proto"
)

// TCPSession is a Session whose client side is a real loopback TCP connection (so that
// half-closes, FIN/RST ordering and the kernel's socket buffers are the real ones). The
// embedded Session's Client (the in-memory end) is nil.
type TCPSession struct {
	*Session
	TCP *net.TCPConn // the fake client's end
	// Addr is the client's address as Gate sees it (the real local address of TCP).
	Addr *net.TCPAddr
}

// StartTCP is Start with a real loopback TCP connection between the fake client and Gate's
// netmc.MinecraftConn. Options.ClientAddr, ReadChunkRng and ReadChunkMax are ignored: Gate
// sees the connection's real remote address.
func StartTCP(opts Options) (*TCPSession, error) {
	if opts.DialTimeout == 0 {
		opts.DialTimeout = 5 * time.Second
	}
	l, err := net.Listen("tcp4", "127.0.0.1:0")
	if err != nil {
		return nil, err
	}
	defer l.Close()
	type acc struct {
		c   net.Conn
		err error
	}
	ch := make(chan acc, 1)
	go func() { c, err := l.Accept(); ch <- acc{c, err} }()
	cc, err := net.DialTimeout("tcp4", l.Addr().String(), 10*time.Second)
	if err != nil {
		return nil, err
	}
	var a acc
	select {
	case a = <-ch:
	case <-time.After(10 * time.Second):
		_ = cc.Close()
		return nil, fmt.Errorf("litefwd: accept of the client connection timed out")
	}
	if a.err != nil {
		_ = cc.Close()
		return nil, a.err
	}
	tc := cc.(*net.TCPConn)
	s := &Session{Rec: &Recorder{TryLimit: opts.TryLimit}, forwardRet: make(chan struct{}), loopRet: make(chan struct{})}
	ctx, cancel := context.WithCancel(context.Background())
	s.cancel = cancel
	conn, readLoop := netmc.NewMinecraftConn(ctx, a.c, proto.ServerBound, 30*time.Second, 30*time.Second, -1, nil)
	h := &hsHandler{s: s, conn: conn, opts: opts}
	conn.SetActiveSessionHandler(state.Handshake, h)
	go func() {
		defer close(s.loopRet)
		defer cancel()
		readLoop()
	}()
	return &TCPSession{Session: s, TCP: tc, Addr: tc.LocalAddr().(*net.TCPAddr)}, nil
}
