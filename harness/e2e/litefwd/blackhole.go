package litefwd

import (
	"errors"
	"fmt"
	"net"
	"syscall"
	"time"
)

// Blackhole is a loopback TCP port on which a connect neither succeeds nor is refused: a
// listening socket with backlog 0 that is never accepted from and whose accept queue was
// filled, so the kernel drops every further SYN (Linux, net.ipv4.tcp_abort_on_overflow=0)
// and a dial hangs until the dialler's own timeout. It is how the Lite monitors make a
// *real* net.Dialer run into its dial timeout without leaving the loopback interface.
type Blackhole struct {
	fd      int
	Port    int
	fillers []net.Conn
}

// ReserveBlackhole creates a Blackhole on 127.0.0.1 (any port). probe is the timeout of the
// connects used to fill the accept queue; the constructor returns only after one of them
// actually timed out, i.e. after the port was seen to behave as promised.
func ReserveBlackhole(probe time.Duration) (*Blackhole, error) {
	fd, err := syscall.Socket(syscall.AF_INET, syscall.SOCK_STREAM, 0)
	if err != nil {
		return nil, err
	}
	b := &Blackhole{fd: fd}
	fail := func(err error) (*Blackhole, error) { b.Release(); return nil, err }
	if err = syscall.Bind(fd, &syscall.SockaddrInet4{Addr: [4]byte{127, 0, 0, 1}}); err != nil {
		return fail(err)
	}
	if err = syscall.Listen(fd, 0); err != nil {
		return fail(err)
	}
	sa, err := syscall.Getsockname(fd)
	if err != nil {
		return fail(err)
	}
	b.Port = sa.(*syscall.SockaddrInet4).Port
	addr := fmt.Sprintf("127.0.0.1:%d", b.Port)
	for i := 0; i < 16; i++ {
		c, err := net.DialTimeout("tcp4", addr, probe)
		if err != nil {
			var ne net.Error
			if errors.As(err, &ne) && ne.Timeout() {
				return b, nil
			}
			return fail(fmt.Errorf("filling the accept queue: %w", err))
		}
		b.fillers = append(b.fillers, c)
	}
	return fail(errors.New("connects to a never-accepted backlog-0 listener keep succeeding on this system"))
}

// Probe reports whether a connect to the port still times out (and is not refused or
// accepted) within d.
func (b *Blackhole) Probe(d time.Duration) bool {
	c, err := net.DialTimeout("tcp4", fmt.Sprintf("127.0.0.1:%d", b.Port), d)
	if err == nil {
		b.fillers = append(b.fillers, c)
		return false
	}
	var ne net.Error
	return errors.As(err, &ne) && ne.Timeout()
}

// Release closes the socket and the connections that fill its queue.
func (b *Blackhole) Release() {
	for _, c := range b.fillers {
		_ = c.Close()
	}
	_ = syscall.Close(b.fd)
}
