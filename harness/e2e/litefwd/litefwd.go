// Package litefwd drives Gate's real lite.Forward the way the proxy's handshake session
// handler does (pkg/edition/java/proxy/session_client_handshake.go), but with an injected
// logr sink so that a monitor can observe every backend try, and with independent wire
// helpers (hand-written VarInt/handshake codec; nothing here imports Gate's codec for
// encoding what the fake client sends or for decoding what the fake backend receives).
//
// Used by the Lite monitors C29, C30, C31 and C32.
package litefwd

import (
	"context"
	"encoding/binary"
	"errors"
	"fmt"
	"io"
	"math/rand"
	"net"
	"sync"
	"syscall"
	"time"

	"github.com/go-logr/logr"
	"go.minekube.com/gate/pkg/edition/java/lite"
	"go.minekube.com/gate/pkg/edition/java/lite/config"
	"go.minekube.com/gate/pkg/edition/java/netmc"
	"go.minekube.com/gate/pkg/edition/java/proto/packet"
	"go.minekube.com/gate/pkg/edition/java/proto/state"
	"go.minekube.com/gate/pkg/edition/java/proxy/verifh/lib"
	"go.minekube.com/gate/pkg/gate/proto"
)

// ---------------------------------------------------------------------------------------
// log recorder

// Event is one log line Gate emitted, with the accumulated WithValues key/values merged in.
type Event struct {
	Seq  int64
	Msg  string
	V    int
	Err  string
	KV   map[string]string
	Name string
}

// Messages of lite.Forward the monitors key on (observed at the logging boundary, the only
// injectable observation point of the public Forward API).
const (
	MsgTryFailed  = "failed to try backend"
	MsgForwarding = "forwarding connection"
	MsgNoRoute    = "failed to find route"
)

// ErrRetryGuard is the panic value the recorder raises from inside the log sink once one
// Forward call has logged more than TryLimit failed tries: tryBackends has no other exit
// when its candidate list never shrinks, and a monitor must not hang on it.
var ErrRetryGuard = errors.New("litefwd: retry guard: more failed tries than the guard allows")

// Recorder collects the log events of one Forward call.
type Recorder struct {
	mu       sync.Mutex
	events   []Event
	tries    int
	TryLimit int // 0 = unlimited
	seq      *int64
}

func (r *Recorder) add(e Event) (tries int) {
	r.mu.Lock()
	defer r.mu.Unlock()
	e.Seq = int64(len(r.events))
	r.events = append(r.events, e)
	if e.Msg == MsgTryFailed {
		r.tries++
	}
	return r.tries
}

// Events returns a copy of the recorded events.
func (r *Recorder) Events() []Event {
	r.mu.Lock()
	defer r.mu.Unlock()
	return append([]Event(nil), r.events...)
}

// Tries returns the backend addresses Gate tried, in order; the last one is the one being
// forwarded to when ok is true.
func (r *Recorder) Tries() (addrs []string, forwardedTo string, ok bool) {
	for _, e := range r.Events() {
		switch e.Msg {
		case MsgTryFailed:
			addrs = append(addrs, e.KV["backendAddr"])
		case MsgForwarding:
			addrs = append(addrs, e.KV["backendAddr"])
			forwardedTo, ok = e.KV["backendAddr"], true
		}
	}
	return
}

// Find returns the first event with the message.
func (r *Recorder) Find(msg string) (Event, bool) {
	for _, e := range r.Events() {
		if e.Msg == msg {
			return e, true
		}
	}
	return Event{}, false
}

// Logger returns a logr.Logger writing into the recorder (all verbosity levels enabled).
func (r *Recorder) Logger() logr.Logger { return logr.New(&sink{rec: r}) }

type sink struct {
	rec  *Recorder
	kv   []any
	name string
}

func (s *sink) Init(logr.RuntimeInfo) {}
func (s *sink) Enabled(int) bool      { return true }

func (s *sink) merged(kv []any) map[string]string {
	m := map[string]string{}
	put := func(kv []any) {
		for i := 0; i+1 < len(kv); i += 2 {
			k, _ := kv[i].(string)
			switch v := kv[i+1].(type) {
			case string:
				m[k] = v
			case error:
				if v != nil {
					m[k] = v.Error()
				}
			case fmt.Stringer:
				m[k] = safeString(v)
			default:
				m[k] = fmt.Sprint(v)
			}
		}
	}
	put(s.kv)
	put(kv)
	return m
}

func safeString(v fmt.Stringer) (s string) {
	defer func() {
		if recover() != nil {
			s = "<panic in String()>"
		}
	}()
	return v.String()
}

func (s *sink) Info(level int, msg string, kv ...any) {
	n := s.rec.add(Event{Msg: msg, V: level, KV: s.merged(kv), Name: s.name})
	if msg == MsgTryFailed && s.rec.TryLimit > 0 && n > s.rec.TryLimit {
		panic(ErrRetryGuard)
	}
}

func (s *sink) Error(err error, msg string, kv ...any) {
	e := Event{Msg: msg, V: -1, KV: s.merged(kv), Name: s.name}
	if err != nil {
		e.Err = err.Error()
	}
	s.rec.add(e)
}

func (s *sink) WithValues(kv ...any) logr.LogSink {
	n := &sink{rec: s.rec, name: s.name}
	n.kv = append(append([]any(nil), s.kv...), kv...)
	return n
}

func (s *sink) WithName(name string) logr.LogSink {
	n := &sink{rec: s.rec, kv: s.kv, name: s.name + "/" + name}
	return n
}

// ---------------------------------------------------------------------------------------
// independent wire helpers

// AppendVarInt appends the canonical Minecraft VarInt of v (two's complement, 32 bit).
func AppendVarInt(b []byte, v int32) []byte {
	u := uint32(v)
	for {
		if u&^0x7f == 0 {
			return append(b, byte(u))
		}
		b = append(b, byte(u&0x7f)|0x80)
		u >>= 7
	}
}

// AppendVarIntPadded appends v as a non-canonical VarInt occupying exactly n bytes
// (n >= canonical length, n <= 5).
func AppendVarIntPadded(b []byte, v int32, n int) []byte {
	u := uint32(v)
	for i := 0; i < n; i++ {
		c := byte(u & 0x7f)
		u >>= 7
		if i < n-1 {
			c |= 0x80
		}
		b = append(b, c)
	}
	return b
}

// ReadVarInt decodes a VarInt from b, returning the value and the bytes consumed (0 if
// incomplete, -1 if malformed).
func ReadVarInt(b []byte) (int32, int) {
	var u uint32
	for i := 0; i < 5; i++ {
		if i >= len(b) {
			return 0, 0
		}
		u |= uint32(b[i]&0x7f) << (7 * uint(i))
		if b[i]&0x80 == 0 {
			return int32(u), i + 1
		}
	}
	return 0, -1
}

// Handshake are the fields of the serverbound handshake packet (id 0x00).
type Handshake struct {
	Protocol int32
	Address  string
	Port     uint16
	Next     int32
}

// Payload returns packet id + fields in canonical encoding.
func (h Handshake) Payload() []byte {
	b := AppendVarInt(nil, 0)
	b = AppendVarInt(b, h.Protocol)
	b = AppendVarInt(b, int32(len(h.Address)))
	b = append(b, h.Address...)
	b = binary.BigEndian.AppendUint16(b, h.Port)
	b = AppendVarInt(b, h.Next)
	return b
}

// Frame returns the length-prefixed canonical frame.
func (h Handshake) Frame() []byte { return FramePayload(h.Payload()) }

// FramePayload prefixes payload with its canonical VarInt length.
func FramePayload(p []byte) []byte {
	return append(AppendVarInt(nil, int32(len(p))), p...)
}

// ParseHandshakeFrame decodes one frame from the front of b (canonical or not) and returns
// the handshake, the total frame size and any bytes of the frame payload after the last field.
func ParseHandshakeFrame(b []byte) (h Handshake, size int, trailing []byte, err error) {
	l, n := ReadVarInt(b)
	if n <= 0 {
		return h, 0, nil, errors.New("incomplete or malformed frame length")
	}
	if l < 0 || int(l) > len(b)-n {
		return h, 0, nil, fmt.Errorf("frame length %d exceeds the %d bytes available", l, len(b)-n)
	}
	p := b[n : n+int(l)]
	size = n + int(l)
	id, k := ReadVarInt(p)
	if k <= 0 || id != 0 {
		return h, size, nil, fmt.Errorf("packet id %d (n=%d), want 0", id, k)
	}
	p = p[k:]
	if h.Protocol, k = ReadVarInt(p); k <= 0 {
		return h, size, nil, errors.New("bad protocol varint")
	}
	p = p[k:]
	sl, k := ReadVarInt(p)
	if k <= 0 || sl < 0 || int(sl) > len(p)-k {
		return h, size, nil, errors.New("bad address length")
	}
	h.Address = string(p[k : k+int(sl)])
	p = p[k+int(sl):]
	if len(p) < 2 {
		return h, size, nil, errors.New("missing port")
	}
	h.Port = binary.BigEndian.Uint16(p)
	p = p[2:]
	if h.Next, k = ReadVarInt(p); k <= 0 {
		return h, size, nil, errors.New("bad next-state varint")
	}
	return h, size, p[k:], nil
}

// ---------------------------------------------------------------------------------------
// driving lite.Forward

// Options configure one client session.
type Options struct {
	Routes      []config.Route
	SM          *lite.StrategyManager
	DialTimeout time.Duration // what the proxy passes as cfg.ConnectionTimeout (default 5s)
	ClientAddr  net.Addr      // remote address of the client as seen by Gate
	TryLimit    int           // retry guard, 0 = off
	// ReadChunkMax > 0 makes every read Gate does on the client connection return 1..max
	// bytes chosen by ReadChunkRng (TCP segmentation).
	ReadChunkRng *rand.Rand
	ReadChunkMax int
	// OnStatus, if set, is called instead of closing when the handshake asks for status.
	OnStatus func(s *Session, conn netmc.MinecraftConn, hs *packet.Handshake, pc *proto.PacketContext)
}

// Session is one fake client connected to a real netmc.MinecraftConn whose handshake state
// handler calls the real lite.Forward.
type Session struct {
	Client *lib.Conn // the fake client's end
	Rec    *Recorder

	Handshake  *packet.Handshake // as decoded by Gate (nil until seen)
	forwardRet chan struct{}
	loopRet    chan struct{}
	mu         sync.Mutex
	panicVal   any
	sawHS      bool
	cancel     context.CancelFunc
}

// ForwardReturned is closed when lite.Forward returned (or panicked).
func (s *Session) ForwardReturned() <-chan struct{} { return s.forwardRet }

// LoopReturned is closed when the connection's read loop ended.
func (s *Session) LoopReturned() <-chan struct{} { return s.loopRet }

// Panic returns the value lite.Forward panicked with, if any.
func (s *Session) Panic() any { s.mu.Lock(); defer s.mu.Unlock(); return s.panicVal }

// SawHandshake reports whether Gate decoded a handshake on this session.
func (s *Session) SawHandshake() bool { s.mu.Lock(); defer s.mu.Unlock(); return s.sawHS }

type hsHandler struct {
	s    *Session
	conn netmc.MinecraftConn
	opts Options
	once sync.Once
}

func (h *hsHandler) Disconnected() {}
func (h *hsHandler) Activated()    {}
func (h *hsHandler) Deactivated()  {}

// HandlePacket mirrors handshakeSessionHandler.handleHandshake for Lite mode.
func (h *hsHandler) HandlePacket(pc *proto.PacketContext) {
	hs, ok := pc.Packet.(*packet.Handshake)
	if !pc.KnownPacket() || !ok {
		_ = h.conn.Close()
		return
	}
	var next *state.Registry
	switch hs.NextStatus {
	case 1:
		next = state.Status
	case 2, 3:
		next = state.Login
	default:
		_ = h.conn.Close()
		return
	}
	h.s.mu.Lock()
	h.s.sawHS = true
	h.s.Handshake = hs
	h.s.mu.Unlock()
	h.conn.SetProtocol(proto.Protocol(hs.ProtocolVersion))
	h.conn.SetState(next)
	if next == state.Status {
		if h.opts.OnStatus != nil {
			h.opts.OnStatus(h.s, h.conn, hs, pc)
		} else {
			_ = h.conn.Close()
		}
		return
	}
	defer h.once.Do(func() { close(h.s.forwardRet) })
	defer func() {
		if p := recover(); p != nil {
			h.s.mu.Lock()
			h.s.panicVal = p
			h.s.mu.Unlock()
			_ = h.conn.Close()
		}
	}()
	lite.Forward(h.opts.DialTimeout, h.opts.Routes, h.s.Rec.Logger(), h.conn, hs, pc, h.opts.SM)
}

// Start creates the connection pair and starts Gate's read loop on the proxy end.
func Start(opts Options) *Session {
	if opts.DialTimeout == 0 {
		opts.DialTimeout = 5 * time.Second
	}
	cl, px := lib.Pipe()
	if opts.ClientAddr != nil {
		px.SetAddrs(&net.TCPAddr{IP: net.IPv4(127, 0, 0, 1), Port: 25565}, opts.ClientAddr)
	}
	if opts.ReadChunkMax > 0 && opts.ReadChunkRng != nil {
		px.SetChunking(opts.ReadChunkRng, opts.ReadChunkMax)
	}
	s := &Session{Client: cl, Rec: &Recorder{TryLimit: opts.TryLimit}, forwardRet: make(chan struct{}), loopRet: make(chan struct{})}
	ctx, cancel := context.WithCancel(context.Background())
	s.cancel = cancel
	conn, readLoop := netmc.NewMinecraftConn(ctx, px, proto.ServerBound, 30*time.Second, 30*time.Second, -1, nil)
	h := &hsHandler{s: s, conn: conn, opts: opts}
	conn.SetActiveSessionHandler(state.Handshake, h)
	go func() {
		defer close(s.loopRet)
		defer cancel()
		readLoop()
	}()
	return s
}

// ---------------------------------------------------------------------------------------
// fake backends

// Accepted is one connection a Backend accepted.
type Accepted struct {
	Conn net.Conn
	At   int64 // value of the global accept counter
}

// Backend is a loopback TCP listener. Every accepted connection is handed to Serve in its
// own goroutine.
type Backend struct {
	L     net.Listener
	Port  int
	mu    sync.Mutex
	n     int
	Serve func(c net.Conn, idx int)
	wg    sync.WaitGroup
}

// Listen starts a backend on 127.0.0.1 at the given port (0 = any).
func Listen(port int, serve func(c net.Conn, idx int)) (*Backend, error) {
	l, err := net.Listen("tcp4", fmt.Sprintf("127.0.0.1:%d", port))
	if err != nil {
		return nil, err
	}
	b := &Backend{L: l, Port: l.Addr().(*net.TCPAddr).Port, Serve: serve}
	go func() {
		for {
			c, err := l.Accept()
			if err != nil {
				return
			}
			b.mu.Lock()
			idx := b.n
			b.n++
			b.mu.Unlock()
			b.wg.Add(1)
			go func() { defer b.wg.Done(); b.Serve(c, idx) }()
		}
	}()
	return b, nil
}

// Accepts returns how many connections were accepted so far.
func (b *Backend) Accepts() int { b.mu.Lock(); defer b.mu.Unlock(); return b.n }

// Close stops the listener.
func (b *Backend) Close() { _ = b.L.Close() }

// Wait waits for all Serve goroutines.
func (b *Backend) Wait() { b.wg.Wait() }

// RefusedPort reserves a loopback TCP port that refuses connections: a socket that is bound
// but never listens. The port stays ours (nobody else can bind it) until Release.
type RefusedPort struct {
	fd   int
	Port int
}

// ReserveRefused binds (without listening) 127.0.0.1:port (0 = any).
func ReserveRefused(port int) (*RefusedPort, error) {
	fd, err := syscall.Socket(syscall.AF_INET, syscall.SOCK_STREAM, 0)
	if err != nil {
		return nil, err
	}
	sa := &syscall.SockaddrInet4{Port: port, Addr: [4]byte{127, 0, 0, 1}}
	if err = syscall.Bind(fd, sa); err != nil {
		_ = syscall.Close(fd)
		return nil, err
	}
	got, err := syscall.Getsockname(fd)
	if err != nil {
		_ = syscall.Close(fd)
		return nil, err
	}
	return &RefusedPort{fd: fd, Port: got.(*syscall.SockaddrInet4).Port}, nil
}

// Release closes the reservation.
func (r *RefusedPort) Release() { _ = syscall.Close(r.fd) }

// ReadAll reads c until EOF/error and returns what was received.
func ReadAll(c io.Reader) []byte {
	b, _ := io.ReadAll(c)
	return b
}
