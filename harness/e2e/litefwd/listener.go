package litefwd

import (
	"context"
	"fmt"
	"net"
	"time"

	"github.com/robinbraemer/event"
	jconfig "go.minekube.com/gate/pkg/edition/java/config"
	"go.minekube.com/gate/pkg/edition/java/proxy"
)

// ListenerProxy is a real proxy.Proxy in Lite mode whose OWN listener accepts the client
// connections (Proxy.Start on a loopback port): a connection reaches lite.Forward exactly
// the way production delivers it — accepted by listenAndServe, wrapped by the listener's
// PROXY protocol wrapper when cfg.ProxyProtocol is on, read by the real handshake session
// handler. Nothing here needs a hook.
type ListenerProxy struct {
	P    *proxy.Proxy
	Cfg  *jconfig.Config
	Addr string // host:port the proxy listens on

	cancel context.CancelFunc
	done   chan error
}

// StartListener builds the config (Gate defaults; Lite on, quotas / packet limiter off,
// offline) and lets mutate change it (routes, proxyProtocol, trusted upstreams), then starts
// the proxy on a free loopback port and waits for its ReadyEvent. Bind is chosen here.
func StartListener(mutate func(*jconfig.Config)) (*ListenerProxy, error) {
	var lastErr error
	for attempt := 0; attempt < 6; attempt++ {
		// Gate's config takes a bind string and does not report the port of ":0", so a free
		// port is looked up first; losing the race for it just means another attempt.
		probe, err := net.Listen("tcp4", "127.0.0.1:0")
		if err != nil {
			return nil, err
		}
		addr := probe.Addr().String()
		_ = probe.Close()

		cfg := jconfig.DefaultConfig
		cfg.OnlineMode = false
		cfg.Quota.Connections.Enabled = false
		cfg.Quota.Logins.Enabled = false
		cfg.PacketLimiter.PacketsPerSecond = -1
		cfg.PacketLimiter.BytesPerSecond = -1
		cfg.Servers = map[string]string{}
		cfg.Try = nil
		cfg.ForcedHosts = map[string][]string{}
		cfg.BuiltinCommands = false
		cfg.Bedrock.Enabled = false
		cfg.Lite.Enabled = true
		if mutate != nil {
			mutate(&cfg)
		}
		cfg.Bind = addr

		ev := event.New()
		ready := make(chan struct{}, 4)
		event.Subscribe(ev, 0, func(*proxy.ReadyEvent) {
			select {
			case ready <- struct{}{}:
			default:
			}
		})
		p, err := proxy.New(proxy.Options{Config: &cfg, EventMgr: ev})
		if err != nil {
			return nil, err
		}
		ctx, cancel := context.WithCancel(context.Background())
		lp := &ListenerProxy{P: p, Cfg: &cfg, Addr: addr, cancel: cancel, done: make(chan error, 1)}
		go func() { lp.done <- p.Start(ctx) }()
		select {
		case <-ready:
			return lp, nil
		case err := <-lp.done:
			cancel()
			lastErr = fmt.Errorf("litefwd: proxy.Start on %s ended before it was ready: %v", addr, err)
		case <-time.After(30 * time.Second):
			cancel()
			return nil, fmt.Errorf("litefwd: proxy on %s was not ready within 30s", addr)
		}
	}
	return nil, lastErr
}

// Stop shuts the proxy down and waits (bounded) for Start to return.
func (lp *ListenerProxy) Stop() {
	lp.cancel()
	select {
	case <-lp.done:
	case <-time.After(20 * time.Second):
	}
}
