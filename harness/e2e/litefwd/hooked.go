package litefwd

import (
	"context"
	"net"
	"time"

	"go.minekube.com/gate/pkg/edition/java/netmc"
	"go.minekube.com/gate/pkg/edition/java/proto/state"
	"go.minekube.com/gate/pkg/edition/java/proxy/verifh/lib"
	"go.minekube.com/gate/pkg/gate/proto"
)

// hookedConn is the client connection handed to lite.Forward with one schedule-control
// point at the client boundary: BeforeReadBuffered runs when Forward asks for the bytes the
// client sent behind its handshake (after the backend dial succeeded, before they are
// flushed to the backend). It changes nothing about the connection; a monitor uses it to let
// a backend's fault (reset, close) land in that window instead of relying on a race. Forward
// reaches the underlying connection through the same hidden accessors (Conn, ReadBuffered)
// it uses on a plain MinecraftConn.
type hookedConn struct {
	netmc.MinecraftConn
	before func()
}

func (h *hookedConn) ReadBuffered() ([]byte, error) {
	if h.before != nil {
		h.before()
	}
	rb, ok := h.MinecraftConn.(interface{ ReadBuffered() ([]byte, error) })
	if !ok {
		return nil, nil
	}
	return rb.ReadBuffered()
}

func (h *hookedConn) Conn() net.Conn {
	return h.MinecraftConn.(interface{ Conn() net.Conn }).Conn()
}

// StartHooked is Start with beforeReadBuffered called (on Forward's goroutine) right before
// Forward takes the client's buffered bytes.
func StartHooked(opts Options, beforeReadBuffered func()) *Session {
	if opts.DialTimeout == 0 {
		opts.DialTimeout = 5 * time.Second
	}
	cl, px := lib.Pipe()
	if opts.ClientAddr != nil {
		px.SetAddrs(&net.TCPAddr{IP: net.IPv4(127, 0, 0, 1), Port: 25565}, opts.ClientAddr)
	}
	if opts.ReadChunkMax > 0 && opts.ReadChunkRng != nil {
		px.SetChunking(opts.ReadChunkRng, opts.ReadChunkMax)
	}
	s := &Session{Client: cl, Rec: &Recorder{TryLimit: opts.TryLimit}, forwardRet: make(chan struct{}), loopRet: make(chan struct{})}
	ctx, cancel := context.WithCancel(context.Background())
	s.cancel = cancel
	conn, readLoop := netmc.NewMinecraftConn(ctx, px, proto.ServerBound, 30*time.Second, 30*time.Second, -1, nil)
	h := &hsHandler{s: s, conn: &hookedConn{MinecraftConn: conn, before: beforeReadBuffered}, opts: opts}
	conn.SetActiveSessionHandler(state.Handshake, h)
	go func() {
		defer close(s.loopRet)
		defer cancel()
		readLoop()
	}()
	return s
}
