// C13: login plugin messages are answered exactly once by the matching consumer.
//
// Each case is one history on a fresh, hook-built loginInboundConn over a recording
// MinecraftConn (no socket):
//
//   - "pre" messages are sent by the read-loop goroutine R before loginEventFired (what a
//     PreLoginEvent subscriber does), "racer" messages by 1-3 extra goroutines released by a
//     barrier right before R calls loginEventFired (PRNG-chosen yields place them before,
//     inside or after it), "follow" messages by consumers from inside OnMessageResponse;
//   - R then plays the client: it answers every message that became visible on the wire
//     (buffered packets only after a flush) in PRNG order, success or failure, each response
//     with a unique payload, and interleaves duplicates of answered ids and ids nobody ever
//     assigned;
//   - mode "late": after quiescence further messages are sent through the kept connection
//     object (a later event handler), and answered;
//   - mode "forge": after completion the state of a Modern Forge login is set up through the
//     real backendLoginSessionHandler; a backend goroutine feeds fml:loginwrapper messages
//     while R answers the relayed messages in PRNG order.
//
// The verdict is computed offline from the event log
// {send-call/ret(m), wire(m,id), flush, resp-call/ret(id,u'), cons-call/ret(m,u'), completion,
// backend-out(id,u')}; all stamps come from one atomic counter taken at the boundary.
//
// Reading / latitude (DESIGN §6 C13 R):
//   - a message is REQUIRED to be answered before the completion step only if its registration
//     provably happened before the completion decision: SendLoginPluginMessage returned before
//     the R operation that ran the completion began, or it was sent by a consumer that ran
//     (on R) before the completion. A send that merely overlaps that operation may be ordered
//     after the decision; such messages and the explicit "late" ones form the flagged class
//     "sent after completion". Exactly-once completion is asserted for that class too, but
//     with its own signature (completion-rerun-after-message-sent-after-completion).
//   - a failure response only has to reach the right consumer; its body is not compared.
package c13

import (
	"errors"
	"fmt"
	"math/rand"
	"os"
	"runtime"
	"sort"
	"strings"
	"sync"
	"sync/atomic"
	"testing"
	"time"

	"github.com/robinbraemer/event"

	"go.minekube.com/gate/pkg/edition/java/config"
	"go.minekube.com/gate/pkg/edition/java/proto/packet"
	"go.minekube.com/gate/pkg/edition/java/proxy"
	"go.minekube.com/gate/pkg/edition/java/proxy/message"
	"go.minekube.com/gate/pkg/edition/java/proxy/verifh/lib"
	"go.minekube.com/gate/pkg/edition/java/proxy/verifh/ref/mcrec"
	"go.minekube.com/gate/pkg/gate/proto"
)

// ---- case specification (pure function of the PRNG) -------------------------------------

type msgSpec struct {
	Follow      []*msgSpec `json:"follow,omitempty"`
	ConsumerErr bool       `json:"consumer_err,omitempty"`
}

type forgeSpec struct {
	BackendID int  `json:"backend_id"`
	Empty     bool `json:"empty,omitempty"`
	Yield     int  `json:"yield"`
}

type spec struct {
	Seed        int64        `json:"seed"`
	Proto       int          `json:"proto"`
	Mode        string       `json:"mode"`
	Pre         []*msgSpec   `json:"pre,omitempty"`
	Racers      [][]*msgSpec `json:"racers,omitempty"`
	RacerYields [][]int      `json:"racer_yields,omitempty"`
	Late        []*msgSpec   `json:"late,omitempty"`
	LateFromG   bool         `json:"late_from_goroutine,omitempty"`
	Forge       []forgeSpec  `json:"forge,omitempty"`
	Hostile     int          `json:"hostile_pct"`
	FailPct     int          `json:"fail_pct"`
	StallMax    int          `json:"stall_max"`
}

func genMsg(rng *rand.Rand, depth int, budget *int) *msgSpec {
	m := &msgSpec{ConsumerErr: rng.Intn(10) == 0}
	if depth < 2 && *budget > 0 {
		switch rng.Intn(6) {
		case 0:
			n := 1 + rng.Intn(2)
			for i := 0; i < n && *budget > 0; i++ {
				*budget--
				m.Follow = append(m.Follow, genMsg(rng, depth+1, budget))
			}
		}
	}
	return m
}

var protos = []int{393, 498, 578, 754, 758, 763}

func genSpec(seed int64) *spec {
	rng := rand.New(rand.NewSource(seed))
	sp := &spec{Seed: seed, Proto: protos[rng.Intn(len(protos))], Hostile: rng.Intn(35), FailPct: rng.Intn(40), StallMax: rng.Intn(6)}
	switch rng.Intn(8) {
	case 0, 1:
		sp.Mode = "late"
	case 2, 3:
		sp.Mode = "forge"
	default:
		sp.Mode = "main"
	}
	budget := 6 // follow-up budget
	k := rng.Intn(7) // initial messages, k <= 6
	nPre := 0
	if k > 0 {
		nPre = rng.Intn(k + 1)
	}
	if sp.Mode == "forge" && nPre > 2 {
		nPre = 2
	}
	for i := 0; i < nPre; i++ {
		sp.Pre = append(sp.Pre, genMsg(rng, 0, &budget))
	}
	rest := k - nPre
	if sp.Mode != "forge" && rest > 0 {
		g := 1 + rng.Intn(3)
		if g > rest {
			g = rest
		}
		sp.Racers = make([][]*msgSpec, g)
		sp.RacerYields = make([][]int, g)
		for i := 0; i < rest; i++ {
			gi := i % g
			sp.Racers[gi] = append(sp.Racers[gi], genMsg(rng, 0, &budget))
			y := 0
			switch rng.Intn(4) {
			case 0:
				y = 0
			case 1:
				y = rng.Intn(4)
			case 2:
				y = rng.Intn(30)
			case 3:
				y = rng.Intn(200)
			}
			sp.RacerYields[gi] = append(sp.RacerYields[gi], y)
		}
	}
	if sp.Mode == "late" {
		n := 1 + rng.Intn(2)
		for i := 0; i < n; i++ {
			sp.Late = append(sp.Late, genMsg(rng, 1, &budget))
		}
		sp.LateFromG = rng.Intn(2) == 0
	}
	if sp.Mode == "forge" {
		n := 1 + rng.Intn(5)
		ids := rng.Perm(12)
		for i := 0; i < n; i++ {
			id := ids[i] // deliberately overlaps the small ids the proxy assigns on the client side
			if rng.Intn(4) == 0 {
				id = 1000 + ids[i]*7
			}
			sp.Forge = append(sp.Forge, forgeSpec{BackendID: id, Empty: i == 0 && rng.Intn(5) == 0, Yield: rng.Intn(40)})
		}
	}
	return sp
}

// ---- event log ---------------------------------------------------------------------------

type ev struct {
	S   int64  // stamp
	K   string // kind
	M   int    // message index (-1 n/a)
	ID  int    // wire id
	P   string // payload
	OK  bool
	Op  int // R operation index (resp-*), -1 n/a
	Buf bool
	Err string
}

func (e ev) String() string {
	s := fmt.Sprintf("%d %s", e.S, e.K)
	if e.M >= 0 {
		s += fmt.Sprintf(" m%d", e.M)
	}
	switch e.K {
	case "wire", "resp-call", "backend-out", "backend-in":
		s += fmt.Sprintf(" id=%d", e.ID)
	}
	if e.K == "resp-call" || e.K == "backend-out" {
		s += fmt.Sprintf(" ok=%v", e.OK)
	}
	if e.P != "" {
		s += " " + fmt.Sprintf("%q", e.P)
	}
	if e.Buf {
		s += " buffered"
	}
	if e.Err != "" {
		s += " err=" + e.Err
	}
	return s
}

type msg struct {
	idx     int
	payload string // what the proxy is asked to send (== what must appear on the wire)
	class   string // pre | racer | follow | late | forge
	parent  int
	sp      *msgSpec
	// client view, guarded by hist.mu
	id       int
	wired    bool
	visible  bool
	answered bool
	// forge
	backendID int
}

type hist struct {
	sp    *spec
	clock atomic.Int64
	mu    sync.Mutex
	evs   []ev
	msgs  []*msg
	byPay map[string]int
	pend  []int // buffered, not yet flushed
	li    *proxy.VerifC13LoginInbound
	ch    message.ChannelIdentifier
	stall []int
	stIdx atomic.Int32
	nOps  int
	// forge
	backendConn *mcrec.Conn
	fb          *proxy.VerifC13ForgeBackend
}

func (h *hist) log(e ev) int64 {
	h.mu.Lock()
	e.S = h.clock.Add(1)
	h.evs = append(h.evs, e)
	h.mu.Unlock()
	return e.S
}

func (h *hist) doStall() {
	if len(h.stall) == 0 {
		return
	}
	i := int(h.stIdx.Add(1)) % len(h.stall)
	for y := 0; y < h.stall[i]; y++ {
		runtime.Gosched()
	}
}

type consumer struct {
	h *hist
	m int
}

func (c *consumer) OnMessageResponse(body []byte) error {
	p := "<nil>"
	if body != nil {
		p = string(body)
	}
	c.h.log(ev{K: "cons-call", M: c.m, P: p, Op: -1})
	c.h.mu.Lock()
	sp := c.h.msgs[c.m].sp
	c.h.mu.Unlock()
	for _, f := range sp.Follow {
		c.h.send("follow", c.m, f)
	}
	c.h.log(ev{K: "cons-ret", M: c.m, Op: -1})
	if sp.ConsumerErr {
		return errors.New("consumer error")
	}
	return nil
}

func (h *hist) newMsg(class string, parent int, ms *msgSpec, payload string) *msg {
	h.mu.Lock()
	m := &msg{idx: len(h.msgs), class: class, parent: parent, sp: ms}
	if payload == "" {
		payload = fmt.Sprintf("m%d/%x", m.idx, uint32(h.sp.Seed)*2654435761+uint32(m.idx))
	}
	m.payload = payload
	h.msgs = append(h.msgs, m)
	h.byPay[payload] = m.idx
	h.mu.Unlock()
	return m
}

func (h *hist) send(class string, parent int, ms *msgSpec) {
	m := h.newMsg(class, parent, ms, "")
	h.log(ev{K: "send-call", M: m.idx, Op: -1})
	err := h.li.Conn().SendLoginPluginMessage(h.ch, []byte(m.payload), &consumer{h: h, m: m.idx})
	e := ev{K: "send-ret", M: m.idx, Op: -1}
	if err != nil {
		e.Err = err.Error()
	}
	h.log(e)
}

func (h *hist) onClientPacket(p proto.Packet, buffered bool) {
	lpm, ok := p.(*packet.LoginPluginMessage)
	if !ok {
		return
	}
	h.mu.Lock()
	idx, known := h.byPay[string(lpm.Data)]
	if !known {
		idx = -1
	} else {
		m := h.msgs[idx]
		if !m.wired {
			m.wired = true
			m.id = lpm.ID
		}
		if buffered {
			h.pend = append(h.pend, idx)
		} else {
			m.visible = true
		}
	}
	h.evs = append(h.evs, ev{S: h.clock.Add(1), K: "wire", M: idx, ID: lpm.ID, P: lpm.Channel + "|" + string(lpm.Data), Buf: buffered, Op: -1})
	h.mu.Unlock()
}

func (h *hist) onClientFlush() {
	h.mu.Lock()
	for _, idx := range h.pend {
		h.msgs[idx].visible = true
	}
	h.pend = h.pend[:0]
	h.evs = append(h.evs, ev{S: h.clock.Add(1), K: "flush", M: -1, Op: -1})
	h.mu.Unlock()
}

func (h *hist) onBackendPacket(p proto.Packet, _ bool) {
	if r, ok := p.(*packet.LoginPluginResponse); ok {
		pl := "<nil>"
		if r.Data != nil {
			pl = string(r.Data)
		}
		h.log(ev{K: "backend-out", M: -1, ID: r.ID, OK: r.Success, P: pl, Op: -1})
	}
}

// respond is one R operation: the proxy handles one LoginPluginResponse.
func (h *hist) respond(id int, ok bool, data string, kind string) {
	h.mu.Lock()
	op := h.nOps
	h.nOps++
	h.mu.Unlock()
	h.log(ev{K: "resp-call", M: -1, ID: id, OK: ok, P: data, Op: op, Err: kind})
	var d []byte
	if data != "" {
		d = []byte(data)
	}
	_ = h.li.HandleLoginPluginResponse(&packet.LoginPluginResponse{ID: id, Success: ok, Data: d})
	h.log(ev{K: "resp-ret", M: -1, Op: op})
}

// clientLoop answers visible messages until done() reports that no further message can appear.
func (h *hist) clientLoop(rng *rand.Rand, done func() bool) {
	respN := 0
	var answeredIDs []int
	for spins := 0; ; {
		h.mu.Lock()
		var vis []*msg
		for _, m := range h.msgs {
			if m.visible && !m.answered {
				vis = append(vis, m)
			}
		}
		h.mu.Unlock()
		if len(vis) == 0 {
			if done() {
				// re-check: a message may have become visible just before done() flipped
				h.mu.Lock()
				again := false
				for _, m := range h.msgs {
					if m.visible && !m.answered {
						again = true
					}
				}
				h.mu.Unlock()
				if !again {
					break
				}
				continue
			}
			spins++
			if spins%64 == 0 {
				time.Sleep(20 * time.Microsecond)
			} else {
				runtime.Gosched()
			}
			continue
		}
		r := rng.Intn(100)
		switch {
		case r < h.sp.Hostile/2:
			// an id nobody ever assigned
			unknown := []int{0, -1, -7, 1000 + rng.Intn(1000), 1 << 20}
			respN++
			h.respond(unknown[rng.Intn(len(unknown))], rng.Intn(2) == 0, fmt.Sprintf("x%d", respN), "unknown")
		case r < h.sp.Hostile && len(answeredIDs) > 0:
			respN++
			h.respond(answeredIDs[rng.Intn(len(answeredIDs))], rng.Intn(3) != 0, fmt.Sprintf("d%d", respN), "dup")
		case r < h.sp.Hostile+5:
			runtime.Gosched()
		default:
			m := vis[rng.Intn(len(vis))]
			h.mu.Lock()
			m.answered = true
			id := m.id
			h.mu.Unlock()
			respN++
			ok := rng.Intn(100) >= h.sp.FailPct
			data := fmt.Sprintf("r%d:%s", respN, m.payload)
			if !ok && rng.Intn(2) == 0 {
				data = ""
			}
			h.respond(id, ok, data, "answer")
			answeredIDs = append(answeredIDs, id)
		}
	}
	// trailing hostile traffic
	for i := rng.Intn(3); i > 0; i-- {
		respN++
		if len(answeredIDs) > 0 && rng.Intn(2) == 0 {
			h.respond(answeredIDs[rng.Intn(len(answeredIDs))], true, fmt.Sprintf("d%d", respN), "dup")
		} else {
			h.respond(2000+rng.Intn(100), true, fmt.Sprintf("x%d", respN), "unknown")
		}
	}
}

func runHistory(sp *spec) *hist {
	rng := rand.New(rand.NewSource(sp.Seed ^ 0x5bd1e995))
	h := &hist{sp: sp, byPay: map[string]int{}}
	if sp.StallMax > 0 {
		h.stall = make([]int, 16)
		for i := range h.stall {
			if rng.Intn(2) == 0 {
				h.stall[i] = rng.Intn(sp.StallMax + 1)
			}
		}
	}
	client := mcrec.New(proto.Protocol(sp.Proto))
	client.Stall = h.doStall
	client.OnPacket = h.onClientPacket
	client.OnFlush = h.onClientFlush
	h.li = proxy.VerifC13NewLoginInbound(client)
	h.ch, _ = message.ChannelIdentifierFrom("verif:c13")

	// pre-login handler sends (on R, strictly before loginEventFired)
	for _, ms := range sp.Pre {
		h.send("pre", -1, ms)
	}
	// racers
	var racers sync.WaitGroup
	var racersDone atomic.Bool
	start := make(chan struct{})
	for gi := range sp.Racers {
		racers.Add(1)
		go func(gi int) {
			defer racers.Done()
			<-start
			for j, ms := range sp.Racers[gi] {
				for y := 0; y < sp.RacerYields[gi][j]; y++ {
					runtime.Gosched()
				}
				h.send("racer", -1, ms)
			}
		}(gi)
	}
	go func() { racers.Wait(); racersDone.Store(true) }()
	close(start)
	if len(sp.Racers) > 0 {
		for y := rng.Intn(8); y > 0; y-- {
			runtime.Gosched()
		}
	}
	// loginEventFired is R operation 0
	h.mu.Lock()
	h.nOps = 1
	h.mu.Unlock()
	h.log(ev{K: "lef-call", M: -1, Op: 0})
	_ = h.li.LoginEventFired(func() error {
		h.log(ev{K: "completion", M: -1, Op: -1})
		return nil
	})
	h.log(ev{K: "lef-ret", M: -1, Op: 0})

	h.clientLoop(rng, racersDone.Load)

	switch sp.Mode {
	case "late":
		h.log(ev{K: "late-begin", M: -1, Op: -1})
		var lateDone atomic.Bool
		sendLate := func() {
			for _, ms := range sp.Late {
				h.send("late", -1, ms)
			}
			lateDone.Store(true)
		}
		if sp.LateFromG {
			go sendLate()
		} else {
			sendLate()
		}
		h.clientLoop(rng, lateDone.Load)
	case "forge":
		// what completeLoginProtocolPhaseAndInitialize does for a Modern Forge client < 1.20.2
		backend := mcrec.New(proto.Protocol(sp.Proto))
		backend.Stall = h.doStall
		backend.OnPacket = h.onBackendPacket
		h.backendConn = backend
		h.fb = proxy.VerifC13NewForgeBackend(h.li, client, backend, event.New(), &config.Config{})
		h.li.ClearOnAllMessagesHandled()
		h.log(ev{K: "forge-begin", M: -1, Op: -1})
		var bDone atomic.Bool
		go func() {
			for _, f := range sp.Forge {
				for y := 0; y < f.Yield; y++ {
					runtime.Gosched()
				}
				var data []byte
				pay := "\x00"
				if !f.Empty {
					m := h.newMsg("forge", -1, &msgSpec{}, "")
					m.backendID = f.BackendID
					data = []byte(m.payload)
					pay = m.payload
					h.log(ev{K: "backend-in", M: m.idx, ID: f.BackendID, P: pay, Op: -1})
				} else {
					m := h.newMsg("forge", -1, &msgSpec{}, "\x00")
					m.backendID = f.BackendID
					h.log(ev{K: "backend-in", M: m.idx, ID: f.BackendID, P: pay, Op: -1})
				}
				h.fb.HandleBackendPacket(&packet.LoginPluginMessage{ID: f.BackendID, Channel: proxy.ForgeLoginWrapperChannel, Data: data})
			}
			bDone.Store(true)
		}()
		h.clientLoop(rng, bDone.Load)
	}
	return h
}

// ---- offline checker ---------------------------------------------------------------------

type viol struct{ sig, what string }

type opInfo struct {
	call, ret int64
	id        int
	ok        bool
	data      string
	kind      string
	cons      []ev // cons-call events inside this operation
}

func check(h *hist) (vs []viol, stats map[string]int) {
	stats = map[string]int{}
	add := func(sig, what string) { vs = append(vs, viol{sig, what}) }
	n := len(h.msgs)
	sendCall, sendRet := make([]int64, n), make([]int64, n)
	sendErr := make([]string, n)
	wires := make([][]ev, n)
	consCall, consRet := make([][]ev, n), make([]int64, n)
	ops := map[int]*opInfo{}
	var completions []int64
	var lefCall, lefRet, lateBegin, forgeBegin int64
	var backendOut []ev
	var lastFlush int64
	for _, e := range h.evs {
		stats["ev_"+e.K]++
		switch e.K {
		case "send-call":
			sendCall[e.M] = e.S
		case "send-ret":
			sendRet[e.M] = e.S
			sendErr[e.M] = e.Err
		case "wire":
			if e.M < 0 {
				add("unexpected-login-message-on-wire", "a LoginPluginMessage nobody asked for was written: "+e.String())
			} else {
				wires[e.M] = append(wires[e.M], e)
			}
		case "flush":
			lastFlush = e.S
		case "lef-call":
			lefCall = e.S
			ops[0] = &opInfo{call: e.S, kind: "lef"}
		case "lef-ret":
			lefRet = e.S
			ops[0].ret = e.S
		case "resp-call":
			ops[e.Op] = &opInfo{call: e.S, id: e.ID, ok: e.OK, data: e.P, kind: e.Err}
		case "resp-ret":
			ops[e.Op].ret = e.S
		case "cons-call":
			consCall[e.M] = append(consCall[e.M], e)
		case "cons-ret":
			if consRet[e.M] == 0 {
				consRet[e.M] = e.S
			}
		case "completion":
			completions = append(completions, e.S)
		case "late-begin":
			lateBegin = e.S
		case "forge-begin":
			forgeBegin = e.S
		case "backend-out":
			backendOut = append(backendOut, e)
		}
	}
	_ = lefRet
	opOf := func(s int64) int {
		for i, o := range ops {
			if o.call < s && (o.ret == 0 || s < o.ret) {
				return i
			}
		}
		return -1
	}
	// id -> message
	byID := map[int]int{}
	for _, m := range h.msgs {
		if m.class == "forge" {
			// registered by the relay; wire data may be {0}
		}
		if sendErr[m.idx] != "" {
			add("send-login-plugin-message-error", fmt.Sprintf("SendLoginPluginMessage failed for m%d: %s", m.idx, sendErr[m.idx]))
			continue
		}
		switch len(wires[m.idx]) {
		case 0:
			add("login-message-never-written", fmt.Sprintf("m%d (%s) was accepted but never written to the client", m.idx, m.class))
			continue
		case 1:
		default:
			add("login-message-written-more-than-once", fmt.Sprintf("m%d written %d times", m.idx, len(wires[m.idx])))
		}
		w := wires[m.idx][0]
		wantCh := "verif:c13|"
		if m.class == "forge" {
			wantCh = proxy.ForgeLoginWrapperChannel + "|"
		}
		if w.P != wantCh+m.payload {
			add("login-message-altered-on-wire", fmt.Sprintf("m%d written as %q, want %q", m.idx, w.P, wantCh+m.payload))
		}
		if prev, dup := byID[w.ID]; dup {
			add("login-message-id-reused", fmt.Sprintf("m%d and m%d share wire id %d", prev, m.idx, w.ID))
		}
		byID[w.ID] = m.idx
		if w.Buf && lastFlush < w.S {
			add("login-message-buffered-never-flushed", fmt.Sprintf("m%d was buffered but no flush followed", m.idx))
		}
	}
	// consumer invocations -> operations
	for mi := range consCall {
		for _, c := range consCall[mi] {
			oi := opOf(c.S)
			if oi <= 0 {
				add("consumer-invoked-outside-a-response", fmt.Sprintf("consumer of m%d ran while no client response was being handled (%s)", mi, c))
				continue
			}
			ops[oi].cons = append(ops[oi].cons, c)
		}
		if len(consCall[mi]) > 1 {
			add("consumer-invoked-more-than-once", fmt.Sprintf("consumer of m%d ran %d times", mi, len(consCall[mi])))
		}
	}
	answeredBefore := map[int]bool{} // ids already answered by an earlier operation
	opIdx := make([]int, 0, len(ops))
	for i := range ops {
		opIdx = append(opIdx, i)
	}
	sort.Ints(opIdx)
	firstResp := map[int]*opInfo{} // message -> first response operation
	for _, oi := range opIdx {
		o := ops[oi]
		if o.kind == "lef" {
			continue
		}
		mi, assigned := byID[o.id]
		for _, c := range o.cons {
			stats["deliveries"]++
			if !assigned {
				add("unknown-id-response-delivered", fmt.Sprintf("response with never-assigned id %d reached the consumer of m%d", o.id, c.M))
				continue
			}
			if c.M != mi {
				add("response-delivered-to-wrong-consumer", fmt.Sprintf("response to id %d (m%d) reached the consumer of m%d (id %d)", o.id, mi, c.M, h.msgs[c.M].id))
				continue
			}
			if answeredBefore[o.id] {
				add("duplicate-response-delivered", fmt.Sprintf("a second response to id %d reached the consumer of m%d", o.id, mi))
			}
			if o.ok && c.P != o.data {
				add("consumer-got-wrong-payload", fmt.Sprintf("consumer of m%d got %q, the response carried %q", mi, c.P, o.data))
			}
		}
		if assigned && h.msgs[mi].class != "forge" && !answeredBefore[o.id] {
			got := 0
			for _, c := range o.cons {
				if c.M == mi {
					got++
				}
			}
			if got == 0 {
				add("response-not-delivered", fmt.Sprintf("first response to id %d was not delivered to the consumer of m%d", o.id, mi))
			}
		}
		if assigned && !answeredBefore[o.id] {
			firstResp[mi] = o
		}
		if assigned {
			answeredBefore[o.id] = true
		}
		switch o.kind {
		case "unknown":
			stats["unknown_id_responses"]++
		case "dup":
			stats["duplicate_responses"]++
		case "answer":
			if o.ok {
				stats["success_responses"]++
			} else {
				stats["failure_responses"]++
			}
		}
	}

	// ---- completion ------------------------------------------------------------------
	stats["completions"] = len(completions)
	if len(completions) == 0 {
		add("completion-never-ran", "the history quiesced (every message the client could see was answered) but the login-completion step never ran")
	} else {
		c1 := completions[0]
		if c1 < lefCall {
			add("completion-before-login-event", "completion ran before loginEventFired was called")
		}
		oc := opOf(c1)
		var opCall int64
		if oc >= 0 {
			opCall = ops[oc].call
		}
		// mustPrecede(m): registration of m provably happened before the completion decision
		must := func(m *msg) bool {
			if m.class == "forge" || sendErr[m.idx] != "" {
				return false
			}
			if sendRet[m.idx] != 0 && sendRet[m.idx] < opCall {
				return true
			}
			if m.parent >= 0 && consRet[m.parent] != 0 && consRet[m.parent] < c1 {
				return true
			}
			return false
		}
		lateMsgs := 0
		for _, m := range h.msgs {
			if m.class == "forge" {
				continue
			}
			if must(m) {
				stats["msgs_required_before_completion"]++
				if consRet[m.idx] == 0 || consRet[m.idx] > c1 {
					add("completion-while-message-outstanding", fmt.Sprintf("completion ran at %d while m%d (%s, send returned at %d) was still unanswered", c1, m.idx, m.class, sendRet[m.idx]))
				}
			} else {
				lateMsgs++
				stats["msgs_possibly_after_completion"]++
			}
		}
		for j := 1; j < len(completions); j++ {
			cj := completions[j]
			// which messages were answered between the previous completion and this one?
			late, other := 0, 0
			for _, m := range h.msgs {
				if m.class == "forge" {
					continue
				}
				for _, c := range consCall[m.idx] {
					if c.S > completions[j-1] && c.S < cj {
						if must(m) {
							other++
						} else {
							late++
						}
					}
				}
			}
			switch {
			case forgeBegin != 0 && cj > forgeBegin:
				add("completion-rerun-during-forge-relay", "the login-completion step ran again while relaying Forge login messages")
			case late > 0 && other == 0:
				add("completion-rerun-after-message-sent-after-completion", fmt.Sprintf("completion ran %d times: it ran again after the reply to a message that was sent after (or concurrently with) the first completion", len(completions)))
			default:
				add("completion-ran-more-than-once", fmt.Sprintf("completion ran %d times", len(completions)))
			}
		}
		_ = lateBegin
		_ = lateMsgs
	}

	// ---- forge relay -------------------------------------------------------------------
	if h.sp.Mode == "forge" {
		want := map[int]*msg{}
		for _, m := range h.msgs {
			if m.class == "forge" {
				want[m.backendID] = m
			}
		}
		got := map[int][]ev{}
		for _, b := range backendOut {
			if _, ok := want[b.ID]; !ok {
				add("forge-relay-unknown-backend-id", fmt.Sprintf("backend received a response for id %d it never used", b.ID))
				continue
			}
			got[b.ID] = append(got[b.ID], b)
		}
		for id, m := range want {
			fr := firstResp[m.idx]
			if fr == nil {
				continue // never reached the client: reported above
			}
			stats["forge_relayed"]++
			switch len(got[id]) {
			case 0:
				add("forge-relay-unanswered", fmt.Sprintf("backend message id %d was answered by the client but the backend got no response", id))
				continue
			case 1:
			default:
				add("forge-relay-answered-more-than-once", fmt.Sprintf("backend message id %d got %d responses", id, len(got[id])))
			}
			b := got[id][0]
			if b.OK != fr.ok || (fr.ok && b.P != fr.data) {
				add("forge-relay-wrong-reply", fmt.Sprintf("backend message id %d got (ok=%v,%q), the client's reply for it was (ok=%v,%q)", id, b.OK, b.P, fr.ok, fr.data))
			}
		}
	}
	return vs, stats
}

func (h *hist) dump() []string {
	out := make([]string, 0, len(h.evs))
	for _, e := range h.evs {
		out = append(out, e.String())
	}
	return out
}

// interleaving signature: order of event kinds with message classes, stamps removed
func (h *hist) shape() string {
	var b strings.Builder
	for _, e := range h.evs {
		switch e.K {
		case "send-call", "wire", "cons-call":
			c := "?"
			if e.M >= 0 {
				c = h.msgs[e.M].class[:1]
			}
			b.WriteString(e.K[:1] + c)
		case "lef-call":
			b.WriteString("[")
		case "lef-ret":
			b.WriteString("]")
		case "completion":
			b.WriteString("!")
		case "resp-call":
			b.WriteString(e.Err[:1])
		case "backend-out":
			b.WriteString("B")
		}
	}
	return b.String()
}

func TestC13(t *testing.T) {
	r := lib.Start(t, "C13")
	defer r.Finish()
	r.Rule("each case is one history on a fresh hook-built loginInboundConn over a recording MinecraftConn: 0-6 login plugin messages sent before loginEventFired and from 1-3 barrier-released goroutines racing it, consumers sending follow-ups (depth<=2), a client answering visible messages in PRNG order (success/failure, unique payloads) with duplicates and never-assigned ids mixed in; modes main / late (more sends after completion) / forge (real backendLoginSessionHandler relaying fml:loginwrapper messages fed by a backend goroutine). distinct = distinct (case spec, observed event-order shape); a case without any message is trivial and not counted. Second layer (e2e_test.go): real logins on a live in-process proxy, per round one session on EVERY supported protocol >= 1.13 (plus Forge-marker sessions below 1.20.2 against a manual fake Forge backend, online-mode sessions where the completion sends the encryption request, and protocols 47/340 that cannot carry login plugin messages): ConnectionHandshakeEvent/PreLoginEvent subscribers send 0-4 messages (own sends, goroutines joined before return, goroutines racing the return, consumer follow-ups; 1.20.2+: late sends from GameProfileRequestEvent/LoginEvent through the kept connection), a fake client with its own codec answers in PRNG order with success+payload / success+EMPTY body / failure, duplicates and never-assigned ids; distinct = (protocol, mode, spec seed, responses written)")
	r.Assume("the recording MinecraftConn makes a buffered packet visible to the client only after Flush/WritePacket, as netmc.MinecraftConn documents")
	r.Assume("client responses are handled one at a time on one goroutine, as the client read loop does")
	r.Assume("stamps come from one atomic counter taken at the boundary (before invoking / after return)")
	r.Assume("e2e layer: a message counts as 'registered before the completion decision' only if its send returned before the PreLogin handler returned, before a consumer call that preceded the completion, or it was sent by a consumer that returned before the completion; everything else is the flagged class 'possibly after completion'")
	r.Assume("e2e layer: the fake client and the fake Forge backend parse and build login plugin requests/responses from raw bytes themselves; Gate's packet codec for them is under observation")

	if os.Getenv("VERIF_E2E_ONLY") != "" { // debugging aid, see runE2E
		runE2E(r)
		return
	}
	n := r.N(3000, 200000)
	master := r.Rng("specs")
	seeds := make([]int64, n)
	for i := range seeds {
		seeds[i] = master.Int63()
	}
	workers := 4
	if r.Thorough() {
		workers = 12
	}
	var wg sync.WaitGroup
	next := atomic.Int64{}
	var aggMu sync.Mutex
	agg := map[string]int{}
	shapes := map[string]struct{}{}
	modes := map[string]int{}
	for w := 0; w < workers; w++ {
		wg.Add(1)
		go func() {
			defer wg.Done()
			for {
				i := int(next.Add(1)) - 1
				if i >= n {
					return
				}
				sp := genSpec(seeds[i])
				r.LogCase(sp) // with several workers: one of the cases in flight
				var h *hist
				ok, pv := lib.Returns(30*time.Second, func() { h = runHistory(sp) })
				r.Eval(1)
				if !ok {
					dump := lib.Goroutines()
					if blk, proof := lib.SelfDeadlockProof(dump, "loginInboundConn"); proof {
						r.Violation("login-inbound-self-deadlock", "a loginInboundConn call never returned: it re-enters its own mutex", map[string]any{"spec": sp, "stack": blk})
					} else {
						r.Inconclusive(fmt.Sprintf("history seed=%d did not quiesce within the watchdog", sp.Seed))
					}
					continue
				}
				if pv != nil {
					r.Violation("panic-in-login-inbound", fmt.Sprintf("panic: %v", pv), map[string]any{"spec": sp})
					continue
				}
				vs, st := check(h)
				seen := map[string]bool{}
				for _, v := range vs {
					if seen[v.sig] {
						continue
					}
					seen[v.sig] = true
					r.Violation(v.sig, v.what, map[string]any{"spec": sp, "events": h.dump()})
				}
				shape := h.shape()
				aggMu.Lock()
				for k, v := range st {
					agg[k] += v
				}
				shapes[shape] = struct{}{}
				modes[sp.Mode]++
				aggMu.Unlock()
				if len(h.msgs) > 0 {
					r.Distinct(fmt.Sprintf("%d|%s", sp.Seed, shape))
				}
				if r.WantSample() {
					r.Sample(map[string]any{"spec": sp, "messages": len(h.msgs), "shape": shape, "completions": st["completions"]})
				}
			}
		}()
	}
	wg.Wait()
	for k, v := range agg {
		r.Count(k, v)
	}
	r.Set("distinct_event_order_shapes", len(shapes))
	r.Set("histories_by_mode", modes)

	// second layer: real logins on a live proxy (who calls the mechanism, the wire codec,
	// the session handlers' routing, the Forge relay over real connections)
	runE2E(r)
}
