// C13 end-to-end layer: real logins on a live in-process proxy (package e2e: proxy.New +
// HandleConn over lib.Pipe), on every protocol version Gate supports that can carry login
// plugin messages (and two that cannot).
//
// The unit layer (c13_test.go) drives loginInboundConn through a hook with ready-made packet
// structs. What it cannot see: who calls loginEventFired and when (the initial login handler),
// what the wire codec makes of a reply, which session handler routes a reply after the
// completion, and the Forge relay over real connections. Here
//
//   - subscribers of ConnectionHandshakeEvent and PreLoginEvent send 0-4 login plugin
//     messages with unique payloads through the LoginPhaseConnection: from the handler itself,
//     from goroutines the handler waits for (they race each other), and from goroutines it does
//     NOT wait for (they race the handler's return, i.e. loginEventFired); consumers may send a
//     follow-up; on 1.20.2+ (where the client decides when the login phase ends) subscribers of
//     GameProfileRequestEvent / LoginEvent send "late" messages through the kept connection
//     object, i.e. after the completion;
//   - a fake client with its OWN codec (e2e/manual.go) answers what it received, in PRNG
//     order: success + unique payload, success + EMPTY payload, failure (with and without
//     body bytes), and interleaves duplicates of answered ids and ids nobody assigned;
//   - mode forge: a client with an FML2/FML3 handshake marker (< 1.20.2) and a manual fake
//     Forge backend that sends 1-5 fml:loginwrapper requests (ids overlapping the proxy's
//     client-side ids, one possibly with empty data); the proxy relays them to the client and
//     the client's replies back.
//
// Observations, all stamped from one logical clock (e2e.Now): send call/return per message,
// the requests the client received (own parse of the raw payload), every response the client
// wrote (stamp before the write), consumer call/return with the body handed over (nil or
// bytes), return of the PreLogin handler, GameProfileRequestEvent (the first thing the
// completion step does: "completion"), LoginEvent, PostLoginEvent, login success packets at
// the client, and the responses the fake Forge backend received (own parse).
//
// Oracle (from the statement):
//
//	D  a consumer is invoked at most once, only for the first response the client wrote to
//	   THAT message's id after it received the message, with the reply the client gave: success
//	   => the body bytes as sent, an empty successful body included (non-nil); failure => nil.
//	   Bodies are unique per response, so a body that belongs to a duplicate, to an unknown id
//	   or to another message's response is attributed and named. After the end of the login
//	   phase (JoinGame reached the client: everything the client wrote before was handled) a
//	   first response without a consumer call is a loss.
//	C  the completion happens exactly once (one GameProfileRequestEvent, one login success at
//	   the client), not before the PreLogin handler returned, and only after the consumer of
//	   every message whose registration provably preceded the decision has returned: the send
//	   returned before the PreLogin handler returned, or before a consumer call that itself
//	   preceded the completion, or it was sent by a consumer that returned before the
//	   completion. Other messages (sends that overlap the decision, late sends) are the
//	   flagged class "possibly after completion": delivery (D) and exactly-once completion are
//	   asserted for them too, the latter with its own signature.
//	F  each backend request the client answered is answered to the backend exactly once, with
//	   the backend's id, the client's success flag and (for success) the client's bytes; the
//	   backend gets no response for an id it did not use.
//
// Soundness of the workload on the unchanged tree: below 1.20.2 the proxy leaves the login
// state right after the completion, and a login plugin message sent then fails to encode and
// closes the connection (API misuse, not this property). So there the fake client keeps the
// last outstanding message unanswered until every free-running sender has returned, sends
// hostile traffic only while something is outstanding, and no late messages are generated.
// Wall clock never decides: a wait that expires makes the session INCONCLUSIVE.
package c13

import (
	"bytes"
	crand "crypto/rand"
	"crypto/rsa"
	"encoding/json"
	"fmt"
	"io"
	"math/rand"
	"net"
	"net/http"
	"os"
	"runtime"
	"sort"
	"strconv"
	"strings"
	"sync"
	"sync/atomic"
	"time"

	"github.com/robinbraemer/event"

	"go.minekube.com/gate/pkg/edition/java/auth"
	jconfig "go.minekube.com/gate/pkg/edition/java/config"
	"go.minekube.com/gate/pkg/edition/java/proto/packet"
	"go.minekube.com/gate/pkg/edition/java/proto/version"
	"go.minekube.com/gate/pkg/edition/java/proxy"
	"go.minekube.com/gate/pkg/edition/java/proxy/message"
	"go.minekube.com/gate/pkg/edition/java/proxy/verifh/e2e"
	"go.minekube.com/gate/pkg/edition/java/proxy/verifh/lib"
	"go.minekube.com/gate/pkg/gate/proto"
	"go.minekube.com/gate/pkg/util/uuid"
)

// flushPatience: how long the fake client looks at a login that does not go on before it
// flushes it (stimulus only, see loop).
const flushPatience = 3 * time.Second

const (
	firstLoginPluginProtocol = 393 // 1.13
	firstConfigProtocol      = 764 // 1.20.2
	fmlChannel               = "fml:loginwrapper"
	verifChannel             = "verif:c13"
)

// ---- case specification (pure function of the PRNG) -------------------------------------

type eSpec struct {
	N          int    `json:"session"`
	Proto      int    `json:"protocol"`
	Mode       string `json:"mode"` // plain | online | forge | too-old
	Seed       int64  `json:"seed"`
	Handshake  int    `json:"handshake_event_messages"`
	Pre        int    `json:"prelogin_handler_messages"`
	Joined     []int  `json:"joined_sender_goroutines,omitempty"` // messages per goroutine the handler waits for
	Free       []int  `json:"free_sender_goroutines,omitempty"`   // messages per goroutine racing the handler's return
	FreeYield  []int  `json:"free_sender_yields,omitempty"`
	FollowOf   []int  `json:"follow_up_sent_by_consumer_of,omitempty"` // indices among the handler's own messages
	LateGPR    int    `json:"late_messages_from_game_profile_request,omitempty"`
	LateLogin  int    `json:"late_messages_from_login_event,omitempty"`
	ForgeIDs   []int  `json:"forge_backend_request_ids,omitempty"`
	ForgeEmpty int    `json:"forge_request_with_empty_data"` // index, -1 none
	Hostile    int    `json:"hostile_pct"`
	FailPct    int    `json:"fail_pct"`
	EmptyPct   int    `json:"empty_success_pct"`
}

func genESpec(i int, pv int, mode string, seed int64) eSpec {
	rng := rand.New(rand.NewSource(seed))
	sp := eSpec{N: i, Proto: pv, Mode: mode, Seed: seed, ForgeEmpty: -1,
		Hostile: rng.Intn(40), FailPct: 10 + rng.Intn(30), EmptyPct: 15 + rng.Intn(30)}
	switch mode {
	case "too-old":
		sp.Handshake = rng.Intn(2)
		sp.Pre = 1 + rng.Intn(3)
		return sp
	case "forge":
		sp.Pre = rng.Intn(3)
		if sp.Pre > 0 && rng.Intn(3) == 0 {
			sp.FollowOf = []int{rng.Intn(sp.Pre)}
		}
		n := 1 + rng.Intn(5)
		ids := rng.Perm(8)
		for k := 0; k < n; k++ {
			id := 1 + ids[k] // overlaps the small ids the proxy assigns on the client side
			if rng.Intn(4) == 0 {
				id = 1000 + ids[k]*7
			}
			sp.ForgeIDs = append(sp.ForgeIDs, id)
		}
		if rng.Intn(4) == 0 {
			sp.ForgeEmpty = rng.Intn(n)
		}
		return sp
	}
	sp.Handshake = rng.Intn(3) / 2 // 1 in 3
	sp.Pre = rng.Intn(4)
	budget := 4 - sp.Handshake - sp.Pre
	if budget > 0 && rng.Intn(2) == 0 {
		g := 1 + rng.Intn(2)
		for k := 0; k < g && budget > 0; k++ {
			n := 1 + rng.Intn(budget)
			if n > 2 {
				n = 2
			}
			sp.Joined = append(sp.Joined, n)
			budget -= n
		}
	}
	if budget > 0 && rng.Intn(2) == 0 {
		g := 1 + rng.Intn(2)
		for k := 0; k < g && budget > 0; k++ {
			sp.Free = append(sp.Free, 1)
			budget--
			y := 0
			switch rng.Intn(4) {
			case 1:
				y = rng.Intn(4)
			case 2:
				y = rng.Intn(40)
			case 3:
				y = rng.Intn(400)
			}
			sp.FreeYield = append(sp.FreeYield, y)
		}
	}
	if sp.Pre > 0 && rng.Intn(4) == 0 {
		sp.FollowOf = []int{rng.Intn(sp.Pre)}
	}
	if mode == "online" {
		// the completion step sends the encryption request; no free-running or late senders
		// here (there is no proxy-side stamp of the completion in this mode)
		sp.Free, sp.FreeYield = nil, nil
		return sp
	}
	if pv >= firstConfigProtocol {
		switch rng.Intn(4) {
		case 0:
			sp.LateGPR = 1 + rng.Intn(2)
		case 1:
			sp.LateLogin = 1
		case 2:
			sp.LateGPR, sp.LateLogin = 1, 1
		}
	} else if sp.Handshake+sp.Pre+len(sp.Joined) == 0 {
		// below 1.20.2 a free sender must have something registered before it that keeps the
		// login phase open (see the header)
		sp.Free, sp.FreeYield = nil, nil
	}
	return sp
}

// ---- recorded session --------------------------------------------------------------------

type eMsg struct {
	Idx       int    `json:"m"`
	Class     string `json:"class"` // handshake | pre | joined | free | follow | late-gpr | late-login | forge
	Parent    int    `json:"parent"`
	Payload   string `json:"payload"`
	SendCall  int64  `json:"send_call"`
	SendRet   int64  `json:"send_ret"`
	Err       string `json:"err,omitempty"`
	BackendID int    `json:"backend_id,omitempty"`
	BackendAt int64  `json:"backend_sent_at,omitempty"`
	follow    bool
}

type eCons struct {
	M    int    `json:"m"`
	Call int64  `json:"call"`
	Ret  int64  `json:"ret"`
	Nil  bool   `json:"nil_body"`
	Body string `json:"body"`
}

type eResp struct {
	At   int64  `json:"at"`
	ID   int    `json:"id"`
	OK   bool   `json:"success"`
	Data string `json:"data"`
	Kind string `json:"kind"` // answer | dup | unknown
	M    int    `json:"m"`    // message answered (answer, dup), else -1
}

type eSess struct {
	sp   eSpec
	addr string
	ch   message.ChannelIdentifier

	mu        sync.Mutex
	msgs      []*eMsg
	byPayload map[string]int
	cons      []eCons
	hsRet     int64
	preRet    int64
	gpr       []int64
	login     []int64
	post      []int64
	lpc       proxy.LoginPhaseConnection
	freeWG    sync.WaitGroup
	freeDone  atomic.Bool
}

func (s *eSess) newMsg(class string, parent int, follow bool) *eMsg {
	s.mu.Lock()
	defer s.mu.Unlock()
	m := &eMsg{Idx: len(s.msgs), Class: class, Parent: parent, follow: follow}
	m.Payload = fmt.Sprintf("m%d/%d/%x", m.Idx, s.sp.N, uint32(s.sp.Seed)*2654435761+uint32(m.Idx))
	s.msgs = append(s.msgs, m)
	s.byPayload[m.Payload] = m.Idx
	return m
}

type eConsumer struct {
	s *eSess
	m *eMsg
}

func (c *eConsumer) OnMessageResponse(body []byte) error {
	call := e2e.Now()
	if c.m.follow {
		c.s.send(c.s.lpcNow(), "follow", c.m.Idx, false)
	}
	ev := eCons{M: c.m.Idx, Call: call, Nil: body == nil, Body: string(body)}
	ev.Ret = e2e.Now()
	c.s.mu.Lock()
	c.s.cons = append(c.s.cons, ev)
	c.s.mu.Unlock()
	return nil
}

func (s *eSess) lpcNow() proxy.LoginPhaseConnection { s.mu.Lock(); defer s.mu.Unlock(); return s.lpc }

func (s *eSess) send(lpc proxy.LoginPhaseConnection, class string, parent int, follow bool) {
	if lpc == nil {
		return
	}
	m := s.newMsg(class, parent, follow)
	call := e2e.Now()
	err := lpc.SendLoginPluginMessage(s.ch, []byte(m.Payload), &eConsumer{s: s, m: m})
	ret := e2e.Now()
	s.mu.Lock()
	m.SendCall, m.SendRet = call, ret
	if err != nil {
		m.Err = err.Error()
	}
	s.mu.Unlock()
}

// eHarness is one live proxy with the monitor's subscribers.
type eHarness struct {
	h     *e2e.Harness
	forge *e2e.ManualBackend
	sess  sync.Map // remote address -> *eSess
}

func (eh *eHarness) lookup(a net.Addr) *eSess {
	if a == nil {
		return nil
	}
	if v, ok := eh.sess.Load(a.String()); ok {
		return v.(*eSess)
	}
	return nil
}

// sessionServer answers the proxy's hasJoined request for any name (online mode).
type sessionServer struct{}

func (sessionServer) RoundTrip(req *http.Request) (*http.Response, error) {
	name := req.URL.Query().Get("username")
	b, _ := json.Marshal(map[string]any{"id": uuid.OfflinePlayerUUID(name).Undashed(), "name": name, "properties": []any{}})
	return &http.Response{StatusCode: 200, Status: "200", Body: io.NopCloser(strings.NewReader(string(b))), Header: http.Header{}, Request: req}, nil
}

var onlineKey = sync.OnceValue(func() *rsa.PrivateKey {
	k, err := rsa.GenerateKey(crand.Reader, 1024)
	if err != nil {
		panic(err)
	}
	return k
})

func newEHarness(kind string) (*eHarness, error) {
	forge := kind == "forge"
	opts := e2e.Options{Mutate: func(c *jconfig.Config) {
		if forge {
			c.Try = []string{"fml"}
		} else {
			c.Try = []string{"lobby"}
		}
		c.OnlineMode = kind == "online"
	}}
	if kind == "online" {
		authn, err := auth.New(auth.Options{PrivateKey: onlineKey(), Client: &http.Client{Transport: sessionServer{}}})
		if err != nil {
			return nil, err
		}
		opts.Authenticator = authn
	}
	h, err := e2e.New(opts)
	if err != nil {
		return nil, err
	}
	eh := &eHarness{h: h}
	if forge {
		if eh.forge, err = h.AddManualBackend("fml"); err != nil {
			return nil, err
		}
	} else if _, err = h.AddBackend("lobby", e2e.Always(e2e.Behavior{Mode: e2e.Accept, Threshold: -1})); err != nil {
		return nil, err
	}
	event.Subscribe(h.Ev, 0, func(e *proxy.ConnectionHandshakeEvent) {
		s := eh.lookup(e.Connection().RemoteAddr())
		if s == nil {
			return
		}
		lpc, _ := e.Connection().(proxy.LoginPhaseConnection)
		for k := 0; k < s.sp.Handshake; k++ {
			s.send(lpc, "handshake", -1, false)
		}
		s.mu.Lock()
		s.hsRet = e2e.Now()
		s.mu.Unlock()
	})
	event.Subscribe(h.Ev, 0, func(e *proxy.PreLoginEvent) {
		s := eh.lookup(e.Conn().RemoteAddr())
		if s == nil {
			return
		}
		lpc, _ := e.Conn().(proxy.LoginPhaseConnection)
		s.mu.Lock()
		s.lpc = lpc
		s.mu.Unlock()
		// free senders first: they run while the handler does its own sends and returns
		for g := range s.sp.Free {
			s.freeWG.Add(1)
			go func(g int) {
				defer s.freeWG.Done()
				for y := 0; y < s.sp.FreeYield[g]; y++ {
					runtime.Gosched()
				}
				for k := 0; k < s.sp.Free[g]; k++ {
					s.send(lpc, "free", -1, false)
				}
			}(g)
		}
		go func() { s.freeWG.Wait(); s.freeDone.Store(true) }()
		var joined sync.WaitGroup
		for g := range s.sp.Joined {
			joined.Add(1)
			go func(g int) {
				defer joined.Done()
				for k := 0; k < s.sp.Joined[g]; k++ {
					s.send(lpc, "joined", -1, false)
				}
			}(g)
		}
		for k := 0; k < s.sp.Pre; k++ {
			follow := false
			for _, f := range s.sp.FollowOf {
				if f == k {
					follow = true
				}
			}
			s.send(lpc, "pre", -1, follow)
		}
		joined.Wait()
		s.mu.Lock()
		s.preRet = e2e.Now()
		s.mu.Unlock()
	})
	event.Subscribe(h.Ev, 0, func(e *proxy.GameProfileRequestEvent) {
		s := eh.lookup(e.Conn().RemoteAddr())
		if s == nil {
			return
		}
		s.mu.Lock()
		s.gpr = append(s.gpr, e2e.Now())
		s.mu.Unlock()
		lpc, _ := e.Conn().(proxy.LoginPhaseConnection)
		for k := 0; k < s.sp.LateGPR; k++ {
			s.send(lpc, "late-gpr", -1, false)
		}
	})
	event.Subscribe(h.Ev, 0, func(e *proxy.LoginEvent) {
		s := eh.lookup(e.Player().RemoteAddr())
		if s == nil {
			return
		}
		s.mu.Lock()
		s.login = append(s.login, e2e.Now())
		s.mu.Unlock()
		// a later event handler that kept the connection object
		for k := 0; k < s.sp.LateLogin; k++ {
			s.send(s.lpcNow(), "late-login", -1, false)
		}
	})
	event.Subscribe(h.Ev, 0, func(e *proxy.PostLoginEvent) {
		s := eh.lookup(e.Player().RemoteAddr())
		if s == nil {
			return
		}
		s.mu.Lock()
		s.post = append(s.post, e2e.Now())
		s.mu.Unlock()
	})
	return eh, nil
}

// ---- the fake client's side ----------------------------------------------------------------

type eRun struct {
	s       *eSess
	eh      *eHarness
	c       *e2e.Client
	release func() error
	rng     *rand.Rand
	resps   []eResp
	respN   int
	// client view
	wire        map[int]int // message index -> wire id (first request carrying its payload)
	wireAt      map[int]int64
	answered    map[int]bool
	unknownReq  []e2e.LoginPluginRequest
	backend     *e2e.ManualConn
	barrierM    int
	joined      bool
	released    int64
	mayFlush    bool   // plain / online / too-old sessions: a stalled login may be flushed (see loop)
	flushed     bool   // ... and was: everything the client wrote before has been handled
	flushAt     int64
	ended       string // why the session ended early (inconclusive), "" = reached its end
	successSeen bool
}

func (x *eRun) write(id int, ok bool, data []byte, kind string, m int) {
	x.respN++
	at := e2e.Now()
	_ = x.c.SendRaw(e2e.EncodeLoginPluginResponse(id, ok, data))
	x.resps = append(x.resps, eResp{At: at, ID: id, OK: ok, Data: string(data), Kind: kind, M: m})
}

func (x *eRun) uniq(tag string) []byte {
	return []byte(fmt.Sprintf("%s%d/%d/%x", tag, x.respN+1, x.s.sp.N, x.rng.Uint32()))
}

// scan maps the requests the client has received to messages.
func (x *eRun) scan() (visible []int) {
	reqs := x.c.LoginPluginRequests()
	x.unknownReq = x.unknownReq[:0]
	x.s.mu.Lock()
	for _, rq := range reqs {
		key := string(rq.Data)
		idx, ok := x.s.byPayload[key]
		if !ok && rq.Channel == fmlChannel && len(rq.Data) == 1 && rq.Data[0] == 0 {
			idx, ok = x.s.byPayload["\x00empty"]
		}
		if !ok {
			x.unknownReq = append(x.unknownReq, rq)
			continue
		}
		if _, seen := x.wire[idx]; !seen {
			x.wire[idx] = rq.ID
			x.wireAt[idx] = rq.At
		}
	}
	x.s.mu.Unlock()
	for idx := range x.wire {
		if !x.answered[idx] && idx != x.barrierM {
			visible = append(visible, idx)
		}
	}
	sort.Ints(visible)
	return visible
}

func (x *eRun) answer(idx int) {
	id := x.wire[idx]
	x.answered[idx] = true
	switch r := x.rng.Intn(100); {
	case r < x.s.sp.FailPct:
		var d []byte
		if x.rng.Intn(3) == 0 {
			d = x.uniq("fail") // a failure that still carries bytes
		}
		x.write(id, false, d, "answer", idx)
	case r < x.s.sp.FailPct+x.s.sp.EmptyPct:
		x.write(id, true, nil, "answer", idx) // success with an EMPTY body
	default:
		x.write(id, true, x.uniq("r"), "answer", idx)
	}
}

func (x *eRun) hostile() {
	var done []int
	for idx := range x.answered {
		done = append(done, idx)
	}
	sort.Ints(done)
	if len(done) > 0 && x.rng.Intn(2) == 0 {
		idx := done[x.rng.Intn(len(done))]
		ok := x.rng.Intn(3) != 0
		var d []byte
		if x.rng.Intn(4) != 0 {
			d = x.uniq("dup")
		}
		x.write(x.wire[idx], ok, d, "dup", idx)
		return
	}
	unknown := []int{0, -1, -7, 1000 + x.rng.Intn(1000), 1 << 20}
	x.write(unknown[x.rng.Intn(len(unknown))], x.rng.Intn(2) == 0, x.uniq("x"), "unknown", -1)
}

// allAcceptedAnswered: every message whose send has returned without error has been received
// and answered by the client (monitor-side knowledge, used only to decide when the fake
// client may leave the login phase).
func (x *eRun) allAcceptedAnswered() bool {
	x.s.mu.Lock()
	defer x.s.mu.Unlock()
	for _, m := range x.s.msgs {
		if m.Class == "forge" {
			continue
		}
		if m.SendRet == 0 {
			return false // a send is still running
		}
		if m.Err == "" && !x.answered[m.Idx] {
			return false
		}
	}
	return true
}

// loop plays the client until `until` holds (checked when nothing is outstanding), the login
// phase ended, or nothing moved for the watchdog.
func (x *eRun) loop(until func() bool) bool {
	legacy := x.s.sp.Proto < firstConfigProtocol
	last := time.Now()
	progress := func() { last = time.Now() }
	nReq, nCons := -1, -1
	for spins := 0; ; spins++ {
		if x.c.EOF() || x.c.Kicked() != nil {
			x.ended = fmt.Sprintf("connection ended during the login phase (kicked: %q)", e2e.ReasonText(x.c.Kicked()))
			return false
		}
		vis := x.scan()
		success := x.c.GotLoginSuccess()
		if success {
			x.successSeen = true
		}
		if k := len(x.wire) + len(x.unknownReq); k != nReq {
			nReq = k
			progress()
		}
		x.s.mu.Lock()
		k := len(x.s.cons) + len(x.s.gpr)
		x.s.mu.Unlock()
		if k != nCons {
			nCons = k
			progress()
		}
		if success && legacy {
			return true // the login phase is over for this client: nothing more may be sent
		}
		if len(vis) == 0 {
			if until() {
				return true
			}
		} else if !x.s.freeDone.Load() && len(vis) == 1 && !success {
			// keep the login phase open until the free-running senders have returned
		} else {
			switch r := x.rng.Intn(100); {
			case r < x.s.sp.Hostile:
				x.hostile()
			case r < x.s.sp.Hostile+8:
				runtime.Gosched()
			default:
				x.answer(vis[x.rng.Intn(len(vis))])
			}
			progress()
			continue
		}
		if x.mayFlush && !success && len(vis) == 0 && time.Since(last) > flushPatience &&
			x.s.freeDone.Load() && x.allAcceptedAnswered() {
			// Everything the client was asked has been answered and still the login does not
			// go on. How long the client waited decides nothing; what decides is ORDER: a second
			// login start is a packet the proxy refuses by closing the connection, and it
			// handles the client's packets one after the other - so when the stream ends, every
			// response written before has been handled (and a completion they caused has run,
			// the step being synchronous in that handling).
			x.flushAt = e2e.Now()
			_ = x.c.LoginStart("flush")
			if x.c.WaitEOF(e2e.Watchdog) {
				x.flushed = true
				x.ended = "the login did not go on after every message was answered; a second login start ended the connection (flush)"
			} else {
				x.ended = "the login did not go on after every message was answered, and a second login start did not end the connection within the watchdog"
			}
			return false
		}
		if time.Since(last) > e2e.Watchdog {
			x.ended = "login phase made no progress within the watchdog"
			return false
		}
		if spins%32 == 31 {
			time.Sleep(50 * time.Microsecond)
		} else {
			runtime.Gosched()
		}
	}
}

func (x *eRun) run() {
	sp := x.s.sp
	host := "play.example.com"
	if sp.Mode == "forge" {
		if sp.Proto >= 757 {
			host += "\x00FML3\x00"
		} else {
			host += "\x00FML2\x00"
		}
	}
	dials := 0
	if x.eh.forge != nil {
		dials = x.eh.forge.Dials()
	}
	_ = x.c.Handshake(host, 25565, 2)
	_ = x.c.LoginStart(fmt.Sprintf("c%d_%d", sp.Seed%1000, sp.N))
	legacy := sp.Proto < firstConfigProtocol

	if sp.Mode == "forge" {
		// phase 1: the PreLogin messages; the backend is dialled once the login completed
		ok := x.loop(func() bool {
			if cs := x.eh.forge.Conns(); len(cs) > dials {
				x.backend = cs[dials]
				return true
			}
			return false
		})
		if !ok {
			return
		}
		if !x.backend.AwaitLogin(e2e.Watchdog) {
			x.ended = "the Forge backend got no login start"
			return
		}
		// phase 2: the backend's requests; the last one is the barrier, answered last
		n := len(sp.ForgeIDs)
		for k, bid := range sp.ForgeIDs {
			m := x.s.newMsg("forge", -1, false)
			data := []byte(m.Payload)
			if k == sp.ForgeEmpty {
				x.s.mu.Lock()
				delete(x.s.byPayload, m.Payload)
				m.Payload = ""
				x.s.byPayload["\x00empty"] = m.Idx
				x.s.mu.Unlock()
				data = nil
			}
			if k == n-1 {
				x.barrierM = m.Idx
			}
			at, err := x.backend.SendLoginPluginRequest(bid, fmlChannel, data)
			x.s.mu.Lock()
			m.BackendID, m.BackendAt, m.SendCall, m.SendRet = bid, at, at, at
			x.s.mu.Unlock()
			if err != nil {
				x.ended = "the Forge backend could not send: " + err.Error()
				return
			}
			for y := x.rng.Intn(30); y > 0; y-- {
				runtime.Gosched()
			}
		}
		forgeAnswered := func() bool {
			x.s.mu.Lock()
			defer x.s.mu.Unlock()
			for _, m := range x.s.msgs {
				if m.Class == "forge" && m.Idx != x.barrierM && !x.answered[m.Idx] {
					return false
				}
			}
			_, barrierSeen := x.wire[x.barrierM]
			return barrierSeen
		}
		if !x.loop(forgeAnswered) {
			return
		}
		// barrier: the last request is answered after everything else the client wrote
		bm := x.barrierM
		x.barrierM = -1
		x.answered[bm] = true
		x.write(x.wire[bm], true, x.uniq("barrier"), "answer", bm)
		x.s.mu.Lock()
		bid := x.s.msgs[bm].BackendID
		x.s.mu.Unlock()
		deadline := time.Now().Add(e2e.Watchdog)
		for {
			got := false
			for _, rp := range x.backend.LoginPluginReplies() {
				if rp.ID == bid {
					got = true
				}
			}
			if got {
				break
			}
			if x.backend.EOF() || !time.Now().Before(deadline) {
				x.ended = "the reply to the backend's last request never reached the backend"
				return
			}
			time.Sleep(50 * time.Microsecond)
		}
		if x.backend.SendLoginSuccess() != nil || x.backend.SendJoin() != nil {
			x.ended = "the Forge backend could not finish the login"
			return
		}
		res := x.c.AwaitJoin(e2e.Watchdog)
		x.joined = res.Joined
		if !res.Joined {
			x.ended = fmt.Sprintf("forge join did not complete (%+v %s)", res, e2e.ReasonText(res.Kicked))
		}
		return
	}

	// plain / online / too-old
	x.mayFlush = true
	ok := x.loop(func() bool {
		if !x.successSeen {
			return false
		}
		// 1.20.2+: the client decides when the login phase ends: after every accepted
		// message was answered and every scripted sender returned
		return x.s.freeDone.Load() && x.lateSendersDone() && x.allAcceptedAnswered()
	})
	if !ok {
		return
	}
	if !legacy {
		for k := x.rng.Intn(3); k > 0; k-- {
			x.hostile()
		}
		x.released = e2e.Now()
		if err := x.release(); err != nil {
			x.ended = "could not acknowledge the login: " + err.Error()
			return
		}
	}
	res := x.c.AwaitJoin(e2e.Watchdog)
	x.joined = res.Joined
	if !res.Joined {
		x.ended = fmt.Sprintf("join did not complete (%+v %s)", res, e2e.ReasonText(res.Kicked))
	}
}

// lateSendersDone: the GameProfileRequest / Login subscribers that were scripted to send have
// run (they run before the login success is written, so this holds once it arrived; checked
// anyway).
func (x *eRun) lateSendersDone() bool {
	x.s.mu.Lock()
	defer x.s.mu.Unlock()
	need := x.s.sp.LateGPR + x.s.sp.LateLogin
	got := 0
	for _, m := range x.s.msgs {
		if (m.Class == "late-gpr" || m.Class == "late-login") && m.SendRet != 0 {
			got++
		}
	}
	return got >= need
}

// ---- offline oracle -------------------------------------------------------------------------

type eViol struct{ sig, what string }

func judgeE2E(x *eRun) (vs []eViol, st map[string]int) {
	st = map[string]int{}
	add := func(sig, format string, a ...any) { vs = append(vs, eViol{"e2e:" + sig, fmt.Sprintf(format, a...)}) }
	s := x.s
	s.mu.Lock()
	defer s.mu.Unlock()
	sp := s.sp
	x.scan0()

	nSucc, succAt, succSeq := x.c.LoginSuccesses()
	_ = succAt
	reqs := x.c.LoginPluginRequests()

	// ---- W: what reached the client
	perMsgReqs := map[int][]e2e.LoginPluginRequest{}
	idOwner := map[int]int{}
	for _, rq := range reqs {
		idx, ok := s.byPayload[string(rq.Data)]
		if !ok && rq.Channel == fmlChannel && len(rq.Data) == 1 && rq.Data[0] == 0 {
			idx, ok = s.byPayload["\x00empty"]
		}
		if !ok {
			add("unexpected-login-message-on-wire", "the client received a login plugin request nobody asked for: id=%d channel=%q data=%q", rq.ID, rq.Channel, rq.Data)
			continue
		}
		perMsgReqs[idx] = append(perMsgReqs[idx], rq)
		wantCh := verifChannel
		if s.msgs[idx].Class == "forge" {
			wantCh = fmlChannel
		}
		if rq.Channel != wantCh {
			add("login-message-altered-on-wire", "m%d reached the client on channel %q, want %q", idx, rq.Channel, wantCh)
		}
		if prev, dup := idOwner[rq.ID]; dup && prev != idx {
			add("login-message-id-reused", "m%d and m%d reached the client with the same id %d", prev, idx, rq.ID)
		}
		idOwner[rq.ID] = idx
	}
	for idx, l := range perMsgReqs {
		if len(l) > 1 {
			add("login-message-written-more-than-once", "m%d reached the client %d times", idx, len(l))
		}
	}
	for _, m := range s.msgs {
		if m.Class == "forge" {
			st["forge_backend_requests"]++
			if m.Payload == "" {
				st["forge_backend_requests_with_empty_data"]++
			}
			if len(perMsgReqs[m.Idx]) > 0 {
				st["forge_requests_relayed_to_client"]++
			}
			continue
		}
		switch {
		case m.SendRet == 0:
			st["sends_still_running_at_the_end"]++
		case m.Err != "":
			st["sends_refused"]++
			if sp.Proto >= firstLoginPluginProtocol {
				add("send-login-plugin-message-error", "SendLoginPluginMessage failed for m%d (%s) on protocol %d: %s", m.Idx, m.Class, sp.Proto, m.Err)
			}
		default:
			st["messages_accepted"]++
			st["messages_accepted:"+m.Class]++
			if len(perMsgReqs[m.Idx]) > 0 {
				st["messages_received_by_client"]++
			}
		}
	}

	// ---- first responses
	firstResp := map[int]*eResp{} // message -> first response written to its id after the client received it
	for i := range x.resps {
		rp := &x.resps[i]
		switch rp.Kind {
		case "unknown":
			st["responses_with_unknown_id"]++
		case "dup":
			st["duplicate_responses"]++
		case "answer":
			switch {
			case !rp.OK:
				st["answers:failure"]++
			case rp.Data == "":
				st["answers:success_with_empty_body"]++
			default:
				st["answers:success_with_payload"]++
			}
		}
		if rp.M >= 0 && rp.Kind == "answer" {
			if _, dup := firstResp[rp.M]; !dup {
				firstResp[rp.M] = rp
			}
		}
	}
	respByBody := map[string]*eResp{}
	for i := range x.resps {
		if x.resps[i].Data != "" {
			respByBody[x.resps[i].Data] = &x.resps[i]
		}
	}

	// ---- D: consumer invocations
	consOf := map[int][]eCons{}
	for _, c := range s.cons {
		consOf[c.M] = append(consOf[c.M], c)
		st["consumer_invocations"]++
	}
	for mi, l := range consOf {
		m := s.msgs[mi]
		fr := firstResp[mi]
		for k, c := range l {
			if fr == nil || fr.At > c.Call {
				add("consumer-invoked-without-a-client-reply", "consumer of m%d (%s) ran at %d but the client had not answered that message", mi, m.Class, c.Call)
				continue
			}
			// attribute the body
			if !c.Nil && c.Body != "" {
				src := respByBody[c.Body]
				switch {
				case src == nil:
					add("consumer-got-wrong-payload", "consumer of m%d got %q, which no response of the client carried", mi, c.Body)
					continue
				case src == fr:
				case src.Kind == "unknown":
					add("unknown-id-response-delivered", "the response with never-assigned id %d reached the consumer of m%d", src.ID, mi)
					continue
				case src.M == mi:
					add("duplicate-response-delivered", "a repeated response to id %d reached the consumer of m%d", src.ID, mi)
					continue
				default:
					add("response-delivered-to-wrong-consumer", "the response to id %d (m%d) reached the consumer of m%d (id %d)", src.ID, src.M, mi, x.wire[mi])
					continue
				}
			}
			if k > 0 {
				add("consumer-invoked-more-than-once", "consumer of m%d (%s) ran %d times", mi, m.Class, len(l))
				continue
			}
			switch {
			case fr.OK && c.Nil && fr.Data == "":
				add("successful-empty-reply-delivered-as-failure", "the client answered m%d (%s, id %d) with success and an empty body; its consumer was told the client did not understand (nil body)", mi, m.Class, fr.ID)
			case fr.OK && c.Nil:
				add("successful-reply-delivered-as-failure", "the client answered m%d (id %d) with success and %q; its consumer got a nil body", mi, fr.ID, fr.Data)
			case fr.OK && c.Body != fr.Data:
				add("consumer-got-wrong-payload", "consumer of m%d got %q, the client's reply carried %q", mi, c.Body, fr.Data)
			case !fr.OK && !c.Nil:
				add("failure-reply-delivered-as-success", "the client answered m%d (id %d) with failure; its consumer got the non-nil body %q", mi, fr.ID, c.Body)
			default:
				st["deliveries_matching_the_client_reply"]++
				if fr.OK && fr.Data == "" {
					st["deliveries_of_success_with_empty_body"]++
				}
			}
		}
	}
	if x.joined || x.flushed {
		for mi, fr := range firstResp {
			if s.msgs[mi].Class != "forge" && len(consOf[mi]) == 0 {
				if x.flushed && fr.At > x.flushAt {
					continue
				}
				add("response-not-delivered", "the client's first response to id %d (m%d, %s) never reached the consumer although everything the client wrote has been handled", fr.ID, mi, s.msgs[mi].Class)
			}
		}
	}

	// ---- C: completion
	// offline mode: the completion step's first act is the GameProfileRequestEvent (stamped
	// inside the proxy); online mode: it sends the encryption request (stamped when the client
	// received it, i.e. later than the decision - which only makes "returned before" easier
	// to meet, and rule 2 of must() is not used there)
	compl := s.gpr
	complName := "GameProfileRequestEvent"
	if sp.Mode == "online" {
		compl = nil
		complName = "encryption request at the client"
		for _, rc := range x.c.Log() {
			if _, ok := rc.Packet.(*packet.EncryptionRequest); ok {
				compl = append(compl, rc.At)
			}
		}
		st["encryption_requests"] = len(compl)
		if len(s.gpr) > 1 {
			add("game-profile-request-fired-more-than-once", "GameProfileRequestEvent fired %d times for one login", len(s.gpr))
		}
	}
	st["completions"] = len(compl)
	st["login_events"] = len(s.login)
	st["login_success_packets"] = nSucc
	if len(compl) > 0 {
		C := compl[0]
		if s.preRet == 0 || C < s.preRet {
			add("completion-before-login-event", "the login completed (%s at %d) before the PreLogin handler returned (%d)", complName, C, s.preRet)
		}
		must := func(m *eMsg) bool {
			if m.Class == "forge" || m.Err != "" || m.SendRet == 0 {
				return false
			}
			if s.preRet != 0 && m.SendRet < s.preRet {
				return true
			}
			for _, c := range s.cons {
				if sp.Mode != "online" && m.SendRet < c.Call && c.Call < C {
					return true
				}
			}
			if m.Parent >= 0 {
				for _, c := range consOf[m.Parent] {
					if c.Ret < C {
						return true
					}
				}
			}
			return false
		}
		for _, m := range s.msgs {
			if m.Class == "forge" || m.Err != "" {
				continue
			}
			if must(m) {
				st["msgs_required_before_completion"]++
				done := false
				for _, c := range consOf[m.Idx] {
					if c.Ret < C {
						done = true
					}
				}
				if !done {
					wired := "it had reached the client"
					if len(perMsgReqs[m.Idx]) == 0 {
						wired = "it was never even written to the client"
					} else if succSeq >= 0 && perMsgReqs[m.Idx][0].Seq > succSeq {
						wired = "it reached the client only after the login success"
					}
					add("completion-while-message-outstanding", "the login completed at %d while m%d (%s, send returned at %d) was still unanswered; %s", C, m.Idx, m.Class, m.SendRet, wired)
				}
			} else {
				st["msgs_possibly_after_completion"]++
			}
		}
		for j := 1; j < len(compl); j++ {
			late, other := 0, 0
			for _, m := range s.msgs {
				for _, c := range consOf[m.Idx] {
					if c.Call > compl[j-1] && c.Call < compl[j] {
						if m.Class == "forge" {
							continue
						}
						if must(m) {
							other++
						} else {
							late++
						}
					}
				}
			}
			switch {
			case sp.Mode == "forge":
				add("completion-rerun-during-forge-relay", "the login-completion step ran %d times on a Forge login", len(compl))
			case late > 0 && other == 0:
				add("completion-rerun-after-message-sent-after-completion", "the login-completion step ran %d times: again after the reply to a message sent after (or concurrently with) the first completion", len(compl))
			default:
				add("completion-ran-more-than-once", "the login-completion step ran %d times (%s)", len(compl), complName)
			}
		}
	} else if x.flushed {
		all := true
		for _, m := range s.msgs {
			if m.Class != "forge" && m.Err == "" && len(consOf[m.Idx]) == 0 {
				all = false
			}
		}
		if all && s.preRet != 0 {
			add("completion-never-ran", "the PreLogin handler returned, the consumer of every message ran, every packet of the client has been handled - and the login-completion step never ran")
		}
	} else if nSucc > 0 {
		add("login-success-without-completion-event", "the client got a login success but the completion (%s) was never observed", complName)
	}
	if nSucc > 1 {
		add("login-success-sent-more-than-once", "the client received %d login success packets", nSucc)
	}
	if len(s.login) > 1 {
		add("login-event-fired-more-than-once", "LoginEvent fired %d times for one login", len(s.login))
	}

	// ---- F: forge relay
	if sp.Mode == "forge" && x.backend != nil {
		want := map[int]*eMsg{}
		for _, m := range s.msgs {
			if m.Class == "forge" {
				want[m.BackendID] = m
			}
		}
		got := map[int][]e2e.LoginPluginReply{}
		for _, rp := range x.backend.LoginPluginReplies() {
			st["forge_replies_received_by_backend"]++
			if _, ok := want[rp.ID]; !ok {
				add("forge-relay-unknown-backend-id", "the backend received a response for id %d, which it never used", rp.ID)
				continue
			}
			got[rp.ID] = append(got[rp.ID], rp)
		}
		for bid, m := range want {
			fr := firstResp[m.Idx]
			if fr == nil {
				if len(got[bid]) > 0 {
					add("forge-relay-answered-without-a-client-reply", "the backend got a response for its request %d although the client never answered it", bid)
				}
				continue
			}
			l := got[bid]
			switch {
			case len(l) == 0 && x.joined:
				add("forge-relay-unanswered", "backend request %d was answered by the client but the backend got no response", bid)
				continue
			case len(l) == 0:
				continue
			case len(l) > 1:
				add("forge-relay-answered-more-than-once", "backend request %d got %d responses", bid, len(l))
			}
			b := l[0]
			switch {
			case b.At < fr.At:
				add("forge-relay-answered-without-a-client-reply", "the backend got the response for its request %d before the client answered it", bid)
			case fr.OK && !b.Success && fr.Data == "":
				add("forge-relay-wrong-reply:success-with-empty-body-relayed-as-failure", "backend request %d: the client replied success with an empty body, the backend got success=false", bid)
			case fr.OK != b.Success:
				add("forge-relay-wrong-reply:success-flag", "backend request %d: the client replied success=%v, the backend got success=%v", bid, fr.OK, b.Success)
			case fr.OK && !bytes.Equal(b.Data, []byte(fr.Data)):
				add("forge-relay-wrong-reply:body", "backend request %d: the client replied %q, the backend got %q", bid, fr.Data, b.Data)
			default:
				st["forge_replies_matching_the_client_reply"]++
				if fr.OK && fr.Data == "" {
					st["forge_replies_of_success_with_empty_body"]++
				}
			}
		}
	}
	return vs, st
}

// scan0 refreshes the client view without the lock dance of scan (judge holds s.mu).
func (x *eRun) scan0() {
	for _, rq := range x.c.LoginPluginRequests() {
		idx, ok := x.s.byPayload[string(rq.Data)]
		if !ok && rq.Channel == fmlChannel && len(rq.Data) == 1 && rq.Data[0] == 0 {
			idx, ok = x.s.byPayload["\x00empty"]
		}
		if !ok {
			continue
		}
		if _, seen := x.wire[idx]; !seen {
			x.wire[idx] = rq.ID
			x.wireAt[idx] = rq.At
		}
	}
}

// ---- runner -----------------------------------------------------------------------------------

func e2eProtocols() (carry, cannot []int) {
	for _, v := range version.Versions {
		p := int(v.Protocol)
		if p >= firstLoginPluginProtocol {
			carry = append(carry, p)
		}
	}
	sort.Ints(carry)
	return carry, []int{47, 340}
}

func runE2E(r *lib.Run) {
	carry, cannot := e2eProtocols()
	rounds := r.N(30, 600)
	master := r.Rng("e2e-sessions")
	var specs []eSpec
	for rd := 0; rd < rounds; rd++ {
		for _, pv := range carry {
			specs = append(specs, genESpec(len(specs), pv, "plain", master.Int63()))
			if rd%4 == 1 {
				specs = append(specs, genESpec(len(specs), pv, "online", master.Int63()))
			}
			if pv < firstConfigProtocol && rd%2 == 0 {
				specs = append(specs, genESpec(len(specs), pv, "forge", master.Int63()))
			}
		}
		if rd%4 == 0 {
			for _, pv := range cannot {
				specs = append(specs, genESpec(len(specs), pv, "too-old", master.Int63()))
			}
		}
	}
	n := len(specs)
	workers := r.N(4, 12)
	var next atomic.Int64
	if only, err := strconv.Atoi(os.Getenv("VERIF_E2E_ONLY")); err == nil && only >= 0 && only < n {
		// debugging aid: run a single session of the list (same spec as in the full run)
		next.Store(int64(only))
		n = only + 1
		workers = 1
	}
	var wg sync.WaitGroup
	var mu sync.Mutex
	agg := map[string]int{}
	perProto := map[int]int{}
	perMode := map[string]int{}
	ch, err := message.ChannelIdentifierFrom(verifChannel)
	if err != nil {
		r.Inconclusive("channel id: " + err.Error())
		return
	}
	for w := 0; w < workers; w++ {
		wg.Add(1)
		go func(w int) {
			defer wg.Done()
			plain, err1 := newEHarness("plain")
			forge, err2 := newEHarness("forge")
			online, err3 := newEHarness("online")
			if err1 != nil || err2 != nil || err3 != nil {
				r.Inconclusive(fmt.Sprint("e2e harness: ", err1, err2, err3))
				return
			}
			for {
				i := int(next.Add(1)) - 1
				if i >= n {
					return
				}
				sp := specs[i]
				r.LogCase(map[string]any{"layer": "e2e", "spec": sp})
				eh := plain
				switch sp.Mode {
				case "forge":
					eh = forge
				case "online":
					eh = online
				}
				addr := &net.TCPAddr{IP: net.IPv4(10, 13, byte(i>>8), byte(i)), Port: 20000 + i%30000}
				s := &eSess{sp: sp, addr: addr.String(), ch: ch, byPayload: map[string]int{}}
				if len(sp.Free) == 0 {
					s.freeDone.Store(true)
				}
				eh.sess.Store(s.addr, s)
				x := &eRun{s: s, eh: eh, rng: rand.New(rand.NewSource(sp.Seed ^ 0x2545f491)), wire: map[int]int{}, wireAt: map[int]int64{}, answered: map[int]bool{}, barrierM: -1}
				x.c, x.release = eh.h.NewClientHoldingLoginAck(e2e.ClientOpts{Protocol: proto.Protocol(sp.Proto), RemoteAddr: addr})
				ok, pv := lib.Returns(8*e2e.Watchdog, x.run)
				x.c.Close()
				if !ok {
					r.Inconclusive(fmt.Sprintf("e2e session %d (%s, protocol %d) did not end within the watchdog", i, sp.Mode, sp.Proto))
					return
				}
				if pv != nil {
					r.Inconclusive(fmt.Sprintf("e2e session %d: harness panic: %v", i, pv))
					continue
				}
				// free senders of a session that ended early must be gone before it is judged
				if ok, _ := lib.Returns(e2e.Watchdog, s.freeWG.Wait); !ok {
					r.Inconclusive(fmt.Sprintf("e2e session %d: a sender goroutine never returned", i))
				}
				x.c.HandleConnReturned(e2e.Watchdog)
				eh.sess.Delete(s.addr)
				r.Eval(1)
				if x.ended != "" {
					r.Inconclusive(fmt.Sprintf("e2e session %d (%s, protocol %d): %s", i, sp.Mode, sp.Proto, x.ended))
				}
				vs, st := judgeE2E(x)
				seen := map[string]bool{}
				for _, v := range vs {
					if seen[v.sig] {
						continue
					}
					seen[v.sig] = true
					s.mu.Lock()
					wit := map[string]any{"spec": sp, "messages": s.msgs, "client_responses": x.resps, "consumer_calls": s.cons,
						"prelogin_handler_returned": s.preRet, "completions(GameProfileRequestEvent)": s.gpr, "login_events": s.login,
						"requests_received_by_client": x.c.LoginPluginRequests(), "ended_early": x.ended}
					if x.backend != nil {
						wit["responses_received_by_backend"] = x.backend.LoginPluginReplies()
					}
					s.mu.Unlock()
					r.Violation(v.sig, v.what, wit)
				}
				mu.Lock()
				for k, v := range st {
					agg[k] += v
				}
				perProto[sp.Proto]++
				perMode[sp.Mode]++
				if x.joined {
					agg["sessions_that_reached_JoinGame"]++
				}
				if x.flushed {
					agg["stalled_sessions_flushed_with_a_second_login_start"]++
				}
				mu.Unlock()
				if st["messages_accepted"]+st["forge_backend_requests"]+st["sends_refused"] > 0 {
					r.Distinct(fmt.Sprintf("e2e|%d|%s|%d|%d", sp.Proto, sp.Mode, sp.Seed, len(x.resps)))
				}
				if r.WantSample() {
					r.Sample(map[string]any{"layer": "e2e", "spec": sp, "observed": st, "responses_written": len(x.resps), "joined": x.joined})
				}
			}
		}(w)
	}
	wg.Wait()
	for k, v := range agg {
		r.Count("e2e:"+k, v)
	}
	r.Set("e2e_sessions_by_protocol", perProto)
	r.Set("e2e_sessions_by_mode", perMode)
}
