package zzprobe

import (
	"fmt"
	"testing"

	"go.minekube.com/gate/pkg/edition/java/profile"
	"go.minekube.com/gate/pkg/edition/java/proto/packet/tablist/playerinfo"
	"go.minekube.com/gate/pkg/edition/java/proxy/crypto"
	"go.minekube.com/gate/pkg/gate/proto"
	itl "go.minekube.com/gate/pkg/internal/tablist"
	"go.minekube.com/gate/pkg/util/uuid"
)

type v struct{ p proto.Protocol }

func (v *v) Protocol() proto.Protocol            { return v.p }
func (v *v) IdentifiedKey() crypto.IdentifiedKey { return nil }
func (v *v) Flush() error                        { return nil }
func (v *v) WritePacket(p proto.Packet) error    { return v.BufferPacket(p) }
func (v *v) BufferPacket(p proto.Packet) error {
	if u, ok := p.(*playerinfo.Upsert); ok {
		fmt.Printf("  -> viewer: upsert, %d actions, entry name=%q\n", len(u.ActionSet), u.Entries[0].Profile.Name)
	} else {
		fmt.Printf("  -> viewer: %T %+v\n", p, p)
	}
	return nil
}

func TestProbe(t *testing.T) {
	tl := itl.New(&v{764})
	id := uuid.UUID{1}
	// backend: ADD_PLAYER + INITIALIZE_CHAT (no session) - what a vanilla server sends for a player without chat session
	_ = tl.ProcessUpdate(&playerinfo.Upsert{ActionSet: []playerinfo.UpsertAction{playerinfo.AddPlayerAction, playerinfo.InitializeChatAction},
		Entries: []*playerinfo.Entry{{ProfileID: id, Profile: profile.GameProfile{ID: id, Name: "Bob"}}}})
	e := tl.Entries()[id]
	fmt.Printf("entry.ChatSession() == nil: %v (%#v)\n", e.ChatSession() == nil, e.ChatSession())
	_ = tl.RemoveAll(id)
	func() {
		defer func() { fmt.Println("  Add(e) after RemoveAll(id) recovered:", recover()) }()
		fmt.Println(tl.Add(e))
	}()

	// profile change
	tl = itl.New(&v{764})
	a := &itl.Entry{OwningTabList: tl, EntryAttributes: itl.EntryAttributes{Profile: profile.GameProfile{ID: id, Name: "Bob"}}}
	b := &itl.Entry{OwningTabList: tl, EntryAttributes: itl.EntryAttributes{Profile: profile.GameProfile{ID: id, Name: "Nick"}}}
	fmt.Println("Add(Bob):")
	_ = tl.Add(a)
	fmt.Println("Add(Nick) same id:")
	_ = tl.Add(b)
	fmt.Printf("Gate reports name %q; the viewer was only ever told \"Bob\"\n", tl.Entries()[id].Profile().Name)
}
