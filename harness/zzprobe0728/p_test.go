package zzprobe

import (
	"bytes"
	"fmt"
	"testing"

	"go.minekube.com/gate/pkg/edition/java/proto/packet/chat"
	"go.minekube.com/gate/pkg/edition/java/proxy/verifh/gatevanilla"
	"go.minekube.com/gate/pkg/gate/proto"
)

func TestProbe(t *testing.T) {
	// compound{text:"x", extra:[compound{text:"", color:"white"}]}
	nbt := []byte{10,
		8, 0, 4, 't', 'e', 'x', 't', 0, 1, 'x',
		9, 0, 5, 'e', 'x', 't', 'r', 'a', 10, 0, 0, 0, 1,
		8, 0, 4, 't', 'e', 'x', 't', 0, 0,
		8, 0, 5, 'c', 'o', 'l', 'o', 'r', 0, 5, 'w', 'h', 'i', 't', 'e',
		0,
		0}
	for _, p := range []int{765, 773} {
		h, err := chat.ReadComponentHolder(bytes.NewReader(nbt), proto.Protocol(p))
		fmt.Println("read err", err)
		c, err := h.AsComponent()
		fmt.Printf("protocol %d: err=%v json=%s comp=%s\n", p, err, h.JSON, gatevanilla.CompOf(c).Key())
	}
	// bare TAG_String
	h, err := chat.ReadComponentHolder(bytes.NewReader([]byte{8, 0, 2, 'h', 'i'}), 765)
	c, err2 := h.AsComponent()
	fmt.Printf("TAG_String root: %v %v json=%s comp=%s\n", err, err2, h.JSON, gatevanilla.CompOf(c).Key())
	h, err = chat.ReadComponentHolder(bytes.NewReader([]byte{8, 0, 0}), 765)
	c, err2 = h.AsComponent()
	fmt.Printf("TAG_String root empty: %v %v json=%s comp=%s\n", err, err2, h.JSON, gatevanilla.CompOf(c).Key())
	h, err = chat.ReadComponentHolder(bytes.NewReader([]byte{10, 8, 0, 4, 't', 'e', 'x', 't', 0, 0, 0}), 765)
	c, err2 = h.AsComponent()
	fmt.Printf("compound{text:\"\"}: %v %v json=%s comp=%s\n", err, err2, h.JSON, gatevanilla.CompOf(c).Key())
}
