package zzprobe

import (
	"bytes"
	"fmt"
	"testing"

	"github.com/Tnze/go-mc/nbt"
)

func TestProbe(t *testing.T) {
	for _, b := range [][]byte{
		{10, 8, 0, 4, 't', 'e', 'x', 't', 0, 0, 0},
		{8, 0, 2, 'M', '['},
		{8, 0, 3, 'a', ' ', 'b'},
		{10, 8, 0, 4, 't', 'e', 'x', 't', 0, 3, '1', '2', '3', 0},
		{10, 8, 0, 4, 't', 'e', 'x', 't', 0, 4, 't', 'r', 'u', 'e', 0},
		{10, 8, 0, 4, 't', 'e', 'x', 't', 0, 4, 'a', ':', ' ', 'b', 0},
	} {
		var m nbt.RawMessage
		d := nbt.NewDecoder(bytes.NewReader(b))
		d.NetworkFormat(true)
		_, err := d.Decode(&m)
		fmt.Printf("%v -> snbt %q err=%v\n", b, m.String(), err)
	}
}
