// Pipelining-client / faulting-backend family of the C30 monitor.
//
// The statement's second sentence ("active-connection counts equal the number of open
// forwarded connections at all times and return to zero when they close") quantifies over all
// dial outcomes. Between "the dial succeeded" and "the connection is being forwarded"
// lite.Forward has one more step that can fail: it flushes the bytes the client sent right
// behind its handshake (login start and whatever followed in the same segments) to the
// backend. This family makes that step, and the piping that follows it, meet backends that
//
//   - accept, read the handshake and RESET (SO_LINGER 0),
//   - accept, read the handshake and close (FIN),
//   - reset at accept (before reading anything),
//   - accept, read the handshake and the login start, then reset,
//
// mixed with healthy and refusing ones in every list position, for clients that pipeline
// nothing / login start / login start plus more frames behind the handshake, over the
// in-memory client connection and over a real loopback TCP client connection. Two thirds of
// the in-memory attempts use the schedule-control point of litefwd.StartHooked: Forward's
// request for the client's buffered bytes waits until the backend that received this
// attempt's handshake (identified by the attempt's unique virtual host) has done its fault,
// so the fault lands between dial and flush instead of depending on a race; the others run
// the natural race. Faults are stimuli: what they did is read from Gate's own log events
// ("failed to empty client buffer", "forwarding connection") and reported as evidence.
//
// Oracles: the per-attempt clause of the sequential family (checkAttempt) and conservation:
// at every quiescent point (every attempt either returned from lite.Forward or is a forwarded
// connection to a healthy backend the harness holds open) ActiveConnections() and the
// per-backend counts equal the held connections; zero after all closed. A concurrent family
// runs barrier-released churners (open pipelined connections to the faulting route, close
// them) against keepers holding healthy connections on the same StrategyManager.
package c30

import (
	"fmt"
	"io"
	"math/rand"
	"net"
	"strconv"
	"sync"
	"sync/atomic"
	"time"

	"go.minekube.com/gate/pkg/edition/java/lite"
	"go.minekube.com/gate/pkg/edition/java/lite/config"
	"go.minekube.com/gate/pkg/edition/java/proxy/verifh/e2e/litefwd"
	"go.minekube.com/gate/pkg/edition/java/proxy/verifh/lib"
)

const (
	kRstHS     = "reset-after-handshake"
	kFinHS     = "close-after-handshake"
	kRstAccept = "reset-at-accept"
	kRstLogin  = "reset-after-login-start"
)

var pipeFaultKinds = []string{kRstHS, kFinHS, kRstAccept, kRstLogin}

// pipeSignals: attempt's virtual host -> chan string; the backend that read this attempt's
// handshake reports its kind there once its post-handshake action is done.
var pipeSignals sync.Map

var pipeBytesAtHealthy atomic.Int64 // bytes healthy backends received behind the handshake

func servePipe(kind string, cnt *atomic.Int64) func(c net.Conn, idx int) {
	return func(c net.Conn, _ int) {
		cnt.Add(1)
		tc, _ := c.(*net.TCPConn)
		if kind == kRstAccept {
			lib.ResetTCP(tc)
			return
		}
		defer func() { _ = c.Close() }()
		fr, ok := readFrame(c)
		if !ok {
			return
		}
		hs, _, _, err := litefwd.ParseHandshakeFrame(fr)
		if err != nil {
			return
		}
		sig := func() {
			if ch, ok := pipeSignals.Load(hs.Address); ok {
				select {
				case ch.(chan string) <- kind:
				default:
				}
			}
		}
		switch kind {
		case kRstHS:
			lib.ResetTCP(tc)
			sig()
		case kFinHS:
			_ = c.Close()
			sig()
		case kRstLogin:
			sig()
			_, _ = readFrame(c)
			lib.ResetTCP(tc)
		default: // healthy
			sig()
			_, _ = c.Write([]byte("G"))
			n, _ := io.Copy(io.Discard, c)
			pipeBytesAtHealthy.Add(n)
		}
	}
}

func newPipeWorld() (*world, error) {
	w := &world{acceptCnt: map[int]*atomic.Int64{}, kind: map[int]string{}, byKind: map[string][]int{}}
	listen := func(kind string, n int) error {
		for i := 0; i < n; i++ {
			cnt := &atomic.Int64{}
			b, err := litefwd.Listen(0, servePipe(kind, cnt))
			if err != nil {
				return err
			}
			w.extra = append(w.extra, b)
			if kind == kHealthy {
				w.accepting = append(w.accepting, b)
			}
			w.acceptCnt[b.Port] = cnt
			w.kind[b.Port] = kind
			w.byKind[kind] = append(w.byKind[kind], b.Port)
		}
		return nil
	}
	if err := listen(kHealthy, 2); err != nil {
		return w, err
	}
	for _, k := range pipeFaultKinds {
		if err := listen(k, 1); err != nil {
			return w, err
		}
	}
	rp, err := litefwd.ReserveRefused(0)
	if err != nil {
		return w, err
	}
	w.refused = append(w.refused, rp)
	w.kind[rp.Port] = kRefuse
	w.byKind[kRefuse] = append(w.byKind[kRefuse], rp.Port)
	return w, nil
}

// ---- attempts ---------------------------------------------------------------------------------------

var pipeID atomic.Int64

const (
	mNone  = "handshake-only"
	mLogin = "handshake+login-start"
	mMore  = "handshake+login-start+more"
)

var pipeModes = []string{mNone, mLogin, mLogin, mMore, mMore}

const (
	vPlain  = "in-memory"
	vHooked = "in-memory,fault-placed-before-flush"
	vTCP    = "loopback-tcp"
)

type pAttempt struct {
	*attempt
	client      io.ReadWriteCloser
	Mode, Via   string
	AbortedAt   string // backend whose flush failed (Gate's "failed to empty client buffer")
	pipelinedLn int
}

func loginStartFrame(name string) []byte {
	p := litefwd.AppendVarInt(nil, 0)
	p = litefwd.AppendVarInt(p, int32(len(name)))
	p = append(p, name...)
	p = append(p, make([]byte, 16)...)
	return litefwd.FramePayload(p)
}

// openPipe starts one connection attempt whose client sends, in ONE write, the handshake and
// whatever the mode pipelines behind it, and waits until the attempt is definite: forwarded
// (greeting byte or Gate's "forwarding connection" event) or lite.Forward returned.
func openPipe(routes []config.Route, sm *lite.StrategyManager, suffix string, mode, via string, extra []byte, limit int) *pAttempt {
	host := fmt.Sprintf("a%d.%s", pipeID.Add(1), suffix)
	ch := make(chan string, 8)
	pipeSignals.Store(host, ch)
	defer pipeSignals.Delete(host)
	opts := litefwd.Options{Routes: routes, SM: sm, TryLimit: limit, DialTimeout: 2 * time.Second,
		ClientAddr: &net.TCPAddr{IP: net.IPv4(127, 0, 0, 1), Port: 20000 + int(clientPort.Add(1)%40000)}}
	a := &pAttempt{attempt: &attempt{Path: "login"}, Mode: mode, Via: via}
	var s *litefwd.Session
	switch via {
	case vHooked:
		s = litefwd.StartHooked(opts, func() {
			// Forward dialled a backend and wrote the handshake; wait for that backend's action
			select {
			case k := <-ch:
				if k != kHealthy {
					time.Sleep(time.Millisecond) // let the RST/FIN be processed
				}
			case <-time.After(25 * time.Millisecond): // a backend that never read the handshake
			}
		})
		a.client = s.Client
	case vTCP:
		ts, err := litefwd.StartTCP(opts)
		if err != nil {
			return a
		}
		s, a.client = ts.Session, ts.TCP
	default:
		s = litefwd.Start(opts)
		a.client = s.Client
	}
	a.s = s
	msg := litefwd.Handshake{Protocol: 765, Address: host, Port: 25565, Next: 2}.Frame()
	if mode != mNone {
		msg = append(msg, loginStartFrame("Steve")...)
	}
	if mode == mMore {
		msg = append(msg, extra...)
	}
	a.pipelinedLn = len(msg)
	_, _ = a.client.Write(msg)
	greet := make(chan struct{})
	go func() {
		buf := make([]byte, 1)
		if n, _ := io.ReadFull(a.client, buf); n == 1 && buf[0] == 'G' {
			close(greet)
		}
	}()
	deadline := time.Now().Add(30 * time.Second) // watchdog, never a verdict
	tick := time.NewTicker(time.Millisecond)
	defer tick.Stop()
	for !a.Done {
		select {
		case <-greet:
			a.Forwarded, a.Greeted, a.Done = true, true, true
		case <-s.ForwardReturned():
			a.Done = true
		case <-tick.C:
			if _, ok := s.Rec.Find(litefwd.MsgForwarding); ok {
				a.Forwarded, a.Done = true, true
			} else if time.Now().After(deadline) {
				a.collect()
				return a
			}
		}
	}
	a.collect()
	if _, ok := s.Rec.Find(litefwd.MsgForwarding); ok {
		a.Forwarded = true
	}
	for _, e := range s.Rec.Events() {
		if e.Msg == litefwd.MsgTryFailed {
			a.TryErrs = append(a.TryErrs, errClass(e.KV["error"]))
		}
		if e.Msg == "failed to empty client buffer" {
			a.Aborted = true
			a.AbortedAt = e.KV["backendAddr"]
		}
	}
	return a
}

// end closes the client and waits for lite.Forward (and the read loop) to return.
func (a *pAttempt) end() bool {
	if a.s == nil {
		return true
	}
	if a.client != nil {
		_ = a.client.Close()
	}
	ok, _ := lib.Returns(30*time.Second, func() { <-a.s.LoopReturned() })
	return ok
}

func genExtra(rng *rand.Rand) []byte {
	var out []byte
	for k := 1 + rng.Intn(3); k > 0; k-- {
		p := make([]byte, 1+rng.Intn(1500))
		rng.Read(p)
		p[0] = 0x02
		out = append(out, litefwd.FramePayload(p)...)
	}
	return out
}

func pickVia(rng *rand.Rand) string {
	switch c := rng.Intn(6); {
	case c < 4:
		return vHooked
	case c == 4:
		return vPlain
	}
	return vTCP
}

// account records what an attempt did (evidence only).
func (a *pAttempt) account(w *world, cnt map[string]int) {
	cnt["attempts"]++
	cnt["attempts_client_"+a.Mode]++
	cnt["attempts_via_"+a.Via]++
	switch {
	case a.Aborted:
		_, _, p, _, _ := canon(a.AbortedAt)
		cnt["flush_of_pipelined_bytes_failed_at_"+w.kind[p]]++
		cnt["flush_of_pipelined_bytes_failed_via_"+a.Via]++
	case a.Forwarded:
		_, _, p, _, _ := canon(a.FwdTo)
		cnt["forwarded_to_"+w.kind[p]]++
	default:
		cnt["failed_all_backends"]++
	}
	for _, ec := range a.TryErrs {
		cnt["failed_tries_"+ec]++
	}
	if len(a.Tries) > 1 {
		cnt["attempts_with_more_than_one_try"]++
	}
}

// ---- the family -----------------------------------------------------------------------------------------

func pipelineFamily(r *lib.Run) {
	const workers = 8
	nHist := r.N(160, 4000)
	var worlds []*world
	for i := 0; i < workers; i++ {
		w, err := newPipeWorld()
		if w != nil {
			defer w.close()
		}
		if err != nil {
			r.Inconclusive("cannot set up the faulting loopback backends: " + err.Error())
			return
		}
		worlds = append(worlds, w)
	}
	var mu sync.Mutex
	tot := map[string]int{}
	add := func(local map[string]int) {
		mu.Lock()
		defer mu.Unlock()
		for k, v := range local {
			tot[k] += v
		}
	}
	const suffix = "pipe.example.org"
	var wg sync.WaitGroup
	for wk := 0; wk < workers; wk++ {
		wg.Add(1)
		go func(wk int, w *world) {
			defer wg.Done()
			rng := r.Rng(fmt.Sprintf("pipeline-%d", wk))
			cnt := map[string]int{}
			defer func() { add(cnt) }()
			kinds6 := append([]string{kHealthy, kHealthy, kRefuse}, pipeFaultKinds...)
			for hI := 0; hI < nHist/workers; hI++ {
				strat := strategies[rng.Intn(len(strategies))]
				n := 2 + rng.Intn(3)
				var backends, kinds []string
				for i := 0; i < n; i++ {
					kind := kinds6[rng.Intn(len(kinds6))]
					if i == 0 && hI%2 == 0 {
						kind = pipeFaultKinds[rng.Intn(len(pipeFaultKinds))]
					}
					backends = append(backends, w.entryOfKind(rng, kind, true))
					kinds = append(kinds, kind)
				}
				routes := []config.Route{{Host: []string{"*." + suffix}, Backend: backends, Strategy: config.Strategy(strat)}}
				sm := lite.NewStrategyManager()
				h := &hist{Strategy: strat, Backends: backends, Kinds: kinds, Host: "aN." + suffix, Latency: map[string]int{}}
				measured := map[string]time.Duration{}
				if wk == 0 {
					r.LogCase(map[string]any{"family": "pipeline", "history": h})
				}
				cnt["histories"]++
				// the step script is drawn up front, so the case list does not depend on outcomes
				type step struct {
					closeOne  bool
					pick      int
					mode, via string
					extra     []byte
					keep      bool
				}
				script := make([]step, 2+rng.Intn(4))
				for i := range script {
					script[i] = step{rng.Intn(4) == 0, rng.Intn(1 << 16), pipeModes[rng.Intn(len(pipeModes))], pickVia(rng), genExtra(rng), rng.Intn(3) != 0}
				}
				var opened []*pAttempt
				openBy, openBySp := map[string]int{}, map[string]int{}
				bad := false
				for _, sp := range script {
					if bad {
						break
					}
					if len(opened) > 0 && sp.closeOne {
						i := sp.pick % len(opened)
						a := opened[i]
						opened = append(opened[:i], opened[i+1:]...)
						h.Steps = append(h.Steps, "close "+a.FwdTo)
						if !a.end() {
							r.Inconclusive("Forward did not return after the client closed")
							bad = true
							break
						}
						k, _, _, _, _ := canon(a.FwdTo)
						openBy[k]--
						openBySp[a.FwdTo]--
					} else {
						mode, via := sp.mode, sp.via
						a := openPipe(routes, sm, suffix, mode, via, sp.extra, 3*len(backends)+6)
						r.Eval(1)
						if !a.Done {
							r.Inconclusive("pipelined attempt neither forwarded nor closed within the watchdog")
							a.end()
							bad = true
							break
						}
						a.account(w, cnt)
						h.Steps = append(h.Steps, fmt.Sprintf("open[%s; %s] -> tries %v %v fwd=%v flush-failed=%v", mode, via, a.Tries, a.TryErrs, a.Forwarded, a.Aborted))
						if len(a.Tries) == 0 && !a.Aborted {
							r.Inconclusive("no backend try was logged for a routed pipelined attempt (log messages changed?)")
							a.end()
							bad = true
							break
						}
						checkAttempt(r, w, h, a.attempt, openBy, openBySp, measured, true)
						_, _, p, _, _ := canon(a.FwdTo)
						switch {
						case a.Forwarded && w.kind[p] == kHealthy && sp.keep:
							opened = append(opened, a)
							k, _, _, _, _ := canon(a.FwdTo)
							openBy[k]++
							openBySp[a.FwdTo]++
						default:
							// forwarded to a faulting backend (the pipe may end by itself any moment),
							// forwarded to a healthy one but not kept, or failed: bring it to its end
							if a.Forwarded {
								h.Steps = append(h.Steps, "close "+a.FwdTo)
							}
							if !a.end() {
								r.Inconclusive("Forward did not return after the client closed")
								bad = true
							}
						}
					}
					if bad {
						break
					}
					if got := int(sm.ActiveConnections()); got != len(opened) {
						sig := "active-connections-not-conserved"
						r.Violation(sig, "ActiveConnections() differs from the number of open forwarded connections at a quiescent point (clients pipelining behind the handshake, backends faulting after the dial)",
							map[string]any{"active": got, "open": len(opened), "strategy": strat, "backends": backends, "kinds": kinds, "history": h.Steps})
					}
					cnt["conservation_checks"]++
					cnt["per_backend_count_comparisons"] += perBackendCounts(r, sm, h, openBy)
				}
				for _, a := range opened {
					if !a.end() {
						r.Inconclusive("Forward did not return after the client closed")
						bad = true
					}
				}
				if !bad {
					if got := sm.ActiveConnections(); got != 0 {
						r.Violation("active-connections-not-zero-at-end", "ActiveConnections() is not zero after every forwarded connection closed",
							map[string]any{"active": got, "strategy": strat, "backends": backends, "kinds": kinds, "history": h.Steps})
					}
					cnt["conservation_checks"]++
					cnt["per_backend_count_comparisons"] += perBackendCounts(r, sm, h, map[string]int{})
				}
				r.Distinct(fmt.Sprintf("pipeline|%s|%v|%v", strat, kinds, h.Steps))
				if wk == 0 && hI < 3 {
					r.Sample(map[string]any{"family": "pipeline", "history": h})
				}
			}
		}(wk, worlds[wk])
	}
	wg.Wait()

	// ---- concurrent: churners on the faulting route against keepers on healthy backends -----------
	rounds := r.N(24, 800)
	crng := r.Rng("pipeline-conc")
	w := worlds[0]
	cc := map[string]int{}
	for rd := 0; rd < rounds; rd++ {
		strat := []string{"random", "round-robin", "least-connections", "sequential"}[crng.Intn(4)]
		var churnB, churnK []string
		for _, k := range pipeFaultKinds {
			if crng.Intn(3) != 0 {
				churnB = append(churnB, w.entryOfKind(crng, k, true))
				churnK = append(churnK, k)
			}
		}
		if len(churnB) == 0 || crng.Intn(2) == 0 {
			churnB = append(churnB, w.entryOfKind(crng, kHealthy, true))
			churnK = append(churnK, kHealthy)
		}
		crng.Shuffle(len(churnB), func(i, j int) {
			churnB[i], churnB[j] = churnB[j], churnB[i]
			churnK[i], churnK[j] = churnK[j], churnK[i]
		})
		keepB := []string{w.entryOfKind(crng, kHealthy, true)}
		if crng.Intn(2) == 0 {
			keepB = []string{"127.0.0.1:" + strconv.Itoa(w.byKind[kHealthy][0]), "127.0.0.1:" + strconv.Itoa(w.byKind[kHealthy][1])}
		}
		routes := []config.Route{
			{Host: []string{"*.keep.example.org"}, Backend: keepB, Strategy: config.Strategy(strat)},
			{Host: []string{"*.churn.example.org"}, Backend: churnB, Strategy: config.Strategy(strat)},
		}
		sm := lite.NewStrategyManager()
		keepers, churners, iters := 1+crng.Intn(4), 2+crng.Intn(5), 2+crng.Intn(5)
		type plan struct {
			mode, via string
			extra     []byte
		}
		plans := make([][]plan, keepers+churners)
		for g := range plans {
			k := iters
			if g < keepers {
				k = 1
			}
			for j := 0; j < k; j++ {
				plans[g] = append(plans[g], plan{pipeModes[crng.Intn(len(pipeModes))], pickVia(crng), genExtra(crng)})
			}
		}
		c := map[string]any{"family": "pipeline-concurrent", "round": rd, "strategy": strat, "keep_backends": keepB, "churn_backends": churnB, "churn_kinds": churnK,
			"keepers": keepers, "churners": churners, "connections_per_churner": iters}
		r.LogCase(c)
		kept := make([]*pAttempt, keepers)
		all := make([][]*pAttempt, keepers+churners)
		var inconclusive atomic.Bool
		var cwg sync.WaitGroup
		start := make(chan struct{})
		for g := range plans {
			cwg.Add(1)
			go func(g int) {
				defer cwg.Done()
				<-start
				for _, p := range plans[g] {
					sfx := "churn.example.org"
					if g < keepers {
						sfx = "keep.example.org"
					}
					a := openPipe(routes, sm, sfx, p.mode, p.via, p.extra, 3*(len(churnB)+len(keepB))+6)
					all[g] = append(all[g], a)
					if !a.Done {
						inconclusive.Store(true)
						a.end()
						continue
					}
					if g < keepers && a.Forwarded {
						kept[g] = a
						continue
					}
					if !a.end() {
						inconclusive.Store(true)
					}
				}
			}(g)
		}
		close(start)
		cwg.Wait()
		r.Eval(1)
		if inconclusive.Load() {
			r.Inconclusive("a concurrent pipelined attempt did not reach a definite state within the watchdog")
			for _, a := range kept {
				if a != nil {
					a.end()
				}
			}
			continue
		}
		held := 0
		heldBy := map[string]int{}
		for g, as := range all {
			for _, a := range as {
				a.account(w, cc)
				bl := churnB
				if g < keepers {
					bl = keepB
				}
				checkAttempt(r, w, &hist{Strategy: "random", Backends: bl, Steps: []string{fmt.Sprintf("%d keepers, %d churners x %d concurrent", keepers, churners, iters)}}, a.attempt, nil, nil, nil, true)
			}
		}
		for _, a := range kept {
			if a != nil {
				held++
				k, _, _, _, _ := canon(a.FwdTo)
				heldBy[k]++
			}
		}
		cc["connections_held_across_quiescent_point"] += held
		if got := int(sm.ActiveConnections()); got != held {
			r.Violation("active-connections-not-conserved", "ActiveConnections() differs from the number of open forwarded connections once concurrent pipelined connections to faulting backends had all ended",
				map[string]any{"case": c, "active": got, "open": held})
		}
		cc["conservation_checks"]++
		cc["per_backend_count_comparisons"] += perBackendCounts(r, sm, &hist{Strategy: strat, Backends: append(append([]string(nil), keepB...), churnB...), Steps: []string{fmt.Sprint(c)}}, heldBy)
		var ewg sync.WaitGroup
		for _, a := range kept {
			if a != nil {
				ewg.Add(1)
				go func(a *pAttempt) { defer ewg.Done(); a.end() }(a)
			}
		}
		ewg.Wait()
		if got := sm.ActiveConnections(); got != 0 {
			r.Violation("active-connections-not-zero-at-end", "ActiveConnections() is not zero after all concurrent pipelined connections closed", map[string]any{"case": c, "active": got})
		}
		cc["conservation_checks"]++
		cc["per_backend_count_comparisons"] += perBackendCounts(r, sm, &hist{Strategy: strat, Backends: append(append([]string(nil), keepB...), churnB...), Steps: []string{fmt.Sprint(c)}}, map[string]int{})
		cc["rounds"]++
		r.Distinct(fmt.Sprintf("pipeline-conc|%s|%v|%v|%d|%d|%d", strat, churnK, keepB, keepers, churners, iters))
		if rd < 2 {
			r.Sample(c)
		}
	}
	tot["bytes_healthy_backends_received_behind_the_handshake"] = int(pipeBytesAtHealthy.Load())
	r.Set("pipeline", tot)
	r.Set("pipeline_concurrent", cc)
}
