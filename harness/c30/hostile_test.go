// Hostile-backend family and counter-churn family of the C30 monitor.
//
// Hostile backends: besides accepting and refusing backends the statement's "dial outcomes"
// include a dial that TIMES OUT (real net.Dialer against a loopback port whose SYNs the
// kernel drops, litefwd.Blackhole, with a short configured dial timeout), a backend that
// accepts and closes at once, and one that accepts and never answers. They are mixed into the
// backend lists in every position, for the login path (lite.Forward) and the status path
// (lite.ResolveStatusResponse, driven like the proxy's status session handler does). The
// oracle is the same per-attempt clause as in the sequential family, decided on the recorded
// try log only: a dial timeout is a stimulus, never a verdict.
//
// Counter churn: the per-backend active-connection count (the number the least-connections
// strategy reads) must equal the number of open connections to that backend at every
// quiescent point, also when connections to one backend open and close concurrently.
package c30

import (
	"fmt"
	"io"
	"math/rand"
	"net"
	"runtime"
	"strconv"
	"strings"
	"sync"
	"sync/atomic"
	"time"

	"github.com/go-logr/logr"
	"go.minekube.com/gate/pkg/edition/java/lite"
	"go.minekube.com/gate/pkg/edition/java/lite/config"
	"go.minekube.com/gate/pkg/edition/java/netmc"
	"go.minekube.com/gate/pkg/edition/java/proto/packet"
	"go.minekube.com/gate/pkg/edition/java/proxy/verifh/e2e/litefwd"
	"go.minekube.com/gate/pkg/edition/java/proxy/verifh/lib"
	"go.minekube.com/gate/pkg/gate/proto"
	"go.minekube.com/gate/pkg/util/configutil"
)

const (
	kHealthy = "healthy"      // login: greeting byte then sink; status: valid response naming its port
	kRefuse  = "refuse"       // bound, not listening: ECONNREFUSED
	kTimeout = "dial-timeout" // SYNs dropped: the dial runs into the configured dial timeout
	kClose   = "accept-close" // accepts and closes immediately
	kSilent  = "no-answer"    // login: accepts, reads, never writes; status: reads the request, never answers, then closes
)

var hostileKinds = []string{kHealthy, kRefuse, kTimeout, kClose, kSilent}

const hostileDialTimeout = 200 * time.Millisecond

// ---- try log for the status path --------------------------------------------------------------
//
// lite.ResolveStatusResponse is called by the monitor itself (as the proxy's handshake handler
// does), so it can be given its own sink. Unlike litefwd.Recorder it keeps the FIRST value of
// "backendAddr" in the logger's WithValues chain: that is the one findRoute's nextBackend
// attaches when it selects the backend (resolveStatusResponse later appends the dialled
// socket's host under the same key).

type tev struct{ Msg, Addr, Err string }

type trec struct {
	mu    sync.Mutex
	evs   []tev
	fails int
	limit int
}

type tsink struct {
	rec *trec
	kv  []any
}

func (s *tsink) Init(logr.RuntimeInfo) {}
func (s *tsink) Enabled(int) bool      { return true }
func (s *tsink) WithName(string) logr.LogSink {
	return s
}
func (s *tsink) WithValues(kv ...any) logr.LogSink {
	return &tsink{rec: s.rec, kv: append(append([]any(nil), s.kv...), kv...)}
}
func (s *tsink) Error(err error, msg string, kv ...any) { s.Info(-1, msg, kv...) }
func (s *tsink) Info(_ int, msg string, kv ...any) {
	e := tev{Msg: msg}
	all := append(append([]any(nil), s.kv...), kv...)
	for i := 0; i+1 < len(all); i += 2 {
		k, _ := all[i].(string)
		switch k {
		case "backendAddr":
			if e.Addr == "" {
				e.Addr = fmt.Sprint(all[i+1])
			}
		case "error":
			if er, ok := all[i+1].(error); ok && er != nil {
				e.Err = er.Error()
			} else {
				e.Err = fmt.Sprint(all[i+1])
			}
		}
	}
	s.rec.mu.Lock()
	s.rec.evs = append(s.rec.evs, e)
	if msg == litefwd.MsgTryFailed {
		s.rec.fails++
	}
	over := s.rec.limit > 0 && s.rec.fails > s.rec.limit
	s.rec.mu.Unlock()
	if over && msg == litefwd.MsgTryFailed {
		panic(litefwd.ErrRetryGuard)
	}
}

const msgStatusResolved = "c30: status resolved" // logged by the monitor through the logger Gate returned

// errClass names a failed try's outcome from Gate's error text (evidence and signatures only).
func errClass(e string) string {
	l := strings.ToLower(e)
	switch {
	case strings.Contains(l, "i/o timeout") || strings.Contains(l, "deadline exceeded"):
		return "dial-timeout"
	case strings.Contains(l, "connection refused"):
		return "refused"
	case strings.Contains(l, "missing port") || strings.Contains(l, "invalid") || strings.Contains(l, "no such host") || strings.Contains(l, "too many colons"):
		return "bad-address"
	case strings.Contains(l, "eof") || strings.Contains(l, "reset") || strings.Contains(l, "broken pipe") || strings.Contains(l, "closed"):
		return "closed-by-backend"
	case strings.Contains(l, "decode") || strings.Contains(l, "unexpected"):
		return "bad-answer"
	}
	return "other"
}

// ---- hostile world ----------------------------------------------------------------------------

func readFrame(c net.Conn) ([]byte, bool) {
	var hdr []byte
	one := make([]byte, 1)
	for {
		if _, err := io.ReadFull(c, one); err != nil {
			return nil, false
		}
		hdr = append(hdr, one[0])
		if one[0]&0x80 == 0 {
			break
		}
		if len(hdr) >= 5 {
			return nil, false
		}
	}
	l, n := litefwd.ReadVarInt(hdr)
	if n <= 0 || l < 0 || l > 1<<16 {
		return nil, false
	}
	p := make([]byte, l)
	if _, err := io.ReadFull(c, p); err != nil {
		return nil, false
	}
	return append(hdr, p...), true
}

func statusJSON(marker string) string {
	return `{"version":{"name":"c30","protocol":765},"players":{"max":1,"online":0},"description":{"text":"` + marker + `"}}`
}

// serveHostile is what a listener of the given kind does with an accepted connection.
func serveHostile(kind string, port int, cnt *atomic.Int64) func(c net.Conn, idx int) {
	return func(c net.Conn, _ int) {
		cnt.Add(1)
		defer func() { _ = c.Close() }()
		if kind == kClose {
			return
		}
		fr, ok := readFrame(c)
		if !ok {
			return
		}
		hs, _, _, err := litefwd.ParseHandshakeFrame(fr)
		if err != nil {
			return
		}
		if hs.Next == 1 { // status
			if _, ok = readFrame(c); !ok {
				return
			}
			if kind == kSilent {
				return // the request is never answered; the connection ends
			}
			js := statusJSON("P-" + strconv.Itoa(port))
			p := litefwd.AppendVarInt(nil, 0)
			p = litefwd.AppendVarInt(p, int32(len(js)))
			p = append(p, js...)
			_, _ = c.Write(litefwd.FramePayload(p))
			_, _ = io.Copy(io.Discard, c)
			return
		}
		if kind == kHealthy {
			_, _ = c.Write([]byte("G"))
		}
		_, _ = io.Copy(io.Discard, c)
	}
}

func newHostileWorld() (*world, error) {
	w := &world{acceptCnt: map[int]*atomic.Int64{}, kind: map[int]string{}, byKind: map[string][]int{}}
	listen := func(kind string, n int) error {
		for i := 0; i < n; i++ {
			cnt := &atomic.Int64{}
			var b *litefwd.Backend
			b, err := litefwd.Listen(0, func(c net.Conn, idx int) { serveHostile(kind, c.LocalAddr().(*net.TCPAddr).Port, cnt)(c, idx) })
			if err != nil {
				return err
			}
			w.extra = append(w.extra, b)
			if kind == kHealthy {
				w.accepting = append(w.accepting, b)
			}
			w.acceptCnt[b.Port] = cnt
			w.kind[b.Port] = kind
			w.byKind[kind] = append(w.byKind[kind], b.Port)
		}
		return nil
	}
	if err := listen(kHealthy, 2); err != nil {
		return w, err
	}
	if err := listen(kClose, 1); err != nil {
		return w, err
	}
	if err := listen(kSilent, 1); err != nil {
		return w, err
	}
	for i := 0; i < 2; i++ {
		rp, err := litefwd.ReserveRefused(0)
		if err != nil {
			return w, err
		}
		w.refused = append(w.refused, rp)
		w.kind[rp.Port] = kRefuse
		w.byKind[kRefuse] = append(w.byKind[kRefuse], rp.Port)
	}
	for i := 0; i < 2; i++ {
		bh, err := litefwd.ReserveBlackhole(hostileDialTimeout)
		if err != nil {
			return w, err
		}
		w.holes = append(w.holes, bh)
		w.kind[bh.Port] = kTimeout
		w.byKind[kTimeout] = append(w.byKind[kTimeout], bh.Port)
	}
	return w, nil
}

func (w *world) entryOfKind(rng *rand.Rand, kind string, aliasFree bool) string {
	ps := w.byKind[kind]
	h := "127.0.0.1"
	if !aliasFree {
		h = hostSpellings[rng.Intn(len(hostSpellings))]
	}
	return h + ":" + strconv.Itoa(ps[rng.Intn(len(ps))])
}

// ---- attempts -----------------------------------------------------------------------------------

// openHostile is open() for backends that may never send a greeting: the attempt counts as
// forwarded from Gate's own "forwarding connection" event (logged after TrackConnection).
func openHostile(routes []config.Route, sm *lite.StrategyManager, host string, limit int) *attempt {
	s := litefwd.Start(litefwd.Options{Routes: routes, SM: sm, TryLimit: limit, DialTimeout: hostileDialTimeout,
		ClientAddr: &net.TCPAddr{IP: net.IPv4(127, 0, 0, 1), Port: 20000 + int(clientPort.Add(1)%40000)}})
	a := &attempt{s: s, Path: "login"}
	hs := litefwd.Handshake{Protocol: 765, Address: host, Port: 25565, Next: 2}
	_, _ = s.Client.Write(hs.Frame())
	greet := make(chan struct{})
	go func() {
		buf := make([]byte, 1)
		if n, _ := io.ReadFull(s.Client, buf); n == 1 && buf[0] == 'G' {
			close(greet)
		}
	}()
	deadline := time.Now().Add(30 * time.Second) // watchdog, never a verdict
	tick := time.NewTicker(2 * time.Millisecond)
	defer tick.Stop()
	for !a.Done {
		select {
		case <-greet:
			a.Forwarded, a.Greeted, a.Done = true, true, true
		case <-s.ForwardReturned():
			a.Done = true
		case <-tick.C:
			if _, ok := s.Rec.Find(litefwd.MsgForwarding); ok {
				a.Forwarded, a.Done = true, true
			} else if time.Now().After(deadline) {
				a.collect()
				return a
			}
		}
	}
	a.collect()
	if _, ok := s.Rec.Find(litefwd.MsgForwarding); ok {
		// Forward returned (or the greeting arrived) with the event logged: it was forwarded.
		a.Forwarded = true
	}
	for _, e := range s.Rec.Events() {
		if e.Msg == litefwd.MsgTryFailed {
			a.TryErrs = append(a.TryErrs, errClass(e.KV["error"]))
		}
		if e.Msg == "failed to empty client buffer" {
			a.Aborted = true
		}
	}
	return a
}

// statusAttempt performs one status request through the real handshake decoding and
// lite.ResolveStatusResponse, like the proxy's status session handler does.
func statusAttempt(routes []config.Route, sm *lite.StrategyManager, host string, limit int) *attempt {
	rec := &trec{limit: limit}
	a := &attempt{Path: "status"}
	var mu sync.Mutex
	var status string
	var resolved, guard bool
	fin := make(chan struct{})
	s := litefwd.Start(litefwd.Options{Routes: routes, SM: sm, OnStatus: func(s *litefwd.Session, conn netmc.MinecraftConn, hs *packet.Handshake, pc *proto.PacketContext) {
		defer close(fin)
		defer func() { _ = conn.Close() }()
		defer func() {
			if p := recover(); p != nil {
				mu.Lock()
				guard = true
				mu.Unlock()
			}
		}()
		req := &proto.PacketContext{Direction: proto.ServerBound, Protocol: proto.Protocol(hs.ProtocolVersion), PacketID: 0, Packet: &packet.StatusRequest{}, Payload: []byte{0x00}}
		lg, res, err := lite.ResolveStatusResponse(hostileDialTimeout, routes, logr.New(&tsink{rec: rec}), conn, hs, pc, req, sm)
		if err == nil && res != nil {
			lg.Info(msgStatusResolved)
			mu.Lock()
			resolved, status = true, res.Status
			mu.Unlock()
		}
	}})
	a.s = s
	hs := litefwd.Handshake{Protocol: 765, Address: host, Port: 25565, Next: 1}
	_, _ = s.Client.Write(hs.Frame())
	a.Done, _ = lib.Returns(30*time.Second, func() { <-fin; <-s.LoopReturned() })
	_ = s.Client.Close()
	rec.mu.Lock()
	for _, e := range rec.evs {
		switch e.Msg {
		case litefwd.MsgTryFailed:
			a.Tries = append(a.Tries, e.Addr)
			a.TryErrs = append(a.TryErrs, errClass(e.Err))
		case msgStatusResolved:
			a.Tries = append(a.Tries, e.Addr)
			a.FwdTo = e.Addr
		}
	}
	rec.mu.Unlock()
	mu.Lock()
	a.Forwarded, a.Guard = resolved, guard
	if i := strings.Index(status, "P-"); i >= 0 {
		j := i + 2
		for j < len(status) && status[j] >= '0' && status[j] <= '9' {
			j++
		}
		a.AnswerPort, _ = strconv.Atoi(status[i+2 : j])
	}
	mu.Unlock()
	return a
}

// perBackendCounts compares, at a quiescent point, the per-backend active-connection count
// (the counter least-connections reads, through the exported accessor GetOrCreateCounter)
// with the number of forwarded connections the harness holds open to that backend.
func perBackendCounts(r *lib.Run, sm *lite.StrategyManager, h *hist, openBy map[string]int) int {
	n := 0
	for _, b := range h.Backends {
		k, _, _, _, ok := canon(b)
		if !ok {
			continue
		}
		c := sm.GetOrCreateCounter(b)
		if c == nil {
			continue
		}
		n++
		if got := int(c.Load()); got != openBy[k] {
			r.Violation("per-backend-count-differs-from-open-connections", "at a quiescent point the backend's active-connection count (the one least-connections reads) differs from the number of open forwarded connections to it",
				map[string]any{"backend": b, "count": got, "open": openBy[k], "strategy": h.Strategy, "backends": h.Backends, "history": h.Steps})
			break
		}
	}
	return n
}

// ---- the hostile family ---------------------------------------------------------------------------

func hostileFamily(r *lib.Run) {
	const workers = 8
	nHist := r.N(96, 2400)
	var worlds []*world
	for i := 0; i < workers; i++ {
		w, err := newHostileWorld()
		if w != nil {
			defer w.close()
		}
		if err != nil {
			r.Inconclusive("cannot set up hostile loopback backends (dial-timeout ports need Linux SYN dropping): " + err.Error())
			return
		}
		worlds = append(worlds, w)
	}
	var mu sync.Mutex
	tot := map[string]int{}
	posKind := map[string]int{}
	add := func(local, localPos map[string]int) {
		mu.Lock()
		defer mu.Unlock()
		for k, v := range local {
			tot[k] += v
		}
		for k, v := range localPos {
			posKind[k] += v
		}
	}
	var wg sync.WaitGroup
	for wk := 0; wk < workers; wk++ {
		wg.Add(1)
		go func(wk int, w *world) {
			defer wg.Done()
			rng := r.Rng(fmt.Sprintf("hostile-%d", wk))
			cnt := map[string]int{}
			pk := map[string]int{}
			defer func() { add(cnt, pk) }()
			for hI := 0; hI < nHist/workers; hI++ {
				strat := strategies[rng.Intn(len(strategies))]
				aliasFree := rng.Intn(2) == 0
				n := 2 + rng.Intn(4)
				var backends, kinds []string
				timeouts := 0
				for i := 0; i < n; i++ {
					kind := hostileKinds[rng.Intn(len(hostileKinds))]
					if i == 0 && hI%3 == 0 {
						kind = kTimeout // a third of the lists start with a backend whose dial times out
					}
					if kind == kTimeout {
						if timeouts == 2 { // bounds the time of one attempt, not the verdict
							kind = kRefuse
						} else {
							timeouts++
						}
					}
					backends = append(backends, w.entryOfKind(rng, kind, aliasFree))
					kinds = append(kinds, kind)
				}
				if rng.Intn(4) == 0 {
					i := rng.Intn(len(backends))
					backends = append(backends, backends[i]) // exact duplicate
					kinds = append(kinds, kinds[i])
				}
				for i, k := range kinds {
					pk[fmt.Sprintf("pos%d:%s", i, k)]++
				}
				rt := config.Route{Host: []string{"*.example.org"}, Backend: backends, Strategy: config.Strategy(strat)}
				cache := rng.Intn(3) == 0
				if !cache {
					rt.CachePingTTL = configutil.Duration(-1)
				}
				routes := []config.Route{rt}
				sm := lite.NewStrategyManager()
				h := &hist{Strategy: strat, Backends: backends, Kinds: kinds, Host: "hostile.example.org", Latency: map[string]int{}, StatusCache: cache}
				measured := map[string]time.Duration{}
				if strat == "lowest-latency" {
					for _, b := range backends {
						if rng.Intn(2) == 0 {
							ms := 1 + rng.Intn(50)
							k, _, _, _, _ := canon(b)
							if _, dup := measured[k]; dup {
								continue
							}
							sm.RecordLatency(b, time.Duration(ms)*time.Millisecond)
							measured[k] = time.Duration(ms) * time.Millisecond
							h.Latency[b] = ms
						}
					}
				}
				if wk == 0 {
					r.LogCase(h)
				}
				if cache {
					lite.ResetPingCache() // results of earlier histories on the same ports are not this history's
				}
				cnt["histories"]++
				cnt["histories_strategy_"+strat]++
				steps := 1 + rng.Intn(4)
				var opened []*attempt
				openBy, openBySp := map[string]int{}, map[string]int{}
				bad := false
				for st := 0; st < steps && !bad; st++ {
					c := rng.Intn(10)
					switch {
					case len(opened) > 0 && c < 2:
						i := rng.Intn(len(opened))
						a := opened[i]
						opened = append(opened[:i], opened[i+1:]...)
						h.Steps = append(h.Steps, "close "+a.FwdTo)
						if !a.closeWait() {
							r.Inconclusive("Forward did not return after the client closed")
							bad = true
							break
						}
						k, _, _, _, _ := canon(a.FwdTo)
						openBy[k]--
						openBySp[a.FwdTo]--
					default:
						var a *attempt
						if c < 6 {
							a = openHostile(routes, sm, h.Host, 3*len(backends)+6)
						} else {
							a = statusAttempt(routes, sm, h.Host, 3*len(backends)+6)
						}
						r.Eval(1)
						cnt["attempts_"+a.Path]++
						if !a.Done {
							r.Inconclusive("hostile-backend attempt (" + a.Path + ") neither succeeded nor failed within the watchdog")
							bad = true
							break
						}
						h.Steps = append(h.Steps, fmt.Sprintf("%s -> tries %v %v ok=%v", a.Path, a.Tries, a.TryErrs, a.Forwarded))
						if len(a.Tries) == 0 {
							r.Inconclusive("no backend try was logged for a routed " + a.Path + " attempt (log messages changed?)")
							bad = true
							break
						}
						// what the stimuli did, from Gate's own error texts and the listeners' kinds
						sawTimeout := false
						for i, ec := range a.TryErrs {
							cnt["failed_tries_"+ec]++
							if ec == "dial-timeout" {
								cnt["dial_timeouts_injected_"+a.Path]++
								sawTimeout = true
								if i+1 < len(a.Tries) {
									cnt["tries_made_after_a_dial_timeout"]++
								}
							}
						}
						if sawTimeout && a.Forwarded {
							cnt["attempts_"+a.Path+"_succeeded_after_a_dial_timeout"]++
							if _, _, p, _, _ := canon(a.FwdTo); w.kind[p] == kHealthy {
								cnt["attempts_timed_out_backend_preceded_healthy_one"]++
							}
						}
						if sawTimeout && !a.Forwarded {
							cnt["attempts_"+a.Path+"_failed_with_a_dial_timeout_among_tries"]++
						}
						if a.Forwarded {
							_, _, p, _, _ := canon(a.FwdTo)
							cnt["attempts_"+a.Path+"_ended_at_"+w.kind[p]]++
						} else {
							cnt["attempts_"+a.Path+"_failed_all_backends"]++
						}
						if len(a.Tries) > 1 {
							cnt["attempts_with_more_than_one_try"]++
						}
						if a.Path == "status" && a.Forwarded && a.AnswerPort != 0 {
							if _, _, p, _, _ := canon(a.FwdTo); p != a.AnswerPort {
								r.Inconclusive(fmt.Sprintf("status answer came from port %d but the resolved try is %s", a.AnswerPort, a.FwdTo))
							}
						}
						checkAttempt(r, w, h, a, openBy, openBySp, measured, aliasFree)
						cnt["attempts_order_checked"]++
						if a.Path == "status" {
							if a.Forwarded && strat == "lowest-latency" {
								k, _, _, _, _ := canon(a.FwdTo)
								measured[k] = latencyUnknown // Gate measured it itself now
							}
							break
						}
						if a.Forwarded {
							opened = append(opened, a)
							k, _, _, _, _ := canon(a.FwdTo)
							openBy[k]++
							openBySp[a.FwdTo]++
						} else if a.Guard {
							_ = a.closeWait()
						} else if ok, _ := lib.Returns(30*time.Second, func() { <-a.s.LoopReturned() }); !ok {
							r.Inconclusive("read loop did not end after a failed attempt")
						}
					}
					if bad {
						break
					}
					if got := int(sm.ActiveConnections()); got != len(opened) {
						r.Violation("active-connections-not-conserved", "ActiveConnections() differs from the number of open forwarded connections at a quiescent point",
							map[string]any{"active": got, "open": len(opened), "strategy": strat, "backends": backends, "kinds": kinds, "history": h.Steps})
					}
					cnt["conservation_checks"]++
					cnt["per_backend_count_comparisons"] += perBackendCounts(r, sm, h, openBy)
				}
				for _, a := range opened {
					if !a.closeWait() {
						r.Inconclusive("Forward did not return after the client closed")
						bad = true
					}
				}
				if !bad {
					if got := sm.ActiveConnections(); got != 0 {
						r.Violation("active-connections-not-zero-at-end", "ActiveConnections() is not zero after every forwarded connection closed",
							map[string]any{"active": got, "strategy": strat, "backends": backends, "kinds": kinds, "history": h.Steps})
					}
					cnt["conservation_checks"]++
					cnt["per_backend_count_comparisons"] += perBackendCounts(r, sm, h, map[string]int{})
				}
				r.Distinct(fmt.Sprintf("hostile|%s|%v|%v", strat, backends, h.Steps))
				if wk == 0 && hI < 3 {
					r.Sample(h)
				}
			}
		}(wk, worlds[wk])
	}
	wg.Wait()
	stillHoles := 0
	for _, w := range worlds {
		for _, bh := range w.holes {
			if bh.Probe(hostileDialTimeout) {
				stillHoles++
			}
		}
	}
	tot["dial_timeout_ports_still_timing_out_at_end"] = stillHoles
	r.Set("hostile", tot)
	r.Set("hostile_backend_kind_by_list_position", posKind)
	r.Set("hostile_dial_timeout_ms", int(hostileDialTimeout/time.Millisecond))
}

// ---- counter churn ----------------------------------------------------------------------------------

// churnFamily: rounds on the real tracking entry points the forward path uses
// (TrackConnection; IncrementConnection and its release func). In a round 1-3 churners open
// and close short connections to backend B as fast as they can while 1-6 keepers each open
// one connection to B at their own moment and hold it; all are released by one barrier. At
// the quiescent point (every goroutine returned) the harness knows exactly the keepers'
// connections are open.
func churnFamily(r *lib.Run) {
	rng := r.Rng("churn")
	rounds := r.N(1500, 40000)
	const host = "churn.example.org"
	busySp := []string{"busy.backend.example:25565", "BUSY.backend.example:25565", "Busy.Backend.Example:25565"}
	const idle = "idle.backend.example:25565"
	lc := &config.Route{Strategy: config.StrategyLeastConnections}
	var comparisons, prefChecks, prefDecisive, shortConns, keptConns, zeroChecks int
	sm := lite.NewStrategyManager()
	bad := false
	for rd := 0; rd < rounds && !bad; rd++ {
		if rd%200 == 0 {
			sm = lite.NewStrategyManager()
		}
		churners := 1 + rng.Intn(3)
		iters := 10 + rng.Intn(60)
		keepers := 1 + rng.Intn(6)
		viaTrack := rng.Intn(4) != 0
		spins := make([]int, keepers)
		for i := range spins {
			spins[i] = rng.Intn(400)
		}
		spell := make([]string, churners+keepers)
		for i := range spell {
			spell[i] = busySp[rng.Intn(len(busySp))]
		}
		c := map[string]any{"round": rd, "churners": churners, "iterations": iters, "keepers": keepers, "entry": map[bool]string{true: "TrackConnection", false: "IncrementConnection"}[viaTrack]}
		if rd%100 == 0 {
			r.LogCase(c)
		}
		openConn := func(sp string) func() {
			if viaTrack {
				return sm.TrackConnection(host, sp)
			}
			return sm.IncrementConnection(sp)
		}
		start := make(chan struct{})
		var wg sync.WaitGroup
		releases := make([]func(), keepers)
		for i := 0; i < churners; i++ {
			wg.Add(1)
			go func(i int) {
				defer wg.Done()
				<-start
				for j := 0; j < iters; j++ {
					openConn(spell[i])()
				}
			}(i)
		}
		var sinkV atomic.Int64
		for i := 0; i < keepers; i++ {
			wg.Add(1)
			go func(i int) {
				defer wg.Done()
				<-start
				for j := 0; j < spins[i]; j++ {
					sinkV.Add(1)
					if j%64 == 63 {
						runtime.Gosched()
					}
				}
				releases[i] = openConn(spell[churners+i])
			}(i)
		}
		close(start)
		if ok, _ := lib.Returns(30*time.Second, wg.Wait); !ok {
			r.Inconclusive("counter churn round did not finish within the watchdog")
			return
		}
		r.Eval(1)
		shortConns += churners * iters
		keptConns += keepers
		// quiescent: exactly the keepers' connections are open to B
		got := int(sm.GetOrCreateCounter(busySp[0]).Load())
		comparisons++
		if got != keepers {
			bad = true
			r.Violation("per-backend-count-differs-from-open-connections", "after concurrent opens and closes to one backend had all returned, the backend's active-connection count (the one least-connections reads) differs from the number of connections still open to it",
				map[string]any{"case": c, "count": got, "open": keepers})
		}
		if viaTrack {
			if a := int(sm.ActiveConnections()); a != keepers {
				bad = true
				r.Violation("active-connections-not-conserved", "ActiveConnections() differs from the number of open connections after concurrent opens and closes had returned", map[string]any{"case": c, "active": a, "open": keepers})
			}
		}
		// least-connections must prefer the backend with fewer open connections
		j := rng.Intn(keepers + 2)
		var idleRel []func()
		for i := 0; i < j; i++ {
			idleRel = append(idleRel, openConn(idle))
		}
		list := []string{busySp[rng.Intn(len(busySp))], idle}
		if rng.Intn(2) == 0 {
			list[0], list[1] = list[1], list[0]
		}
		pick, _, ok := sm.GetNextBackend(logr.Discard(), lc, host, list)
		prefChecks++
		if j != keepers {
			prefDecisive++
			want := idle
			if j > keepers {
				want = list[0]
				if want == idle {
					want = list[1]
				}
			}
			if !ok || pick != want {
				bad = true
				r.Violation("least-connections-picked-busier-backend", "least-connections: a backend with strictly more open connections was chosen over one with fewer (after concurrent opens and closes to it)",
					map[string]any{"case": c, "list": list, "chosen": pick, "open_busy": keepers, "open_idle": j})
			}
		}
		for _, f := range idleRel {
			f()
		}
		// the keepers close concurrently; everything returns to zero
		start2 := make(chan struct{})
		for i := range releases {
			wg.Add(1)
			go func(f func()) { defer wg.Done(); <-start2; f() }(releases[i])
		}
		close(start2)
		wg.Wait()
		zeroChecks++
		if got := int(sm.GetOrCreateCounter(busySp[0]).Load()); got != 0 {
			bad = true
			r.Violation("per-backend-count-not-zero-at-end", "the backend's active-connection count is not zero after every connection to it closed", map[string]any{"case": c, "count": got})
		}
		if a := sm.ActiveConnections(); a != 0 {
			bad = true
			r.Violation("active-connections-not-zero-at-end", "ActiveConnections() is not zero after all churned connections closed", map[string]any{"case": c, "active": a})
		}
		if rd < 64 || rd%16 == 0 {
			r.Distinct(fmt.Sprintf("churn|%d|%d|%d|%v|%v", churners, iters, keepers, viaTrack, spins))
		}
		if rd < 2 {
			r.Sample(c)
		}
	}
	r.Set("churn", map[string]int{
		"rounds": rounds, "short_connections_opened_and_closed": shortConns, "connections_held_across_quiescent_point": keptConns,
		"quiescent_per_backend_count_comparisons": comparisons, "zero_after_close_checks": zeroChecks,
		"least_connections_preference_checks": prefChecks, "of_which_with_unequal_counts": prefDecisive,
	})
}
