// C30: Lite backend selection tries each distinct backend at most once per attempt, in the
// order the strategy dictates, fails only after all failed, and counts connections exactly.
//
// Everything runs through the real lite.Forward (driven like the proxy's handshake handler
// does, package e2e/litefwd) against real loopback TCP listeners (accepting) and reserved
// bound-but-not-listening ports (refusing). Observations: Gate's own per-try log events via
// an injected logr sink (the only observation point Forward offers for *failed* dials),
// cross-checked by the listeners' accept counts; StrategyManager.ActiveConnections();
// the race detector (driver parses the GORACE logs; mechanism allowlist in checks.d/C30.json).
//
// Reading of "distinct backend" (statement: "duplicates, host spellings, default ports"):
// two entries are the same backend iff they are equal after lower-casing the host and
// adding the default port 25565 — exactly Gate's own canonicalBackendAddress used for its
// connection accounting. DNS aliases ("localhost" vs "127.0.0.1") are NOT identified: names
// may resolve differently over time, so correct code may treat them as different backends.
package c30

import (
	"fmt"
	"io"
	"math/rand"
	"net"
	"sort"
	"strconv"
	"strings"
	"sync"
	"sync/atomic"
	"testing"
	"time"

	"go.minekube.com/gate/pkg/edition/java/lite"
	"go.minekube.com/gate/pkg/edition/java/lite/config"
	"go.minekube.com/gate/pkg/edition/java/proxy/verifh/e2e/litefwd"
	"go.minekube.com/gate/pkg/edition/java/proxy/verifh/lib"
)

// ---- reference normalisation ---------------------------------------------------------------

// canon: lower-case host, default port 25565. ok=false if the entry is not host[:port].
func canon(entry string) (key string, host string, port int, hadPort bool, ok bool) {
	host, port = entry, 25565
	if i := strings.LastIndexByte(entry, ':'); i >= 0 {
		p, err := strconv.Atoi(entry[i+1:])
		if err != nil || strings.ContainsAny(entry[:i], ":[]") {
			return strings.ToLower(entry), entry, 0, false, false
		}
		host, port, hadPort = entry[:i], p, true
	} else if strings.ContainsAny(entry, "[]") {
		return strings.ToLower(entry), entry, 0, false, false
	}
	return strings.ToLower(host) + ":" + strconv.Itoa(port), host, port, hadPort, true
}

// retrySignature names how the two spellings of one backend that were both dialled differ.
func retrySignature(a, b string) string {
	_, ha, _, pa, _ := canon(a)
	_, hb, _, pb, _ := canon(b)
	switch {
	case a == b:
		return "backend-retried-identical-entry"
	case ha == hb && pa != pb:
		return "backend-retried-default-port-spelling"
	case pa == pb:
		return "backend-retried-host-case-spelling"
	default:
		return "backend-retried-case-and-port-spelling"
	}
}

// ---- physical backends ----------------------------------------------------------------------

type world struct {
	accepting []*litefwd.Backend
	acceptCnt map[int]*atomic.Int64 // by port
	refused   []*litefwd.RefusedPort
	defPort   *litefwd.RefusedPort // 25565 reserved (refusing), nil if not available
	// hostile family only (hostile_test.go): every port's kind, the non-healthy listeners
	// and the ports whose dials time out
	kind   map[int]string
	byKind map[string][]int
	extra  []*litefwd.Backend
	holes  []*litefwd.Blackhole
}

func addCounters(pairs ...any) {
	for i := 0; i+1 < len(pairs); i += 2 {
		*(pairs[i].(*int)) += pairs[i+1].(int)
	}
}

func newWorld(r *lib.Run, withDefaultPort bool) (*world, error) {
	w := &world{acceptCnt: map[int]*atomic.Int64{}}
	for i := 0; i < 3; i++ {
		cnt := &atomic.Int64{}
		b, err := litefwd.Listen(0, func(c net.Conn, idx int) {
			cnt.Add(1)
			_, _ = c.Write([]byte("G"))
			_, _ = io.Copy(io.Discard, c)
			_ = c.Close()
		})
		if err != nil {
			return nil, err
		}
		w.accepting = append(w.accepting, b)
		w.acceptCnt[b.Port] = cnt
	}
	for i := 0; i < 3; i++ {
		rp, err := litefwd.ReserveRefused(0)
		if err != nil {
			return nil, err
		}
		w.refused = append(w.refused, rp)
	}
	if withDefaultPort {
		if rp, err := litefwd.ReserveRefused(25565); err == nil {
			w.defPort = rp
		}
	}
	return w, nil
}

func (w *world) close() {
	for _, b := range w.accepting {
		b.Close()
	}
	for _, rp := range w.refused {
		rp.Release()
	}
	if w.defPort != nil {
		w.defPort.Release()
	}
	for _, b := range w.extra {
		b.Close()
	}
	for _, bh := range w.holes {
		bh.Release()
	}
}

// isHealthy: a listener that accepts and serves (a failed try to it can only be overload).
func (w *world) isHealthy(port int) bool {
	if w.kind == nil {
		return w.isAccepting(port)
	}
	return w.kind[port] == kHealthy
}

func (w *world) isAccepting(port int) bool { _, ok := w.acceptCnt[port]; return ok }

var hostSpellings = []string{"127.0.0.1", "localhost", "LOCALHOST", "LocalHost"}

// genEntry: a physical backend in a random spelling. aliasFree restricts to one spelling per
// physical backend (order checks of least-connections / lowest-latency need that).
func (w *world) genEntry(rng *rand.Rand, accept bool, aliasFree bool) string {
	if !accept && w.defPort != nil && !aliasFree && rng.Intn(3) == 0 {
		// the default-port backend (refusing): with and without the port
		h := hostSpellings[1+rng.Intn(3)]
		if rng.Intn(2) == 0 {
			return h // Gate cannot even dial this ("missing port"), still one try of host:25565
		}
		return h + ":25565"
	}
	var port int
	if accept {
		port = w.accepting[rng.Intn(len(w.accepting))].Port
	} else {
		port = w.refused[rng.Intn(len(w.refused))].Port
	}
	h := "127.0.0.1"
	if !aliasFree {
		h = hostSpellings[rng.Intn(len(hostSpellings))]
	}
	return h + ":" + strconv.Itoa(port)
}

// ---- one attempt ------------------------------------------------------------------------------

var clientPort atomic.Int64

type attempt struct {
	s         *litefwd.Session
	Tries     []string
	Forwarded bool
	FwdTo     string
	Guard     bool
	Done      bool // attempt finished (forwarded+greeting, or connection closed by Gate)
	// hostile family
	Path       string   // "login" (lite.Forward) or "status" (lite.ResolveStatusResponse)
	TryErrs    []string // class of each failed try, from Gate's error text
	Greeted    bool     // the healthy backend's greeting byte reached the client
	Aborted    bool     // Gate gave up after a successful dial ("failed to empty client buffer")
	AnswerPort int      // status: port named in the answer the client side received
}

// latencyUnknown marks a backend that Gate measured itself (successful status request): it is
// measured, but the harness does not know the value.
const latencyUnknown = time.Duration(-1)

// open starts a connection and waits until it is either forwarded (greeting from the
// backend arrived, which lite.Forward can only deliver after TrackConnection) or closed.
func open(routes []config.Route, sm *lite.StrategyManager, host string, limit int) *attempt {
	s := litefwd.Start(litefwd.Options{Routes: routes, SM: sm, TryLimit: limit,
		ClientAddr: &net.TCPAddr{IP: net.IPv4(127, 0, 0, 1), Port: 20000 + int(clientPort.Add(1)%40000)}})
	a := &attempt{s: s}
	hs := litefwd.Handshake{Protocol: 765, Address: host, Port: 25565, Next: 2}
	_, _ = s.Client.Write(hs.Frame())
	ok, _ := lib.Returns(30*time.Second, func() {
		buf := make([]byte, 1)
		n, _ := io.ReadFull(s.Client, buf)
		if n == 1 && buf[0] == 'G' {
			a.Forwarded = true
		} else {
			<-s.ForwardReturned()
		}
	})
	a.Done = ok
	a.collect()
	return a
}

func (a *attempt) collect() {
	a.Tries, a.FwdTo, _ = a.s.Rec.Tries()
	a.Guard = a.s.Panic() != nil
}

// closeWait closes the client and waits for lite.Forward to return.
func (a *attempt) closeWait() bool {
	_ = a.s.Client.Close()
	ok, _ := lib.Returns(30*time.Second, func() { <-a.s.LoopReturned() })
	return ok
}

// ---- per-attempt oracle -------------------------------------------------------------------------

type hist struct {
	Strategy string
	Backends []string
	Host     string
	Latency  map[string]int // ms, by entry string
	Steps    []string
	Kinds       []string `json:",omitempty"` // hostile family: kind of each entry
	StatusCache bool     `json:",omitempty"` // hostile family: route's ping cache enabled
}

func checkAttempt(r *lib.Run, w *world, h *hist, a *attempt, openBy map[string]int, openBySpelling map[string]int, measured map[string]time.Duration, aliasFree bool) {
	wit := func(extra map[string]any) map[string]any {
		m := map[string]any{"strategy": h.Strategy, "backends": h.Backends, "tries": a.Tries, "forwarded_to": a.FwdTo, "history": h.Steps}
		if a.Path != "" {
			m["path"], m["backend_kinds"], m["failed_try_classes"] = a.Path, h.Kinds, a.TryErrs
		}
		for k, v := range extra {
			m[k] = v
		}
		return m
	}
	if a.Guard {
		r.Violation("backend-retried-unboundedly", "one connection attempt kept re-dialling: the candidate list never shrank (tries exceeded 3x the list length + 6; aborted by the monitor's guard)", wit(nil))
		return
	}
	// (1) each distinct backend at most once
	first := map[string]string{}
	retried := false
	for _, t := range a.Tries {
		k, _, _, _, _ := canon(t)
		if prev, dup := first[k]; dup {
			retried = true
			r.Violation(retrySignature(prev, t), "within one connection attempt the same backend (after lower-casing the host and adding the default port) was dialled twice",
				wit(map[string]any{"first": prev, "again": t}))
			break
		}
		first[k] = t
	}
	// distinct configured backends in config order
	var cfgKeys []string
	seen := map[string]bool{}
	for _, b := range h.Backends {
		k, _, _, _, _ := canon(b)
		if !seen[k] {
			seen[k] = true
			cfgKeys = append(cfgKeys, k)
		}
	}
	var triedKeys []string
	seenT := map[string]bool{}
	for _, t := range a.Tries {
		k, _, _, _, _ := canon(t)
		if !seen[k] {
			r.Violation("dialled-backend-not-in-route", "a backend that is not in the route's list was dialled", wit(map[string]any{"tried": t}))
			return
		}
		if !seenT[k] {
			seenT[k] = true
			triedKeys = append(triedKeys, k)
		}
	}
	// (2) the attempt fails only after every distinct backend failed
	if !a.Forwarded {
		// (Gate giving up after a successful dial because the client's buffered bytes could
		// not be written is not an attempt that "failed": the statement is silent; not judged.)
		if len(triedKeys) < len(cfgKeys) && !a.Aborted {
			sig := "attempt-failed-before-all-backends-tried"
			if n := len(a.TryErrs); n > 0 && a.TryErrs[n-1] == "dial-timeout" {
				sig += "-after-dial-timeout"
			}
			r.Violation(sig, "the attempt failed (connection closed / no status) although not every distinct backend of the route had been tried",
				wit(map[string]any{"distinct_configured": cfgKeys, "distinct_tried": triedKeys}))
		}
		for _, k := range triedKeys {
			if _, _, p, _, ok := canon(k); ok && w.isHealthy(p) {
				r.Inconclusive("a try to an accepting listener failed (listener overload?)")
			}
		}
	} else {
		if _, _, p, _, _ := canon(a.FwdTo); w.kind[p] == kTimeout {
			r.Inconclusive("a dial to a port whose SYNs should be dropped succeeded (accept queue drained?)")
		} else if !w.isAccepting(p) {
			r.Violation("forwarded-to-refusing-backend", "Forward reports forwarding to a backend that refuses connections", wit(nil))
		}
	}
	// (4) order
	switch h.Strategy {
	case "sequential", "":
		for i, k := range triedKeys {
			if k != cfgKeys[i] {
				r.Violation("sequential-order-violated", "sequential strategy: the distinct backends were not tried in configuration order",
					wit(map[string]any{"distinct_configured": cfgKeys, "distinct_tried": triedKeys}))
				break
			}
		}
	case "least-connections":
		remaining := map[string]bool{}
		for _, k := range cfgKeys {
			remaining[k] = true
		}
		remainingSp := append([]string(nil), h.Backends...)
		for _, t := range a.Tries {
			k, _, _, _, _ := canon(t)
			if !remaining[k] {
				break // a retry; judged by (1)
			}
			worse := ""
			for o := range remaining {
				if openBy[o] < openBy[k] {
					worse = o
				}
			}
			if worse != "" {
				// would the pick be right if connections were counted per spelling string?
				okSp := true
				for _, o := range remainingSp {
					if openBySpelling[o] < openBySpelling[t] {
						okSp = false
					}
				}
				sig := "least-connections-picked-busier-backend"
				if okSp && !aliasFree {
					sig = "least-connections-counts-split-by-spelling"
				}
				r.Violation(sig, "least-connections: a backend with strictly more open forwarded connections was chosen over one with fewer",
					wit(map[string]any{"chosen": t, "chosen_open": openBy[k], "fewer": worse, "fewer_open": openBy[worse], "open_by_backend": openBy, "open_by_spelling": openBySpelling}))
				break
			}
			delete(remaining, k)
			var rs []string
			for _, o := range remainingSp {
				if ko, _, _, _, _ := canon(o); ko != k {
					rs = append(rs, o)
				}
			}
			remainingSp = rs
		}
	case "lowest-latency":
		if !aliasFree || retried {
			break // latencies are recorded per spelling; only alias-free lists are judged
		}
		remaining := map[string]bool{}
		for _, k := range cfgKeys {
			remaining[k] = true
		}
		for _, t := range a.Tries {
			k, _, _, _, _ := canon(t)
			if !remaining[k] {
				break
			}
			_, chosenMeasured := measured[k]
			for o := range remaining {
				lo, oMeasured := measured[o]
				if chosenMeasured && !oMeasured {
					r.Violation("lowest-latency-measured-before-unmeasured", "lowest-latency: a measured backend was chosen although an unmeasured one was still untried",
						wit(map[string]any{"chosen": t, "unmeasured": o, "latencies_ms": h.Latency}))
					return
				}
				if chosenMeasured && oMeasured && lo != latencyUnknown && measured[k] != latencyUnknown && lo < measured[k] {
					r.Violation("lowest-latency-slower-before-faster", "lowest-latency: a slower backend was chosen over a faster one",
						wit(map[string]any{"chosen": t, "faster": o, "latencies_ms": h.Latency}))
					return
				}
			}
			delete(remaining, k)
		}
	}
}

// ---- the test -------------------------------------------------------------------------------------

var strategies = []string{"sequential", "", "random", "round-robin", "least-connections", "lowest-latency"}

func TestC30(t *testing.T) {
	r := lib.Start(t, "C30")
	defer r.Finish()
	r.Rule("sequential history = fresh StrategyManager, one route (strategy in {sequential, default, random, round-robin, least-connections, lowest-latency}, 1-6 backend entries drawn from 3 accepting loopback listeners, 3 refusing reserved ports and the refusing default port 25565, each in spellings 127.0.0.1/localhost/LOCALHOST/LocalHost, with/without :25565, so exact duplicates, case spellings and default-port spellings occur), then 1-8 steps open-a-connection / close-a-random-open-one, one at a time, through the real lite.Forward; plus a family with a backend template that substitutes to an unparseable address. concurrent run = 1-32 connections opened at once on one shared StrategyManager (random / round-robin / least-connections), half closed, rest closed. hostile history = 2-5 entries (+ duplicate) whose kinds are drawn per position from {healthy, refusing, dial TIMES OUT (loopback port whose SYNs the kernel drops, configured dial timeout 200 ms), accepts-then-closes, accepts-never-answers} (a third of the lists start with a timing-out backend), all six strategies, then 1-4 steps of login attempt (lite.Forward) / status attempt (lite.ResolveStatusResponse, ping cache on or off) / close, same per-attempt oracle decided on the recorded try log. churn round = 1-3 goroutines opening+closing 10-69 short connections each to one backend (three spellings) while 1-6 goroutines each open one connection to it after a PRNG-chosen spin and hold it, all barrier-released, through TrackConnection (3/4) or IncrementConnection (1/4); at the quiescent point the per-backend count must equal the held connections and least-connections must prefer the backend with fewer. pipeline history = 2-4 entries whose kinds are drawn per position from {healthy, refusing, accepts+reads the handshake+RESETS (SO_LINGER 0), accepts+reads the handshake+closes, resets at accept, reads handshake and login start then resets} (half the lists start with a faulting one), all six strategies, 2-5 steps of open / close where the client sends in one write the handshake alone, handshake+login start, or handshake+login start+1-3 more frames, over the in-memory client connection (natural race, or with lite.Forward's request for the client's buffered bytes held until the backend that got this attempt's handshake has done its fault) or a real loopback TCP client connection; pipeline-concurrent round = 1-4 keepers holding pipelined connections to healthy backends while 2-6 barrier-released churners each open and close 2-6 pipelined connections to a route of faulting backends on the same StrategyManager. distinct = distinct (strategy, backend list, step script) / churn parameters; non-trivial = >= 2 entries or >= 2 steps")
	r.Assume("failed dials are observed through Gate's 'failed to try backend' log events (backendAddr value) via an injected logr sink; successful ones additionally by the listeners' accept counters")
	r.Assume("a forwarded connection is 'open' from the moment the backend's greeting byte reaches the client (lite.Forward pipes only after TrackConnection) until lite.Forward returned after the client closed")
	r.Assume("a forwarded connection to a backend that sends nothing (or closes at once) is 'open' from Gate's own 'forwarding connection' event (logged after TrackConnection) until lite.Forward returned after the client closed")
	r.Assume("the per-backend active-connection count is read at quiescent points through the exported accessor StrategyManager.GetOrCreateCounter (the counter object least-connections reads) and through the least-connections choice of the exported GetNextBackend")
	r.Assume("dial timeouts are stimuli: a loopback listener with backlog 0 and a full accept queue (verified by a probe that timed out); the verdict is taken from the try log under a 30 s watchdog")
	r.Assume("a connection whose dial succeeded but whose pipelined client bytes could not be flushed to the backend (Gate's 'failed to empty client buffer' event) was never forwarded: lite.Forward has returned, it is not open; a connection forwarded to a backend that resets or closes is brought to its end (client closes, lite.Forward returned) before the next quiescent point")
	r.Assume("two entries are the same backend iff equal after lower-casing the host and defaulting the port to 25565 (Gate's own canonicalBackendAddress); DNS aliases are different backends")

	w, err := newWorld(r, true)
	if err != nil {
		r.Inconclusive("cannot set up loopback listeners: " + err.Error())
		return
	}
	defer w.close()
	r.Set("default_port_25565_reserved", w.defPort != nil)

	nHist := r.N(300, 12000)
	var attemptsT, forwardedT, failedAttemptsT, multiTryT, conservationChecksT, orderCheckedT, perBackendT int
	stratCountT := map[string]int{}
	dupKindsT := map[string]int{}
	var cmu sync.Mutex // guards the counters above
	seqWorkers := 4
	worlds := []*world{w}
	for i := 1; i < seqWorkers; i++ {
		wi, err := newWorld(r, false)
		if err != nil {
			r.Inconclusive("cannot set up loopback listeners: " + err.Error())
			return
		}
		defer wi.close()
		worlds = append(worlds, wi)
	}
	var swg sync.WaitGroup
	for wk := 0; wk < seqWorkers; wk++ {
		swg.Add(1)
		go func(wk int, w *world) {
			defer swg.Done()
			rng := r.Rng(fmt.Sprintf("seq-%d", wk))
			var attempts, forwarded, failedAttempts, multiTry, conservationChecks, orderChecked, perBackend int
			stratCount := map[string]int{}
			dupKinds := map[string]int{}
			defer func() {
				cmu.Lock()
				defer cmu.Unlock()
				addCounters(&attemptsT, attempts, &forwardedT, forwarded, &failedAttemptsT, failedAttempts, &multiTryT, multiTry, &conservationChecksT, conservationChecks, &orderCheckedT, orderChecked, &perBackendT, perBackend)
				for k, v := range stratCount {
					stratCountT[k] += v
				}
				for k, v := range dupKinds {
					dupKindsT[k] += v
				}
			}()
			for hI := 0; hI < nHist/seqWorkers; hI++ {
				strat := strategies[rng.Intn(len(strategies))]
				aliasFree := rng.Intn(3) == 0
				n := 1 + rng.Intn(6)
				var backends []string
				allAccept := rng.Intn(4) == 0
				for i := 0; i < n; i++ {
					backends = append(backends, w.genEntry(rng, allAccept || rng.Intn(2) == 0, aliasFree))
				}
				if rng.Intn(3) == 0 && n < 6 { // force an exact duplicate
					backends = append(backends, backends[rng.Intn(len(backends))])
				}
				h := &hist{Strategy: strat, Backends: backends, Host: "play.example.org", Latency: map[string]int{}}
				// classify duplicate kinds present
				for i := range backends {
					for j := i + 1; j < len(backends); j++ {
						ki, _, _, _, _ := canon(backends[i])
						kj, _, _, _, _ := canon(backends[j])
						if ki == kj {
							dupKinds[strings.TrimPrefix(retrySignature(backends[i], backends[j]), "backend-retried-")]++
						}
					}
				}
				routes := []config.Route{{Host: []string{"*.example.org"}, Backend: backends, Strategy: config.Strategy(strat)}}
				sm := lite.NewStrategyManager()
				measured := map[string]time.Duration{}
				if strat == "lowest-latency" {
					for _, b := range backends {
						if rng.Intn(2) == 0 {
							ms := 1 + rng.Intn(50)
							k, _, _, _, _ := canon(b)
							if _, dup := measured[k]; dup && aliasFree {
								continue
							}
							sm.RecordLatency(b, time.Duration(ms)*time.Millisecond)
							measured[k] = time.Duration(ms) * time.Millisecond
							h.Latency[b] = ms
						}
					}
				}
				if wk == 0 {
					r.LogCase(h)
				}
				stratCount[strat]++
				steps := 1 + rng.Intn(8)
				var opened []*attempt
				openBy := map[string]int{}
				openBySp := map[string]int{}
				rrExpect := 0
				rrJudgeable := strat == "round-robin" && allAccept
				if rrJudgeable {
					ks := map[string]bool{}
					for _, b := range backends {
						k, _, _, _, _ := canon(b)
						if ks[k] {
							rrJudgeable = false
						}
						ks[k] = true
					}
				}
				bad := false
				for st := 0; st < steps && !bad; st++ {
					if len(opened) > 0 && rng.Intn(3) == 0 {
						i := rng.Intn(len(opened))
						a := opened[i]
						opened = append(opened[:i], opened[i+1:]...)
						h.Steps = append(h.Steps, "close "+a.FwdTo)
						if !a.closeWait() {
							r.Inconclusive("Forward did not return after the client closed")
							bad = true
							break
						}
						k, _, _, _, _ := canon(a.FwdTo)
						openBy[k]--
						openBySp[a.FwdTo]--
					} else {
						before := map[int]int64{}
						for p, c := range w.acceptCnt {
							before[p] = c.Load()
						}
						a := open(routes, sm, h.Host, 3*len(backends)+6)
						attempts++
						r.Eval(1)
						if !a.Done {
							r.Inconclusive("attempt neither forwarded nor closed within the watchdog")
							bad = true
							break
						}
						h.Steps = append(h.Steps, fmt.Sprintf("open -> tries %v fwd=%v", a.Tries, a.Forwarded))
						if len(a.Tries) == 0 {
							r.Inconclusive("no backend try was logged for a routed connection (log messages changed?)")
							bad = true
							break
						}
						if len(a.Tries) > 1 {
							multiTry++
						}
						checkAttempt(r, w, h, a, openBy, openBySp, measured, aliasFree)
						orderChecked++
						// listeners' view: exactly one accept iff forwarded, on the forwarded port
						var acc int64
						for p, c := range w.acceptCnt {
							acc += c.Load() - before[p]
						}
						if want := int64(0); a.Forwarded {
							want = 1
							if acc != want {
								r.Inconclusive(fmt.Sprintf("listeners accepted %d connections during a forwarded attempt (want 1)", acc))
							}
						} else if acc != 0 && !a.Guard {
							r.Inconclusive(fmt.Sprintf("listeners accepted %d connections during a failed attempt", acc))
						}
						if a.Forwarded {
							forwarded++
							if rrJudgeable {
								want := backends[rrExpect%len(backends)]
								if a.FwdTo != want {
									r.Violation("round-robin-rotation-broken", "round-robin with all backends healthy: consecutive connections did not rotate through the list",
										map[string]any{"backends": backends, "connection_index": rrExpect, "want": want, "got": a.FwdTo, "history": h.Steps})
								}
								rrExpect++
							}
							opened = append(opened, a)
							k, _, _, _, _ := canon(a.FwdTo)
							openBy[k]++
							openBySp[a.FwdTo]++
						} else {
							failedAttempts++
							if a.Guard {
								_ = a.closeWait()
							} else if ok, _ := lib.Returns(30*time.Second, func() { <-a.s.LoopReturned() }); !ok {
								r.Inconclusive("read loop did not end after a failed attempt")
							}
						}
					}
					// (5) conservation at this quiescent point
					if got := int(sm.ActiveConnections()); got != len(opened) {
						r.Violation("active-connections-not-conserved", "ActiveConnections() differs from the number of open forwarded connections at a quiescent point",
							map[string]any{"active": got, "open": len(opened), "strategy": strat, "backends": backends, "history": h.Steps})
					}
					conservationChecks++
					perBackend += perBackendCounts(r, sm, h, openBy)
				}
				for _, a := range opened {
					if !a.closeWait() {
						r.Inconclusive("Forward did not return after the client closed")
						bad = true
					}
				}
				if !bad {
					if got := sm.ActiveConnections(); got != 0 {
						r.Violation("active-connections-not-zero-at-end", "ActiveConnections() is not zero after every forwarded connection closed",
							map[string]any{"active": got, "strategy": strat, "backends": backends, "history": h.Steps})
					}
					conservationChecks++
				}
				if len(backends) >= 2 || steps >= 2 {
					r.Distinct(fmt.Sprintf("%s|%v|%v", strat, backends, h.Steps))
				}
				if wk == 0 && r.WantSample() {
					r.Sample(h)
				}
			}
		}(wk, worlds[wk])
	}
	swg.Wait()
	attempts, forwarded, failedAttempts, multiTry, conservationChecks, orderChecked := attemptsT, forwardedT, failedAttemptsT, multiTryT, conservationChecksT, orderCheckedT
	stratCount, dupKinds := stratCountT, dupKindsT
	rng := r.Rng("seq")

	// ---- family: backend template substituting to an unparseable address ----------------------------
	nBad := r.N(12, 200)
	unboundedSeen := 0
	for i := 0; i < nBad; i++ {
		strat := []string{"sequential", "", "least-connections", "lowest-latency"}[rng.Intn(4)]
		good := fmt.Sprintf("127.0.0.1:%d", w.accepting[rng.Intn(3)].Port)
		backends := []string{"$1.servers.svc:25565"}
		if rng.Intn(2) == 0 {
			backends = append(backends, good)
		}
		host := []string{"[x.example.org", "a]b.example.org", "[.example.org"}[rng.Intn(3)]
		h := &hist{Strategy: strat, Backends: backends, Host: host}
		r.LogCase(h)
		routes := []config.Route{{Host: []string{"*.example.org"}, Backend: backends, Strategy: config.Strategy(strat)}}
		sm := lite.NewStrategyManager()
		a := open(routes, sm, host, 3*len(backends)+6)
		attempts++
		r.Eval(1)
		if !a.Done {
			r.Inconclusive("unparseable-address attempt did not finish within the watchdog")
			continue
		}
		r.Distinct(fmt.Sprintf("bad|%s|%v|%s", strat, backends, host))
		if a.Guard {
			unboundedSeen++
			r.Violation("backend-retried-unboundedly-unparseable-address", "a backend whose substituted address does not parse is dialled again and again within one attempt: the tried backend is never removed from the candidate list (tries exceeded 3x the list length + 6; aborted by the monitor's guard)",
				map[string]any{"strategy": strat, "backend_templates": backends, "client_virtual_host": host, "tries": a.Tries})
			_ = a.closeWait()
			continue
		}
		seenTry := map[string]int{}
		for _, t := range a.Tries {
			seenTry[t]++
			if seenTry[t] == 2 {
				r.Violation("backend-retried-identical-entry", "the same unparseable backend address was dialled twice in one attempt", map[string]any{"strategy": strat, "backend_templates": backends, "client_virtual_host": host, "tries": a.Tries})
			}
		}
		if a.Forwarded {
			_ = a.closeWait()
		} else if len(backends) == 2 {
			r.Violation("attempt-failed-before-all-backends-tried", "the healthy second backend was never reached", map[string]any{"backends": backends, "tries": a.Tries})
		}
	}

	// ---- concurrent runs --------------------------------------------------------------------------
	nConc := r.N(20, 300)
	crng := r.Rng("conc")
	var concConns, concChecks int
	for c := 0; c < nConc; c++ {
		strat := []string{"random", "random", "round-robin", "least-connections", "sequential"}[crng.Intn(5)]
		g := 1 + crng.Intn(32)
		n := 2 + crng.Intn(3)
		var backends []string
		for i := 0; i < n; i++ {
			backends = append(backends, w.genEntry(crng, crng.Intn(3) != 0, true))
		}
		backends = append(backends, w.genEntry(crng, true, true)) // at least one healthy
		routes := []config.Route{{Host: []string{"*"}, Backend: backends, Strategy: config.Strategy(strat)}}
		sm := lite.NewStrategyManager()
		h := &hist{Strategy: strat, Backends: backends, Host: "c.example.org", Steps: []string{fmt.Sprintf("%d concurrent connections", g)}}
		r.LogCase(h)
		as := make([]*attempt, g)
		var wg sync.WaitGroup
		start := make(chan struct{})
		for i := 0; i < g; i++ {
			wg.Add(1)
			go func(i int) {
				defer wg.Done()
				<-start
				as[i] = open(routes, sm, h.Host, 3*len(backends)+6)
			}(i)
		}
		close(start)
		wg.Wait()
		r.Eval(1)
		concConns += g
		open_ := 0
		okAll := true
		for _, a := range as {
			if !a.Done {
				okAll = false
				continue
			}
			if a.Forwarded {
				open_++
			}
			// per-attempt checks that do not depend on a sequential history
			checkAttempt(r, w, &hist{Strategy: "random", Backends: backends, Steps: h.Steps}, a, nil, nil, nil, true)
		}
		if !okAll {
			r.Inconclusive("a concurrent attempt did not finish within the watchdog")
			for _, a := range as {
				a.closeWait()
			}
			continue
		}
		if got := int(sm.ActiveConnections()); got != open_ {
			r.Violation("active-connections-not-conserved", "ActiveConnections() differs from the number of open forwarded connections after concurrent opens",
				map[string]any{"active": got, "open": open_, "strategy": strat, "backends": backends, "concurrent": g})
		}
		concChecks++
		// close a random half concurrently
		perm := crng.Perm(g)
		half := perm[:g/2]
		var wg2 sync.WaitGroup
		closedFwd := 0
		for _, i := range half {
			if as[i].Forwarded {
				closedFwd++
			}
			wg2.Add(1)
			go func(a *attempt) { defer wg2.Done(); a.closeWait() }(as[i])
		}
		wg2.Wait()
		if got := int(sm.ActiveConnections()); got != open_-closedFwd {
			r.Violation("active-connections-not-conserved", "ActiveConnections() differs from the number of open forwarded connections after concurrent closes",
				map[string]any{"active": got, "open": open_ - closedFwd, "strategy": strat, "backends": backends, "concurrent": g})
		}
		concChecks++
		for _, i := range perm[g/2:] {
			wg2.Add(1)
			go func(a *attempt) { defer wg2.Done(); a.closeWait() }(as[i])
		}
		wg2.Wait()
		if got := sm.ActiveConnections(); got != 0 {
			r.Violation("active-connections-not-zero-at-end", "ActiveConnections() is not zero after all concurrent connections closed",
				map[string]any{"active": got, "strategy": strat, "backends": backends, "concurrent": g})
		}
		concChecks++
		r.Distinct(fmt.Sprintf("conc|%s|%v|%d", strat, backends, g))
	}

	// ---- hostile backends (dial timeouts, accept-close, no-answer; login and status path) ------
	hostileFamily(r)

	// ---- concurrent churn on the per-backend counters ---------------------------------------------
	churnFamily(r)

	// ---- clients pipelining behind the handshake x backends faulting after the dial ----------------
	pipelineFamily(r)

	r.Set("per_backend_count_comparisons_sequential", perBackendT)
	r.Set("attempts", attempts)
	r.Set("attempts_forwarded", forwarded)
	r.Set("attempts_failed_all_backends", failedAttempts)
	r.Set("attempts_with_more_than_one_try", multiTry)
	r.Set("attempts_order_checked", orderChecked)
	r.Set("conservation_checks_sequential", conservationChecks)
	r.Set("concurrent_runs", nConc)
	r.Set("concurrent_connections", concConns)
	r.Set("conservation_checks_concurrent", concChecks)
	r.Set("histories_per_strategy", stratCount)
	r.Set("duplicate_pairs_in_lists_by_kind", dupKinds)
	r.Set("unbounded_retry_observed", unboundedSeen)
	var accTotal int64
	ports := []int{}
	for p, c := range w.acceptCnt {
		accTotal += c.Load()
		ports = append(ports, p)
	}
	sort.Ints(ports)
	r.Set("listener_accepts_total", accTotal)
}
