// C04: every packet type round-trips losslessly in every supported protocol version.
//
// For every (state, direction, protocol, registered type) row enumerated from the registry
// itself, generated values v are pushed through the real Encode/Decode:
//
//	b1 = Encode(v); d = Decode(b1); b2 = Encode(d)
//
// Oracles:
//  1. Decode(b1) succeeds and consumes every byte; b2 == b1.
//  2. encode-sensitivity: for each exported leaf field f of v, f is replaced by a different
//     generated value and v is encoded again; if the bytes change, f exists in this
//     (type, version, direction) and d must carry the original f (independent deep equality).
//
// Violations are aggregated per (kind, type[, field][, generator variant]) over the whole run
// and reported once, qualified with the era if all failing protocols lie in one era.
package c04

import (
	"crypto/sha1"
	"encoding/binary"
	"encoding/hex"
	"encoding/json"
	"fmt"
	"math/rand"
	"os"
	"reflect"
	"runtime"
	"sort"
	"strings"
	"sync"
	"testing"

	"go.minekube.com/gate/pkg/edition/java/proxy/verifh/lib"
	"go.minekube.com/gate/pkg/edition/java/proxy/verifh/ref/pktgen"
	"go.minekube.com/gate/pkg/gate/proto"
)

type failure struct {
	protocols map[int]struct{}
	count     int
	what      string
	witness   map[string]any
}

type agg struct {
	mu    sync.Mutex
	fails map[string]*failure
}

func (a *agg) add(sig string, row pktgen.Row, what string, witness map[string]any) {
	a.mu.Lock()
	defer a.mu.Unlock()
	f := a.fails[sig]
	if f == nil {
		f = &failure{protocols: map[int]struct{}{}, what: what, witness: witness}
		a.fails[sig] = f
	}
	f.protocols[int(row.Protocol)] = struct{}{}
	f.count++
}

func caseSeed(seed int64, key string, k int) int64 {
	h := sha1.Sum([]byte(fmt.Sprintf("%d/%s/%d", seed, key, k)))
	return int64(binary.BigEndian.Uint64(h[:8]) >> 1)
}

func hexTrunc(b []byte) string {
	if len(b) > 1500 {
		return hex.EncodeToString(b[:1500]) + fmt.Sprintf("…(+%d bytes)", len(b)-1500)
	}
	return hex.EncodeToString(b)
}

func firstDiffAt(a, b []byte) int {
	i := 0
	for i < len(a) && i < len(b) && a[i] == b[i] {
		i++
	}
	return i
}

type counters struct {
	mu                                                            sync.Mutex
	cases, trivial, fieldsPresent, fieldsAbsent, flipSkip, flipNA int
	incomparable                                                  int
	maxBytes                                                      int
	byClass                                                       [3]int
	variants                                                      map[string]int
	unreviewed                                                    map[string]struct{}
	gaps                                                          map[string]struct{}
	typesSeen                                                     map[string]struct{}
	fieldsSeen                                                    map[string]struct{} // Type.Field that was seen present at least once
	fieldsNever                                                   map[string]struct{}
	masked                                                        int
}

func TestC04(t *testing.T) {
	r := lib.Start(t, "C04")
	defer r.Finish()
	r.Rule("rows = every (state, direction, supported protocol, registered packet type) enumerated from the registry at run time; per row N values (classes small / large / random cycling: strings at 0/1/limit length, >127- and >16383-byte bodies, optionals present/absent, nested components, NBT compounds, brigadier trees with redirects, 0/1/130 list entries) from a PRNG seeded by (VERIF_SEED, row, index); distinct = distinct (row, first encoding); packets with an empty encoding are evaluated but not counted as non-trivial")
	r.Assume("generators produce only values the protocol permits for that version (constraints listed under generator_constraints); a value outside a wire type's range would make the field oracle fire without Gate being wrong")
	r.Assume("field equality is an independent structural comparison; component trees are compared after rendering both sides with the same JSON codec of go.minekube.com/common, identified keys by public key/expiry/signature, command graphs by an independent walker")
	r.Assume("fields dropped symmetrically by Encode and Decode are invisible to both oracles (stated limit of DESIGN.md C04)")

	rows := pktgen.Rows()
	perRow := r.N(6, 200)

	// replay support: run one recorded case only
	var replay *struct {
		Witness struct {
			Row string `json:"row"`
			K   int    `json:"k"`
		} `json:"witness"`
	}
	if p := os.Getenv("VERIF_REPLAY"); p != "" {
		if b, err := os.ReadFile(p); err == nil {
			_ = json.Unmarshal(b, &replay)
		}
	}

	a := &agg{fails: map[string]*failure{}}
	c := &counters{variants: map[string]int{}, unreviewed: map[string]struct{}{}, gaps: map[string]struct{}{},
		typesSeen: map[string]struct{}{}, fieldsSeen: map[string]struct{}{}, fieldsNever: map[string]struct{}{}}

	type job struct {
		row pktgen.Row
		k   int
	}
	jobs := make(chan job, 1024)
	var wg sync.WaitGroup
	workers := runtime.GOMAXPROCS(0)
	if workers > 16 {
		workers = 16
	}
	for w := 0; w < workers; w++ {
		wg.Add(1)
		go func() {
			defer wg.Done()
			for j := range jobs {
				runCase(r, a, c, j.row, j.k)
			}
		}()
	}
	for _, row := range rows {
		for k := 0; k < perRow; k++ {
			if replay != nil && (replay.Witness.Row != row.Key() || replay.Witness.K != k) {
				continue
			}
			jobs <- job{row, k}
		}
	}
	close(jobs)
	wg.Wait()
	if replay == nil {
		componentConversions(r)
	}

	// ---- report aggregated violations -------------------------------------------------
	sigs := make([]string, 0, len(a.fails))
	for s := range a.fails {
		sigs = append(sigs, s)
	}
	sort.Strings(sigs)
	for _, s := range sigs {
		f := a.fails[s]
		eras := map[string]struct{}{}
		var ps []int
		for p := range f.protocols {
			ps = append(ps, p)
			eras[pktgen.Era(proto.Protocol(p))] = struct{}{}
		}
		sort.Ints(ps)
		sig := s
		if len(eras) == 1 {
			for e := range eras {
				sig += "@" + e
			}
		}
		f.witness["failing_protocols"] = ps
		f.witness["failing_cases"] = f.count
		r.Violation(sig, fmt.Sprintf("%s (protocols %v, %d cases)", f.what, ps, f.count), f.witness)
	}
	if replay != nil {
		fmt.Printf("REPLAY-RESULT property=C04 case=%s/%d violations=%d\n", replay.Witness.Row, replay.Witness.K, len(sigs))
	}

	// ---- evidence ------------------------------------------------------------------------
	r.Set("rows_enumerated", len(rows))
	r.Set("values_per_row", perRow)
	r.Set("packet_types_seen", len(c.typesSeen))
	r.Set("cases_with_empty_encoding", c.trivial)
	r.Set("leaf_fields_found_on_wire_and_compared", c.fieldsPresent)
	r.Set("leaf_fields_not_on_wire_in_that_version", c.fieldsAbsent)
	r.Set("leaf_flips_undecidable_encode_refused", c.flipSkip)
	r.Set("leaf_flips_no_alternative_value", c.flipNA)
	r.Set("field_comparisons_incomparable", c.incomparable)
	r.Set("largest_encoding_bytes", c.maxBytes)
	r.Set("cases_by_class", map[string]int{"small": c.byClass[0], "large": c.byClass[1], "random": c.byClass[2]})
	r.Set("generator_variants", c.variants)
	r.Set("wallclock_masked_cases", c.masked)
	r.Set("distinct_type_fields_seen_on_wire", len(c.fieldsSeen))
	never := []string{}
	for f := range c.fieldsNever {
		if _, ok := c.fieldsSeen[f]; !ok {
			never = append(never, f)
		}
	}
	sort.Strings(never)
	r.Set("type_fields_never_on_wire_in_any_registered_version", never)
	unrev := []string{}
	for u := range c.unreviewed {
		unrev = append(unrev, u)
	}
	sort.Strings(unrev)
	r.Set("UNREVIEWED_TYPES_generated_reflectively_only", unrev)
	gaps := []string{}
	for g := range c.gaps {
		gaps = append(gaps, g)
	}
	sort.Strings(gaps)
	r.Set("GENERATOR_GAPS", gaps)
	for _, g := range gaps {
		r.Inconclusive("generator gap: " + g)
	}
	notes := map[string]string{}
	for name, s := range pktgen.Specs {
		if s.Note != "" {
			notes[name] = s.Note
		}
	}
	r.Set("generator_constraints", notes)
	r.Set("statement_latitude", []string{
		"chat.KeyedPlayerChat with Unsigned=true: Encode writes time.Now() as the timestamp (the struct has no field for it, same as Velocity); those 8 bytes are excluded from the byte comparison, everything else is compared",
		"packets whose Encode iterates a Go map (CustomReportDetails, TagsUpdate, KeyedPlayerCommand): entry order is undefined, encodings are compared as equal-length multisets plus field equality",
		"game mode bytes are generated in Gate's unsigned representation (vanilla -1 == 0xFF == 255)",
	})
}

func runCase(r *lib.Run, a *agg, c *counters, row pktgen.Row, k int) {
	class := pktgen.Class(k % 3)
	seed := caseSeed(r.Seed, row.Key(), k)
	pk, g, spec := pktgen.Generate(row, seed, k)
	r.Eval(1)
	reviewed := spec != nil

	c.mu.Lock()
	c.cases++
	c.byClass[class]++
	c.typesSeen[row.TypeName] = struct{}{}
	if !reviewed {
		c.unreviewed[row.TypeName] = struct{}{}
	}
	for _, gp := range g.Gaps {
		c.gaps[gp] = struct{}{}
	}
	if g.Variant != "" {
		c.variants[g.Variant]++
	}
	c.mu.Unlock()

	base := map[string]any{"row": row.Key(), "k": k, "class": class.String(), "case_seed": seed, "packet_id": int(row.ID)}
	wit := func(extra map[string]any) map[string]any {
		m := map[string]any{}
		for k, v := range base {
			m[k] = v
		}
		for k, v := range extra {
			m[k] = v
		}
		m["value"] = lib.Trunc(fmt.Sprintf("%+v", pk), 1200)
		return m
	}
	sigOf := func(kind, extra string) string {
		if g.Variant != "" {
			// a deliberately unusual representation: one signature for whatever it breaks
			return "roundtrip-variant:" + row.TypeName + "[" + g.Variant + "]"
		}
		return kind + ":" + row.TypeName + extra
	}
	report := func(sig, what string, w map[string]any) {
		if !reviewed || len(g.Gaps) > 0 {
			r.Inconclusive(fmt.Sprintf("unreviewed/unbuildable type %s failed %s: %s", row.TypeName, sig, what))
			return
		}
		a.add(sig, row, what, w)
	}

	b1, err := pktgen.Encode(row, pk)
	if err != nil {
		report(sigOf("encode-rejects-generated-value", ""), "Encode refused a generated value: "+lib.Trunc(err.Error(), 300), wit(map[string]any{"error": lib.Trunc(err.Error(), 2000)}))
		return
	}
	c.mu.Lock()
	if len(b1) > c.maxBytes {
		c.maxBytes = len(b1)
	}
	if len(b1) == 0 {
		c.trivial++
	}
	c.mu.Unlock()
	if len(b1) > 0 {
		h := sha1.Sum(b1)
		r.Distinct(row.Key() + string(h[:]))
	}

	d, left, err := pktgen.Decode(row, b1)
	if err != nil {
		report(sigOf("decode-own-encoding", ""), "Decode fails on Gate's own encoding: "+lib.Trunc(err.Error(), 300), wit(map[string]any{"error": lib.Trunc(err.Error(), 2000), "encoding": hexTrunc(b1)}))
		return
	}
	if left != 0 {
		report(sigOf("decode-own-encoding", ""), fmt.Sprintf("Decode left %d of %d bytes of Gate's own encoding unread", left, len(b1)), wit(map[string]any{"left": left, "encoding": hexTrunc(b1)}))
		return
	}
	b2, err := pktgen.Encode(row, d)
	if err != nil {
		report(sigOf("reencode-fails", ""), "Encode of the decoded packet fails: "+lib.Trunc(err.Error(), 300), wit(map[string]any{"error": lib.Trunc(err.Error(), 2000), "encoding": hexTrunc(b1)}))
		return
	}
	m1, m2 := pktgen.Masked(spec, pk, b1), pktgen.Masked(spec, d, b2)
	if len(b1) > 0 && len(m1) > 0 && &m1[0] != &b1[0] {
		c.mu.Lock()
		c.masked++
		c.mu.Unlock()
	}
	unordered := pktgen.Unordered(row, spec)
	if !pktgen.SameBytes(unordered, m1, m2) {
		report(sigOf("roundtrip-bytes", ""), fmt.Sprintf("encode->decode->encode differs (len %d vs %d, first difference at byte %d)", len(b1), len(b2), firstDiffAt(m1, m2)),
			wit(map[string]any{"first": hexTrunc(b1), "second": hexTrunc(b2), "first_difference_at": firstDiffAt(m1, m2), "decoded": lib.Trunc(fmt.Sprintf("%+v", d), 1200)}))
		return
	}

	// ---- encode-sensitivity oracle --------------------------------------------------------
	pv, dv := pktgen.Elem(pk), pktgen.Elem(d)
	leaves := pktgen.Leaves(pv)
	var alts []reflect.Value
	if len(leaves) > 0 {
		for j := 0; j < 4; j++ {
			ap, _, _ := pktgen.Generate(row, seed+int64(j+1)*7919, k+j+1)
			alts = append(alts, pktgen.Elem(ap))
		}
	}
	if len(b1) > 32<<10 && len(leaves) > 10 {
		// very large packets: a PRNG-chosen subset of the leaves (each flip re-encodes the packet)
		lr := rand.New(rand.NewSource(seed ^ 0x5eed))
		lr.Shuffle(len(leaves), func(i, j int) { leaves[i], leaves[j] = leaves[j], leaves[i] })
		leaves = leaves[:10]
	}
	for _, leaf := range leaves {
		path := leaf.Path
		orig, ok := pktgen.Get(pv, path)
		if !ok {
			continue
		}
		name := path.Name(row.Type, false)
		gname := path.Name(row.Type, true)
		var alt reflect.Value
		found := false
		for _, av := range alts {
			x, ok := pktgen.Get(av, path)
			if !ok {
				continue
			}
			if same, _, _ := pktgen.SameLeaf(leaf.Mode, orig, x, row.Protocol); !same {
				alt, found = x, true
				break
			}
		}
		if !found {
			c.mu.Lock()
			c.flipNA++
			c.mu.Unlock()
			continue
		}
		pk2, _, _ := pktgen.Generate(row, seed, k)
		slot, ok := pktgen.Get(pktgen.Elem(pk2), path)
		if !ok || !slot.CanSet() {
			continue
		}
		slot.Set(alt)
		b3, err := pktgen.Encode(row, pk2)
		if err != nil {
			c.mu.Lock()
			c.flipSkip++
			c.mu.Unlock()
			continue
		}
		fkey := row.TypeName + "." + gname
		if pktgen.SameBytes(unordered, m1, pktgen.Masked(spec, pk2, b3)) {
			c.mu.Lock()
			c.fieldsAbsent++
			c.fieldsNever[fkey] = struct{}{}
			c.mu.Unlock()
			continue
		}
		c.mu.Lock()
		c.fieldsPresent++
		c.fieldsSeen[fkey] = struct{}{}
		c.mu.Unlock()
		got, ok := pktgen.Get(dv, path)
		if !ok {
			report(sigOf("field-value", "."+gname), "field is on the wire in this version but the decoded packet has no value at that path", wit(map[string]any{"field": name, "encoding": hexTrunc(b1)}))
			continue
		}
		same, why, cmp := pktgen.SameLeaf(leaf.Mode, orig, got, row.Protocol)
		if !cmp {
			c.mu.Lock()
			c.incomparable++
			c.mu.Unlock()
			continue
		}
		if !same {
			report(sigOf("field-value", "."+gname), "field exists in this version (changing it changes the encoding) but the decoded packet carries another value: "+lib.Trunc(why, 300),
				wit(map[string]any{"field": name, "difference": why, "encoding": hexTrunc(b1), "decoded": lib.Trunc(fmt.Sprintf("%+v", d), 1200)}))
		}
	}
	if r.WantSample() {
		r.Sample(map[string]any{"row": row.Key(), "class": class.String(), "encoding_bytes": len(b1), "leaf_fields": len(leaves), "encoding_head": hexTrunc(b1[:min(len(b1), 48)]), "variant": g.Variant})
	}
	_ = strings.TrimSpace
}
