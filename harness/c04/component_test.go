package c04

import (
	"bytes"
	"fmt"
	"strings"

	"github.com/Tnze/go-mc/nbt"
	"go.minekube.com/common/minecraft/component"
	"go.minekube.com/gate/pkg/edition/java/proto/packet/chat"
	"go.minekube.com/gate/pkg/edition/java/proxy/verifh/lib"
	"go.minekube.com/gate/pkg/edition/java/proxy/verifh/ref/pktgen"
	"go.minekube.com/gate/pkg/gate/proto"
)

// componentConversions is the dedicated monitor for chat-component strings in the NBT wire
// form of 1.20.3+ (every packet carrying a component shares this path, so the per-packet
// generators leave the string classes below to this sub-check: one signature per class instead
// of one per packet type).
//
// For Text{Content: s} (and the same s as insertion):
//
//	write:  ComponentHolder{Component}.Write -> bytes; an independent NBT decoder (go-mc) must
//	        find text == s            => otherwise "component-nbt-write:<class>"
//	read:   ReadComponentHolder(bytes).AsComponent() must give Content == s
//	                                  => otherwise "component-nbt-read:<class>"
//
// The read side is only judged when the write side was right (the bytes really contain s).
func componentConversions(r *lib.Run) {
	type cs struct{ class, s string }
	fixed := []cs{
		{"plain", "hello"}, {"plain", "Hello World"}, {"plain", "a b"}, {"plain", " a "},
		{"empty-string", ""},
		{"backslash", `a\b`}, {"backslash", `C:\path\file`}, {"backslash", `a\`}, {"backslash", `\\`},
		{"line-break", "a\nb"}, {"line-break", "first\nsecond\nthird"},
		{"quote", `a"b`}, {"quote", `'a'`}, {"quote", `"`},
		{"yaml-scalar", "null"}, {"yaml-scalar", "0x10"}, {"yaml-scalar", "2020-01-01"}, {"yaml-scalar", "1_000"}, {"yaml-scalar", "+1"}, {"yaml-scalar", "1e3"}, {"yaml-scalar", ".inf"}, {"yaml-scalar", "0o7"},
		{"number-like", "123"}, {"number-like", "1.5"}, {"number-like", "-3"}, {"number-like", "true"}, {"number-like", "1b"},
		{"punctuation", "a:b"}, {"punctuation", "a: b"}, {"punctuation", "a,b"}, {"punctuation", "a #b"}, {"punctuation", "{a}"}, {"punctuation", "[a]"}, {"punctuation", "&a"}, {"punctuation", "*a"}, {"punctuation", "!a"}, {"punctuation", "|a"}, {"punctuation", ">a"}, {"punctuation", "%a"}, {"punctuation", "@a"}, {"punctuation", "? a"}, {"punctuation", "- a"},
		{"unicode", "é日本"}, {"unicode", "§cRed"}, {"unicode", "😀"},
		{"tab", "a\tb"},
		{"mixed-quotes", `a"b'c`}, {"mixed-quotes", `X["<"c#'`}, {"mixed-quotes", `'"`},
	}
	classify := func(s string) string {
		switch {
		case s == "":
			return "empty-string"
		case strings.Contains(s, `\`):
			return "backslash"
		case strings.ContainsAny(s, "\n\r"):
			return "line-break"
		case strings.Contains(s, `"`) && strings.Contains(s, `'`):
			return "mixed-quotes"
		case pktgen.RiskyNBTText(s):
			return "yaml-scalar"
		}
		return "plain"
	}
	rng := r.Rng("component-strings")
	pool := []rune("abcXYZ019 _-.:/!?\"\\{}[]<>&#'\n\té日")
	for i := 0; i < r.N(400, 20000); i++ {
		n := rng.Intn(12)
		rs := make([]rune, n)
		for j := range rs {
			rs[j] = pool[rng.Intn(len(pool))]
		}
		s := string(rs)
		fixed = append(fixed, cs{classify(s), s})
	}

	type key struct{ side, class string }
	first := map[key]map[string]any{}
	counts := map[key]int{}
	okCount := 0
	for _, p := range []proto.Protocol{765, 767, 770, 776} {
		for _, c := range fixed {
			for _, where := range []string{"text", "insertion"} {
				r.Eval(1)
				r.Distinct(fmt.Sprintf("component %d %s %q", p, where, c.s))
				var comp component.Component
				if where == "text" {
					comp = &component.Text{Content: c.s}
				} else {
					s := c.s
					comp = &component.Text{Content: "x", S: component.Style{Insertion: &s}}
				}
				fail := func(side, what string, extra map[string]any) {
					k := key{side, c.class}
					counts[k]++
					if first[k] == nil {
						w := map[string]any{"protocol": int(p), "where": where, "string": c.s, "what": what}
						for a, b := range extra {
							w[a] = b
						}
						first[k] = w
					}
				}
				h := &chat.ComponentHolder{Protocol: p, Component: comp}
				var buf bytes.Buffer
				var werr error
				func() {
					defer func() {
						if x := recover(); x != nil {
							werr = fmt.Errorf("panic: %v", x)
						}
					}()
					werr = h.Write(&buf, p)
				}()
				if werr != nil {
					fail("write", "the component cannot be written for a 1.20.3+ client: "+werr.Error(), nil)
					continue
				}
				// independent decode of what went on the wire
				var m map[string]any
				dec := nbt.NewDecoder(bytes.NewReader(buf.Bytes()))
				dec.NetworkFormat(true)
				if _, err := dec.Decode(&m); err != nil {
					fail("write", "the written NBT is not decodable by an independent decoder: "+err.Error(), map[string]any{"bytes": hexTrunc(buf.Bytes())})
					continue
				}
				onWire, _ := m[where].(string)
				if onWire != c.s {
					fail("write", fmt.Sprintf("the NBT on the wire carries %q instead of %q", onWire, c.s), map[string]any{"bytes": hexTrunc(buf.Bytes()), "on_wire": onWire})
					continue
				}
				// read side
				d, err := chat.ReadComponentHolder(bytes.NewReader(buf.Bytes()), p)
				if err != nil {
					fail("read", "ReadComponentHolder fails on Gate's own bytes: "+err.Error(), map[string]any{"bytes": hexTrunc(buf.Bytes())})
					continue
				}
				got, err := d.AsComponent()
				if err != nil {
					fail("read", "AsComponent fails on a component whose NBT is correct: "+err.Error(), map[string]any{"bytes": hexTrunc(buf.Bytes())})
					continue
				}
				t, _ := got.(*component.Text)
				var back string
				if t != nil {
					back = t.Content
					if where == "insertion" {
						back = "<nil>"
						if t.S.Insertion != nil {
							back = *t.S.Insertion
						}
					}
				}
				if t == nil || back != c.s {
					fail("read", fmt.Sprintf("AsComponent yields %q for %q although the NBT on the wire is correct", back, c.s), map[string]any{"bytes": hexTrunc(buf.Bytes()), "got": back})
					continue
				}
				okCount++
			}
		}
	}
	for k, w := range first {
		w["failing_cases"] = counts[k]
		r.Violation("component-nbt-"+k.side+":"+k.class, fmt.Sprintf("1.20.3+ NBT chat component, %s side, string class %q: %v (%d cases)", k.side, k.class, w["what"], counts[k]), w)
	}
	r.Set("component_strings_checked", len(fixed))
	r.Set("component_conversions_ok", okCount)
}
