//go:build verif

package c10

import "go.minekube.com/gate/pkg/edition/java/proxy"

// With -tags verif the username predicate of the login handler is also driven directly (volume
// workload); the e2e logins in c10_test.go are what keep this hook honest.
func init() { hookPredicate = proxy.VerifC10UsernameOK }
