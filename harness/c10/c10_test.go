// C10: offline identities match vanilla and only valid usernames are admitted.
//
// Three observation points, one oracle each; none of the oracles imports the Gate code it
// judges (reference UUID = crypto/md5 by hand, reference username predicate = a byte loop, wire
// parsers for login start / login success written here).
//
//  1. uuid.OfflinePlayerUUID(n) (and profile.NewOffline(n).ID, and the textual form) against
//     the reference name-based UUID md5("OfflinePlayer:"+n) with version nibble 3 and the RFC
//     4122 variant bits, exhaustively over all strings of 0, 1 and 2 bytes and over generated
//     names (ASCII, Unicode letters/digits, combining marks, boundary lengths, NUL, trailing
//     newline, invalid UTF-8). Two values published for vanilla ("Notch", "Steve") anchor the
//     reference itself.
//  2. the login username filter, observed END TO END: a fake client sends a hand-built login
//     start with the generated name to a live in-process proxy (offline mode, forwarding none,
//     one fake backend); "accepted" = a login success packet arrives, "rejected" = a disconnect
//     in the login state or the connection is closed without one. accepted <=> the reference
//     predicate "2..16 bytes, each of A-Z a-z 0-9 _" holds. With build tag verif the same
//     predicate is also driven at volume through the one-line hook VerifC10UsernameOK
//     (exhaustive over 1- and 2-byte strings + generated); the e2e workload is what keeps the
//     hook honest.
//  3. identity seen by everybody for accepted logins: UUID and name in the login success the
//     client receives (parsed from the raw payload), Player.ID() at PostLoginEvent, and the
//     login start the fake backend receives (raw payload: user name always; UUID when the
//     protocol carries one) all equal the reference offline UUID / the name typed.
//
// Readings taken (the statement leaves latitude):
//   - "for every name": a Go string may hold bytes that are not UTF-8; vanilla never sees such a
//     name (its decoder replaces them). The reference hashes the bytes as they are, which is
//     what correct code does for every name vanilla can represent and is the only reading under
//     which "every name" is defined for the rest.
//   - "2 to 16 characters from A-Z, a-z, 0-9 and underscore": all admissible characters are
//     one byte, so characters = bytes = runes for every admissible name; a name with fewer
//     runes than bytes contains an inadmissible character and is rejected for that reason.
//   - how a name is rejected (disconnect message vs plain close, e.g. when the string exceeds
//     the 64-byte wire cap or is empty) is not part of the statement.
//   - "the backend sees that same offline UUID": login start carries a UUID only from 1.19.1
//     (optional until 1.20.1, mandatory from 1.20.2). Where the proxy sends none the backend
//     derives the UUID from the user name, so the user name must arrive unchanged; where one
//     is sent it must be the reference UUID (an all-zero UUID on >=764 counts as another UUID).
package c10

import (
	"crypto/md5"
	"encoding/hex"
	"fmt"
	"math/rand"
	"strings"
	"sync"
	"testing"
	"time"

	"github.com/robinbraemer/event"

	"go.minekube.com/gate/pkg/edition/java/profile"
	"go.minekube.com/gate/pkg/edition/java/proto/packet"
	"go.minekube.com/gate/pkg/edition/java/proxy"
	"go.minekube.com/gate/pkg/edition/java/proxy/verifh/e2e"
	"go.minekube.com/gate/pkg/edition/java/proxy/verifh/lib"
	"go.minekube.com/gate/pkg/gate/proto"
	"go.minekube.com/gate/pkg/util/uuid"
)

// hookPredicate is set by c10_hook_test.go when the monitor is built with -tags verif.
var hookPredicate func(string) bool

// ---- reference --------------------------------------------------------------------------

// refUUID is java.util.UUID.nameUUIDFromBytes(("OfflinePlayer:"+name).getBytes(UTF_8)).
func refUUID(name string) [16]byte {
	in := make([]byte, 0, 14+len(name))
	in = append(in, 'O', 'f', 'f', 'l', 'i', 'n', 'e', 'P', 'l', 'a', 'y', 'e', 'r', ':')
	in = append(in, name...)
	h := md5.Sum(in)
	h[6] = h[6]&0x0f | 0x30 // version 3
	h[8] = h[8]&0x3f | 0x80 // IETF variant
	return h
}

func dashed(u [16]byte) string {
	x := hex.EncodeToString(u[:])
	return x[0:8] + "-" + x[8:12] + "-" + x[12:16] + "-" + x[16:20] + "-" + x[20:32]
}

// refValid is the statement's predicate, without regexp.
func refValid(s string) bool {
	if len(s) < 2 || len(s) > 16 {
		return false
	}
	for i := 0; i < len(s); i++ {
		c := s[i]
		switch {
		case c >= 'A' && c <= 'Z':
		case c >= 'a' && c <= 'z':
		case c >= '0' && c <= '9':
		case c == '_':
		default:
			return false
		}
	}
	return true
}

// ---- name generators ----------------------------------------------------------------------

const validChars = "ABCDEFGHIJKLMNOPQRSTUVWXYZabcdefghijklmnopqrstuvwxyz0123456789_"

// boundaryASCII: the neighbours of every admissible range plus the usual suspects.
var boundaryASCII = []string{"@", "[", "`", "{", "/", ":", "-", ".", " ", "\n", "\r", "\t", "\x00", "\x7f", "!", "$", "+", "*", "\\", "^", "~", "\"", "'", "%", ",", "?", "#", "\x1b"}

// unicodeLookalikes: characters \w, \pL, \pN, \d or case folding would admit.
var unicodeLookalikes = []string{
	"\u00e9", "\u00df", "\u00e4", "\u0416", "\u0430" /* Cyrillic a */, "\u03a9", "\u03b1", "\u05d0", "\u0627", "\u4e2d", "\u3042", "\ud55c",
	"\uff21", "\uff5a", "\uff11", "\uff19", "\uff3f" /* fullwidth A z 1 9 _ */, "\u0663", "\u0660" /* Arabic-Indic digits */, "\u06f5", "\u0969", "\u0e53",
	"\u00b2", "\u2167", "\u00bd", "\u212a" /* Kelvin sign, folds to k */, "\u017f" /* long s, folds to s */, "\u0130", "\u0131",
	"\u0301" /* combining acute */, "\u20dd", "\u200d" /* ZWJ */, "\u200b", "\u00a0", "\ufeff", "\ufffd",
	"\U0001d7d8" /* mathematical double-struck zero */, "\U0001d400", "\U0001f600", "\U00010400",
}

var invalidUTF8 = []string{"\x80", "\xff", "\xc0\x80", "\xc3", "\xe2\x82", "\xed\xa0\x80", "\xf4\x90\x80\x80", "\xfe", "\xc1\xbf", "\xf0\x9f"}

func randValid(rng *rand.Rand, n int) string {
	b := make([]byte, n)
	for i := range b {
		b[i] = validChars[rng.Intn(len(validChars))]
	}
	return string(b)
}

type nameCase struct {
	Name  string
	Class string
}

func (c nameCase) json() map[string]any {
	return map[string]any{"name_quoted": fmt.Sprintf("%q", c.Name), "bytes": len(c.Name), "runes": len([]rune(c.Name)), "class": c.Class, "reference_admits": refValid(c.Name)}
}

// genName draws one name; the classes sit on both sides of every boundary of the predicate.
func genName(rng *rand.Rand) nameCase {
	switch rng.Intn(12) {
	case 0, 1:
		return nameCase{randValid(rng, 2+rng.Intn(15)), "valid-random"}
	case 2:
		ls := []int{0, 1, 2, 3, 15, 16, 17, 18, 32, 63, 64}
		return nameCase{randValid(rng, ls[rng.Intn(len(ls))]), "length-boundary"}
	case 3:
		// one inadmissible ASCII byte somewhere in an otherwise fine name (length unchanged)
		b := []byte(randValid(rng, 2+rng.Intn(15)))
		bad := boundaryASCII[rng.Intn(len(boundaryASCII))]
		pos := []int{0, len(b) - 1, rng.Intn(len(b))}[rng.Intn(3)]
		b[pos] = bad[0]
		return nameCase{string(b), "one-bad-ascii-byte"}
	case 4:
		// admissible name plus a suffix/prefix that anchoring mistakes let through
		s := randValid(rng, 1+rng.Intn(16))
		ex := []string{"\n", "\r\n", " ", "\x00", "\n\n", ".", "\t"}[rng.Intn(7)]
		if rng.Intn(4) == 0 {
			return nameCase{ex + s, "bad-prefix"}
		}
		return nameCase{s + ex, "bad-suffix"}
	case 5:
		// admissible characters mixed with Unicode letters/digits/marks, 2..16 runes
		n := 2 + rng.Intn(15)
		var sb strings.Builder
		k := 0
		for i := 0; i < n; i++ {
			if rng.Intn(3) == 0 || (i == n-1 && k == 0) {
				sb.WriteString(unicodeLookalikes[rng.Intn(len(unicodeLookalikes))])
				k++
			} else {
				sb.WriteByte(validChars[rng.Intn(len(validChars))])
			}
		}
		return nameCase{sb.String(), "unicode-mixed"}
	case 6:
		// only Unicode letters/digits: rune count inside 2..16, byte count on either side of 16
		n := 2 + rng.Intn(15)
		var sb strings.Builder
		for i := 0; i < n; i++ {
			sb.WriteString(unicodeLookalikes[rng.Intn(len(unicodeLookalikes))])
		}
		return nameCase{sb.String(), "unicode-only"}
	case 7:
		s := randValid(rng, 1+rng.Intn(15))
		bad := invalidUTF8[rng.Intn(len(invalidUTF8))]
		pos := rng.Intn(len(s) + 1)
		return nameCase{s[:pos] + bad + s[pos:], "invalid-utf8"}
	case 8:
		b := make([]byte, rng.Intn(21))
		rng.Read(b)
		return nameCase{string(b), "random-bytes"}
	case 9:
		// the extreme admissible characters of each range at the ends
		ends := "AZaz09_"
		b := []byte(randValid(rng, 2+rng.Intn(15)))
		b[0] = ends[rng.Intn(len(ends))]
		b[len(b)-1] = ends[rng.Intn(len(ends))]
		return nameCase{string(b), "valid-range-ends"}
	case 10:
		// long: beyond 16 up to and past the 64-byte wire cap, admissible characters only
		return nameCase{randValid(rng, 17+rng.Intn(50)), "too-long"}
	default:
		// 16 characters of four bytes each = exactly the wire cap, and one more
		n := 15 + rng.Intn(3)
		four := []string{"\U0001d7d8", "\U0001d400", "\U0001f600", "\U00010400"}
		var sb strings.Builder
		for i := 0; i < n; i++ {
			sb.WriteString(four[rng.Intn(len(four))])
		}
		return nameCase{sb.String(), "four-byte-runes-at-wire-cap"}
	}
}

// boundaryList is the fixed part of the e2e workload: both sides of every boundary.
func boundaryList() []nameCase {
	var out []nameCase
	add := func(n, c string) { out = append(out, nameCase{n, c}) }
	base16 := "Abcdefgh_1234567" // 16
	base2 := "Zz"
	for _, l := range []int{1, 2, 3, 15, 16, 17, 18, 32, 63, 64, 65} {
		add(strings.Repeat("x", l), "length-boundary")
	}
	add("", "length-boundary")
	for _, ch := range "AZaz09_" {
		add(string(ch)+"q", "valid-range-ends")
		add("q"+string(ch), "valid-range-ends")
		add(strings.Repeat(string(ch), 16), "valid-range-ends")
		add(strings.Repeat(string(ch), 17), "length-boundary")
		add(string(ch), "length-boundary")
	}
	bads := append(append(append([]string{}, boundaryASCII...), unicodeLookalikes...), invalidUTF8...)
	for _, bad := range bads {
		cls := "one-bad-ascii-byte"
		if len(bad) > 1 || bad[0] >= 0x80 {
			cls = "unicode-or-invalid-utf8-inside"
		}
		add(bad+base2[1:], cls)             // first position, short
		add(base2[:1]+bad, cls)             // last position, short
		add(base16[:7]+bad+base16[8:], cls) // middle, 16 "characters"
		add(base16[:15]+bad, cls)           // last of 16
		add(base16[:14]+bad, cls)           // 15 characters: byte length may still be <= 16
	}
	for _, sfx := range []string{"\n", "\r\n", " ", "\x00", "\t"} {
		add(base16+sfx, "bad-suffix")      // 17+ bytes
		add(base16[:15]+sfx, "bad-suffix") // <= 16/17 bytes
		add("ab"+sfx, "bad-suffix")
		add(sfx+"ab", "bad-prefix")
	}
	// byte length <= 16 but few runes; rune count <= 16 but many bytes
	add(strings.Repeat("\u00e9", 8), "unicode-only")      // 16 bytes, 8 runes
	add(strings.Repeat("\u00e9", 16), "unicode-only")     // 32 bytes, 16 runes
	add(strings.Repeat("\u4e2d", 5)+"a", "unicode-mixed") // 16 bytes
	add(strings.Repeat("\uff21", 2), "unicode-only")
	add(strings.Repeat("\uff11", 16), "unicode-only")
	add(strings.Repeat("\u0663", 3), "unicode-only")
	add("a\u0301b", "unicode-mixed")
	add(strings.Repeat("\U0001d7d8", 16), "four-byte-runes-at-wire-cap") // 64 bytes, 16 runes
	add(strings.Repeat("\U0001d7d8", 17), "four-byte-runes-at-wire-cap") // 68 bytes
	add(strings.Repeat("\U0001d7d8", 4), "unicode-only")                 // 16 bytes
	add("Notch", "valid-random")
	add("notch", "valid-random")
	add("NOTCH", "valid-random")
	add("jeb_", "valid-random")
	add("__", "valid-range-ends")
	add("00", "valid-range-ends")
	add("\u212aelvin", "unicode-mixed")
	return out
}

// ---- wire helpers (hand-written; the fake client does not use Gate's ServerLogin codec) ----

func appendVarInt(b []byte, v int) []byte {
	u := uint32(v)
	for u >= 0x80 {
		b = append(b, byte(u)|0x80)
		u >>= 7
	}
	return append(b, byte(u))
}

func readVarInt(b []byte) (v int, n int, ok bool) {
	var u uint32
	for i := 0; i < 5 && i < len(b); i++ {
		u |= uint32(b[i]&0x7f) << (7 * i)
		if b[i]&0x80 == 0 {
			return int(int32(u)), i + 1, true
		}
	}
	return 0, 0, false
}

func readString(b []byte) (s string, rest []byte, ok bool) {
	l, n, ok := readVarInt(b)
	if !ok || l < 0 || n+l > len(b) {
		return "", nil, false
	}
	return string(b[n : n+l]), b[n+l:], true
}

// loginStart builds the serverbound login start (id 0x00) of protocol pv.
func loginStart(pv int, name string, claimed [16]byte, sendOptional bool) []byte {
	b := []byte{0x00}
	b = appendVarInt(b, len(name))
	b = append(b, name...)
	switch {
	case pv >= 764: // 1.20.2+: uuid
		b = append(b, claimed[:]...)
	case pv >= 761: // 1.19.3 .. 1.20.1: optional uuid
		if sendOptional {
			b = append(append(b, 1), claimed[:]...)
		} else {
			b = append(b, 0)
		}
	case pv == 760: // 1.19.1/2: optional key, optional uuid
		b = append(b, 0)
		if sendOptional {
			b = append(append(b, 1), claimed[:]...)
		} else {
			b = append(b, 0)
		}
	case pv == 759: // 1.19: optional key
		b = append(b, 0)
	}
	return b
}

type wireLogin struct {
	Name    string
	HasUUID bool
	UUID    [16]byte
	Parsed  bool
}

// parseLoginStart parses what the backend received.
func parseLoginStart(pv int, payload []byte) wireLogin {
	var w wireLogin
	id, n, ok := readVarInt(payload)
	if !ok || id != 0 {
		return w
	}
	name, rest, ok := readString(payload[n:])
	if !ok {
		return w
	}
	w.Name = name
	take := func() bool {
		if len(rest) < 16 {
			return false
		}
		copy(w.UUID[:], rest[:16])
		w.HasUUID = true
		rest = rest[16:]
		return true
	}
	flag := func() (bool, bool) {
		if len(rest) < 1 {
			return false, false
		}
		f := rest[0]
		rest = rest[1:]
		return f != 0, true
	}
	switch {
	case pv >= 764:
		if !take() {
			return w
		}
	case pv >= 761:
		f, ok := flag()
		if !ok || (f && !take()) {
			return w
		}
	case pv == 760:
		k, ok := flag()
		if !ok || k { // a key is never expected here (the fake client sends none)
			return w
		}
		f, ok := flag()
		if !ok || (f && !take()) {
			return w
		}
	case pv == 759:
		k, ok := flag()
		if !ok || k {
			return w
		}
	}
	w.Parsed = len(rest) == 0
	return w
}

type wireSuccess struct {
	UUID   [16]byte
	Name   string
	Parsed bool
}

// parseLoginSuccess parses the clientbound login success (id 0x02).
func parseLoginSuccess(pv int, payload []byte) wireSuccess {
	var w wireSuccess
	id, n, ok := readVarInt(payload)
	if !ok || id != 2 {
		return w
	}
	rest := payload[n:]
	if pv >= 735 { // 1.16+: binary uuid
		if len(rest) < 16 {
			return w
		}
		copy(w.UUID[:], rest[:16])
		rest = rest[16:]
	} else {
		s, r, ok := readString(rest)
		if !ok {
			return w
		}
		rest = r
		x, err := hex.DecodeString(strings.ReplaceAll(s, "-", ""))
		if err != nil || len(x) != 16 {
			return w
		}
		if pv >= 5 && (len(s) != 36 || s[8] != '-' || s[13] != '-' || s[18] != '-' || s[23] != '-') {
			return w
		}
		copy(w.UUID[:], x)
	}
	name, _, ok := readString(rest)
	if !ok {
		return w
	}
	w.Name = name
	w.Parsed = true
	return w
}

// ---- e2e worker ---------------------------------------------------------------------------

type worker struct {
	h  *e2e.Harness
	b  *e2e.Backend
	mu sync.Mutex
	// Player.ID() as reported at PostLoginEvent, by user name
	post map[string][]uuid.UUID
}

func newWorker() (*worker, error) {
	h, err := e2e.New(e2e.Options{})
	if err != nil {
		return nil, err
	}
	w := &worker{h: h, post: map[string][]uuid.UUID{}}
	w.b, err = h.AddBackend("lobby", e2e.Always(e2e.Behavior{Mode: e2e.Accept, Threshold: -1}))
	if err != nil {
		return nil, err
	}
	h.Cfg.Try = []string{"lobby"}
	event.Subscribe(h.Ev, 0, func(e *proxy.PostLoginEvent) {
		w.mu.Lock()
		w.post[e.Player().Username()] = append(w.post[e.Player().Username()], e.Player().ID())
		w.mu.Unlock()
	})
	return w, nil
}

func (w *worker) postID(name string, d time.Duration) (uuid.UUID, int) {
	deadline := time.Now().Add(d)
	for {
		w.mu.Lock()
		ids := w.post[name]
		w.mu.Unlock()
		if len(ids) > 0 || !time.Now().Before(deadline) {
			if len(ids) == 0 {
				return uuid.Nil, 0
			}
			return ids[len(ids)-1], len(ids)
		}
		time.Sleep(500 * time.Microsecond)
	}
}

var e2eProtocols = []int{47, 340, 754, 758, 759, 760, 761, 763, 764, 765, 767, 770, 775}

type e2eCase struct {
	nameCase
	Proto        int
	Claimed      [16]byte
	SendOptional bool
}

func (c e2eCase) json() map[string]any {
	m := c.nameCase.json()
	m["protocol"] = c.Proto
	m["client_claimed_uuid"] = dashed(c.Claimed)
	m["client_sends_optional_uuid"] = c.SendOptional
	return m
}

type tally struct {
	mu sync.Mutex
	m  map[string]int64
}

func (t *tally) add(k string) { t.mu.Lock(); t.m[k]++; t.mu.Unlock() }

// runLogin performs one real login and judges it. It returns false if the worker's proxy
// should be replaced (a session did not end cleanly).
func runLogin(r *lib.Run, w *worker, c e2eCase, tl *tally) bool {
	want := refValid(c.Name)
	dialsBefore := w.b.Dials()
	w.mu.Lock()
	delete(w.post, c.Name)
	w.mu.Unlock()
	cl := w.h.NewClient(e2e.ClientOpts{Protocol: proto.Protocol(c.Proto)})
	defer func() { cl.Close() }()
	_ = cl.Handshake("play.example.com", 25565, 2)
	_ = cl.SendRaw(loginStart(c.Proto, c.Name, c.Claimed, c.SendOptional))
	res := cl.AwaitJoin(e2e.Watchdog)
	if res.TimedOut {
		r.Inconclusive(fmt.Sprintf("login of %q (protocol %d) neither completed nor ended within the watchdog", c.Name, c.Proto))
		return false
	}
	accepted := res.Success
	r.Eval(1)
	tl.add("e2e_logins")
	tl.add(fmt.Sprintf("proto_%d", c.Proto))
	wit := c.json()
	wit["observed_login_success"] = accepted
	wit["observed_joined_backend"] = res.Joined
	wit["observed_disconnect"] = e2e.ReasonText(res.Kicked)
	wit["observed_closed"] = res.Closed
	if accepted != want {
		if accepted {
			r.Violation("username-filter:inadmissible-name-accepted:"+c.Class, fmt.Sprintf("login success for user name %q, which is not 2..16 characters of [A-Za-z0-9_]", c.Name), wit)
		} else {
			why := "closed"
			if res.Kicked != nil {
				why = "disconnect"
				if strings.Contains(e2e.ReasonText(res.Kicked), "invalid format") {
					why = "invalid-format-disconnect"
				}
			}
			r.Violation("username-filter:admissible-name-rejected:"+why, fmt.Sprintf("no login success for the admissible user name %q", c.Name), wit)
		}
		return true
	}
	r.Distinct(fmt.Sprintf("e2e|%s|%v|%d", c.Class, accepted, c.Proto))
	if !accepted {
		tl.add("e2e_rejected")
		tl.add("class:" + c.Class + ":rejected")
		if res.Kicked != nil {
			tl.add("e2e_rejected_by_disconnect_packet")
		} else {
			tl.add("e2e_rejected_by_close")
		}
		// a rejected login must not have reached a backend
		if !cl.HandleConnReturned(e2e.Watchdog) {
			r.Inconclusive(fmt.Sprintf("HandleConn did not return after rejecting %q", c.Name))
			return false
		}
		if d := w.b.Dials(); d != dialsBefore {
			r.Violation("username-filter:rejected-login-dialled-backend", fmt.Sprintf("the backend was dialled for the rejected user name %q", c.Name), wit)
		}
		if r.WantSample() {
			r.Sample(wit)
		}
		return true
	}
	tl.add("e2e_accepted")
	tl.add("class:" + c.Class + ":accepted")
	ref := refUUID(c.Name)
	wit["reference_uuid"] = dashed(ref)
	// (a) login success as received by the client
	var ls wireSuccess
	for _, rc := range cl.Log() {
		if _, ok := rc.Packet.(*packet.ServerLoginSuccess); ok {
			ls = parseLoginSuccess(c.Proto, rc.Payload)
			wit["login_success_payload_hex"] = hex.EncodeToString(rc.Payload[:min(len(rc.Payload), 96)])
			break
		}
	}
	if !ls.Parsed {
		r.Inconclusive(fmt.Sprintf("login success for %q (protocol %d) not parseable by the monitor", c.Name, c.Proto))
	} else {
		tl.add("login_success_uuid_compared")
		wit["login_success_uuid"] = dashed(ls.UUID)
		if ls.UUID != ref {
			r.Violation("offline-uuid:login-success-differs", fmt.Sprintf("login success carries %s, reference offline UUID of %q is %s", dashed(ls.UUID), c.Name, dashed(ref)), wit)
		}
		if ls.Name != c.Name {
			r.Violation("offline-identity:login-success-name-differs", fmt.Sprintf("login success names %q, the client logged in as %q", ls.Name, c.Name), wit)
		}
	}
	// (b) backend leg
	if !res.Joined {
		r.Inconclusive(fmt.Sprintf("accepted login of %q did not reach the backend: %+v", c.Name, res))
		return false
	}
	conns := w.b.Conns()
	if w.b.Dials() != dialsBefore+1 || len(conns) == 0 {
		r.Inconclusive(fmt.Sprintf("expected exactly one backend dial for %q, saw %d", c.Name, w.b.Dials()-dialsBefore))
	} else {
		bc := conns[len(conns)-1]
		var bl wireLogin
		for _, rc := range bc.Log() {
			if _, ok := rc.Packet.(*packet.ServerLogin); ok {
				bl = parseLoginStart(c.Proto, rc.Payload)
				wit["backend_login_start_payload_hex"] = hex.EncodeToString(rc.Payload[:min(len(rc.Payload), 96)])
				break
			}
		}
		switch {
		case !bl.Parsed:
			r.Inconclusive(fmt.Sprintf("backend login start for %q (protocol %d) not parseable by the monitor", c.Name, c.Proto))
		default:
			tl.add("backend_login_name_compared")
			if bl.Name != c.Name {
				r.Violation("offline-identity:backend-name-differs", fmt.Sprintf("backend login start names %q, the client logged in as %q (the backend derives another offline UUID)", bl.Name, c.Name), wit)
			}
			if bl.HasUUID {
				tl.add("backend_login_uuid_compared")
				tl.add(fmt.Sprintf("backend_uuid_carried_proto_%d", c.Proto))
				wit["backend_uuid"] = dashed(bl.UUID)
				if bl.UUID != ref {
					sig := "offline-uuid:backend-sees-other-uuid"
					if bl.UUID == ([16]byte{}) {
						sig = "offline-uuid:backend-sees-nil-uuid"
					} else if bl.UUID == c.Claimed {
						sig = "offline-uuid:backend-sees-client-claimed-uuid"
					}
					r.Violation(sig, fmt.Sprintf("backend login start carries %s, reference offline UUID of %q is %s", dashed(bl.UUID), c.Name, dashed(ref)), wit)
				}
			} else {
				tl.add("backend_login_without_uuid_field")
			}
		}
	}
	// (c) the API's view
	id, n := w.postID(c.Name, e2e.Watchdog)
	if n == 0 {
		r.Inconclusive(fmt.Sprintf("no PostLoginEvent observed for %q", c.Name))
	} else {
		tl.add("postlogin_player_id_compared")
		wit["player_id"] = id.String()
		if [16]byte(id) != ref {
			r.Violation("offline-uuid:player-id-differs", fmt.Sprintf("Player.ID() is %s, reference offline UUID of %q is %s", id, c.Name, dashed(ref)), wit)
		}
	}
	if r.WantSample() {
		r.Sample(wit)
	}
	cl.Close()
	if !cl.HandleConnReturned(e2e.Watchdog) {
		r.Inconclusive(fmt.Sprintf("HandleConn did not return after closing the session of %q", c.Name))
		return false
	}
	return true
}

// ---- the check ----------------------------------------------------------------------------

func checkUUID(r *lib.Run, c nameCase, tl *tally) {
	ref := refUUID(c.Name)
	got := uuid.OfflinePlayerUUID(c.Name)
	r.Eval(1)
	if [16]byte(got) != ref {
		sig := "offline-uuid:function-differs"
		switch {
		case got[6]>>4 != 3:
			sig = "offline-uuid:version-nibble"
		case got[8]&0xc0 != 0x80:
			sig = "offline-uuid:variant-bits"
		}
		r.Violation(sig, fmt.Sprintf("OfflinePlayerUUID(%q) = %s, reference %s", c.Name, hex.EncodeToString(got[:]), dashed(ref)), c.json())
		return
	}
	if s := got.String(); s != dashed(ref) {
		r.Violation("offline-uuid:text-form-differs", fmt.Sprintf("OfflinePlayerUUID(%q).String() = %q, reference %q", c.Name, s, dashed(ref)), c.json())
	}
	tl.add("uuid_compared")
}

func checkHook(r *lib.Run, c nameCase, tl *tally) {
	if hookPredicate == nil {
		return
	}
	want := refValid(c.Name)
	got := hookPredicate(c.Name)
	r.Eval(1)
	tl.add("predicate_compared")
	if want {
		tl.add("predicate_admitted")
	}
	if got != want {
		dir := "inadmissible-name-accepted"
		if want {
			dir = "admissible-name-rejected"
		}
		r.Violation("username-filter:"+dir+":"+c.Class, fmt.Sprintf("login username check says %v for %q, reference says %v", got, c.Name, want), c.json())
	}
}

func TestC10(t *testing.T) {
	r := lib.Start(t, "C10")
	defer r.Finish()
	r.Rule("(1) names: every string of 0,1,2 bytes (exhaustive) + generated names in 12 classes on both sides of each boundary of the predicate (length 0/1/2/16/17/64, neighbours of A-Z a-z 0-9 _, NUL, trailing newline, Unicode letters/digits/marks, invalid UTF-8, 4-byte runes at the 64-byte wire cap); each is fed to OfflinePlayerUUID (and, with tag verif, to the username predicate hook) and compared with the reference. (2) real logins: a fixed boundary list + generated names, each with a protocol from {47,340,754,758,759,760,761,763,764,765,767,770,775} and a hostile client-claimed UUID; distinct = (class, accepted?, protocol) for logins, the name itself otherwise")
	r.Assume("crypto/md5 of the Go standard library; the published vanilla offline UUIDs of Notch and Steve anchor the reference")
	r.Assume("fake client/backend frame packets with the harness's own codec; login start is built and login start/login success are parsed by hand-written code in the monitor")
	tl := &tally{m: map[string]int64{}}

	// anchors: the reference itself against values known from vanilla
	for n, want := range map[string]string{"Notch": "b50ad385-829d-3141-a216-7e7d7539ba7f", "Steve": "5627dd98-e6be-3c21-b8a8-e92344183641"} {
		if dashed(refUUID(n)) != want {
			t.Fatalf("reference broken: %s -> %s", n, dashed(refUUID(n)))
		}
	}

	// ---- (1) pure functions: exhaustive short strings
	short := 0
	check := func(c nameCase) {
		checkUUID(r, c, tl)
		checkHook(r, c, tl)
		if p := profile.NewOffline(c.Name); [16]byte(p.ID) != refUUID(c.Name) || p.Name != c.Name {
			r.Violation("offline-uuid:profile-differs", fmt.Sprintf("profile.NewOffline(%q) = {%s %q}", c.Name, p.ID, p.Name), c.json())
		}
	}
	check(nameCase{"", "exhaustive-0-bytes"})
	for a := 0; a < 256; a++ {
		check(nameCase{string([]byte{byte(a)}), "exhaustive-1-byte"})
		for b := 0; b < 256; b++ {
			check(nameCase{string([]byte{byte(a), byte(b)}), "exhaustive-2-bytes"})
			short++
		}
		short++
	}
	r.Set("exhaustive_short_strings", short+1)
	r.Distinct("exhaustive-1-byte")
	r.Distinct("exhaustive-2-bytes")
	// generated
	rng := r.Rng("names")
	gen := r.N(200000, 3000000)
	classSeen := map[string]int{}
	for i := 0; i < gen; i++ {
		c := genName(rng)
		classSeen[c.Class]++
		check(c)
		if i < 50000 {
			r.Distinct("name|" + c.Name)
		}
		if i%20011 == 0 && i < 3*20011 {
			m := c.json()
			m["reference_uuid"] = dashed(refUUID(c.Name))
			r.Sample(m)
		}
	}
	for _, c := range boundaryList() {
		check(c)
	}
	r.Set("generated_names_by_class", classSeen)
	r.Set("predicate_hook_present", hookPredicate != nil)

	// ---- (2)+(3) real logins
	var cases []e2eCase
	erng := r.Rng("e2e")
	mk := func(nc nameCase) e2eCase {
		c := e2eCase{nameCase: nc, Proto: e2eProtocols[erng.Intn(len(e2eProtocols))], SendOptional: erng.Intn(2) == 0}
		if erng.Intn(4) != 0 {
			erng.Read(c.Claimed[:]) // a UUID the client claims for itself: must not become its identity
		}
		return c
	}
	for _, nc := range boundaryList() {
		cases = append(cases, mk(nc))
	}
	for i, n := 0, r.N(1500, 6000); i < n; i++ {
		nc := genName(erng)
		if i%2 == 0 { // keep both outcomes well represented
			nc = nameCase{randValid(erng, 2+erng.Intn(15)), "valid-random"}
			if i%8 == 0 {
				nc = nameCase{randValid(erng, []int{2, 16}[erng.Intn(2)]), "valid-length-boundary"}
			}
		}
		cases = append(cases, mk(nc))
	}
	if r.Thorough() {
		// every 1- and 2-byte user name through a real login
		for a := 0; a < 256; a++ {
			cases = append(cases, mk(nameCase{string([]byte{byte(a)}), "exhaustive-1-byte"}))
			for b := 0; b < 256; b++ {
				cases = append(cases, mk(nameCase{string([]byte{byte(a), byte(b)}), "exhaustive-2-bytes"}))
			}
		}
	}
	r.Set("e2e_cases_planned", len(cases))
	const workers = 8
	var wg sync.WaitGroup
	next := make(chan e2eCase, 64)
	for k := 0; k < workers; k++ {
		wg.Add(1)
		go func() {
			defer wg.Done()
			var w *worker
			for c := range next {
				if w == nil {
					var err error
					if w, err = newWorker(); err != nil {
						r.Inconclusive("cannot build a proxy: " + err.Error())
						continue
					}
				}
				if !runLogin(r, w, c, tl) {
					w = nil // start over with a fresh proxy
				}
			}
		}()
	}
	for _, c := range cases {
		r.LogCase(c.json())
		next <- c
	}
	close(next)
	wg.Wait()

	tl.mu.Lock()
	for k, v := range tl.m {
		r.Set(k, v)
	}
	acc, rej := tl.m["e2e_accepted"], tl.m["e2e_rejected"]
	tl.mu.Unlock()
	if acc == 0 || rej == 0 {
		r.Inconclusive(fmt.Sprintf("the e2e workload did not observe both outcomes (accepted=%d rejected=%d)", acc, rej))
	}
}
