// C21: secure-chat packets keep client order and conserve acknowledgements.
//
// Each case is one client packet sequence (<= 60 packets) fed, on one goroutine like the
// client read loop, into the real clientPlaySessionHandler.HandlePacket of a hook-built player
// (real chatHandler + chatQueue + ChatState) whose backend is a recording MinecraftConn, for a
// protocol in 761..775:
//
//	chat(text, last-seen offset) | scmd = SessionPlayerCommand(text, offset, with/without
//	argument signatures) | ucmd = UnsignedPlayerCommand(text) (>= 766) | ack(offset 0..25)
//
// Chat outcomes {untouched, rewritten, denied} are decided per chat message by a
// PlayerChatEvent subscriber (SetMessage / SetAllowed(false), e.g. a chat filter). Gate permits
// both for unsigned chat, and for signed chat unless forceKeyAuthentication is set. A rewritten
// chat is forwarded (new text) and carries a last-seen update: it is a catch-up point like any
// other forwarded chat. A denied chat is consumed: the acknowledgements it expressed (and the
// ones held back that the chat state folded into its last-seen update) must not be lost; they
// stay held or reach the backend as a ChatAcknowledgement, as for a consumed command.
//
// Command outcomes {registered proxy command -> consumed, unknown -> forwarded, event deny,
// event forward} are decided per command by a CommandExecuteEvent subscriber on a real
// event.Manager which also yields/sleeps a PRNG-chosen amount; the registered proxy command
// itself sleeps a PRNG-chosen amount (that is the asynchronous part of Gate's command
// handling) and the backend connection stalls writes, so async completions finish in
// arbitrary order relative to the feeding goroutine.
//
// What the backend "receives" is a snapshot of what Gate's encoder produces for each packet
// at the moment it is written, decoded again by the independent decoder ref/chatwire. The
// verdict is computed offline on that stream:
//
//	order     chat/command packets (unique ids in their text) appear in client order, each
//	          expected one exactly once, unchanged, unsigned commands as command-only packets;
//	never>    at every backend packet: acks received so far <= acks the client had expressed up
//	          to the latest client packet that packet can derive from;
//	lag<40    after client packet i: C_i - B_i < 40 (B_i over-approximated by everything that
//	          arrived before the next packet provably derived from a later client packet);
//	catch-up  right after a forwarded chat/signed-command packet (it carries a last-seen update)
//	          B == C exactly;
//	unsigned  an UnsignedPlayerCommand is forwarded without a last-seen update and does not
//	          flush held acks (a loss shows at the next catch-up point and is attributed).
//
// Reading / latitude (DESIGN §6 C21 R): outcomes are restricted to consumed / forwarded /
// denied; rewriting is C22. Gate refuses by design to deny/consume a command that carries
// argument signatures (it drops it, and kicks under forceKeyAuthentication), which loses the
// acknowledgements that command carried: that sub-class ("signed-consumed") is generated,
// only order is asserted from the first such command on, and what was observed is reported
// in the evidence (not as a violation). Likewise, rewriting or denying a SIGNED chat message
// under forceKeyAuthentication is answered by disconnecting the player ("illegal protocol
// state"): sub-class "signed-chat-touched", only order (and no crash) is asserted from the
// first such chat on.
package c21

import (
	"bytes"
	"fmt"
	"math/rand"
	"runtime"
	"strconv"
	"strings"
	"sync"
	"sync/atomic"
	"testing"
	"time"

	"github.com/robinbraemer/event"
	"go.minekube.com/brigodier"

	"go.minekube.com/gate/pkg/command"
	"go.minekube.com/gate/pkg/edition/java/config"
	"go.minekube.com/gate/pkg/edition/java/profile"
	"go.minekube.com/gate/pkg/edition/java/proto/packet/chat"
	"go.minekube.com/gate/pkg/edition/java/proxy"
	"go.minekube.com/gate/pkg/edition/java/proxy/verifh/lib"
	"go.minekube.com/gate/pkg/edition/java/proxy/verifh/ref/chatwire"
	"go.minekube.com/gate/pkg/edition/java/proxy/verifh/ref/mcrec"
	"go.minekube.com/gate/pkg/gate/proto"
	"go.minekube.com/gate/pkg/internal/mathutil"
	"go.minekube.com/gate/pkg/util/uuid"
)

type item struct {
	Kind       string `json:"k"`           // chat | scmd | ucmd | ack
	Text       string `json:"t,omitempty"` // message / command line
	Offset     int    `json:"o"`
	SignedArgs bool   `json:"sig,omitempty"`
	SignedChat bool   `json:"sc,omitempty"`
	Outcome    string `json:"out,omitempty"`     // proxy | unknown | deny | forward
	ChatOut    string `json:"co,omitempty"`      // chat: "" (untouched) | rewrite | deny (PlayerChatEvent subscriber)
	Rewrite    string `json:"rw,omitempty"`      // chat: the text the subscriber sets
	Touched    bool   `json:"touched,omitempty"` // signed chat rewritten/denied under forceKeyAuthentication: Gate disconnects the player
	EvDelay    int    `json:"ed,omitempty"`      // event handler: <100 yields, else (v-100) microseconds sleep
	CmdDelay   int    `json:"cd,omitempty"`      // proxy command body: same encoding
	Gap        int    `json:"g,omitempty"`       // yields before feeding this packet
}

type spec struct {
	Seed         int64  `json:"seed"`
	Proto        int    `json:"proto"`
	Sub          string `json:"sub"` // main | signed-consumed | signed-chat-touched
	ForceKeyAuth bool   `json:"force_key_auth,omitempty"`
	StallMax     int    `json:"stall_max"`
	Items        []item `json:"items"`
}

func delay(rng *rand.Rand) int {
	switch rng.Intn(6) {
	case 0, 1, 2:
		return 0
	case 3:
		return rng.Intn(20)
	case 4:
		return 100 + rng.Intn(60)
	default:
		return 100 + rng.Intn(250)
	}
}

func doDelay(v int) {
	if v <= 0 {
		return
	}
	if v < 100 {
		for i := 0; i < v; i++ {
			runtime.Gosched()
		}
		return
	}
	time.Sleep(time.Duration(v-100) * time.Microsecond)
}

func genSpec(seed int64) *spec {
	rng := rand.New(rand.NewSource(seed))
	sp := &spec{Seed: seed, Proto: 761 + rng.Intn(15), Sub: "main", StallMax: rng.Intn(8)}
	switch rng.Intn(20) {
	case 0, 1:
		sp.Sub = "signed-consumed"
		sp.ForceKeyAuth = rng.Intn(2) == 0
	case 2:
		// a signed chat message is rewritten / denied under forceKeyAuthentication
		sp.Sub = "signed-chat-touched"
		sp.ForceKeyAuth = true
	}
	n := 1 + rng.Intn(59)
	ackHeavy := rng.Intn(3) == 0
	bigOffsets := rng.Intn(4) == 0
	for i := 0; i < n; i++ {
		it := item{Gap: 0}
		if rng.Intn(4) == 0 {
			it.Gap = rng.Intn(10)
		}
		r := rng.Intn(100)
		switch {
		case r < 25 || (ackHeavy && r < 55):
			it.Kind = "ack"
			it.Offset = rng.Intn(26)
		case r < 60:
			it.Kind = "chat"
		case r < 80 || sp.Proto < 766:
			it.Kind = "scmd"
		default:
			it.Kind = "ucmd"
		}
		if it.Kind == "chat" || it.Kind == "scmd" {
			if bigOffsets {
				it.Offset = rng.Intn(26)
			} else if rng.Intn(2) == 0 {
				it.Offset = rng.Intn(6)
			}
		}
		switch it.Kind {
		case "chat":
			it.Text = fmt.Sprintf("hello i%d", i)
			it.SignedChat = rng.Intn(2) == 0
			// PlayerChatEvent outcome. Without forceKeyAuthentication Gate permits rewriting and
			// denying every chat message; with it, only unsigned ones (touching a signed one
			// disconnects the player: sub-class signed-chat-touched)
			if sp.Sub == "signed-chat-touched" || !sp.ForceKeyAuth || !it.SignedChat {
				switch r := rng.Intn(20); {
				case r < 5:
					it.ChatOut = "rewrite"
					it.Rewrite = fmt.Sprintf("filtered (%d) i%d", rng.Intn(1000), i)
				case r < 8:
					it.ChatOut = "deny"
				}
				if it.ChatOut != "" {
					it.EvDelay = delay(rng)
					it.Touched = sp.ForceKeyAuth && it.SignedChat
				}
			}
		case "scmd", "ucmd":
			it.Outcome = []string{"proxy", "unknown", "deny", "forward"}[rng.Intn(4)]
			root := "zz"
			if it.Outcome == "proxy" || (it.Outcome != "unknown" && rng.Intn(2) == 0) {
				root = "px"
			}
			it.Text = fmt.Sprintf("%s i%d", root, i)
			it.EvDelay = delay(rng)
			it.CmdDelay = delay(rng)
			if it.Kind == "scmd" && rng.Intn(10) < 3 {
				it.SignedArgs = true
				if sp.Sub != "signed-consumed" && (it.Outcome == "proxy" || it.Outcome == "deny") {
					it.Outcome = []string{"unknown", "forward"}[rng.Intn(2)]
					if it.Outcome == "unknown" {
						it.Text = fmt.Sprintf("zz i%d", i)
					}
				}
			}
		}
		sp.Items = append(sp.Items, it)
	}
	// the closing chat message carries a last-seen update: everything held must be flushed by it
	sp.Items = append(sp.Items, item{Kind: "chat", Text: fmt.Sprintf("bye i%d", len(sp.Items)), Offset: rng.Intn(3)})
	return sp
}

func idOf(text string) int {
	j := strings.LastIndex(text, " i")
	if j < 0 {
		return -1
	}
	v, err := strconv.Atoi(text[j+2:])
	if err != nil {
		return -1
	}
	return v
}

// ---- execution ---------------------------------------------------------------------------

type rec struct {
	S    int64
	Kind string // chat | scmd | ucmd | ack | other:<type>
	B    []byte
}

type run struct {
	sp         *spec
	clock      atomic.Int64
	mu         sync.Mutex
	stream     []rec
	callStamp  []int64
	invoked    map[int]int // proxy command invocations by item id
	evSeen     map[int]int
	chatEvSeen map[int]int
	kicked     bool
	heldAtEnd  int
	finalSeen  chan struct{}
	fwdCount   atomic.Int32
	encodeErr  []string
}

func (x *run) snapshot(p proto.Packet) {
	ctx := &proto.PacketContext{Direction: proto.ServerBound, Protocol: proto.Protocol(x.sp.Proto), Packet: p}
	var buf bytes.Buffer
	kind := ""
	switch p.(type) {
	case *chat.SessionPlayerChat:
		kind = "chat"
	case *chat.SessionPlayerCommand:
		kind = "scmd"
	case *chat.UnsignedPlayerCommand:
		kind = "ucmd"
	case *chat.ChatAcknowledgement:
		kind = "ack"
	default:
		kind = fmt.Sprintf("other:%T", p)
	}
	var err error
	if !strings.HasPrefix(kind, "other:") {
		err = p.Encode(ctx, &buf)
	}
	x.mu.Lock()
	if err != nil {
		x.encodeErr = append(x.encodeErr, fmt.Sprintf("%s: %v", kind, err))
	}
	x.stream = append(x.stream, rec{S: x.clock.Add(1), Kind: kind, B: buf.Bytes()})
	x.mu.Unlock()
	if kind != "ack" {
		x.fwdCount.Add(1)
	}
	if c, ok := p.(*chat.SessionPlayerChat); ok && c.Message == x.sp.Items[len(x.sp.Items)-1].Text {
		select {
		case x.finalSeen <- struct{}{}:
		default:
		}
	}
}

var sig256 = bytes.Repeat([]byte{0xab}, 256)

func execute(sp *spec) (*run, bool) {
	rng := rand.New(rand.NewSource(sp.Seed ^ 0x2545f491))
	x := &run{sp: sp, invoked: map[int]int{}, evSeen: map[int]int{}, chatEvSeen: map[int]int{}, finalSeen: make(chan struct{}, 1), callStamp: make([]int64, len(sp.Items))}
	var stall []int
	if sp.StallMax > 0 {
		stall = make([]int, 16)
		for i := range stall {
			if rng.Intn(2) == 0 {
				stall[i] = rng.Intn(sp.StallMax + 1)
			}
		}
	}
	var stIdx atomic.Int32
	client := mcrec.New(proto.Protocol(sp.Proto))
	client.OnClose = func() { x.mu.Lock(); x.kicked = true; x.mu.Unlock() }
	backend := mcrec.New(proto.Protocol(sp.Proto))
	backend.Stall = func() {
		if stall == nil {
			return
		}
		for y := stall[int(stIdx.Add(1))%len(stall)]; y > 0; y-- {
			runtime.Gosched()
		}
	}
	backend.OnPacket = func(p proto.Packet, _ bool) { x.snapshot(p) }

	mgr := event.New()
	event.Subscribe(mgr, 0, func(e *proxy.CommandExecuteEvent) {
		id := idOf(e.Command())
		if id < 0 || id >= len(sp.Items) {
			return
		}
		it := sp.Items[id]
		x.mu.Lock()
		x.evSeen[id]++
		x.mu.Unlock()
		doDelay(it.EvDelay)
		switch it.Outcome {
		case "deny":
			e.SetAllowed(false)
		case "forward":
			e.SetForward(true)
		}
	})
	event.Subscribe(mgr, 0, func(e *proxy.PlayerChatEvent) {
		id := idOf(e.Original())
		if id < 0 || id >= len(sp.Items) {
			return
		}
		it := sp.Items[id]
		x.mu.Lock()
		x.chatEvSeen[id]++
		x.mu.Unlock()
		doDelay(it.EvDelay)
		switch it.ChatOut {
		case "rewrite":
			e.SetMessage(it.Rewrite)
		case "deny":
			e.SetAllowed(false)
		}
	})
	var cmds command.Manager
	cmds.Register(brigodier.Literal("px").Then(
		brigodier.Argument("rest", brigodier.StringPhrase).Executes(command.Command(func(c *command.Context) error {
			id := idOf(" " + c.String("rest"))
			if id >= 0 && id < len(sp.Items) {
				doDelay(sp.Items[id].CmdDelay)
			}
			x.mu.Lock()
			x.invoked[id]++
			x.mu.Unlock()
			return nil
		}))))
	fx := proxy.VerifC21NewChat(proxy.VerifC21Options{
		Client: client, Backend: backend, EventMgr: mgr, Commands: &cmds,
		Config:  &config.Config{ForceKeyAuthentication: sp.ForceKeyAuth},
		Profile: &profile.GameProfile{ID: uuid.New(), Name: "verifc21"},
	})

	base := time.UnixMilli(1_700_000_000_000)
	for i, it := range sp.Items {
		for y := 0; y < it.Gap; y++ {
			runtime.Gosched()
		}
		ls := chat.LastSeenMessages{Offset: it.Offset, Acknowledged: mathutil.BitSet{Bytes: []byte{byte(rng.Intn(256)), byte(rng.Intn(256)), byte(rng.Intn(16))}}, Checksum: byte(rng.Intn(256))}
		ts := base.Add(time.Duration(i) * time.Millisecond)
		var p proto.Packet
		switch it.Kind {
		case "chat":
			c := &chat.SessionPlayerChat{Message: it.Text, Timestamp: ts, Salt: rng.Int63(), LastSeenMessages: ls}
			if it.SignedChat {
				c.Signed, c.Signature = true, sig256
			}
			p = c
		case "scmd":
			c := &chat.SessionPlayerCommand{Command: it.Text, Timestamp: ts, Salt: rng.Int63(), LastSeenMessages: ls}
			if it.SignedArgs {
				c.ArgumentSignatures.Entries = []chat.ArgumentSignature{{Name: "rest", Signature: sig256}}
			}
			p = c
		case "ucmd":
			p = &chat.UnsignedPlayerCommand{SessionPlayerCommand: chat.SessionPlayerCommand{Command: it.Text}}
		case "ack":
			p = &chat.ChatAcknowledgement{Offset: it.Offset}
		}
		x.callStamp[i] = x.clock.Add(1)
		fx.HandlePacket(p)
	}
	// quiescence: the closing chat message is the last task of the ordered queue
	select {
	case <-x.finalSeen:
	case <-time.After(30 * time.Second):
		return x, false
	}
	// only a broken ordering leaves stragglers behind the closing message: collect them
	want := int32(0)
	for _, it := range sp.Items {
		if expectForwarded(it) {
			want++
		}
	}
	for i := 0; i < 400 && x.fwdCount.Load() < want; i++ {
		time.Sleep(500 * time.Microsecond)
	}
	x.heldAtEnd = fx.HeldAcks()
	return x, true
}

func expectForwarded(it item) bool {
	switch it.Kind {
	case "chat":
		return it.ChatOut != "deny" && !it.Touched
	case "scmd", "ucmd":
		return it.Outcome == "unknown" || it.Outcome == "forward"
	}
	return false
}

// refused reports the sub-class Gate refuses by design: consuming/denying a command that
// carries argument signatures.
func refused(it item) bool {
	return it.Kind == "scmd" && it.SignedArgs && (it.Outcome == "proxy" || it.Outcome == "deny")
}

// touchedSigned reports the sub-class Gate answers by disconnecting the player: a signed chat
// message rewritten or denied by a PlayerChatEvent subscriber under forceKeyAuthentication.
func touchedSigned(it item) bool { return it.Kind == "chat" && it.Touched }

// wantText is the text the backend must receive for a forwarded client packet.
func wantText(it item) string {
	if it.Kind == "chat" && it.ChatOut == "rewrite" {
		return it.Rewrite
	}
	return it.Text
}

// ---- offline checker ---------------------------------------------------------------------

type viol struct{ sig, what string }

type pkt struct {
	chatwire.Decoded
	S    int64
	Item int // client item it is pinned to (-1 for acks)
}

func check(x *run) (vs []viol, st map[string]int, describe []string) {
	sp := x.sp
	st = map[string]int{}
	add := func(sig, what string) { vs = append(vs, viol{sig, what}) }
	for _, e := range x.encodeErr {
		add("backend-packet-not-encodable", e)
	}
	n := len(sp.Items)
	// decode the stream
	var ps []pkt
	for _, r := range x.stream {
		var d chatwire.Decoded
		var err error
		switch r.Kind {
		case "chat":
			d, err = chatwire.SessionChat(r.B, sp.Proto)
		case "scmd":
			d, err = chatwire.SessionCommand(r.B, sp.Proto)
		case "ucmd":
			d, err = chatwire.UnsignedCommand(r.B)
		case "ack":
			d, err = chatwire.Ack(r.B)
		default:
			add("unexpected-backend-packet", "backend received "+r.Kind)
			continue
		}
		if err != nil {
			add("backend-packet-malformed", fmt.Sprintf("%s: %v", r.Kind, err))
			continue
		}
		p := pkt{Decoded: d, S: r.S, Item: -1}
		if d.Kind != "ack" {
			p.Item = idOf(d.Text)
		}
		ps = append(ps, p)
		describe = append(describe, fmt.Sprintf("%s %q off=%d", d.Kind, d.Text, d.Offset))
		st["backend_"+d.Kind]++
	}
	// ---- order, presence, shape ------------------------------------------------------
	seen := make([]int, n)
	last := -1
	ordered := true
	for _, p := range ps {
		if p.Kind == "ack" {
			if p.Offset <= 0 {
				add("non-positive-ack-forwarded", fmt.Sprintf("backend received ChatAcknowledgement(%d)", p.Offset))
			}
			continue
		}
		if p.Item < 0 || p.Item >= n {
			add("backend-packet-of-unknown-origin", fmt.Sprintf("%s %q matches no client packet", p.Kind, p.Text))
			ordered = false
			continue
		}
		it := sp.Items[p.Item]
		seen[p.Item]++
		if seen[p.Item] == 2 {
			add("packet-forwarded-more-than-once", fmt.Sprintf("client packet %d (%s %q) reached the backend twice", p.Item, it.Kind, it.Text))
			ordered = false
		}
		if p.Item < last && ordered {
			add("backend-packets-out-of-client-order", fmt.Sprintf("client packet %d (%q) reached the backend after client packet %d", p.Item, it.Text, last))
			ordered = false
		}
		if p.Item > last {
			last = p.Item
		}
		if !expectForwarded(it) {
			if it.Kind == "chat" {
				add("denied-chat-reached-backend", fmt.Sprintf("client packet %d (chat %q, PlayerChatEvent outcome %s, signed=%v) reached the backend as %q", p.Item, it.Text, it.ChatOut, it.SignedChat, p.Text))
			} else {
				add("consumed-or-denied-command-reached-backend", fmt.Sprintf("client packet %d (%s %q, outcome %s) reached the backend", p.Item, it.Kind, it.Text, it.Outcome))
			}
			ordered = false
			continue
		}
		if p.Text != wantText(it) {
			if it.Kind == "chat" && it.ChatOut == "rewrite" {
				add("rewritten-chat-forwarded-with-wrong-text", fmt.Sprintf("client packet %d %q, rewritten to %q by the PlayerChatEvent subscriber, reached the backend as %q", p.Item, it.Text, it.Rewrite, p.Text))
			} else {
				add("forwarded-text-changed", fmt.Sprintf("client packet %d %q reached the backend as %q", p.Item, it.Text, p.Text))
			}
		}
		switch {
		case it.Kind == "ucmd" && p.Kind != "ucmd":
			add("unsigned-command-forwarded-with-last-seen-update", fmt.Sprintf("UnsignedPlayerCommand %q reached the backend as %s (last-seen offset %d)", it.Text, p.Kind, p.Offset))
		case it.Kind != "ucmd" && p.Kind != it.Kind:
			add("forwarded-packet-kind-changed", fmt.Sprintf("client %s %q reached the backend as %s", it.Kind, it.Text, p.Kind))
		}
		if it.Kind == "scmd" && it.SignedArgs && p.Kind == "scmd" && p.ArgSigs != 1 {
			add("argument-signatures-lost", fmt.Sprintf("signed command %q forwarded with %d argument signatures", it.Text, p.ArgSigs))
		}
	}
	for i, it := range sp.Items {
		if expectForwarded(it) && seen[i] == 0 {
			add("forwarded-packet-missing", fmt.Sprintf("client packet %d (%s %q, outcome %s%s) never reached the backend", i, it.Kind, it.Text, it.Outcome, it.ChatOut))
			ordered = false
		}
	}
	// ---- acknowledgement conservation ------------------------------------------------
	taint := n // first client packet of the refused sub-class; accounting is asserted before it
	for i, it := range sp.Items {
		if refused(it) {
			taint = i
			st["refused_signed_commands"]++
			break
		}
		if touchedSigned(it) {
			taint = i
			st["signed_chats_touched_under_force_key_auth"]++
			break
		}
	}
	C := make([]int, n) // acks the client expressed up to and including packet i
	c := 0
	for i, it := range sp.Items {
		if it.Kind != "ucmd" {
			c += it.Offset
		}
		C[i] = c
	}
	if !ordered {
		return
	}
	// client packets that can make Gate write a ChatAcknowledgement: acks, consumed/denied
	// commands with a last-seen update, and denied chat messages
	canAck := func(it item) bool {
		return it.Kind == "ack" || ((it.Kind == "scmd") && (it.Outcome == "proxy" || it.Outcome == "deny")) || (it.Kind == "chat" && it.ChatOut == "deny")
	}
	// position of the next pinned packet after stream position k
	nextPinned := make([]int, len(ps)+1)
	nextPinned[len(ps)] = n
	for k := len(ps) - 1; k >= 0; k-- {
		if ps[k].Item >= 0 {
			nextPinned[k] = ps[k].Item
		} else {
			nextPinned[k] = nextPinned[k+1]
		}
	}
	B := 0
	prevPinned := -1
	lastSync := -1
	maxLag := 0
	for k, p := range ps {
		switch {
		case p.Kind == "ack":
			a, b := prevPinned, nextPinned[k]
			upper := -1
			for j := a + 1; j < b && j < n; j++ {
				if canAck(sp.Items[j]) && x.callStamp[j] < p.S {
					upper = j
				}
			}
			B += p.Offset
			if b > taint {
				continue // the window reaches into the refused sub-class
			}
			if upper < 0 {
				add("ack-packet-without-source", fmt.Sprintf("backend received ChatAcknowledgement(%d) between client packets %d and %d, none of which can produce one", p.Offset, a, b))
				continue
			}
			st["ack_packets_checked"]++
			if B > C[upper] {
				add("backend-acks-exceed-client-acks", fmt.Sprintf("after ChatAcknowledgement(%d) the backend has received %d acks, the client had expressed %d by packet %d", p.Offset, B, C[upper], upper))
			}
		default:
			it := sp.Items[p.Item]
			if p.HasLastSeen {
				B += p.Offset
			}
			prevPinned = p.Item
			if p.Item >= taint {
				continue
			}
			if it.Kind == "ucmd" {
				if p.HasLastSeen && p.Offset != 0 {
					add("unsigned-command-carries-acks", fmt.Sprintf("UnsignedPlayerCommand %q reached the backend carrying %d acks", it.Text, p.Offset))
				}
				if B > C[p.Item] {
					add("backend-acks-exceed-client-acks", fmt.Sprintf("at client packet %d the backend has received %d acks, the client expressed %d", p.Item, B, C[p.Item]))
				}
				continue
			}
			// forwarded packet with a last-seen update: exact catch-up
			st["catch_up_points_checked"]++
			rewritten := it.Kind == "chat" && it.ChatOut == "rewrite"
			if rewritten {
				st["catch_up_points_at_rewritten_chat"]++
				if p.Offset > it.Offset {
					st["rewritten_chats_carrying_held_acks"]++
				}
			}
			deniedChatBetween := false
			for j := lastSync + 1; j < p.Item; j++ {
				if sp.Items[j].Kind == "chat" && sp.Items[j].ChatOut == "deny" {
					deniedChatBetween = true
				}
			}
			if deniedChatBetween {
				st["catch_up_points_after_denied_chat"]++
			}
			if B != C[p.Item] {
				unsignedBetween, consumedBetween := false, false
				for j := lastSync + 1; j < p.Item; j++ {
					if sp.Items[j].Kind == "ucmd" {
						unsignedBetween = true
					}
					if sp.Items[j].Kind == "scmd" && !expectForwarded(sp.Items[j]) {
						consumedBetween = true
					}
				}
				where := fmt.Sprintf("right after forwarded client packet %d (%q) the backend has received %d acks, the client expressed %d", p.Item, it.Text, B, C[p.Item])
				// acknowledgements expressed by plain ChatAcknowledgement packets after the last
				// consumed / unsigned / denied packet were certainly held back when this packet was
				// forwarded: if it carries nothing but the client's own offset, this packet lost them
				plainPending := 0
				for j := lastSync + 1; j < p.Item; j++ {
					switch jt := sp.Items[j]; {
					case jt.Kind == "ack":
						plainPending += jt.Offset
					case jt.Kind == "ucmd", jt.Kind == "scmd" && !expectForwarded(jt), jt.Kind == "chat" && jt.ChatOut == "deny":
						plainPending = 0
					}
				}
				switch {
				case B > C[p.Item]:
					add("backend-acks-exceed-client-acks", where)
				case rewritten && plainPending > 0 && p.Offset == it.Offset:
					add("acks-not-caught-up-at-rewritten-chat", where+fmt.Sprintf("; the packet is a chat message rewritten by a PlayerChatEvent subscriber, forwarded with the client's own last-seen offset %d although %d acknowledgements from plain ChatAcknowledgement packets were held back", p.Offset, plainPending))
				case deniedChatBetween && (unsignedBetween || consumedBetween):
					add("acks-lost-across-denied-chat-and-consumed-or-unsigned-command", where+"; a chat message denied by a PlayerChatEvent subscriber and consumed/unsigned commands lie between this and the previous catch-up point")
				case deniedChatBetween:
					add("acks-lost-across-denied-chat", where+"; a chat message denied by a PlayerChatEvent subscriber (and no consumed or unsigned command) lies between this and the previous catch-up point")
				case rewritten && !unsignedBetween && !consumedBetween:
					add("acks-not-caught-up-at-rewritten-chat", where+fmt.Sprintf("; the packet is a chat message rewritten by a PlayerChatEvent subscriber, forwarded with last-seen offset %d (client offset %d)", p.Offset, it.Offset))
				case unsignedBetween && consumedBetween:
					add("acks-lost-across-consumed-or-unsigned-command", where+"; consumed and unsigned commands lie between this and the previous catch-up point")
				case unsignedBetween:
					add("held-acks-lost-across-unsigned-command", where+"; an unsigned command (and no consumed command) lies between this and the previous catch-up point")
				case consumedBetween:
					add("acks-lost-across-consumed-command", where+"; a consumed/denied command lies between this and the previous catch-up point")
				default:
					add("acks-not-caught-up-after-last-seen-update", where)
				}
				B = C[p.Item] // resynchronise so that one loss is reported once
			}
			lastSync = p.Item
		}
	}
	// lag: C_i - Bmax_i < 40, Bmax_i = everything before the next packet pinned to an item > i
	pref := make([]int, len(ps)+1)
	for k, p := range ps {
		pref[k+1] = pref[k]
		if p.Kind == "ack" || p.HasLastSeen {
			pref[k+1] += p.Offset
		}
	}
	k := 0
	for i := 0; i < n && i < taint; i++ {
		for k < len(ps) && (ps[k].Item < 0 || ps[k].Item <= i) {
			k++
		}
		lag := C[i] - pref[k]
		if lag > maxLag {
			maxLag = lag
		}
		if lag >= 40 {
			add("backend-lags-client-by-40-or-more-acks", fmt.Sprintf("after client packet %d the client expressed %d acks, the backend can have received at most %d", i, C[i], pref[k]))
			break
		}
	}
	st["max_lag_seen"] = maxLag
	if taint < n {
		st["acks_dropped_in_refused_subclass"] += C[n-1] - pref[len(ps)]
	}
	return
}

func TestC21(t *testing.T) {
	r := lib.Start(t, "C21")
	defer r.Finish()
	r.Rule("each case is one client sequence of <= 60 packets over {chat, SessionPlayerCommand with/without argument signatures, UnsignedPlayerCommand (>=766), ChatAcknowledgement(0..25)} for a protocol in 761..775, with per-command outcome {registered proxy command, unknown, event deny, event forward}, per-chat PlayerChatEvent outcome {untouched, rewritten (SetMessage), denied} where Gate permits it (plus the sub-class where a signed chat is touched under forceKeyAuthentication and Gate disconnects the player) and PRNG delays in the event subscriber, the proxy command body and the backend conn, closed by a chat message; distinct = distinct (spec, decoded backend stream); a case whose backend stream has fewer than 2 packets is trivial and not counted")
	r.Assume("client packets are fed by one goroutine, as the client read loop does")
	r.Assume("what the backend receives is Gate's own encoding of each written packet (snapshot at WritePacket), decoded by the independent ref/chatwire decoder; packet ids are out of scope (C06)")
	r.Assume("ack packets carry no id: they are attributed to the client packets lying between the neighbouring id-carrying packets whose HandlePacket call preceded the write (most favourable attribution)")

	n := r.N(2000, 60000)
	master := r.Rng("specs")
	seeds := make([]int64, n)
	for i := range seeds {
		seeds[i] = master.Int63()
	}
	workers := 12
	if r.Thorough() {
		workers = 14
	}
	var wg sync.WaitGroup
	var next atomic.Int64
	var aggMu sync.Mutex
	agg := map[string]int{}
	maxLag := 0
	protos := map[int]int{}
	subs := map[string]int{}
	kicks := 0
	kicksBySub := map[string]int{}
	for w := 0; w < workers; w++ {
		wg.Add(1)
		go func() {
			defer wg.Done()
			for {
				i := int(next.Add(1)) - 1
				if i >= n {
					return
				}
				sp := genSpec(seeds[i])
				r.LogCase(map[string]any{"seed": sp.Seed, "proto": sp.Proto, "sub": sp.Sub, "packets": len(sp.Items)}) // one of the cases in flight
				var x *run
				var done bool
				ok, pv := lib.Returns(60*time.Second, func() { x, done = execute(sp) })
				r.Eval(1)
				if pv != nil {
					r.Violation("panic-in-chat-handling", fmt.Sprintf("panic: %v", pv), map[string]any{"spec": sp})
					continue
				}
				if !ok || !done {
					if blk, proof := lib.SelfDeadlockProof(lib.Goroutines(), "chatQueue"); proof {
						r.Violation("chat-queue-self-deadlock", "the chat queue never drained: a goroutine re-enters its own lock", map[string]any{"spec": sp, "stack": blk})
					} else {
						r.Inconclusive(fmt.Sprintf("sequence seed=%d: the closing chat message did not reach the backend within the watchdog", sp.Seed))
					}
					continue
				}
				vs, st, desc := check(x)
				seenSig := map[string]bool{}
				for _, v := range vs {
					if seenSig[v.sig] {
						continue
					}
					seenSig[v.sig] = true
					r.Violation(v.sig, v.what, map[string]any{"spec": sp, "backend_stream": desc, "held_acks_at_end": x.heldAtEnd})
				}
				aggMu.Lock()
				for k, v := range st {
					if k == "max_lag_seen" {
						if v > maxLag {
							maxLag = v
						}
						continue
					}
					agg[k] += v
				}
				for _, it := range sp.Items {
					agg["client_"+it.Kind]++
					if it.Kind == "chat" {
						o, sg := it.ChatOut, "unsigned"
						if o == "" {
							o = "untouched"
						}
						if it.SignedChat {
							sg = "signed"
						}
						agg["chat_"+o+"_"+sg]++
					}
					if it.Outcome != "" {
						agg["outcome_"+it.Outcome]++
					}
					if it.SignedArgs {
						agg["client_scmd_with_argument_signatures"]++
					}
				}
				for _, c := range x.invoked {
					agg["proxy_command_invocations"] += c
				}
				for _, c := range x.chatEvSeen {
					agg["PlayerChatEvent_subscriber_invocations"] += c
				}
				protos[sp.Proto]++
				subs[sp.Sub]++
				if x.kicked {
					kicks++
					kicksBySub[sp.Sub]++
				}
				aggMu.Unlock()
				if len(desc) >= 2 {
					r.Distinct(fmt.Sprintf("%d|%s", sp.Seed, strings.Join(desc, ";")))
				}
				if r.WantSample() {
					d := desc
					if len(d) > 12 {
						d = append(append([]string{}, d[:12]...), fmt.Sprintf("…(+%d)", len(desc)-12))
					}
					r.Sample(map[string]any{"proto": sp.Proto, "sub": sp.Sub, "client_packets": len(sp.Items), "backend_stream": d, "held_acks_at_end": x.heldAtEnd})
				}
			}
		}()
	}
	wg.Wait()
	for k, v := range agg {
		r.Count(k, v)
	}
	r.Set("max_lag_seen", maxLag)
	r.Set("sequences_by_protocol", protos)
	r.Set("sequences_by_subclass", subs)
	r.Set("players_kicked_in_refused_subclass", kicks)
	r.Set("players_kicked_by_subclass", kicksBySub)
}
