// Stand-alone reproductions (outside the monitor) of the two handleSessionChat defects the C21
// monitor found; see /verif/proposed_fixes/C21-denied-chat-loses-acks.md and
// C21-signed-chat-rewrite-nil-future-panic.md. Run:
//
//	cd /verif/harness && go test -tags verif -vet=off -count=1 -v -run 'TestRepro' ./c21/
package c21

import (
	"fmt"
	"sync"
	"testing"
	"time"

	"github.com/robinbraemer/event"
	"go.minekube.com/gate/pkg/command"
	"go.minekube.com/gate/pkg/edition/java/config"
	"go.minekube.com/gate/pkg/edition/java/profile"
	"go.minekube.com/gate/pkg/edition/java/proto/packet/chat"
	"go.minekube.com/gate/pkg/edition/java/proxy"
	"go.minekube.com/gate/pkg/edition/java/proxy/verifh/ref/mcrec"
	"go.minekube.com/gate/pkg/gate/proto"
	"go.minekube.com/gate/pkg/util/uuid"
)

var (
	recvMu   sync.Mutex
	received int // acknowledgements the backend received (explicit + carried)
)

func fixture(force bool, sub func(e *proxy.PlayerChatEvent)) (*proxy.VerifC21Chat, *mcrec.Conn, *mcrec.Conn) {
	recvMu.Lock()
	received = 0
	recvMu.Unlock()
	client := mcrec.New(765)
	backend := mcrec.New(765)
	backend.OnPacket = func(p proto.Packet, _ bool) {
		recvMu.Lock()
		defer recvMu.Unlock()
		switch v := p.(type) {
		case *chat.SessionPlayerChat:
			received += v.LastSeenMessages.Offset
			fmt.Printf("backend: chat %q off=%d signed=%v\n", v.Message, v.LastSeenMessages.Offset, v.Signed)
		case *chat.ChatAcknowledgement:
			received += v.Offset
			fmt.Printf("backend: ack %d\n", v.Offset)
		default:
			fmt.Printf("backend: %T\n", p)
		}
	}
	client.OnClose = func() { fmt.Println("client: closed (kicked)") }
	mgr := event.New()
	event.Subscribe(mgr, 0, sub)
	var cmds command.Manager
	fx := proxy.VerifC21NewChat(proxy.VerifC21Options{Client: client, Backend: backend, EventMgr: mgr, Commands: &cmds,
		Config: &config.Config{ForceKeyAuthentication: force}, Profile: &profile.GameProfile{ID: uuid.New(), Name: "x"}})
	return fx, client, backend
}

func TestReproDeniedChatLosesAcks(t *testing.T) {
	fx, _, _ := fixture(false, func(e *proxy.PlayerChatEvent) {
		if e.Message() == "bad" {
			e.SetAllowed(false)
		}
	})
	ts := time.UnixMilli(1_700_000_000_000)
	fx.HandlePacket(&chat.ChatAcknowledgement{Offset: 5})
	fx.HandlePacket(&chat.SessionPlayerChat{Message: "bad", Timestamp: ts, LastSeenMessages: chat.LastSeenMessages{Offset: 3}})
	fx.HandlePacket(&chat.SessionPlayerChat{Message: "bye", Timestamp: ts.Add(time.Second), LastSeenMessages: chat.LastSeenMessages{Offset: 1}})
	time.Sleep(100 * time.Millisecond)
	recvMu.Lock()
	got := received
	recvMu.Unlock()
	if got+fx.HeldAcks() != 9 {
		t.Fatalf("the client expressed 9 acknowledgements, the backend received %d and %d are held: %d lost at the denied chat", got, fx.HeldAcks(), 9-got-fx.HeldAcks())
	}
}

func TestReproSignedChatRewriteNilFuture(t *testing.T) {
	fx, _, _ := fixture(true, func(e *proxy.PlayerChatEvent) {
		if e.Message() == "bad" {
			e.SetMessage("good")
		}
	})
	ts := time.UnixMilli(1_700_000_000_000)
	defer func() {
		if r := recover(); r != nil {
			t.Fatalf("rewriting a signed chat message under forceKeyAuthentication panics: %v", r)
		}
	}()
	// the queue is idle, so the task runs (and panics) on this goroutine; with a chat write in
	// flight it runs on chatQueue.writePacket's goroutine and takes the process down
	fx.HandlePacket(&chat.SessionPlayerChat{Message: "bad", Signed: true, Signature: make([]byte, 256), Timestamp: ts, LastSeenMessages: chat.LastSeenMessages{Offset: 3}})
	time.Sleep(50 * time.Millisecond)
}
