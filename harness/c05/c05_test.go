// C05: decoding untrusted packets never crashes, never hangs and never allocates memory out of
// proportion to the payload.
//
// Every (state, direction, protocol, registered id) row of the registry, plus unregistered ids,
// gets hostile payloads (random, truncated-valid, valid with hostile length fields, bit flips,
// deep nesting, hostile command graphs) that are framed and pushed through the real entry
// point codec.Decoder.Decode (which wraps packet.Decode in util.RecoverFunc).
//
// Architecture: the test process (parent) starts one child process per shard (the same test
// binary, TestC05Child). A child runs its cases one after the other on a single goroutine:
//
//	write the case (payload included) to logs/C05.shard-N.lastcase
//	ReadMemStats; Decode(); ReadMemStats        -> exact TotalAlloc (+stack) delta per call
//
// under an address-space limit (RLIMIT_AS) and a per-case watchdog. A child that dies
// (fatal error, out of memory, escaped panic) is attributed by its case file: the parent
// records "decode-crash:<type>" and restarts the shard after that case. A case that does not
// return within the watchdog is re-run alone in a fresh process with 3x the budget before it
// counts as "decode-hang:<type>" (in-memory input: not returning is a loop, never I/O).
package c05

import (
	"bytes"
	"crypto/sha1"
	"encoding/binary"
	"encoding/hex"
	"encoding/json"
	"fmt"
	"math/rand"
	"os"
	"os/exec"
	"path/filepath"
	"runtime"
	"runtime/debug"
	"sort"
	"strconv"
	"strings"
	"sync"
	"syscall"
	"testing"
	"time"

	"github.com/go-logr/logr"
	"go.minekube.com/gate/pkg/edition/java/proto/codec"
	"go.minekube.com/gate/pkg/edition/java/proxy/verifh/lib"
	"go.minekube.com/gate/pkg/edition/java/proxy/verifh/ref/pktgen"
	"go.minekube.com/gate/pkg/gate/proto"
)

// ---- the allocation bound ---------------------------------------------------------------------
//
// TotalAlloc delta (+ stack growth) of one Decode call  <=  allocPerByte*len(payload) + allocFixedCap
//
// Calibrated on the unchanged tree (evidence keys calibration_*, re-measured by every run):
//   - fixed part: the largest allocation observed for a payload of <= 64 bytes by a type that is
//     not in violation is a collection pre-allocated for util.MaxPreAllocSize (32768) entries:
//     2.7 MB (CustomReportDetails' map[string]string), 1.6 MB ([]profile.Property), 1.0 MB
//     (a 262144*4-byte string buffer). With the proposed TagsUpdate repair (two map levels capped
//     at MaxPreAllocSize) it is 5.2 MB. 24 MiB is 9x resp. 4.6x that.
//   - per byte: the largest (alloc - fixed part of the type)/len observed on payloads >= 4 KiB is
//     156 for list decoders (tab list entries), 100-110 for text components (captured as JSON,
//     NBT and string) and, still inflated by map pre-allocation, 197-244 for the two map
//     decoders; 1024 is 4.2x the largest of these.
const (
	allocFixedCap = 24 << 20 // 24 MiB
	allocPerByte  = 1024     // bytes allocated per payload byte
	caseWatchdog  = 8 * time.Second
	addressSpace  = 6 << 30 // RLIMIT_AS of a child
)

// ---- case list -----------------------------------------------------------------------------------

type target struct {
	row     pktgen.Row
	unknown bool // id is not registered in this table
	graph   bool // extra target: every case is a generated command graph (AvailableCommands only)
}

// graphCopies is how many extra all-command-graph targets each AvailableCommands row gets.
const graphCopies = 4

func targets() []target {
	var out []target
	for _, r := range pktgen.Rows() {
		out = append(out, target{row: r})
	}
	for _, r := range pktgen.Rows() {
		if strings.HasSuffix(r.TypeName, ".AvailableCommands") {
			for k := 0; k < graphCopies; k++ {
				out = append(out, target{row: r, graph: true})
			}
		}
	}
	// unregistered ids: one pseudo row per (state, direction, protocol)
	for _, s := range pktgen.States() {
		for _, d := range []proto.Direction{proto.ServerBound, proto.ClientBound} {
			pr := s.Reg.ServerBound
			if d == proto.ClientBound {
				pr = s.Reg.ClientBound
			}
			for _, p := range pktgen.Supported() {
				reg := pr.Protocols[p]
				if reg == nil {
					continue
				}
				id := 0
				for {
					if _, ok := reg.PacketIDs[proto.PacketID(id)]; !ok {
						break
					}
					id++
				}
				out = append(out, target{unknown: true, row: pktgen.Row{StateName: s.Name, State: s.Reg, Dir: d, Protocol: p, ID: proto.PacketID(id), TypeName: "unknown-id", Reg: reg}})
			}
		}
	}
	return out
}

var kinds = []string{"random-small", "random-medium", "valid", "truncated-valid", "valid+garbage", "hostile-length-anywhere", "hostile-first-field", "byte-flips", "deep-nesting", "random-large", "hostile-structure"}

var hostileInts = []int{-1, 1<<31 - 1, 1 << 21, 32768, 65536, -1 << 31, 1 << 25, 255, 1 << 16}

func varint(v int) []byte {
	var b []byte
	u := uint32(v)
	for u >= 0x80 {
		b = append(b, byte(u)|0x80)
		u >>= 7
	}
	return append(b, byte(u))
}

func caseRng(seed int64, key string, j int) *rand.Rand {
	h := sha1.Sum([]byte(fmt.Sprintf("c05/%d/%s/%d", seed, key, j)))
	return rand.New(rand.NewSource(int64(binary.BigEndian.Uint64(h[:8]) >> 1)))
}

func randBytes(r *rand.Rand, n int) []byte {
	b := make([]byte, n)
	r.Read(b)
	return b
}

// validBody returns Gate's own encoding of a generated value (nil if the type is unknown or
// the value cannot be encoded).
func validBody(t target, r *rand.Rand, k int) []byte {
	if t.unknown {
		return nil
	}
	pk, _, _ := pktgen.Generate(t.row, r.Int63(), k)
	b, err := pktgen.Encode(t.row, pk)
	if err != nil {
		return nil
	}
	return b
}

// body builds the packet body (without the id) of case j of target t.
func body(t target, seed int64, j int, thorough bool) (kind string, b []byte) {
	r := caseRng(seed, t.row.Key(), j)
	if t.graph {
		return "command-graph", commandGraph(r, int(t.row.Protocol))
	}
	kind = kinds[j%len(kinds)]
	if t.unknown {
		kind = []string{"random-small", "random-medium", "random-large"}[j%3]
	}
	valid := func() []byte {
		v := validBody(t, r, j/len(kinds))
		if v == nil {
			v = randBytes(r, r.Intn(40))
		}
		return v
	}
	switch kind {
	case "random-small":
		b = randBytes(r, r.Intn(17))
	case "random-medium":
		b = randBytes(r, 17+r.Intn(600))
	case "random-large":
		n := 4096 + r.Intn(60<<10)
		if thorough && r.Intn(50) == 0 {
			n = 1<<20 + r.Intn(1<<20-64) // up to the frame limit
		}
		b = randBytes(r, n)
		if r.Intn(2) == 0 { // low-entropy variant: many small VarInts / empty strings
			for i := range b {
				b[i] &= 0x03
			}
		}
	case "valid":
		b = valid()
	case "truncated-valid":
		v := valid()
		if len(v) > 0 {
			v = v[:r.Intn(len(v))]
		}
		b = v
	case "valid+garbage":
		b = append(valid(), randBytes(r, 1+r.Intn(32))...)
	case "hostile-length-anywhere":
		v := valid()
		pos := 0
		if len(v) > 0 {
			pos = r.Intn(min(len(v), 96))
		}
		h := varint(hostileInts[r.Intn(len(hostileInts))])
		b = append(append(append([]byte{}, v[:pos]...), h...), v[min(pos+1, len(v)):]...)
	case "hostile-first-field":
		v := valid()
		h := varint(hostileInts[r.Intn(len(hostileInts))])
		rest := v
		if len(rest) > 0 {
			rest = rest[1:]
		}
		switch r.Intn(3) {
		case 0:
			b = h // only the count, nothing behind it
		case 1:
			b = append(h, rest...)
		default:
			b = append(h, randBytes(r, r.Intn(64))...)
		}
	case "byte-flips":
		v := append([]byte{}, valid()...)
		for i := 0; i < 1+r.Intn(3) && len(v) > 0; i++ {
			v[r.Intn(len(v))] = byte(r.Intn(256))
		}
		b = v
	case "deep-nesting":
		depth := 200 + r.Intn(3000)
		if thorough && r.Intn(20) == 0 {
			depth = 100000 + r.Intn(400000)
		}
		switch r.Intn(4) {
		case 0: // nameless network NBT (1.20.2+): compound in compound ...
			b = append([]byte{0x0a}, pktgen.DeepCompound(depth)...)
		case 1: // named root (before 1.20.2)
			b = append([]byte{0x0a, 0, 0}, pktgen.DeepCompound(depth)...)
		case 2: // list of list of list ...
			var bb bytes.Buffer
			bb.WriteByte(0x09)
			for i := 0; i < depth; i++ {
				bb.Write([]byte{0x09, 0, 0, 0, 1})
			}
			b = bb.Bytes()
		default: // JSON text component nested in arrays, as a string
			s := strings.Repeat("[", depth) + `""` + strings.Repeat("]", depth)
			b = append(varint(len(s)), s...)
		}
		if r.Intn(2) == 0 { // somewhere behind a plausible prefix of a valid packet
			v := valid()
			if len(v) > 0 {
				b = append(append([]byte{}, v[:r.Intn(min(len(v), 24))]...), b...)
			}
		}
	case "hostile-structure":
		b = hostileStructure(r, thorough, j/len(kinds))
	}
	return kind, b
}

// commandGraph builds a small, mostly well-formed command graph in the wire format of the
// Commands packet: 3-10 nodes, names from a three-letter alphabet (so siblings collide by name),
// literal and bool-argument nodes mixed, children taken from lower indexes (a DAG with shared
// sub-trees), some redirects, the root last. One in eight graphs also gets back edges. This is
// the shape a hostile backend would use against the tree builder: valid enough to pass the
// structural checks, odd enough to exercise node merging.
func commandGraph(r *rand.Rand, protocol int) []byte {
	var bb bytes.Buffer
	n := 3 + r.Intn(8)
	backEdges := r.Intn(8) == 0
	pick := func(i int) int {
		if backEdges || i == 0 {
			return r.Intn(n)
		}
		return r.Intn(i)
	}
	bb.Write(varint(n))
	for i := 0; i < n; i++ {
		if i == n-1 { // root
			c := 1 + r.Intn(4)
			bb.WriteByte(0)
			bb.Write(varint(c))
			for k := 0; k < c; k++ {
				bb.Write(varint(r.Intn(n - 1)))
			}
			break
		}
		arg := r.Intn(10) < 3
		flags := byte(1)
		if arg {
			flags = 2
		}
		if r.Intn(3) == 0 {
			flags |= 0x04 // executable
		}
		redirect := i > 0 && r.Intn(7) == 0
		if redirect {
			flags |= 0x08
		}
		bb.WriteByte(flags)
		c := 0
		if i > 0 || backEdges {
			c = r.Intn(4)
		}
		bb.Write(varint(c))
		for k := 0; k < c; k++ {
			bb.Write(varint(pick(i)))
		}
		if redirect {
			bb.Write(varint(pick(i)))
		}
		bb.Write([]byte{1, "xyz"[r.Intn(3)]})
		if arg {
			if protocol >= 759 { // 1.19+: parser by registry id; 0 = brigadier:bool on every version
				bb.Write(varint(0))
			} else {
				id := "brigadier:bool"
				bb.Write(varint(len(id)))
				bb.WriteString(id)
			}
		}
	}
	bb.Write(varint(n - 1))
	return bb.Bytes()
}

// hostileStructure builds inputs aimed at the structured decoders: command graphs with
// redirect chains / self references / huge child lists, NBT arrays and lists with huge counts,
// collections that announce 2^31-1 entries.
func hostileStructure(r *rand.Rand, thorough bool, variant int) []byte {
	var bb bytes.Buffer
	switch variant % 7 {
	case 0: // command graph: chain of redirects pointing forward (each pass resolves one node)
		n := 50 + r.Intn(400)
		if thorough && r.Intn(10) == 0 {
			n = 3000 + r.Intn(3000)
		}
		bb.Write(varint(n))
		for i := 0; i < n; i++ {
			if i == n-1 {
				bb.Write([]byte{0x00, 0x00}) // root, no children
				break
			}
			bb.WriteByte(0x01 | 0x08) // literal + redirect
			bb.WriteByte(0)           // no children
			bb.Write(varint(i + 1))   // redirect to the next node
			bb.Write([]byte{1, 'a'})  // name
		}
		bb.Write(varint(n - 1))
	case 1: // command graph: nodes that are their own child / redirect
		n := 1 + r.Intn(20)
		bb.Write(varint(n))
		for i := 0; i < n; i++ {
			bb.WriteByte(byte(r.Intn(3)) | byte(r.Intn(2))*0x08)
			c := r.Intn(4)
			bb.Write(varint(c))
			for k := 0; k < c; k++ {
				bb.Write(varint(r.Intn(n + 1)))
			}
			bb.Write(varint(r.Intn(n + 1)))
			bb.Write([]byte{1, 'b', 0, 0, 0})
		}
		bb.Write(varint(r.Intn(n + 1)))
	case 2: // command graph announcing a huge child list
		bb.Write(varint(1))
		bb.WriteByte(0)
		bb.Write(varint(hostileInts[r.Intn(len(hostileInts))]))
	case 3: // NBT compound holding arrays / lists with huge counts
		bb.WriteByte(0x0a)
		if r.Intn(2) == 0 {
			bb.Write([]byte{0, 0})
		}
		t := []byte{7, 11, 12, 9}[r.Intn(4)]
		bb.WriteByte(t)
		bb.Write([]byte{0, 1, 'x'})
		if t == 9 {
			bb.WriteByte([]byte{0, 1, 10, 9, 8}[r.Intn(5)])
		}
		_ = binary.Write(&bb, binary.BigEndian, int32(hostileInts[r.Intn(len(hostileInts))]))
		bb.Write(randBytes(r, r.Intn(32)))
	case 4: // nested collections all announcing huge counts
		for i := 0; i < 1+r.Intn(4); i++ {
			bb.Write(varint(hostileInts[r.Intn(len(hostileInts))]))
			if r.Intn(2) == 0 {
				bb.Write([]byte{1, 'k'})
			}
		}
	case 5: // command graph whose nodes share one name and are their own descendants
		// (105 nodes announced, node 0 is a root with 9 children, the rest literal nodes that
		// all carry the empty name and list small indexes, themselves included, as children)
		bb.Write([]byte{0x69, 0x00, 0x09})
		for i := 0; i < 293+r.Intn(40); i++ {
			bb.Write([]byte{0x09, 0, 0, 0, 1})
		}
	default: // 16 bytes of uuid then hostile counts (tab lists, boss bars, resource packs)
		bb.Write(randBytes(r, 16))
		bb.Write(varint(r.Intn(6)))
		bb.Write(varint(hostileInts[r.Intn(len(hostileInts))]))
		bb.Write(randBytes(r, r.Intn(24)))
	}
	return bb.Bytes()
}

// ---- child ---------------------------------------------------------------------------------------

type violation struct {
	Sig     string         `json:"sig"`
	What    string         `json:"what"`
	Witness map[string]any `json:"witness"`
}

type typeStat struct {
	MaxAlloc      uint64  `json:"max_alloc"`
	MaxAllocLen   int     `json:"max_alloc_payload_len"`
	MaxRatio      float64 `json:"max_alloc_per_byte_over_4k"`
	MaxResidual   float64 `json:"max_alloc_minus_fixed_part_per_byte_over_4k"`
	MaxTinyAlloc  uint64  `json:"max_alloc_payload_le_64"`
	MaxDurationMs float64 `json:"max_ms"`
}

type childResult struct {
	Done       bool                 `json:"done"`
	Cases      int                  `json:"cases"`
	Outcomes   map[string]int       `json:"outcomes"`
	Kinds      map[string]int       `json:"kinds"`
	Violations []violation          `json:"violations"`
	Types      map[string]*typeStat `json:"types"`
	Skipped    map[string]int       `json:"skipped_after_violation"`
	Distinct   []string             `json:"distinct,omitempty"`
	Samples    []map[string]any     `json:"samples"`
	RlimitErr  string               `json:"rlimit_err,omitempty"`
	MaxPayload int                  `json:"max_payload"`
	// readings over the allocation bound that did not show again when the same frame was
	// decoded twice more (process-wide MemStats picked up something else)
	AllocNotReproduced   int      `json:"alloc_not_reproduced"`
	AllocNotReproducedEx []string `json:"alloc_not_reproduced_examples,omitempty"`
}

// processCPU is the CPU time (user + system) this process has consumed so far.
func processCPU() time.Duration {
	var ru syscall.Rusage
	if err := syscall.Getrusage(syscall.RUSAGE_SELF, &ru); err != nil {
		return 0
	}
	return time.Duration(ru.Utime.Nano() + ru.Stime.Nano())
}

func envInt(name string, def int) int {
	if v, err := strconv.Atoi(os.Getenv(name)); err == nil {
		return v
	}
	return def
}

// TestC05Child is the worker; it only runs when started by TestC05.
func TestC05Child(t *testing.T) {
	if os.Getenv("VERIF_C05_CHILD") != "1" {
		t.Skip("worker of TestC05")
	}
	shard, nShards := envInt("VERIF_C05_SHARD", 0), envInt("VERIF_C05_SHARDS", 1)
	start, only := envInt("VERIF_C05_START", 0), envInt("VERIF_C05_ONLY", -1)
	perTarget := envInt("VERIF_C05_PER_TARGET", 10)
	seed := int64(envInt("VERIF_SEED", 1))
	thorough := os.Getenv("VERIF_TIER") == "thorough"
	budget := time.Duration(envInt("VERIF_C05_BUDGET_S", int(caseWatchdog/time.Second))) * time.Second
	outPath, casePath := os.Getenv("VERIF_C05_RESULT"), os.Getenv("VERIF_C05_CASEFILE")
	skip := map[string]bool{}
	for _, s := range strings.Split(os.Getenv("VERIF_C05_SKIP"), ",") {
		if s != "" {
			skip[s] = true
		}
	}

	res := &childResult{Outcomes: map[string]int{}, Kinds: map[string]int{}, Types: map[string]*typeStat{}, Skipped: map[string]int{}}
	if err := syscall.Setrlimit(syscall.RLIMIT_AS, &syscall.Rlimit{Cur: addressSpace, Max: addressSpace}); err != nil {
		res.RlimitErr = err.Error()
	}
	debug.SetGCPercent(200)
	// Unbounded recursion ends in "fatal error: stack overflow" at Go's default 1 GB limit
	// only after many seconds; half of that is still 3x what the deepest legitimate nesting of
	// a 2 MiB frame needs and lets the crash show before the watchdog.
	debug.SetMaxStack(512 << 20)
	runtime.GOMAXPROCS(1) // one busy goroutine: ReadMemStats is cheap and attributes exactly

	cf, err := os.OpenFile(casePath, os.O_CREATE|os.O_RDWR|os.O_TRUNC, 0o644)
	if err != nil {
		t.Fatal(err)
	}
	defer cf.Close()

	// watchdog: a case that does not return within the budget ends the process with status 3
	// The budget is CPU time of this process (one busy goroutine, GOMAXPROCS 1), not wall
	// clock: on a loaded machine a decode that needs two CPU seconds can take a minute of wall
	// time, and only a decode that keeps the CPU busy without returning is a loop. A separate,
	// much larger wall-clock cap ends a case that got no CPU at all; that exit (status 4) is
	// reported as inconclusive by the parent, never as a hang.
	var cur struct {
		sync.Mutex
		idx   int
		since time.Time
		cpu0  time.Duration
	}
	cur.idx = -1
	go func() {
		for {
			time.Sleep(250 * time.Millisecond)
			cur.Lock()
			idx, since, cpu0 := cur.idx, cur.since, cur.cpu0
			cur.Unlock()
			if idx < 0 {
				continue
			}
			if used := processCPU() - cpu0; used > budget {
				_ = os.WriteFile(casePath+".hang", []byte(strconv.Itoa(idx)), 0o644)
				fmt.Printf("C05-CHILD-HANG idx=%d cpu=%s wall=%s\n%s\n", idx, used, time.Since(since), lib.Trunc(lib.Goroutines(), 6000))
				os.Exit(3)
			}
			if time.Since(since) > 40*budget {
				_ = os.WriteFile(casePath+".starved", []byte(strconv.Itoa(idx)), 0o644)
				fmt.Printf("C05-CHILD-STARVED idx=%d cpu=%s wall=%s\n", idx, processCPU()-cpu0, time.Since(since))
				os.Exit(4)
			}
		}
	}()

	ts := targets()
	total := len(ts) * perTarget
	var m0, m1 runtime.MemStats
	qfile := os.Getenv("VERIF_C05_QUARANTINE")
	loadQuarantine := func() {
		if b, err := os.ReadFile(qfile); err == nil {
			for _, s := range strings.Split(string(b), "\n") {
				if s != "" {
					skip[s] = true
				}
			}
		}
	}
	checkpoint := func(final bool) {
		res.Done = final
		b, _ := json.Marshal(res)
		if err := os.WriteFile(outPath+".tmp", b, 0o644); err == nil {
			_ = os.Rename(outPath+".tmp", outPath)
		}
	}
	done := 0
	var recBuf []byte
	lastRecLen := 0
	for idx := start; idx < total; idx++ {
		if only >= 0 {
			if idx != only {
				continue
			}
		} else if idx%nShards != shard {
			continue
		}
		tg := ts[idx/perTarget]
		j := idx % perTarget
		if done%32 == 0 && only < 0 {
			loadQuarantine() // types another shard already crashed or hung on
		}
		if done%200 == 199 {
			checkpoint(false) // what a dying child leaves behind for the parent's counters
		}
		done++
		if skip[tg.row.TypeName] {
			res.Skipped[tg.row.TypeName]++
			continue
		}
		kind, bd := body(tg, seed, j, thorough)
		payload := append(varint(int(tg.row.ID)), bd...)
		if len(payload) > codec.MaximumFrameLength {
			payload = payload[:codec.MaximumFrameLength]
		}
		frame := append(varint(len(payload)), payload...)

		// the case goes to disk before anything is decoded
		recBuf = recBuf[:0]
		recBuf = fmt.Appendf(recBuf, `{"idx":%d,"row":%q,"type":%q,"kind":%q,"j":%d,"payload_len":%d,"payload_hex":"`, idx, tg.row.Key(), tg.row.TypeName, kind, j, len(payload))
		recBuf = hex.AppendEncode(recBuf, payload)
		recBuf = append(recBuf, '"', '}')
		_, _ = cf.WriteAt(recBuf, 0)
		if len(recBuf) < lastRecLen {
			_ = cf.Truncate(int64(len(recBuf)))
		}
		lastRecLen = len(recBuf)

		// measure decodes the frame once with a fresh decoder and returns what the call did.
		measure := func() (ctx *proto.PacketContext, derr error, escaped any, dur time.Duration, delta uint64) {
			dec := codec.NewDecoder(bytes.NewReader(frame), tg.row.Dir, logr.Discard())
			dec.SetProtocol(tg.row.Protocol)
			dec.SetState(tg.row.State)

			cur.Lock()
			cur.idx, cur.since, cur.cpu0 = idx, time.Now(), processCPU()
			cur.Unlock()
			runtime.ReadMemStats(&m0)
			t0 := time.Now()
			func() {
				defer func() { escaped = recover() }()
				ctx, derr = dec.Decode()
			}()
			dur = time.Since(t0)
			runtime.ReadMemStats(&m1)
			cur.Lock()
			cur.idx = -1
			cur.Unlock()
			delta = m1.TotalAlloc - m0.TotalAlloc
			if m1.StackInuse > m0.StackInuse {
				delta += m1.StackInuse - m0.StackInuse
			}
			return
		}
		ctx, derr, escaped, dur, delta := measure()
		if delta > uint64(allocPerByte)*uint64(len(payload))+allocFixedCap && delta <= 1<<30 && dur <= 2*time.Second {
			// MemStats are process-wide: a reading over the bound is attributed to this call
			// only if it reproduces. Decoding is deterministic in its input, so memory the
			// call itself allocates shows again on every repeat, whereas a one-off effect of
			// the runtime in the window does not. Observed on the unchanged tree: when a GC
			// cycle shrinks this goroutine's stack (grown to 64-128 MiB by an earlier
			// deep-nesting case) inside the window, the new half-size stack is already counted
			// in StackInuse while the old one stays counted until the cycle ends, which reads
			// as exactly +32 MiB or +64 MiB on a call that allocated a kilobyte. The smallest
			// of three readings is what the call provably allocates every time.
			first := delta
			for k := 0; k < 2; k++ {
				if _, _, _, _, d := measure(); d < delta {
					delta = d
				}
			}
			if delta <= uint64(allocPerByte)*uint64(len(payload))+allocFixedCap {
				res.AllocNotReproduced++
				if len(res.AllocNotReproducedEx) < 5 {
					res.AllocNotReproducedEx = append(res.AllocNotReproducedEx, fmt.Sprintf("idx=%d %s len=%d first=%d repeat-min=%d", idx, tg.row.Key(), len(payload), first, delta))
				}
			}
		}

		res.Cases++
		res.Kinds[kind]++
		if len(payload) > res.MaxPayload {
			res.MaxPayload = len(payload)
		}
		st := res.Types[tg.row.TypeName]
		if st == nil {
			st = &typeStat{}
			res.Types[tg.row.TypeName] = st
		}
		if delta > st.MaxAlloc {
			st.MaxAlloc, st.MaxAllocLen = delta, len(payload)
		}
		if len(payload) <= 64 && delta > st.MaxTinyAlloc {
			st.MaxTinyAlloc = delta
		}
		if len(payload) >= 4096 {
			if ratio := float64(delta) / float64(len(payload)); ratio > st.MaxRatio {
				st.MaxRatio = ratio
			}
			// the same with the type's fixed part (its largest allocation on a tiny payload so
			// far) taken out: the per-byte expansion proper
			if delta > st.MaxTinyAlloc {
				if rr := float64(delta-st.MaxTinyAlloc) / float64(len(payload)); rr > st.MaxResidual {
					st.MaxResidual = rr
				}
			}
		}
		if ms := float64(dur.Microseconds()) / 1000; ms > st.MaxDurationMs {
			st.MaxDurationMs = ms
		}
		wit := func() map[string]any {
			return map[string]any{"idx": idx, "row": tg.row.Key(), "kind": kind, "payload_len": len(payload), "payload_hex": lib.Trunc(hex.EncodeToString(payload), 4000), "alloc_bytes": delta, "duration_ms": float64(dur.Microseconds()) / 1000}
		}
		switch {
		case escaped != nil:
			res.Outcomes["panic-escaped"]++
			w := wit()
			w["panic"] = lib.Trunc(fmt.Sprint(escaped), 500)
			res.Violations = append(res.Violations, violation{"decode-panic:" + tg.row.TypeName, fmt.Sprintf("a panic escaped codec.Decoder.Decode (RecoverFunc re-panics non-error values): %v", lib.Trunc(fmt.Sprint(escaped), 200)), w})
		case derr == nil && ctx == nil:
			res.Outcomes["nil-nil"]++
			res.Violations = append(res.Violations, violation{"decode-neither-packet-nor-error:" + tg.row.TypeName, "Decode returned neither a packet context nor an error", wit()})
		case derr == nil && ctx.Packet == nil:
			res.Outcomes["unknown-id-passed-through"]++
		case derr == nil:
			res.Outcomes["decoded"]++
		case ctx != nil:
			res.Outcomes["error-with-context"]++
		default:
			res.Outcomes["error"]++
		}
		bound := uint64(allocPerByte)*uint64(len(payload)) + allocFixedCap
		if delta > bound {
			w := wit()
			w["bound"] = bound
			res.Violations = append(res.Violations, violation{"decode-alloc:" + tg.row.TypeName,
				fmt.Sprintf("decoding a %d-byte payload allocated %d bytes (bound %d*len+%d = %d)", len(payload), delta, allocPerByte, allocFixedCap, bound), w})
			if delta > 64<<20 || dur > 2*time.Second {
				skip[tg.row.TypeName] = true // protect the run; the witness is recorded
				if f, err := os.OpenFile(qfile, os.O_APPEND|os.O_CREATE|os.O_WRONLY, 0o644); err == nil {
					_, _ = f.WriteString(tg.row.TypeName + "\n")
					_ = f.Close()
				}
			}
		}
		if idx%97 == 0 && len(res.Samples) < 6 {
			res.Samples = append(res.Samples, map[string]any{"row": tg.row.Key(), "kind": kind, "payload_len": len(payload), "payload_head": hex.EncodeToString(payload[:min(len(payload), 24)]), "alloc_bytes": delta, "error": derr != nil})
		}
		h := sha1.Sum(payload)
		if len(res.Distinct) < 250000 { // the parent's distinct set is capped at 4M anyway
			res.Distinct = append(res.Distinct, tg.row.Key()+"/"+hex.EncodeToString(h[:6]))
		}
	}
	checkpoint(true)
}

// ---- parent --------------------------------------------------------------------------------------

func TestC05(t *testing.T) {
	r := lib.Start(t, "C05")
	defer r.Finish()
	r.Rule("targets = every (state, direction, supported protocol, registered id) row of the registry plus one unregistered id per table and protocol; per target N payloads cycling through the kinds random-small / random-medium / valid / truncated-valid / valid+garbage / hostile-length-anywhere ({-1, 2^31-1, 2^21, ...} VarInt spliced in) / hostile-first-field / byte-flips / deep-nesting (NBT compounds and lists, JSON arrays) / random-large / hostile-structure (command graphs, NBT arrays, huge counts), from a PRNG seeded by (VERIF_SEED, row, index); each is framed and decoded by codec.Decoder.Decode in a child process; distinct = distinct (row, payload)")
	r.Assume("runtime.MemStats.TotalAlloc (+ StackInuse growth) read around a call on the only busy goroutine of a child process is an upper bound of the memory that call allocated; because the counters are process-wide, a reading over the bound (up to 1 GiB, call shorter than 2 s) is re-taken twice on the same frame and the smallest reading decides (decoding is deterministic in its input, so what the call allocates shows every time); readings that do not reproduce are counted in alloc_readings_over_bound_not_reproduced_on_repeat")
	r.Assume(fmt.Sprintf("allocation bound: %d bytes per payload byte + %d bytes fixed; calibrated on the unchanged tree with a margin >= 4x over the observed legitimate maxima (see calibration_* keys)", allocPerByte, allocFixedCap))
	r.Assume("inputs are in memory, so a Decode that does not return is a loop; a watchdog expiry is confirmed by re-running the case alone in a fresh process with 3x the budget before it counts")

	perTarget := r.N(77, 4103)
	nT := len(targets())
	total := nT * perTarget
	shards := runtime.NumCPU()
	if shards > 16 {
		shards = 16
	}
	if shards < 2 {
		shards = 2
	}
	dir := filepath.Join(lib.Out(), "logs")
	_ = os.MkdirAll(dir, 0o755)

	qfile := filepath.Join(dir, "C05.quarantine")
	_ = os.Remove(qfile)
	addQuarantine := func(typ string) {
		if f, err := os.OpenFile(qfile, os.O_APPEND|os.O_CREATE|os.O_WRONLY, 0o644); err == nil {
			_, _ = f.WriteString(typ + "\n")
			_ = f.Close()
		}
	}
	hangSeen := map[string]int{} // type -> 1 being confirmed / confirmed, 2 not reproduced

	var mu sync.Mutex
	merged := &childResult{Outcomes: map[string]int{}, Kinds: map[string]int{}, Types: map[string]*typeStat{}, Skipped: map[string]int{}}
	var crashes, hangsConfirmed, hangsUnconfirmed, restarts int
	quarantine := map[string]bool{}

	runChild := func(shard, start, only int, budget time.Duration, skipList string) (res, partial *childResult, exit int, outFile, caseFile string) {
		tag := fmt.Sprintf("C05.shard-%d", shard)
		if only >= 0 {
			tag = fmt.Sprintf("C05.single-%d", only)
		}
		resFile := filepath.Join(dir, tag+".result.json")
		caseFile = filepath.Join(dir, tag+".lastcase")
		outFile = filepath.Join(dir, tag+".out")
		_ = os.Remove(resFile)
		_ = os.Remove(caseFile + ".hang")
		_ = os.Remove(caseFile + ".starved")
		cmd := exec.Command(os.Args[0], "-test.run", "^TestC05Child$", "-test.timeout", "0")
		cmd.Env = append(os.Environ(),
			"VERIF_C05_CHILD=1", fmt.Sprintf("VERIF_C05_SHARD=%d", shard), fmt.Sprintf("VERIF_C05_SHARDS=%d", shards),
			fmt.Sprintf("VERIF_C05_START=%d", start), fmt.Sprintf("VERIF_C05_ONLY=%d", only), fmt.Sprintf("VERIF_C05_PER_TARGET=%d", perTarget),
			fmt.Sprintf("VERIF_C05_BUDGET_S=%d", int(budget/time.Second)), "VERIF_C05_RESULT="+resFile, "VERIF_C05_CASEFILE="+caseFile,
			"VERIF_C05_SKIP="+skipList, "VERIF_C05_QUARANTINE="+qfile, fmt.Sprintf("VERIF_SEED=%d", r.Seed), "VERIF_TIER="+r.Tier, "GOTRACEBACK=single")
		of, _ := os.Create(outFile)
		cmd.Stdout, cmd.Stderr = of, of
		err := cmd.Run()
		_ = of.Close()
		if ee, ok := err.(*exec.ExitError); ok {
			exit = ee.ExitCode()
		} else if err != nil {
			exit = -1
		}
		if b, e := os.ReadFile(resFile); e == nil {
			var cr childResult
			if json.Unmarshal(b, &cr) == nil {
				if cr.Done {
					res = &cr
				} else {
					partial = &cr
				}
			}
		}
		return
	}

	type lastCase struct {
		Idx        int    `json:"idx"`
		Row        string `json:"row"`
		Type       string `json:"type"`
		Kind       string `json:"kind"`
		PayloadLen int    `json:"payload_len"`
		PayloadHex string `json:"payload_hex"`
	}
	readCase := func(path string) *lastCase {
		b, err := os.ReadFile(path)
		if err != nil {
			return nil
		}
		var lc lastCase
		if json.Unmarshal(b, &lc) != nil {
			return nil
		}
		return &lc
	}
	fatalLine := func(outFile string) string {
		b, _ := os.ReadFile(outFile)
		lines := strings.Split(string(b), "\n")
		for _, pre := range []string{"fatal error:", "panic:", "runtime:"} {
			for _, l := range lines {
				if strings.HasPrefix(l, pre) {
					return lib.Trunc(l, 200)
				}
			}
		}
		return lib.Trunc(string(b), 200)
	}

	// allocating reports whether the child's goroutine dump shows the decoding goroutine inside
	// the runtime's allocation paths: a Decode that does not come back because it is busy
	// building a collection sized from the wire is the allocation clause, not a loop.
	allocating := func(outFile string) bool {
		b, _ := os.ReadFile(outFile)
		for _, blk := range strings.Split(string(b), "\n\n") {
			if !strings.Contains(blk, "TestC05Child") {
				continue
			}
			for _, m := range []string{"runtime.makemap", "internal/runtime/maps.", "runtime.mallocgc", "runtime.makeslice", "runtime.growslice", "runtime.newobject", "runtime.memclr"} {
				if strings.Contains(blk, m) {
					return true
				}
			}
		}
		return false
	}
	oom := func(fatal string) bool {
		return strings.Contains(fatal, "out of memory") || strings.Contains(fatal, "cannot allocate memory")
	}

	var wg sync.WaitGroup
	for s := 0; s < shards; s++ {
		wg.Add(1)
		go func(shard int) {
			defer wg.Done()
			start := 0
			for attempt := 0; attempt < 60; attempt++ {
				mu.Lock()
				var sk []string
				for q := range quarantine {
					sk = append(sk, q)
				}
				mu.Unlock()
				sort.Strings(sk)
				res, partial, exit, outFile, caseFile := runChild(shard, start, -1, caseWatchdog, strings.Join(sk, ","))
				if res != nil {
					mu.Lock()
					merge(merged, res)
					mu.Unlock()
					return
				}
				// the child died: keep what it had checkpointed, attribute the death by its case file
				if partial != nil {
					mu.Lock()
					merge(merged, partial)
					mu.Unlock()
				}
				lc := readCase(caseFile)
				if lc == nil {
					r.Inconclusive(fmt.Sprintf("shard %d ended with status %d without result and without case file; see %s", shard, exit, outFile))
					return
				}
				r.LogCase(lc)
				mu.Lock()
				restarts++
				mu.Unlock()
				if _, err := os.Stat(caseFile + ".starved"); err == nil && exit == 4 {
					// the case got (almost) no CPU within 40x the budget of wall time: the machine
					// is overloaded; nothing is known about this decode
					_ = os.Remove(caseFile + ".starved")
					r.Inconclusive(fmt.Sprintf("case %d (%s, %s) was starved of CPU (wall-clock cap reached with the CPU budget unused)", lc.Idx, lc.Row, lc.Kind))
					start = lc.Idx + 1
					continue
				}
				if _, err := os.Stat(caseFile + ".hang"); err == nil && exit == 3 {
					mu.Lock()
					seen := hangSeen[lc.Type]
					hangSeen[lc.Type] = 1
					quarantine[lc.Type] = true
					mu.Unlock()
					if seen != 0 {
						// this type's hang is already being confirmed by another shard
						start = lc.Idx + 1
						continue
					}
					// watchdog: confirm alone, in a fresh process, with 3x the budget
					res2, _, exit2, out2, _ := runChild(shard, 0, lc.Idx, 3*caseWatchdog, "")
					if res2 == nil && exit2 == 4 {
						mu.Lock()
						hangsUnconfirmed++
						hangSeen[lc.Type] = 0
						delete(quarantine, lc.Type)
						mu.Unlock()
						r.Inconclusive(fmt.Sprintf("case %d (%s, %s) used its CPU budget in the batch; the confirmation run alone was starved of CPU", lc.Idx, lc.Row, lc.Kind))
						start = lc.Idx + 1
						continue
					}
					if res2 == nil && exit2 == 3 {
						addQuarantine(lc.Type)
						mu.Lock()
						hangsConfirmed++
						mu.Unlock()
						kind, how := "decode-hang:", "did not return"
						if allocating(out2) {
							kind, how = "decode-alloc:", "was still allocating memory (stack inside the runtime allocator) and had not returned"
						}
						r.Violation(kind+lc.Type, fmt.Sprintf("Decode of an in-memory %d-byte payload %s within %s of CPU time, confirmed alone in a fresh process within %s of CPU time", lc.PayloadLen, how, caseWatchdog, 3*caseWatchdog),
							map[string]any{"row": lc.Row, "kind": lc.Kind, "idx": lc.Idx, "payload_len": lc.PayloadLen, "payload_hex": lib.Trunc(lc.PayloadHex, 4000), "child_output": out2})
					} else if res2 == nil {
						// alone it did not hang but died: that is the crash clause
						mu.Lock()
						crashes++
						mu.Unlock()
						kind := "decode-crash:"
						if oom(fatalLine(out2)) {
							kind = "decode-alloc:"
						}
						r.Violation(kind+lc.Type, fmt.Sprintf("the process died while decoding a %d-byte payload (%s): %s", lc.PayloadLen, lc.Kind, fatalLine(out2)),
							map[string]any{"row": lc.Row, "kind": lc.Kind, "idx": lc.Idx, "payload_len": lc.PayloadLen, "payload_hex": lib.Trunc(lc.PayloadHex, 4000), "child_exit": exit2, "child_output_file": out2, "fatal": fatalLine(out2)})
					} else {
						mu.Lock()
						hangsUnconfirmed++
						hangSeen[lc.Type] = 0 // let a later case of this type be confirmed
						delete(quarantine, lc.Type)
						mu.Unlock()
						r.Inconclusive(fmt.Sprintf("case %d (%s, %s) exceeded the watchdog in the batch but returned when re-run alone", lc.Idx, lc.Row, lc.Kind))
					}
				} else {
					mu.Lock()
					crashes++
					mu.Unlock()
					kind := "decode-crash:"
					if oom(fatalLine(outFile)) {
						kind = "decode-alloc:" // killed by the allocation itself
					}
					r.Violation(kind+lc.Type, fmt.Sprintf("the process died while decoding a %d-byte payload (%s): %s", lc.PayloadLen, lc.Kind, fatalLine(outFile)),
						map[string]any{"row": lc.Row, "kind": lc.Kind, "idx": lc.Idx, "payload_len": lc.PayloadLen, "payload_hex": lib.Trunc(lc.PayloadHex, 4000), "child_exit": exit, "child_output_file": outFile, "fatal": fatalLine(outFile)})
				}
				addQuarantine(lc.Type)
				mu.Lock()
				quarantine[lc.Type] = true // the witness is recorded; keep the rest of the run alive
				mu.Unlock()
				start = lc.Idx + 1
			}
			r.Inconclusive(fmt.Sprintf("shard %d restarted too often", shard))
		}(s)
	}
	wg.Wait()

	// ---- verdicts from the children ---------------------------------------------------------
	r.Eval(merged.Cases)
	for _, d := range merged.Distinct {
		r.Distinct(d)
	}
	bySig := map[string][]violation{}
	for _, v := range merged.Violations {
		bySig[v.Sig] = append(bySig[v.Sig], v)
	}
	sigs := make([]string, 0, len(bySig))
	for s := range bySig {
		sigs = append(sigs, s)
	}
	sort.Strings(sigs)
	for _, s := range sigs {
		vs := bySig[s]
		// the worst witness first
		sort.Slice(vs, func(i, j int) bool {
			a, _ := vs[i].Witness["alloc_bytes"].(float64)
			b, _ := vs[j].Witness["alloc_bytes"].(float64)
			return a > b
		})
		vs[0].Witness["cases_with_this_signature"] = len(vs)
		r.Violation(s, fmt.Sprintf("%s (%d cases)", vs[0].What, len(vs)), vs[0].Witness)
	}
	for _, smp := range merged.Samples {
		r.Sample(smp)
	}

	// ---- evidence -------------------------------------------------------------------------------
	r.Set("targets", nT)
	r.Set("payloads_per_target", perTarget)
	r.Set("cases_planned", total)
	r.Set("decode_calls_observed", merged.Cases)
	r.Set("outcomes", merged.Outcomes)
	r.Set("payload_kinds", merged.Kinds)
	r.Set("largest_payload_bytes", merged.MaxPayload)
	r.Set("alloc_readings_over_bound_not_reproduced_on_repeat", merged.AllocNotReproduced)
	if merged.AllocNotReproduced > 0 {
		r.Set("alloc_readings_not_reproduced_examples", merged.AllocNotReproducedEx)
	}
	r.Set("child_processes", shards)
	r.Set("child_crashes", crashes)
	r.Set("child_restarts", restarts)
	r.Set("hangs_confirmed", hangsConfirmed)
	r.Set("hangs_not_reproduced", hangsUnconfirmed)
	r.Set("cases_skipped_after_a_recorded_violation_of_that_type", merged.Skipped)
	q := []string{}
	for k := range quarantine {
		q = append(q, k)
	}
	sort.Strings(q)
	r.Set("types_quarantined_after_crash_or_hang", q)
	r.Set("alloc_bound_bytes_per_payload_byte", allocPerByte)
	r.Set("alloc_bound_fixed_cap_bytes", allocFixedCap)
	r.Set("child_address_space_limit_bytes", addressSpace)
	if merged.RlimitErr != "" {
		r.Set("rlimit_error", merged.RlimitErr)
	}
	// calibration: observed maxima per type (top 12 by each measure)
	type kv struct {
		K string
		V float64
	}
	top := func(f func(*typeStat) float64) []string {
		var l []kv
		for k, s := range merged.Types {
			l = append(l, kv{k, f(s)})
		}
		sort.Slice(l, func(i, j int) bool { return l[i].V > l[j].V })
		var out []string
		for i := 0; i < len(l) && i < 12; i++ {
			out = append(out, fmt.Sprintf("%s=%.0f", l[i].K, l[i].V))
		}
		return out
	}
	r.Set("calibration_max_alloc_bytes_payload_le_64_by_type", top(func(s *typeStat) float64 { return float64(s.MaxTinyAlloc) }))
	r.Set("calibration_max_alloc_per_payload_byte_ge_4096_by_type", top(func(s *typeStat) float64 { return s.MaxRatio }))
	r.Set("calibration_max_alloc_bytes_by_type", top(func(s *typeStat) float64 { return float64(s.MaxAlloc) }))
	r.Set("slowest_decode_ms_by_type_informational", top(func(s *typeStat) float64 { return s.MaxDurationMs }))
	r.Set("packet_types_targeted", len(merged.Types))
	// margins actually observed in this run (types in violation excluded)
	inViolation := map[string]bool{}
	for s := range bySig {
		if i := strings.Index(s, ":"); i >= 0 {
			inViolation[s[i+1:]] = true
		}
	}
	for q := range quarantine {
		inViolation[q] = true
	}
	var maxTiny uint64
	var maxRatio, maxResidual float64
	for k, s := range merged.Types {
		if inViolation[k] {
			continue
		}
		if s.MaxTinyAlloc > maxTiny {
			maxTiny = s.MaxTinyAlloc
		}
		if s.MaxRatio > maxRatio {
			maxRatio = s.MaxRatio
		}
		if s.MaxResidual > maxResidual {
			maxResidual = s.MaxResidual
		}
	}
	if maxTiny > 0 {
		r.Set("calibration_margin_fixed_cap_over_observed", fmt.Sprintf("%.1fx (cap %d / observed %d)", float64(allocFixedCap)/float64(maxTiny), allocFixedCap, maxTiny))
	}
	if maxRatio > 0 {
		r.Set("calibration_observed_alloc_per_byte_incl_fixed_part", fmt.Sprintf("%.0f (a fixed pre-allocation divided by a 4 KiB payload dominates this figure; the bound adds the fixed cap separately)", maxRatio))
	}
	if maxResidual > 0 {
		r.Set("calibration_margin_per_byte_over_observed", fmt.Sprintf("%.1fx (%d / observed %.0f, fixed part of the type taken out)", float64(allocPerByte)/maxResidual, allocPerByte, maxResidual))
	}
	r.Set("calibration_max_alloc_minus_fixed_part_per_byte_ge_4096_by_type", top(func(s *typeStat) float64 { return s.MaxResidual }))
}

func merge(dst, src *childResult) {
	dst.Cases += src.Cases
	for k, v := range src.Outcomes {
		dst.Outcomes[k] += v
	}
	for k, v := range src.Kinds {
		dst.Kinds[k] += v
	}
	for k, v := range src.Skipped {
		dst.Skipped[k] += v
	}
	dst.Violations = append(dst.Violations, src.Violations...)
	dst.Distinct = append(dst.Distinct, src.Distinct...)
	if len(dst.Samples) < 8 {
		dst.Samples = append(dst.Samples, src.Samples...)
	}
	dst.AllocNotReproduced += src.AllocNotReproduced
	for _, e := range src.AllocNotReproducedEx {
		if len(dst.AllocNotReproducedEx) < 5 {
			dst.AllocNotReproducedEx = append(dst.AllocNotReproducedEx, e)
		}
	}
	if src.MaxPayload > dst.MaxPayload {
		dst.MaxPayload = src.MaxPayload
	}
	if src.RlimitErr != "" {
		dst.RlimitErr = src.RlimitErr
	}
	for k, s := range src.Types {
		d := dst.Types[k]
		if d == nil {
			d = &typeStat{}
			dst.Types[k] = d
		}
		if s.MaxAlloc > d.MaxAlloc {
			d.MaxAlloc, d.MaxAllocLen = s.MaxAlloc, s.MaxAllocLen
		}
		if s.MaxTinyAlloc > d.MaxTinyAlloc {
			d.MaxTinyAlloc = s.MaxTinyAlloc
		}
		if s.MaxRatio > d.MaxRatio {
			d.MaxRatio = s.MaxRatio
		}
		if s.MaxResidual > d.MaxResidual {
			d.MaxResidual = s.MaxResidual
		}
		if s.MaxDurationMs > d.MaxDurationMs {
			d.MaxDurationMs = s.MaxDurationMs
		}
	}
}
