// C28: after any sequence of tab-list API changes and backend player-info updates/removals,
// the entries the proxy reports for a player's tab list are exactly the entries a vanilla
// client holds after decoding the player-info packets the proxy sent and forwarded.
//
// The real tab list (pkg/internal/tablist.New, as player.go builds it) is driven over a
// recording viewer. Every packet Gate hands to the viewer is encoded by Gate at that moment
// (as the player connection would) and the bytes are fed to the reference vanilla client of
// ref/vanilla, which decodes them with the independent decoder. Backend packets are the
// bytes a vanilla server sends (independent encoder); Gate decodes them with its real
// decoder and processes them (session_backend_play.go: ProcessUpdate/ProcessRemove, then the
// raw payload is forwarded), and the client receives the same raw bytes. After EVERY
// operation Gate's Entries() are compared with the client's state.
package c28

import (
	"bytes"
	"fmt"
	"math/rand"
	"runtime/debug"
	"sort"
	"strings"
	"sync"
	"testing"
	"time"

	"go.minekube.com/common/minecraft/component"

	"go.minekube.com/gate/pkg/edition/java/profile"
	"go.minekube.com/gate/pkg/edition/java/proto/packet/chat"
	"go.minekube.com/gate/pkg/edition/java/proto/packet/tablist/playerinfo"
	"go.minekube.com/gate/pkg/edition/java/proto/state"
	"go.minekube.com/gate/pkg/edition/java/proxy/crypto"
	apitablist "go.minekube.com/gate/pkg/edition/java/proxy/tablist"
	"go.minekube.com/gate/pkg/edition/java/proxy/verifh/gatevanilla"
	"go.minekube.com/gate/pkg/edition/java/proxy/verifh/lib"
	"go.minekube.com/gate/pkg/edition/java/proxy/verifh/ref/vanilla"
	"go.minekube.com/gate/pkg/gate/proto"
	internaltablist "go.minekube.com/gate/pkg/internal/tablist"
	"go.minekube.com/gate/pkg/util/uuid"
)

// ---- recording viewer ---------------------------------------------------------------------------

type sent struct {
	kind   string // "update" | "remove" | other
	pkt    proto.Packet
	body   []byte // what Gate's encoder produced for the viewer's protocol
	encErr error
}

type viewer struct {
	protocol proto.Protocol
	out      []sent
	flushes  int
}

func (v *viewer) Protocol() proto.Protocol            { return v.protocol }
func (v *viewer) IdentifiedKey() crypto.IdentifiedKey { return nil }
func (v *viewer) Flush() error                        { v.flushes++; return nil }
func (v *viewer) WritePacket(p proto.Packet) error    { return v.record(p) }
func (v *viewer) BufferPacket(p proto.Packet) error   { return v.record(p) }

// record encodes right away, like the connection's encoder does while the caller still
// owns the packet; an encode error is returned to the tab list like the connection would.
func (v *viewer) record(p proto.Packet) error {
	s := sent{pkt: p, kind: fmt.Sprintf("%T", p)}
	switch p.(type) {
	case *playerinfo.Upsert:
		s.kind = "update"
	case *playerinfo.Remove:
		s.kind = "remove"
	}
	_, body, found, err := gatevanilla.Encode(state.Play, proto.ClientBound, v.protocol, p)
	if !found {
		err = fmt.Errorf("%T is not registered for clientbound play at protocol %d", p, v.protocol)
	}
	s.body, s.encErr = append([]byte(nil), body...), err
	v.out = append(v.out, s)
	return err
}

var _ internaltablist.Viewer = (*viewer)(nil)

// ---- operations ----------------------------------------------------------------------------------

type op struct {
	Kind   string `json:"kind"`
	Detail string `json:"detail"`
}

var canonIndex = map[playerinfo.UpsertAction]int{
	playerinfo.AddPlayerAction:         vanilla.ActAddPlayer,
	playerinfo.InitializeChatAction:    vanilla.ActInitChat,
	playerinfo.UpdateGameModeAction:    vanilla.ActGameMode,
	playerinfo.UpdateListedAction:      vanilla.ActListed,
	playerinfo.UpdateLatencyAction:     vanilla.ActLatency,
	playerinfo.UpdateDisplayNameAction: vanilla.ActDisplayName,
	playerinfo.UpdateListOrderAction:   vanilla.ActListOrder,
	playerinfo.UpdateHatAction:         vanilla.ActHat,
}

func apiOrder(u *playerinfo.Upsert) (names []string, canonical bool) {
	canonical = true
	last := -1
	for _, a := range u.ActionSet {
		i := canonIndex[a]
		names = append(names, vanilla.ActionNames[i])
		if i < last {
			canonical = false
		}
		last = i
	}
	return
}

// canonicalBody is what Gate's encoder produces for the same packet when the action list is
// handed over in the protocol's action order (used only to classify and to carry on after
// the known order defect - never to acquit).
func canonicalBody(protocol proto.Protocol, u *playerinfo.Upsert) ([]byte, error) {
	c := &playerinfo.Upsert{Entries: u.Entries, ActionSet: append([]playerinfo.UpsertAction(nil), u.ActionSet...)}
	sort.SliceStable(c.ActionSet, func(i, j int) bool { return canonIndex[c.ActionSet[i]] < canonIndex[c.ActionSet[j]] })
	_, b, _, err := gatevanilla.Encode(state.Play, proto.ClientBound, protocol, c)
	return b, err
}

func cloneClient(c *vanilla.TabClient) *vanilla.TabClient {
	n := vanilla.NewTabClient(c.Protocol)
	n.Ignored = c.Ignored
	for k, v := range c.Entries {
		e := *v
		n.Entries[k] = &e
	}
	return n
}

// noBackslash: component texts with backslashes are a separate, already reported encoder
// defect (C07 "component-text-with-backslash"); this workload stays clear of it.
func cleanComp(rng *rand.Rand) component.Component {
	return gatevanilla.MapText(gatevanilla.RandComponent(rng, 1), func(s string) string { return strings.ReplaceAll(s, "\\", "/") })
}

// ---- comparison -----------------------------------------------------------------------------------------

type entryView struct {
	Name      string
	Props     []vanilla.Property
	LatencyMs int64
	GameMode  int32
	Listed    bool
	Display   string
	ListOrder int32
	HasOrder  bool
}

func gateView(p int, e apitablist.Entry) entryView {
	v := entryView{
		Name:      e.Profile().Name,
		Props:     gatevanilla.PropsOf(e.Profile().Properties),
		LatencyMs: e.Latency().Milliseconds(),
		// R: -1 and 256 are Gate's "unset" sentinels = the client's default; the client
		// itself maps every id outside 0..3 to its default (survival).
		GameMode: vanilla.NormGameMode(int32(e.GameMode())),
		Listed:   e.Listed(),
		Display:  gatevanilla.CompOf(e.DisplayName()).Canon(p).Key(),
	}
	if p >= vanilla.P1_21_2 { // clients before 1.21.2 have no list order
		v.ListOrder, v.HasOrder = int32(e.ListOrder()), true
	}
	return v
}

func clientView(p int, e *vanilla.TabEntry) entryView {
	v := entryView{Name: e.Name, Props: e.Properties, LatencyMs: int64(e.Latency), GameMode: e.GameMode, Listed: e.Listed, Display: e.DisplayName.Key()}
	if p >= vanilla.P1_21_2 {
		v.ListOrder, v.HasOrder = e.ListOrder, true
	}
	return v
}

// diff returns "" if equal, else (clause, detail) of the first difference in a fixed order.
func diff(p int, gate map[uuid.UUID]apitablist.Entry, cl *vanilla.TabClient) (clause, detail string, at uuid.UUID) {
	ids := make([]uuid.UUID, 0, len(gate))
	for id := range gate {
		ids = append(ids, id)
	}
	sort.Slice(ids, func(i, j int) bool { return bytes.Compare(ids[i][:], ids[j][:]) < 0 })
	for _, id := range ids {
		ce, okk := cl.Entries[[16]byte(id)]
		if !okk {
			return "gate-reports-entry-the-client-does-not-hold", fmt.Sprintf("entry %s", id), id
		}
		g, c := gateView(p, gate[id]), clientView(p, ce)
		if pid := gate[id].Profile().ID; pid != id {
			return "entry-keyed-under-foreign-id", fmt.Sprintf("map key %s holds profile id %s", id, pid), id
		}
		switch {
		case g.Name != c.Name:
			return "profile-name", fmt.Sprintf("entry %s: gate %q client %q", id, g.Name, c.Name), id
		case !gatevanilla.PropsEqual(g.Props, c.Props):
			return "profile-properties", fmt.Sprintf("entry %s: gate %+v client %+v", id, g.Props, c.Props), id
		case g.LatencyMs != c.LatencyMs:
			return "latency", fmt.Sprintf("entry %s: gate %d ms client %d ms", id, g.LatencyMs, c.LatencyMs), id
		case g.GameMode != c.GameMode:
			return "game-mode", fmt.Sprintf("entry %s: gate %d client %d", id, g.GameMode, c.GameMode), id
		case g.Listed != c.Listed:
			return "listed", fmt.Sprintf("entry %s: gate %v client %v", id, g.Listed, c.Listed), id
		case g.Display != c.Display && !strings.Contains(c.Display, "?tainted="):
			return "display-name", fmt.Sprintf("entry %s: gate %s client %s", id, g.Display, c.Display), id
		case g.HasOrder && g.ListOrder != c.ListOrder:
			return "list-order", fmt.Sprintf("entry %s: gate %d client %d", id, g.ListOrder, c.ListOrder), id
		}
	}
	for id := range cl.Entries {
		if _, okk := gate[uuid.UUID(id)]; !okk {
			return "client-holds-entry-gate-does-not-report", fmt.Sprintf("entry %x", id), uuid.UUID(id)
		}
	}
	return "", "", uuid.Nil
}

// ---- one sequence ----------------------------------------------------------------------------------------------

type seq struct {
	r    *lib.Run
	rng  *rand.Rand
	p    int
	v    *viewer
	tl   internaltablist.InternalTabList
	cl   *vanilla.TabClient
	pool []uuid.UUID
	ops  []op
	// API entries handed to Gate, by id (the most recent object per id)
	mine        map[uuid.UUID]*internaltablist.Entry
	dead        bool
	lastPackets []string
	// display names (normal-form keys) of the last backend upsert as Gate's own decoder and
	// component conversion see them, by entry id
	decodedDisplay map[uuid.UUID]string
}

func (s *seq) id() uuid.UUID { return s.pool[s.rng.Intn(len(s.pool))] }

func (s *seq) randAttrs(id uuid.UUID) internaltablist.EntryAttributes {
	rng := s.rng
	a := internaltablist.EntryAttributes{
		Profile:   profile.GameProfile{ID: id, Name: gatevanilla.RandName(rng), Properties: gatevanilla.RandProps(rng)},
		Latency:   time.Duration([]int{0, 0, 1, 42, 150, 300, 1001, -1}[rng.Intn(8)]) * time.Millisecond,
		GameMode:  []int{-1, 256, 0, 1, 2, 3, 0, 1}[rng.Intn(8)],
		Listed:    rng.Intn(3) != 0,
		ListOrder: []int{0, 0, 1, 5, -3}[rng.Intn(5)],
		ShowsHat:  rng.Intn(2) == 0,
	}
	if cur, okk := s.tl.Entries()[id]; okk {
		// an id the tab list already has keeps its profile here; "another profile under a
		// known id" is an operation class of its own (api-add-changed-profile)
		a.Profile = cur.Profile()
	}
	if rng.Intn(2) == 0 {
		a.DisplayName = cleanComp(rng)
	}
	if rng.Intn(4) == 0 {
		k, _ := gatevanilla.RandKey(rng, proto.Protocol(s.p))
		a.ChatSession = &chat.RemoteChatSession{ID: gatevanilla.RandUUID(rng), Key: k}
	}
	return a
}

// violation reports a disagreement. The reference does not vouch for layouts newer than
// vanilla.PNewest: there a disagreement is counted, never alarmed (panics are reported
// regardless: they do not depend on any layout).
func (s *seq) violation(sig, what string, w map[string]any) {
	if s.p > vanilla.PNewest && !strings.Contains(sig, "nil-pointer") && !strings.HasSuffix(sig, "/panic") {
		s.r.Count("disagreements_on_protocols_the_reference_does_not_vouch_for", 1)
		return
	}
	s.r.Violation(sig, what, w)
}

func (s *seq) witness(extra map[string]any) map[string]any {
	w := map[string]any{"protocol": s.p, "operations": s.ops, "packets_of_last_operation": s.lastPackets}
	for k, v := range extra {
		w[k] = v
	}
	return w
}

// step runs one operation on Gate, delivers what came out to the client, compares.
func (s *seq) step(kind, detail string, class string, f func()) {
	s.ops = append(s.ops, op{kind, detail})
	s.v.out = s.v.out[:0]
	before := cloneClient(s.cl)

	var panicked any
	var stack string
	func() {
		defer func() {
			if p := recover(); p != nil {
				panicked, stack = p, string(debug.Stack())
			}
		}()
		f()
	}()
	s.r.Eval(1)
	s.r.Count("ops_"+class, 1)
	if panicked != nil {
		msg := fmt.Sprint(panicked)
		cls := "panic"
		if strings.Contains(msg, "nil pointer dereference") {
			cls = "nil-pointer-dereference"
		}
		s.violation(kind+"/"+cls, fmt.Sprintf("%s panicked inside the tab list: %s", kind, msg),
			s.witness(map[string]any{"panic": msg, "stack": lib.Trunc(stack, 3000)}))
		// the entry map may still be consistent: carry on and let the comparison decide
	}

	// deliver: "actual" gets the bytes Gate produced; "healed" gets, for every upsert whose
	// action list was not in protocol order, Gate's encoding of the same packet with the list
	// sorted (identical bytes when the order does not matter).
	actual := cloneClient(before)
	healed := cloneClient(before)
	var feedErr error
	var nonCanon []string
	var lastBody []byte
	var pktlog []string
	defer func() { s.lastPackets = pktlog }()
	for _, o := range s.v.out {
		if o.kind != "update" && o.kind != "remove" {
			continue // header/footer etc. are not part of this property
		}
		s.r.Count("packets_to_viewer_"+o.kind, 1)
		if o.encErr != nil {
			if feedErr == nil {
				feedErr = fmt.Errorf("Gate could not encode its own %s packet: %w", o.kind, o.encErr)
			}
			continue
		}
		lastBody = o.body
		if err := actual.Feed(o.kind, o.body); err != nil && feedErr == nil {
			feedErr = fmt.Errorf("vanilla client cannot decode Gate's %s packet: %w", o.kind, err)
		}
		hb := o.body
		if u, okk := o.pkt.(*playerinfo.Upsert); okk {
			if names, canonical := apiOrder(u); !canonical {
				if cb, err := canonicalBody(s.v.protocol, u); err == nil && !bytes.Equal(cb, o.body) {
					hb = cb
					nonCanon = names
				}
			}
		}
		herr := healed.Feed(o.kind, hb)
		pktlog = append(pktlog, fmt.Sprintf("%s gate=%x canonical-order=%x canonical-decode-err=%v", o.kind, o.body, hb, herr))
	}
	s.lastPackets = pktlog
	gate := s.tl.Entries()
	s.r.Count("states_compared", 1)
	s.r.Count("entries_compared", len(gate))
	clause, det, id := diff(s.p, gate, actual)
	if feedErr == nil && clause == "" {
		s.cl = actual
		return
	}
	if panicked != nil {
		// the panic (already reported) cut the operation short: what the map and the client
		// disagree on now is its consequence, not another defect
		s.r.Count("sequences_ended_after_a_panic_left_the_model_ahead_of_the_client", 1)
		s.dead = true
		return
	}
	what := det
	if feedErr != nil {
		clause, what = "packet-undecodable", feedErr.Error()
	}
	// Order defect: it is that iff the client ends up in another state (or cannot decode at
	// all) when it is given Gate's bytes than when it is given the same packets with the entry
	// data in the protocol's action order.
	cur := actual
	if nonCanon != nil {
		c2, d2, id2 := diff(s.p, gate, healed)
		if dc, _ := diffClients(s.p, actual, healed); feedErr != nil || dc != "" {
			s.violation("viewer-upsert-entry-data-in-api-action-order",
				fmt.Sprintf("after %s the client state differs from Gate's (%s): Gate laid out the entry data in the order of the action list [%s], the client reads it in the protocol's action order", kind, what, strings.Join(nonCanon, ",")),
				s.witness(map[string]any{"difference": what, "api_action_order": nonCanon, "gate_bytes": fmt.Sprintf("%x", lastBody)}))
			s.r.Count("carried_on_after_order_defect", 1)
			cur, clause, det, id, what, feedErr = healed, c2, d2, id2, d2, nil
		}
	}
	// what is left after the order defect has been taken out
	for guard := 0; clause != "" && guard < 8; guard++ {
		ce := cur.Entries[[16]byte(id)]
		ge := gate[id]
		switch {
		case feedErr != nil && strings.Contains(feedErr.Error(), "Gate could not encode") && strings.Contains(feedErr.Error(), "snbt"):
			// Gate's component-to-NBT encoder gave up on a display name (the defect C07 reports
			// as "component-text-with-backslash"; such texts get here through display names
			// Gate itself mis-converted from backend NBT): the model is ahead of the client.
			s.violation("viewer-upsert/display-name-not-encodable-as-nbt", fmt.Sprintf("after %s (%s): %s", kind, detail, what), s.witness(map[string]any{"difference": what}))
			s.dead = true
			return
		case feedErr != nil:
			s.violation(kind+"/"+clause, fmt.Sprintf("after %s (%s): %s", kind, detail, what), s.witness(map[string]any{"difference": what}))
			s.dead = true
			return
		case (clause == "profile-name" || clause == "profile-properties") && (strings.HasPrefix(kind, "api-add") || kind == "api-readd-removed-entry") && ce != nil && ge != nil:
			// API Add over an id the client already holds, with another profile: nothing on the
			// wire can change the client's profile (putIfAbsent), Gate reports the new one.
			s.violation("api-add-existing-id-with-other-profile/client-keeps-old-profile",
				fmt.Sprintf("after %s Gate reports a profile for an entry that the client was never told about: %s", kind, det), s.witness(map[string]any{"difference": det}))
			ce.Name, ce.Properties = ge.Profile().Name, gatevanilla.PropsOf(ge.Profile().Properties)
			s.r.Count("carried_on_after_profile_defect", 1)
		case clause == "display-name" && strings.HasPrefix(kind, "backend-") && ce != nil && ge != nil && s.p >= vanilla.P1_20_3 &&
			s.decodedDisplay[id] == gateView(s.p, ge).Display:
			// the tab list holds exactly what Gate's packet decoder + NBT-to-component
			// conversion made of the backend's display name: the difference to the wire is
			// made there, not in the tab-list logic
			g, c := gateView(s.p, ge).Display, clientView(s.p, ce).Display
			sig := "backend-upsert/display-name-changed-by-nbt-to-component-conversion"
			if strings.ReplaceAll(g, `t="<nil>"`, `t=""`) == c {
				sig = "backend-upsert/display-name-empty-text-reported-as-<nil>"
			}
			s.violation(sig, fmt.Sprintf("after %s Gate reports another display name than the backend sent and the client shows: %s", kind, det), s.witness(map[string]any{"difference": det}))
			// carry on: this entry's display name is left out until it is next overwritten
			t := *ce.DisplayName
			t.Other = map[string]string{"tainted": "1"}
			ce.DisplayName = &t
			s.r.Count("carried_on_after_display_name_conversion_defect", 1)
		default:
			s.violation(kind+"/"+clause, fmt.Sprintf("after %s (%s) Gate's tab list and the vanilla client disagree: %s", kind, detail, det), s.witness(map[string]any{"difference": det}))
			s.dead = true // states have diverged: everything after would only repeat it
			return
		}
		clause, det, id = diff(s.p, gate, cur)
	}
	s.cl = cur
}

func (s *seq) newEntry(a internaltablist.EntryAttributes) *internaltablist.Entry {
	return &internaltablist.Entry{OwningTabList: s.tl, EntryAttributes: a}
}

func (s *seq) existing() (uuid.UUID, apitablist.Entry, bool) {
	es := s.tl.Entries()
	if len(es) == 0 {
		return uuid.Nil, nil, false
	}
	ids := make([]uuid.UUID, 0, len(es))
	for id := range es {
		ids = append(ids, id)
	}
	sort.Slice(ids, func(i, j int) bool { return bytes.Compare(ids[i][:], ids[j][:]) < 0 })
	id := ids[s.rng.Intn(len(ids))]
	return id, es[id], true
}

func attrsOf(e apitablist.Entry) internaltablist.EntryAttributes {
	return internaltablist.EntryAttributes{Profile: e.Profile(), DisplayName: e.DisplayName(), Latency: e.Latency(), GameMode: e.GameMode(),
		Listed: e.Listed(), ListOrder: e.ListOrder(), ChatSession: e.ChatSession(), ShowsHat: e.ShowHat()}
}

func (s *seq) randomOp() {
	rng := s.rng
	switch k := rng.Intn(20); {
	case k < 4: // API add, fresh object (new id or replacing an existing one with other attributes)
		id := s.id()
		e := s.newEntry(s.randAttrs(id))
		_, had := s.tl.Entries()[id]
		cls := "api_add_new"
		if had {
			cls = "api_add_replace_all_attributes"
		}
		s.step("api-add", fmt.Sprintf("%s %x name=%s", cls, id[:2], e.EntryAttributes.Profile.Name), cls, func() { _ = s.tl.Add(e) })
	case k < 6: // API add of an identical entry
		id, cur, okk := s.existing()
		if !okk {
			return
		}
		if rng.Intn(2) == 0 {
			s.step("api-add-identical", fmt.Sprintf("same object %x", id[:2]), "api_add_identical_same_object", func() { _ = s.tl.Add(cur) })
		} else {
			e := s.newEntry(attrsOf(cur))
			s.step("api-add-identical", fmt.Sprintf("equal copy %x", id[:2]), "api_add_identical_equal_copy", func() { _ = s.tl.Add(e) })
		}
	case k < 10: // API add with exactly one attribute changed
		id, cur, okk := s.existing()
		if !okk {
			return
		}
		a := attrsOf(cur)
		attr := []string{"display-name", "latency", "game-mode", "listed", "list-order", "show-hat", "chat-session", "profile"}[rng.Intn(8)]
		switch attr {
		case "display-name":
			if a.DisplayName != nil && rng.Intn(2) == 0 {
				a.DisplayName = nil
			} else {
				a.DisplayName = cleanComp(rng)
			}
		case "latency":
			a.Latency += time.Duration(1+rng.Intn(500)) * time.Millisecond
		case "game-mode":
			a.GameMode = []int{0, 1, 2, 3, -1, 256}[rng.Intn(6)]
		case "listed":
			a.Listed = !a.Listed
		case "list-order":
			a.ListOrder += 1 + rng.Intn(4)
		case "show-hat":
			a.ShowsHat = !a.ShowsHat
		case "chat-session":
			kk, _ := gatevanilla.RandKey(rng, proto.Protocol(s.p))
			a.ChatSession = &chat.RemoteChatSession{ID: gatevanilla.RandUUID(rng), Key: kk}
		case "profile":
			if rng.Intn(2) == 0 {
				a.Profile.Name = gatevanilla.RandName(rng) + "2"
				if len(a.Profile.Name) > 16 {
					a.Profile.Name = a.Profile.Name[:16]
				}
			} else {
				a.Profile.Properties = append(append([]profile.Property(nil), a.Profile.Properties...), profile.Property{Name: "textures", Value: "v" + fmt.Sprint(rng.Intn(1000))})
			}
		}
		e := s.newEntry(a)
		s.step("api-add-changed-"+attr, fmt.Sprintf("%x", id[:2]), "api_add_changed_"+strings.ReplaceAll(attr, "-", "_"), func() { _ = s.tl.Add(e) })
	case k < 11: // API add of several entries in one call
		var es []apitablist.Entry
		for i, n := 0, 2+rng.Intn(2); i < n; i++ {
			es = append(es, s.newEntry(s.randAttrs(s.id())))
		}
		s.step("api-add", fmt.Sprintf("%d entries in one call", len(es)), "api_add_many", func() { _ = s.tl.Add(es...) })
	case k < 13: // API remove
		var ids []uuid.UUID
		for i, n := 0, 1+rng.Intn(2); i < n; i++ {
			ids = append(ids, s.id())
		}
		s.step("api-remove", fmt.Sprintf("%d ids", len(ids)), "api_remove", func() { _ = s.tl.RemoveAll(ids...) })
	case k < 14:
		if rng.Intn(2) == 0 {
			s.step("api-remove-all", "", "api_remove_all", func() { _ = s.tl.RemoveAll() })
			return
		}
		// hide and show again: remove an entry Gate reports, then add that very object back
		id, cur, okk := s.existing()
		if !okk {
			return
		}
		s.step("api-remove", fmt.Sprintf("%x (to be re-added)", id[:2]), "api_remove", func() { _ = s.tl.RemoveAll(id) })
		if !s.dead {
			s.step("api-readd-removed-entry", fmt.Sprintf("%x", id[:2]), "api_readd_removed_entry", func() { _ = s.tl.Add(cur) })
		}
	case k < 15: // entry setters on what Gate reports
		_, cur, okk := s.existing()
		if !okk {
			return
		}
		switch rng.Intn(5) {
		case 0:
			l := time.Duration(rng.Intn(900)) * time.Millisecond
			s.step("entry-set-latency", l.String(), "entry_setter", func() { _ = cur.SetLatency(l) })
		case 1:
			g := rng.Intn(4)
			s.step("entry-set-game-mode", fmt.Sprint(g), "entry_setter", func() { _ = cur.SetGameMode(g) })
		case 2:
			b := rng.Intn(2) == 0
			s.step("entry-set-listed", fmt.Sprint(b), "entry_setter", func() { _ = cur.SetListed(b) })
		case 3:
			var c component.Component
			if rng.Intn(3) != 0 {
				c = cleanComp(rng)
			}
			s.step("entry-set-display-name", gatevanilla.CompOf(c).Key(), "entry_setter", func() { _ = cur.SetDisplayName(c) })
		case 4:
			o := rng.Intn(9) - 2
			s.step("entry-set-list-order", fmt.Sprint(o), "entry_setter", func() { _ = cur.SetListOrder(o) })
		}
	case k < 19: // backend upsert with any action subset
		s.backendUpsert()
	default: // backend remove
		rm := &vanilla.PlayerInfoRemove{}
		for i, n := 0, 1+rng.Intn(2); i < n; i++ {
			rm.IDs = append(rm.IDs, [16]byte(s.id()))
		}
		body := vanilla.EncodePlayerInfoRemove(rm)
		s.step("backend-remove", fmt.Sprintf("%d ids", len(rm.IDs)), "backend_remove", func() {
			pkt, err := gatevanilla.Decode(state.Play, proto.ClientBound, proto.Protocol(s.p), &playerinfo.Remove{}, body)
			if err != nil {
				s.violation("backend-remove/not-decodable-by-gate", "Gate cannot decode a vanilla player-info remove: "+err.Error(), s.witness(map[string]any{"bytes": fmt.Sprintf("%x", body)}))
				return
			}
			s.tl.ProcessRemove(pkt.(*playerinfo.Remove))
			s.forward("remove", body, pkt)
		})
	}
}

// forward: the proxy forwards the backend's raw payload (forwardToPlayer(pc, nil)).
func (s *seq) forward(kind string, raw []byte, decoded proto.Packet) {
	s.v.out = append(s.v.out, sent{kind: kind, pkt: nil, body: raw})
	s.r.Count("backend_packets_forwarded", 1)
	// also: Gate's own re-encoding of what it decoded must mean the same to a vanilla client
	// (this is what reaches the client when a packet is re-sent through WritePacket).
	_, re, found, err := gatevanilla.Encode(state.Play, proto.ClientBound, proto.Protocol(s.p), decoded)
	if !found {
		return
	}
	same := err == nil
	if same && !bytes.Equal(re, raw) {
		a, b := vanilla.NewTabClient(s.p), vanilla.NewTabClient(s.p)
		ea, eb := a.Feed(kind, raw), b.Feed(kind, re)
		c, _ := diffClients(s.p, a, b)
		same = ea == nil && eb == nil && c == ""
	}
	s.r.Count("backend_packets_reencoded_by_gate", 1)
	if !same {
		s.violation("backend-"+kind+"/gate-reencoding-means-something-else", "Gate decodes a vanilla backend packet and re-encodes it to bytes a vanilla client reads differently",
			s.witness(map[string]any{"backend_bytes": fmt.Sprintf("%x", raw), "gate_bytes": fmt.Sprintf("%x", re), "encode_error": fmt.Sprint(err)}))
	}
}

func diffClients(p int, a, b *vanilla.TabClient) (string, string) {
	if len(a.Entries) != len(b.Entries) {
		return "entries", "count"
	}
	for id, ea := range a.Entries {
		eb, okk := b.Entries[id]
		if !okk {
			return "entries", "id"
		}
		va, vb := clientView(p, ea), clientView(p, eb)
		if va.Name != vb.Name || !gatevanilla.PropsEqual(va.Props, vb.Props) || va.LatencyMs != vb.LatencyMs || va.GameMode != vb.GameMode ||
			va.Listed != vb.Listed || va.Display != vb.Display || va.ListOrder != vb.ListOrder || ea.ShowHat != eb.ShowHat || ea.HasChat != eb.HasChat {
			return "entry", fmt.Sprintf("%x", id)
		}
	}
	return "", ""
}

func (s *seq) backendUpsert() {
	rng := s.rng
	na := vanilla.ActionsIn(s.p)
	var mask uint8
	switch rng.Intn(4) {
	case 0: // what a vanilla server sends on join: everything
		mask = uint8(1<<uint(na) - 1)
	case 1: // single action
		mask = 1 << uint(rng.Intn(na))
	default:
		mask = uint8(rng.Intn(1 << uint(na)))
	}
	u := &vanilla.PlayerInfoUpdate{Actions: mask}
	for i, n := 0, 1+rng.Intn(3); i < n; i++ {
		e := &vanilla.InfoEntry{ID: [16]byte(s.id()), Name: gatevanilla.RandName(rng), Properties: gatevanilla.PropsOf(gatevanilla.RandProps(rng)),
			GameMode: []int32{0, 1, 2, 3, 1, 3, -1}[rng.Intn(7)], Listed: rng.Intn(2) == 0, Latency: []int32{0, 1, 17, 150, 999, -1, 70000}[rng.Intn(7)],
			ListOrder: []int32{0, 1, -1, 7, 300}[rng.Intn(5)], ShowHat: rng.Intn(2) == 0}
		if rng.Intn(3) != 0 {
			e.HasDisplay = true
			e.DisplayName = gatevanilla.CompOf(cleanComp(rng))
		}
		if rng.Intn(3) == 0 {
			_, kd := gatevanilla.RandKey(rng, proto.Protocol(s.p))
			if len(kd.Signature) < 256 { // a vanilla server always has a full signature
				kd.Signature = append(kd.Signature, make([]byte, 256-len(kd.Signature))...)
			}
			e.HasChat = true
			e.Chat = vanilla.ChatSession{SessionID: [16]byte(gatevanilla.RandUUID(rng)), Key: vanilla.PublicKeyData{ExpiresAt: kd.ExpiresAt, Key: kd.DER, Signature: kd.Signature}}
		}
		u.Entries = append(u.Entries, e)
	}
	body := vanilla.EncodePlayerInfoUpdate(s.p, u)
	var names []string
	for a := 0; a < na; a++ {
		if u.Has(a) {
			names = append(names, vanilla.ActionNames[a])
		}
	}
	cls := "backend_upsert_with_add"
	if !u.Has(vanilla.ActAddPlayer) {
		cls = "backend_upsert_without_add"
	}
	s.r.Count(fmt.Sprintf("backend_upsert_actionsets_size_%d", len(names)), 1)
	s.step("backend-upsert", fmt.Sprintf("[%s] x %d entries", strings.Join(names, ","), len(u.Entries)), cls, func() {
		pkt, err := gatevanilla.Decode(state.Play, proto.ClientBound, proto.Protocol(s.p), &playerinfo.Upsert{}, body)
		if err != nil {
			s.violation("backend-upsert/not-decodable-by-gate", "Gate cannot decode a vanilla player-info update: "+err.Error(), s.witness(map[string]any{"bytes": fmt.Sprintf("%x", body)}))
			return
		}
		s.decodedDisplay = map[uuid.UUID]string{}
		if up := pkt.(*playerinfo.Upsert); playerinfo.ContainsAction(up.ActionSet, playerinfo.UpdateDisplayNameAction) {
			for _, e := range up.Entries {
				s.decodedDisplay[e.ProfileID] = gatevanilla.CompOf(e.DisplayName.AsComponentOrNil()).Canon(s.p).Key()
			}
		}
		if err := s.tl.ProcessUpdate(pkt.(*playerinfo.Upsert)); err != nil {
			s.r.Count("process_update_errors", 1)
		}
		s.forward("update", body, pkt)
	})
}

func TestC28(t *testing.T) {
	r := lib.Start(t, "C28")
	defer r.Finish()
	r.Rule("one case = one operation inside a generated sequence (<= 30 ops) on a fresh internal/tablist.New(recording viewer) for one 1.19.3+ protocol; ops: API Add of a new entry / a fresh object replacing an entry / the identical entry (same object, equal copy) / a copy with exactly one attribute changed (display name, latency, game mode incl. -1 and 256, listed, list order, hat, chat session, profile) / several entries at once, API RemoveAll(ids), RemoveAll(), entry setters, backend upsert with any action subset over 1-3 entries (ids from a pool of 5, so known and unknown ids mix), backend remove. After every op the entries Gate reports are compared with the reference client fed with the bytes Gate produced. distinct = distinct (protocol, operation prefix)")
	r.Assume("ref/vanilla TabClient transcribes ClientPacketListener.handlePlayerInfoUpdate/Remove (putIfAbsent on ADD_PLAYER, per-action application to known entries only, defaults survival/0 ms/unlisted/order 0) from memory; decoder as in C07")
	r.Assume("R: game mode -1/256 (Gate's unset sentinels) and every wire id outside 0..3 are compared as the client's default (survival); latency is compared in whole milliseconds; list order only for 1.21.2+ viewers; hat and chat session are not part of the statement and are not compared; packets buffered but not yet flushed count as sent, in order")
	r.Assume("backend packets are the bytes a vanilla server sends (independent encoder); Gate decodes them with its real decoder, ProcessUpdate/ProcessRemove run, the raw payload is what the client receives (session_backend_play.go forwards pc.Payload); Gate's re-encoding of the decoded packet is checked separately to mean the same")

	var protos []int
	for _, p := range gatevanilla.Versions() {
		if int(p) >= vanilla.P1_19_3 {
			protos = append(protos, int(p))
		}
	}
	nSeq := r.N(2500, 250000)
	workers := 8
	var wg sync.WaitGroup
	var mu sync.Mutex
	finals := map[string]struct{}{}
	maxEntries := 0
	for w := 0; w < workers; w++ {
		w := w
		wg.Add(1)
		go func() {
			defer wg.Done()
			rng := r.Rng(fmt.Sprintf("seq/%d", w))
			for i := w; i < nSeq; i += workers {
				p := protos[i%len(protos)]
				if p > vanilla.PNewest && i%3 != 0 {
					p = protos[rng.Intn(len(protos))]
				}
				s := &seq{r: r, rng: rng, p: p, v: &viewer{protocol: proto.Protocol(p)}, cl: vanilla.NewTabClient(p), mine: map[uuid.UUID]*internaltablist.Entry{}}
				s.tl = internaltablist.New(s.v)
				if workers == 1 {
					r.LogCase(map[string]any{"protocol": p, "sequence": i})
				}
				for j := 0; j < 5; j++ {
					s.pool = append(s.pool, gatevanilla.RandUUID(rng))
				}
				n := 5 + rng.Intn(26)
				for j := 0; j < n && !s.dead; j++ {
					before := len(s.ops)
					s.randomOp()
					if len(s.ops) > before {
						r.Distinct(fmt.Sprintf("%d|%v", p, s.ops))
					}
				}
				r.Count("sequences", 1)
				if p > vanilla.PNewest {
					r.Count("sequences_on_protocols_newer_than_reference_vouches_for", 1)
				}
				key := fmt.Sprintf("%d:", p)
				ents := s.tl.Entries()
				ids := make([]string, 0, len(ents))
				for id, e := range ents {
					ids = append(ids, fmt.Sprintf("%x/%+v", id[:2], gateView(p, e)))
				}
				sort.Strings(ids)
				key += strings.Join(ids, ";")
				mu.Lock()
				finals[key] = struct{}{}
				if len(ents) > maxEntries {
					maxEntries = len(ents)
				}
				mu.Unlock()
				if r.WantSample() {
					r.Sample(map[string]any{"protocol": p, "operations": s.ops, "final_entries_gate": len(ents), "final_entries_client": len(s.cl.Entries), "client_ignored_updates_for_unknown_ids": s.cl.Ignored})
				}
			}
		}()
	}
	wg.Wait()
	r.Set("protocols", protos)
	r.Set("distinct_final_tab_list_states", len(finals))
	r.Set("max_entries_in_a_tab_list", maxEntries)
	r.Set("not_compared", []string{"show-hat (not in the statement; note: ProcessUpdate ignores UPDATE_HAT)", "chat session", "list order for viewers before 1.21.2", "component texts containing backslashes (reported under C07)"})
}
