// C31, class "behind the proxy's own PROXY-protocol listener".
//
// The other classes hand lite.Forward a client connection directly. In production the
// connection is whatever the proxy's listener delivers, and with the listener option
// `proxyProtocol: true` that is the accepted socket wrapped by the listener's PROXY protocol
// wrapper: its RemoteAddr() is the client address an upstream load balancer announced in the
// inbound PROXY header (when that upstream is trusted), and bytes that arrived together with
// that header sit in the wrapper's buffer, not on the socket.
//
// Here a real proxy.Proxy (Lite mode, proxyProtocol on) is started with Proxy.Start on a
// loopback port; a fake "load balancer" dials it over real TCP and sends
//
//	[inbound PROXY header v1 / v2 (with or without TLVs) / v2 LOCAL / v1 UNKNOWN / none]
//	‖ handshake ‖ further client bytes
//
// in one segment or cut into segments at the interesting borders. The oracle is the one of
// the other classes (judge): the recording backend's stream must be
//
//	[PROXY header carrying THE CLIENT's address iff the route enables it]
//	‖ handshake as sent / reference rewrite (TCPShield real-IP with THE CLIENT's address)
//	‖ every further client byte
//
// where the client's address is the one the trusted upstream announced, and the address of
// the TCP peer itself when there is nothing to honour (no header, LOCAL/UNKNOWN header,
// upstream not in proxyProtocolTrustedProxies and therefore not allowed to send a header).
package c31

import (
	"encoding/binary"
	"fmt"
	"math/rand"
	"net"
	"strings"
	"sync"
	"sync/atomic"
	"time"

	jconfig "go.minekube.com/gate/pkg/edition/java/config"
	"go.minekube.com/gate/pkg/edition/java/lite/config"
	"go.minekube.com/gate/pkg/edition/java/proxy/verifh/e2e/litefwd"
	"go.minekube.com/gate/pkg/edition/java/proxy/verifh/lib"
)

// ---- inbound PROXY headers, written by hand from the haproxy specification ------------------------

var ppV2Sig = []byte("\r\n\r\n\x00\r\nQUIT\n")

type inbound struct {
	Kind      string // v1-tcp4 v1-tcp6 v2-tcp4 v2-tcp6 v2-tcp4-tlv v2-tcp6-tlv v2-local v1-unknown none
	Bytes     []byte
	Announced string // "ip:port" the header announces as the client, "" = nothing to honour
}

func buildInbound(rng *rand.Rand, kind string) inbound {
	in := inbound{Kind: kind}
	s4 := [4]byte{byte(1 + rng.Intn(222)), byte(rng.Intn(256)), byte(rng.Intn(256)), byte(1 + rng.Intn(254))}
	if s4[0] == 127 || s4[0] == 10 {
		s4[0] = 203
	}
	d4 := [4]byte{192, 0, 2, byte(1 + rng.Intn(250))}
	var s6, d6 [16]byte
	copy(s6[:], []byte{0x20, 0x01, 0x0d, 0xb8})
	binary.BigEndian.PutUint16(s6[6:], uint16(rng.Intn(65536)))
	binary.BigEndian.PutUint16(s6[14:], uint16(1+rng.Intn(0xfffe)))
	copy(d6[:], []byte{0x20, 0x01, 0x0d, 0xb8, 0xff, 0xff})
	d6[15] = 1
	sp, dp := uint16(1024+rng.Intn(60000)), uint16(25565)
	ip4 := func(b [4]byte) string { return net.IP(b[:]).String() }
	ip6 := func(b [16]byte) string { return net.IP(b[:]).String() }
	tlvs := func() []byte {
		// PP2_TYPE_UNIQUE_ID (0x05) and a vendor TLV (0xEA, AWS VPCE style), random values
		var t []byte
		for _, typ := range []byte{0x05, 0xEA} {
			v := make([]byte, 1+rng.Intn(140))
			rng.Read(v)
			t = append(t, typ, byte(len(v)>>8), byte(len(v)))
			t = append(t, v...)
		}
		return t
	}
	switch kind {
	case "v1-tcp4":
		in.Bytes = []byte(fmt.Sprintf("PROXY TCP4 %s %s %d %d\r\n", ip4(s4), ip4(d4), sp, dp))
		in.Announced = fmt.Sprintf("%s:%d", ip4(s4), sp)
	case "v1-tcp6":
		in.Bytes = []byte(fmt.Sprintf("PROXY TCP6 %s %s %d %d\r\n", ip6(s6), ip6(d6), sp, dp))
		in.Announced = fmt.Sprintf("[%s]:%d", ip6(s6), sp)
	case "v1-unknown":
		in.Bytes = []byte("PROXY UNKNOWN\r\n")
	case "v2-tcp4", "v2-tcp4-tlv":
		var extra []byte
		if kind == "v2-tcp4-tlv" {
			extra = tlvs()
		}
		b := append(append([]byte{}, ppV2Sig...), 0x21, 0x11)
		b = binary.BigEndian.AppendUint16(b, uint16(12+len(extra)))
		b = append(b, s4[:]...)
		b = append(b, d4[:]...)
		b = binary.BigEndian.AppendUint16(b, sp)
		b = binary.BigEndian.AppendUint16(b, dp)
		in.Bytes, in.Announced = append(b, extra...), fmt.Sprintf("%s:%d", ip4(s4), sp)
	case "v2-tcp6", "v2-tcp6-tlv":
		var extra []byte
		if kind == "v2-tcp6-tlv" {
			extra = tlvs()
		}
		b := append(append([]byte{}, ppV2Sig...), 0x21, 0x21)
		b = binary.BigEndian.AppendUint16(b, uint16(36+len(extra)))
		b = append(b, s6[:]...)
		b = append(b, d6[:]...)
		b = binary.BigEndian.AppendUint16(b, sp)
		b = binary.BigEndian.AppendUint16(b, dp)
		in.Bytes, in.Announced = append(b, extra...), fmt.Sprintf("[%s]:%d", ip6(s6), sp)
	case "v2-local":
		in.Bytes = append(append([]byte{}, ppV2Sig...), 0x20, 0x00, 0, 0)
	}
	return in
}

// ---- one proxy + its backends ------------------------------------------------------------------------

type lworker struct {
	*worker
	lp      *litefwd.ListenerProxy
	trust   string // trusted-default | trusted-listed | untrusted
	goodFor [16]string
	firstOf [16]string
}

var spellings = []string{"127.0.0.1", "localhost", "LocalHost"}

// route i: bit0 proxyProtocol, bit1 modifyVirtualHost, bit2 tcpShieldRealIP, bit3 a refusing
// backend listed first. The route is picked by the token r<ii>q inside the virtual host.
func routeToken(i int) string { return fmt.Sprintf("r%02dq", i) }

func newLWorker(trust string) (*lworker, error) {
	w, err := newWorker()
	if err != nil {
		return nil, err
	}
	lw := &lworker{worker: w, trust: trust}
	var routes []config.Route
	for i := 0; i < 16; i++ {
		lw.goodFor[i] = spellings[i%3]
		lw.firstOf[i] = spellings[(i/3)%3]
		var backends []string
		if i&8 != 0 {
			backends = append(backends, fmt.Sprintf("%s:%d", lw.firstOf[i], w.refused.Port))
		}
		backends = append(backends, fmt.Sprintf("%s:%d", lw.goodFor[i], w.good.Port))
		routes = append(routes, config.Route{Host: []string{"*" + routeToken(i) + "*"}, Backend: backends,
			ProxyProtocol: i&1 != 0, ModifyVirtualHost: i&2 != 0, TCPShieldRealIP: i&4 != 0})
	}
	lw.lp, err = litefwd.StartListener(func(c *jconfig.Config) {
		c.ProxyProtocol = true
		switch trust {
		case "trusted-listed":
			c.ProxyProtocolTrustedProxies = []string{"192.0.2.0/24", "127.0.0.1"}
		case "untrusted":
			c.ProxyProtocolTrustedProxies = []string{"10.99.0.0/16", "2001:db8:ffff::/48"}
		}
		c.Lite.Routes = routes
	})
	if err != nil {
		w.close()
		return nil, err
	}
	return lw, nil
}

func (lw *lworker) close() { lw.lp.Stop(); lw.worker.close() }

// ---- cases ---------------------------------------------------------------------------------------------

type lcase struct {
	tcase
	Trust     string
	Route     int
	Kind      string
	Announced string
	Seg       string // how the first bytes are cut into TCP segments
	Cut       int    // offset for the cutting modes that need one
	inHdr     []byte
}

var segModes = []string{"one-segment", "header|rest", "header|handshake|rest", "header+handshake|rest", "cut-inside-header", "cut-inside-handshake", "one-segment", "header|rest"}

func genLCase(rng *rand.Rand, trust string, lw *lworker, big bool) lcase {
	var lc lcase
	c := genCase(rng, big)
	lc.Trust = trust
	lc.Route = rng.Intn(16)
	// put the route token into the virtual host (own label, or glued to the first label)
	ch := refClean(c.Address)
	tok := routeToken(lc.Route)
	if rng.Intn(3) == 0 {
		tok = strings.ToUpper(tok)
	}
	glue := []string{".", "-", "."}[rng.Intn(3)]
	c.Address = strings.Replace(c.Address, ch, tok+glue+ch, 1)
	c.PP, c.MVH, c.TS = lc.Route&1 != 0, lc.Route&2 != 0, lc.Route&4 != 0
	c.First = ""
	if lc.Route&8 != 0 {
		c.First = "refused"
	}
	c.GoodHost, c.FirstHost = lw.goodFor[lc.Route], lw.firstOf[lc.Route]
	c.SlowAddr, c.ReadChunk = false, 0
	c.buildFrame(rng)
	kinds := []string{"none"}
	if trust != "untrusted" {
		kinds = []string{"v1-tcp4", "v1-tcp6", "v2-tcp4", "v2-tcp6", "v2-tcp4-tlv", "v2-tcp6-tlv", "v1-tcp4", "v2-tcp6", "v2-local", "v1-unknown", "none"}
	}
	lc.Kind = kinds[rng.Intn(len(kinds))]
	in := buildInbound(rng, lc.Kind)
	lc.inHdr, lc.Announced = in.Bytes, in.Announced
	lc.Seg = segModes[rng.Intn(len(segModes))]
	switch lc.Seg {
	case "cut-inside-header":
		// go-proxyproto (like haproxy) wants a v1 header in one segment; only binary headers are cut
		if len(in.Bytes) < 2 || strings.HasPrefix(lc.Kind, "v1") {
			lc.Seg = "header|rest"
		} else {
			lc.Cut = 1 + rng.Intn(len(in.Bytes)-1)
		}
	case "cut-inside-handshake":
		lc.Cut = 1 + rng.Intn(len(c.Frame)-1)
	}
	if lc.Kind == "none" {
		switch lc.Seg {
		case "header|rest", "cut-inside-header":
			lc.Seg = "one-segment"
		case "header|handshake|rest", "header+handshake|rest":
			lc.Seg = "handshake|rest"
		}
	}
	c.ClientAddr = lc.Announced // completed with the socket address at run time when empty
	lc.tcase = c
	return lc
}

func (lc lcase) key() string {
	return fmt.Sprintf("L|%s|%d|%s|%s|%d|%s", lc.Trust, lc.Route, lc.Kind, lc.Seg, lc.Cut, lc.tcase.key())
}

// segments returns the writes the fake load balancer does for the first bytes; rest is what
// follows in random chunkings.
func (lc lcase) segments(cBody []byte) (segs [][]byte, rest []byte) {
	pip := cBody[:lc.Pipelined]
	rest = cBody[lc.Pipelined:]
	cat := func(bs ...[]byte) []byte {
		var o []byte
		for _, b := range bs {
			o = append(o, b...)
		}
		return o
	}
	h, f := lc.inHdr, lc.Frame
	switch lc.Seg {
	case "one-segment":
		segs = [][]byte{cat(h, f, pip)}
	case "header|rest":
		segs = [][]byte{h, cat(f, pip)}
	case "header|handshake|rest":
		segs = [][]byte{h, f, pip}
	case "header+handshake|rest", "handshake|rest":
		segs = [][]byte{cat(h, f), pip}
	case "cut-inside-header":
		segs = [][]byte{h[:lc.Cut], cat(h[lc.Cut:], f, pip)}
	case "cut-inside-handshake":
		segs = [][]byte{cat(h, f[:lc.Cut]), cat(f[lc.Cut:], pip)}
	}
	var out [][]byte
	for _, s := range segs {
		if len(s) > 0 {
			out = append(out, s)
		}
	}
	return out, rest
}

type loutcome struct {
	outcome
	dialErr   error
	peer      string
	forwarded bool
}

func runLCase(lw *lworker, lc *lcase, seed int64, budget time.Duration) loutcome {
	rng := rand.New(rand.NewSource(seed))
	cBody := make([]byte, lc.ClientBody)
	rng.Read(cBody)
	bBody := make([]byte, lc.BackendBody)
	rng.Read(bBody)
	cs := &caseState{eof: make(chan struct{}), body: bBody, chunkRng: rand.New(rand.NewSource(seed + 1))}
	lw.cur.Store(cs)
	defer lw.cur.Store(nil)

	o := loutcome{outcome: outcome{clientBody: cBody, backBody: bBody, t0: time.Now().Unix()}}
	conn, err := net.DialTimeout("tcp4", lw.lp.Addr, 10*time.Second)
	if err != nil {
		o.dialErr = err
		return o
	}
	lb := conn.(*net.TCPConn)
	o.peer = lb.LocalAddr().String()
	if lc.Announced == "" {
		lc.ClientAddr = o.peer // nothing to honour: the client is the TCP peer
	}

	segs, rest := lc.segments(cBody)
	go func() {
		for i, s := range segs {
			if i > 0 {
				time.Sleep(2 * time.Millisecond) // stimulus only: lets the previous write leave as its own segment
			}
			if _, err := lb.Write(s); err != nil {
				return
			}
		}
		writeChunked(lb, rest, rand.New(rand.NewSource(seed+3)))
	}()
	var cmu sync.Mutex
	var cgot []byte
	cdone := make(chan struct{})
	go func() {
		defer close(cdone)
		buf := make([]byte, 32<<10)
		for {
			n, err := lb.Read(buf)
			if n > 0 {
				cmu.Lock()
				cgot = append(cgot, buf[:n]...)
				cmu.Unlock()
			}
			if err != nil {
				return
			}
		}
	}()

	deadline := time.Now().Add(budget)
	for {
		cmu.Lock()
		cl := len(cgot)
		cmu.Unlock()
		head, total := cs.head(4096)
		p := parseStream(head)
		if p.ok && total-p.frameEnd >= len(cBody) && cl >= len(bBody) {
			break
		}
		select {
		case <-cdone: // the proxy closed the connection
			goto finish
		default:
		}
		if time.Now().After(deadline) {
			o.timedOut = true
			break
		}
		time.Sleep(300 * time.Microsecond)
	}
finish:
	// the reader goroutine keeps the receive buffer empty, so this close is a FIN, not a RST
	_ = lb.Close()
	lib.Returns(20*time.Second, func() { <-cdone })
	_, conns := cs.snapshot()
	if conns == 0 {
		// under load the backend's accept goroutine may lag behind: give it a moment
		lib.Returns(500*time.Millisecond, func() {
			for {
				if _, n := cs.snapshot(); n > 0 {
					return
				}
				time.Sleep(time.Millisecond)
			}
		})
		_, conns = cs.snapshot()
	}
	if conns > 0 {
		if ok, _ := lib.Returns(20*time.Second, func() { <-cs.eof }); !ok {
			o.timedOut = true
		}
	}
	o.t1 = time.Now().Unix()
	o.backendGot, o.conns = cs.snapshot()
	cmu.Lock()
	o.clientGot = append([]byte(nil), cgot...)
	cmu.Unlock()
	o.forwarded = o.conns > 0
	o.fwd, o.fwdTo = o.forwarded, fmt.Sprintf("%s:%d", lc.GoodHost, lw.good.Port)
	return o
}

// behindListener runs the class; called from TestC31.
func behindListener(r *lib.Run) {
	trusts := []string{"trusted-default", "trusted-listed", "untrusted"}
	n := r.N(150, 6000)
	var (
		mu                                    sync.Mutex
		byKind, bySeg, byTrust, byOpt, notJ   = map[string]int{}, map[string]int{}, map[string]int{}, map[string]int{}, map[string]int{}
		announcedPP, announcedTS, pipelinedHd int
		bytesC, bytesB                        int64
		timeouts                              atomic.Int64
	)
	var wg sync.WaitGroup
	for wi, trust := range trusts {
		wg.Add(1)
		go func(wi int, trust string) {
			defer wg.Done()
			lw, err := newLWorker(trust)
			if err != nil {
				r.Inconclusive("behind-listener: cannot start the proxy / loopback listeners: " + err.Error())
				return
			}
			defer lw.close()
			rng := r.Rng("listener-" + trust)
			share := n / 5 * 2 // the two trusted configurations carry the header kinds
			if trust == "untrusted" {
				share = n - 2*(n/5*2)
			}
			for i := 0; i < share; i++ {
				if timeouts.Load() > 3 {
					r.Inconclusive("behind-listener: too many watchdog expiries; remaining cases of this worker skipped")
					return
				}
				lc := genLCase(rng, trust, lw, r.Thorough() || i%25 == 7)
				seed := rng.Int63()
				if wi == 0 {
					r.LogCase(lc)
				}
				o := runLCase(lw, &lc, seed, 8*time.Second)
				r.Eval(1)
				if o.dialErr != nil {
					r.Inconclusive("behind-listener: cannot connect to the proxy's listener: " + o.dialErr.Error())
					timeouts.Add(1)
					continue
				}
				if !o.forwarded {
					// "Once a Lite route is chosen": nothing reached a backend, nothing to compare.
					// (every generated case has a matching route and a healthy backend, so this
					// is counted and reported, never silently dropped)
					mu.Lock()
					notJ["nothing-reached-the-backend"]++
					mu.Unlock()
					r.Inconclusive(fmt.Sprintf("behind-listener: no backend connection was observed (kind=%s trust=%s seg=%s timed_out=%v)", lc.Kind, lc.Trust, lc.Seg, o.timedOut))
					timeouts.Add(1)
					continue
				}
				vs, _ := judge(lw.worker, lc.tcase, o.outcome)
				hasTrunc := false
				for _, v := range vs {
					hasTrunc = hasTrunc || v.trunc
				}
				if hasTrunc {
					timeouts.Add(1)
					o2 := runLCase(lw, &lc, seed, 24*time.Second)
					if o2.dialErr != nil || !o2.forwarded {
						r.Inconclusive("behind-listener: re-run of a truncated case did not reach the backend")
						continue
					}
					vs2, _ := judge(lw.worker, lc.tcase, o2.outcome)
					still := false
					for _, v := range vs2 {
						still = still || v.trunc
					}
					if !still {
						r.Inconclusive("behind-listener: a stream was truncated at the watchdog but complete on re-run")
						vs, o = vs2, o2
					}
				}
				for _, v := range vs {
					v.wit["class"] = "behind the proxy's own listener with proxyProtocol: true"
					v.wit["inbound_header_kind"] = lc.Kind
					v.wit["inbound_header_hex"] = hexHead(lc.inHdr, 64)
					v.wit["announced_client"] = lc.Announced
					v.wit["tcp_peer_of_the_listener"] = o.peer
					v.wit["upstream"] = lc.Trust
					v.wit["segmentation"] = lc.Seg
					v.wit["route_token"] = routeToken(lc.Route)
					r.Violation("behind-proxy-listener:"+v.sig, v.what+" [client connection delivered by the proxy's listener, proxyProtocol on; client address = "+lc.ClientAddr+"]", v.wit)
				}
				mu.Lock()
				byKind[lc.Kind]++
				bySeg[lc.Seg]++
				byTrust[lc.Trust]++
				byOpt[fmt.Sprintf("pp=%v,mvh=%v,ts=%v,first=%s", lc.PP, lc.MVH, lc.TS, lc.First)]++
				if lc.Announced != "" && lc.PP {
					announcedPP++
				}
				if lc.Announced != "" && lc.TS && strings.Contains(lc.Address, "///") {
					announcedTS++
				}
				if lc.Pipelined > 0 && len(lc.inHdr) > 0 && (lc.Seg == "one-segment" || lc.Seg == "cut-inside-header" || lc.Seg == "cut-inside-handshake") {
					pipelinedHd++
				}
				bytesC += int64(lc.ClientBody)
				bytesB += int64(lc.BackendBody)
				mu.Unlock()
				r.Distinct(lc.key())
				if wi == 0 && r.WantSample() {
					r.Sample(map[string]any{"class": "behind-listener", "case": lc, "client_address_expected": lc.ClientAddr, "tcp_peer": o.peer, "backend_stream_len": len(o.backendGot), "client_stream_len": len(o.clientGot)})
				}
			}
		}(wi, trust)
	}
	wg.Wait()
	r.Set("listener_cases_judged_by_inbound_header", byKind)
	r.Set("listener_cases_judged_by_segmentation", bySeg)
	r.Set("listener_cases_judged_by_upstream_trust", byTrust)
	r.Set("listener_cases_judged_by_route_options", byOpt)
	r.Set("listener_not_judged", notJ)
	r.Set("listener_backend_proxy_headers_checked_against_announced_client", announcedPP)
	r.Set("listener_tcpshield_rewrites_checked_against_announced_client", announcedTS)
	r.Set("listener_cases_client_bytes_in_the_inbound_headers_segment", pipelinedHd)
	r.Set("listener_client_to_backend_bytes_compared", bytesC)
	r.Set("listener_backend_to_client_bytes_compared", bytesB)
	r.Set("listener_watchdog_expiries_or_unreached", timeouts.Load())
}
