// C31, end-of-stream classes: what happens to the two byte streams when one side ends ITS
// sending direction while the other direction is still in use.
//
// The statement says "every further client byte [reaches the backend] unchanged, and the
// client receives every backend byte unchanged", quantified over all byte streams in both
// directions. A byte stream has an end, and the two directions of a TCP connection end
// independently (FIN / shutdown(SHUT_WR)); the classes below put that end at different points:
//
//	backend-half-close  the backend sends k bytes (concurrently with an early client upload of
//	                    0..512 KiB), half-closes (CloseWrite) and keeps reading; the client then
//	                    sends a late chunk and a further upload (often >= 1 MiB) and ends
//	                    (half-close then read to EOF, or close). The backend must have received
//	                    EVERY client byte, the client the backend's k bytes.
//	                    "Synced": the client continues only after the backend's CloseWrite
//	                    returned (+ a settle delay); otherwise both run freely, so the half-close
//	                    lands somewhere in the middle of the upload.
//	client-half-close   the client uploads (up to 2 MiB) and half-closes, keeps reading; the
//	                    backend sends its download after it saw the client's EOF, or concurrently
//	                    (the client half-closing in the middle of the download, or only after
//	                    it has received all of it: "concurrently-finishing-first").
//	backend-close       the backend sends k bytes and closes completely; the client must have
//	                    received all k.
//
// Reading for client-half-close (checked against the unchanged code before asserting): Gate's
// pipe() runs the client->backend copy in the calling goroutine and returns when THAT direction
// ends, whereupon Forward closes both connections. For Gate (as for the Minecraft protocol,
// whose clients never shut down one direction) the end of the client's stream is the end of
// the forwarded connection; backend bytes that are sent or still in flight after that point
// have no connection to be delivered on. The statement does not say how long the forwarding
// lasts, so under the reading that lets correct code pass the monitor asserts for this class
// only (1) the backend received every client byte (the client sent all of them BEFORE ending
// its stream) and (2) what the client received is a prefix of the backend's bytes (nothing
// altered, duplicated or reordered); how much of the download still arrived is recorded as
// evidence, not judged. A backend->client loss IS judged in the two other classes and in
// "concurrently-finishing-first", where the client's stream is still open when the backend's
// bytes are sent. One more consequence of the same reading: when the backend is still SENDING
// at the moment Gate closes its connection, TCP answers the backend's next segment with a
// reset, which discards client bytes the kernel had not delivered yet (observed on the unchanged
// tree with a backend whose reader lags by more than a receive window: 128 KiB of 1.9 MiB
// arrived, then ECONNRESET). Those bytes were all handed to the backend connection by Gate
// before it closed; in the "concurrently" variant a short backend stream that ended with a
// reset (seen by the backend's Read or by one of its Writes) is therefore not judged (counted
// under eos_not_judged), one that ended with an orderly EOF is.
//
// Streams are recorded completely and compared by content; witnesses carry sha1, lengths and
// the first differing offset. A stream that is short is judged only once the receiving side's
// connection reached its end (EOF / error) — until then (watchdog) the case is inconclusive.
package c31

import (
	"crypto/sha1"
	"fmt"
	"io"
	"math/rand"
	"net"
	"sync"
	"sync/atomic"
	"time"

	"go.minekube.com/gate/pkg/edition/java/lite"
	"go.minekube.com/gate/pkg/edition/java/lite/config"
	"go.minekube.com/gate/pkg/edition/java/proxy/verifh/e2e/litefwd"
	"go.minekube.com/gate/pkg/edition/java/proxy/verifh/lib"
)

const eosWatchdog = 25 * time.Second

type eosCase struct {
	Kind         string // backend-half-close | client-half-close | backend-close
	Transport    string // client side: "tcp" (real loopback connection) | "mem" (lib.Pipe)
	H            tcase  // handshake, route options, first backend
	Early        int    // client bytes sent right after the handshake (incl. Pipelined)
	Pipelined    int
	Down         int    // backend bytes
	Late         int    // backend-half-close: small client chunk after the half-close
	Up           int    // backend-half-close: upload after the late chunk; client-half-close: the whole upload
	Synced       bool   // backend-half-close: client continues only after CloseWrite returned
	SettleMs     int    // ... plus this delay
	ClientEnd    string // backend-half-close: "half-close" (then read to EOF) | "close"
	BackendSends string // client-half-close: "after-client-eof" | "concurrently" | "concurrently-finishing-first"
}

func (c eosCase) key() string {
	return fmt.Sprintf("eos|%s|%s|%d|%d|%d|%d|%d|%v|%d|%s|%s|%s", c.Kind, c.Transport, c.Early, c.Pipelined, c.Down, c.Late, c.Up, c.Synced, c.SettleMs, c.ClientEnd, c.BackendSends, c.H.key())
}

func pick(rng *rand.Rand, xs ...int) int { return xs[rng.Intn(len(xs))] }

func genEOS(rng *rand.Rand, i int) eosCase {
	var c eosCase
	c.Kind = []string{"backend-half-close", "client-half-close", "backend-half-close", "backend-close", "backend-half-close", "client-half-close", "backend-half-close", "client-half-close"}[i%8]
	c.Transport = "tcp"
	if rng.Intn(4) == 0 {
		c.Transport = "mem"
	}
	h := genCase(rng, false)
	h.SlowAddr, h.ClientBody, h.BackendBody, h.Pipelined = false, 0, 0, 0
	if h.First == "rst" {
		h.First = "refused"
	}
	if c.Transport == "tcp" {
		h.ReadChunk = 0
	}
	c.H = h
	small := func() int { return 1 + rng.Intn(300) }
	mib := func() int { return 1<<20 + rng.Intn(1<<20) }
	switch c.Kind {
	case "backend-half-close":
		c.Early = pick(rng, 0, small(), small(), 20000+rng.Intn(50000), 200000+rng.Intn(320000))
		c.Down = pick(rng, 0, small(), small(), 1+rng.Intn(20000), 250000+rng.Intn(800000))
		c.Late = small()
		c.Up = pick(rng, 0, 1+rng.Intn(5000), mib(), mib(), mib())
		c.Synced = rng.Intn(3) != 0
		if c.Synced {
			c.SettleMs = pick(rng, 0, 5, 30, 30, 80)
		} else if c.Early < 200000 {
			// free-running: both directions large and simultaneous, the backend's half-close
			// lands somewhere inside the upload
			c.Early, c.Up = 200000+rng.Intn(320000), mib()
			c.Down = pick(rng, small(), 250000+rng.Intn(800000), 250000+rng.Intn(800000))
		}
		c.ClientEnd = []string{"half-close", "close"}[rng.Intn(2)]
	case "client-half-close":
		c.Up = pick(rng, 0, small(), 1+rng.Intn(100000), mib(), mib())
		c.Early = c.Up
		c.Down = pick(rng, small(), 1+rng.Intn(20000), 250000+rng.Intn(800000), mib()+mib())
		c.BackendSends = []string{"after-client-eof", "concurrently", "concurrently-finishing-first"}[rng.Intn(3)]
	case "backend-close":
		c.Early = pick(rng, 0, small(), 1+rng.Intn(20000))
		c.Down = pick(rng, small(), 1+rng.Intn(20000), 250000+rng.Intn(800000), mib())
	}
	if c.Early > 0 && rng.Intn(2) == 0 {
		c.Pipelined = 1 + rng.Intn(min(c.Early, 6000))
	}
	return c
}

// ---- recording ---------------------------------------------------------------------------------

// stream records what one side received and how its read side ended.
type stream struct {
	mu   sync.Mutex
	b    []byte
	err  error // error that ended reading (io.EOF = orderly end of stream)
	done chan struct{}
}

func newStream() *stream { return &stream{done: make(chan struct{})} }

func (s *stream) readFrom(r io.Reader) {
	buf := make([]byte, 64<<10)
	for {
		n, err := r.Read(buf)
		s.mu.Lock()
		s.b = append(s.b, buf[:n]...)
		if err != nil {
			s.err = err
		}
		s.mu.Unlock()
		if err != nil {
			close(s.done)
			return
		}
	}
}

func (s *stream) len() int { s.mu.Lock(); defer s.mu.Unlock(); return len(s.b) }
func (s *stream) head(n int) ([]byte, int) {
	s.mu.Lock()
	defer s.mu.Unlock()
	return append([]byte(nil), s.b[:min(n, len(s.b))]...), len(s.b)
}
func (s *stream) all() ([]byte, error) {
	s.mu.Lock()
	defer s.mu.Unlock()
	return append([]byte(nil), s.b...), s.err
}
func (s *stream) ended() bool {
	select {
	case <-s.done:
		return true
	default:
		return false
	}
}

func waitFor(d time.Duration, cond func() bool) bool {
	dl := time.Now().Add(d)
	for !cond() {
		if time.Now().After(dl) {
			return false
		}
		time.Sleep(200 * time.Microsecond)
	}
	return true
}

func waitChan(d time.Duration, ch <-chan struct{}) bool {
	t := time.NewTimer(d)
	defer t.Stop()
	select {
	case <-ch:
		return true
	case <-t.C:
		return false
	}
}

type eosState struct {
	c          eosCase
	down       []byte
	chunkRng   *rand.Rand
	conns      atomic.Int32
	got        *stream       // bytes the backend received on its first connection
	halfClosed chan struct{} // backend's CloseWrite returned
	finished   chan struct{} // backend handler done (connection closed)
	wroteAll   atomic.Bool   // backend wrote all of down without error
	hcErr      error
}

type eosWorker struct {
	backend *litefwd.Backend
	refused *litefwd.RefusedPort
	cur     atomic.Pointer[eosState]
}

func newEOSWorker() (*eosWorker, error) {
	w := &eosWorker{}
	var err error
	w.backend, err = litefwd.Listen(0, func(c net.Conn, idx int) {
		st := w.cur.Load()
		if st == nil || st.conns.Add(1) != 1 {
			_ = c.Close()
			return
		}
		defer close(st.finished)
		defer c.Close()
		tc := c.(*net.TCPConn)
		switch st.c.Kind {
		case "backend-half-close":
			go st.got.readFrom(c)
			if writeAll(c, st.down, st.chunkRng) {
				st.wroteAll.Store(true)
			}
			st.hcErr = tc.CloseWrite()
			close(st.halfClosed)
			<-st.got.done // keeps reading until the client's stream ends
		case "client-half-close":
			go st.got.readFrom(c)
			if st.c.BackendSends == "after-client-eof" {
				<-st.got.done
			}
			if writeAll(c, st.down, st.chunkRng) {
				st.wroteAll.Store(true)
			}
			<-st.got.done
		case "backend-close":
			// read exactly until [header] + handshake + the early bytes are here, so that the
			// close below is an orderly one (no unread data => FIN, not RST)
			buf := make([]byte, 32<<10)
			for {
				head, total := st.got.head(4096)
				if p := parseStream(head); p.ok && total-p.frameEnd >= st.c.Early {
					break
				}
				n, err := c.Read(buf)
				st.got.mu.Lock()
				st.got.b = append(st.got.b, buf[:n]...)
				st.got.mu.Unlock()
				if err != nil {
					st.got.mu.Lock()
					st.got.err = err
					st.got.mu.Unlock()
					break
				}
			}
			close(st.got.done)
			if writeAll(c, st.down, st.chunkRng) {
				st.wroteAll.Store(true)
			}
		}
	})
	if err != nil {
		return nil, err
	}
	w.refused, err = litefwd.ReserveRefused(0)
	return w, err
}

func (w *eosWorker) close() {
	w.backend.Close()
	if w.refused != nil {
		w.refused.Release()
	}
}

func writeAll(c io.Writer, b []byte, rng *rand.Rand) bool {
	for len(b) > 0 {
		n := chunk(rng, len(b))
		if _, err := c.Write(b[:n]); err != nil {
			return false
		}
		b = b[n:]
	}
	return true
}

type clientEnd interface {
	io.ReadWriter
	Close() error
	CloseWrite() error
}

type memClient struct{ *lib.Conn }

func (m memClient) CloseWrite() error { m.Conn.CloseWrite(); return nil }

type eosOutcome struct {
	setupErr        string
	inconclusive    string
	backendGot      []byte
	backendEnd      error
	backendEnded    bool
	clientGot       []byte
	clientEnd       error
	clientEnded     bool
	clientSent      []byte // every byte the client handed to Write successfully or not (the intended stream)
	clientWritten   int    // bytes Write accepted
	clientWriteErr  string
	gotAtHalfClose  int // client-half-close: backend bytes the client had when its CloseWrite returned
	sentAtHalfClose int // backend-half-close, synced: client body bytes written before the backend's half-close
	tries           []string
	fwdTo           string
	fwd             bool
	conns           int
	t0, t1          int64
	clientAddr      string
	down            []byte
	backendWroteAll bool
}

func runEOS(w *eosWorker, c eosCase, seed int64) eosOutcome {
	rng := rand.New(rand.NewSource(seed))
	early := make([]byte, c.Early)
	rng.Read(early)
	late := make([]byte, c.Late)
	rng.Read(late)
	var up []byte
	if c.Kind == "backend-half-close" {
		up = make([]byte, c.Up)
		rng.Read(up)
	}
	down := make([]byte, c.Down)
	rng.Read(down)
	st := &eosState{c: c, down: down, chunkRng: rand.New(rand.NewSource(seed + 1)), got: newStream(), halfClosed: make(chan struct{}), finished: make(chan struct{})}
	w.cur.Store(st)
	defer w.cur.Store(nil)

	var backends []string
	if c.H.First == "refused" {
		backends = append(backends, fmt.Sprintf("%s:%d", c.H.FirstHost, w.refused.Port))
	}
	backends = append(backends, fmt.Sprintf("%s:%d", c.H.GoodHost, w.backend.Port))
	routes := []config.Route{{Host: []string{"*"}, Backend: backends, ProxyProtocol: c.H.PP, ModifyVirtualHost: c.H.MVH, TCPShieldRealIP: c.H.TS}}
	opts := litefwd.Options{Routes: routes, SM: lite.NewStrategyManager(), TryLimit: 20}

	o := eosOutcome{t0: time.Now().Unix(), clientAddr: c.H.ClientAddr, down: down}
	var cl clientEnd
	var sess *litefwd.Session
	if c.Transport == "tcp" {
		ts, err := litefwd.StartTCP(opts)
		if err != nil {
			o.setupErr = err.Error()
			return o
		}
		cl, sess, o.clientAddr = ts.TCP, ts.Session, ts.Addr.String()
	} else {
		ca, _ := net.ResolveTCPAddr("tcp", c.H.ClientAddr)
		opts.ClientAddr = ca
		if c.H.ReadChunk > 0 {
			opts.ReadChunkRng, opts.ReadChunkMax = rand.New(rand.NewSource(seed+2)), c.H.ReadChunk
		}
		s := litefwd.Start(opts)
		cl, sess = memClient{s.Client}, s
	}
	cgot := newStream()
	go cgot.readFrom(cl)

	wrng := rand.New(rand.NewSource(seed + 3))
	write := func(b []byte, chunked bool) bool {
		o.clientSent = append(o.clientSent, b...)
		if o.clientWriteErr != "" {
			return false
		}
		for len(b) > 0 {
			n := len(b)
			if chunked {
				n = chunk(wrng, len(b))
			}
			k, err := cl.Write(b[:n])
			o.clientWritten += k
			if err != nil {
				o.clientWriteErr = err.Error()
				return false
			}
			b = b[n:]
		}
		return true
	}
	fail := func(what string) { o.inconclusive = what }

	// handshake + early bytes
	first := append(append([]byte(nil), c.H.Frame...), early[:c.Pipelined]...)
	if _, err := cl.Write(first); err != nil {
		o.clientWriteErr = err.Error()
	}
	o.clientSent = append(o.clientSent, early[:c.Pipelined]...)
	o.clientWritten += c.Pipelined
	write(early[c.Pipelined:], true)

	switch c.Kind {
	case "backend-half-close":
		if c.Synced {
			if !waitChan(eosWatchdog, st.halfClosed) {
				fail("the backend did not get to its half-close within the watchdog")
				break
			}
			// the k bytes were all written before the half-close: wait until they arrived
			if !waitFor(eosWatchdog, func() bool { return cgot.len() >= len(down) || cgot.ended() }) {
				fail("the backend's bytes did not arrive at the client within the watchdog")
				break
			}
			time.Sleep(time.Duration(c.SettleMs) * time.Millisecond)
			o.sentAtHalfClose = len(early)
		}
		write(late, false)
		write(up, true)
		// before ending: have everything the backend sent (its stream is finite: k bytes), so
		// that a close() finds no unread data and is an orderly FIN
		if !waitChan(eosWatchdog, st.halfClosed) || !waitFor(eosWatchdog, func() bool { return cgot.len() >= len(down) || cgot.ended() }) {
			fail("the backend's bytes did not arrive at the client within the watchdog")
			break
		}
		if c.ClientEnd == "half-close" {
			_ = cl.CloseWrite()
			if !waitChan(eosWatchdog, cgot.done) {
				fail("the client saw no end of stream after ending its own within the watchdog")
			}
		}
	case "client-half-close":
		if c.BackendSends == "concurrently-finishing-first" {
			if !waitFor(eosWatchdog, func() bool { return cgot.len() >= len(down) || cgot.ended() }) {
				fail("the backend's bytes did not arrive at the client within the watchdog")
				break
			}
		}
		_ = cl.CloseWrite()
		o.gotAtHalfClose = cgot.len()
		if !waitChan(eosWatchdog, cgot.done) {
			fail("the client saw no end of stream after ending its own within the watchdog")
		}
	case "backend-close":
		if !waitFor(eosWatchdog, func() bool { return cgot.len() >= len(down) || cgot.ended() }) {
			fail("the backend's bytes did not arrive at the client within the watchdog")
		}
	}
	_ = cl.Close()
	if ok, _ := lib.Returns(eosWatchdog, func() { <-sess.LoopReturned() }); !ok && o.inconclusive == "" {
		fail("Gate's read loop did not end within the watchdog after the client closed")
	}
	o.tries, o.fwdTo, o.fwd = sess.Rec.Tries()
	if o.fwd || st.conns.Load() > 0 {
		// Gate may be through with the whole connection before the backend's accept loop even
		// ran: the handler (and with it the recording) is awaited, not assumed
		if !waitChan(eosWatchdog, st.finished) && o.inconclusive == "" {
			fail("the backend's connection did not end within the watchdog after the client closed")
		}
	}
	waitChan(2*time.Second, cgot.done)
	o.t1 = time.Now().Unix()
	o.backendGot, o.backendEnd = st.got.all()
	o.backendEnded = st.got.ended()
	o.backendWroteAll = st.wroteAll.Load()
	o.clientGot, o.clientEnd = cgot.all()
	o.clientEnded = cgot.ended()
	o.conns = int(st.conns.Load())
	return o
}

func sha(b []byte) string { return fmt.Sprintf("%x", sha1.Sum(b)) }

func streamWitness(got, want []byte) map[string]any {
	d := firstDiff(got, want)
	return map[string]any{"got_len": len(got), "want_len": len(want), "got_sha1": sha(got), "want_sha1": sha(want), "first_difference_at": d,
		"got_at_hex": hexHead(got[min(max(d, 0), len(got)):], 16), "want_at_hex": hexHead(want[min(max(d, 0), len(want)):], 16)}
}

type eosStats struct {
	mu                                          sync.Mutex
	byKind, byTransport, skipped, backendEndErr map[string]int
	afterBackendHC, afterClientHC               int64 // bytes delivered after a half-close
	upTotal, downTotal                          int64
	largeUploads, clientEOFAfterOwnHC           int
	fullDownloadAfterClientHC, inconclusive     int
	sampled                                     map[string]int
	samples                                     []map[string]any
}

func judgeEOS(w *eosWorker, c eosCase, o eosOutcome) (vs []verdict, skipped string) {
	h := c.H
	h.ClientAddr = o.clientAddr
	if !o.fwd {
		return nil, "not-forwarded"
	}
	p := parseStream(o.backendGot)
	// header + handshake frame: same oracle as the main workload
	fo := outcome{backendGot: o.backendGot, clientGot: o.clientGot, backBody: o.clientGot, tries: o.tries, fwdTo: o.fwdTo, fwd: o.fwd, conns: o.conns, t0: o.t0, t1: o.t1}
	if p.ok {
		fo.clientBody = o.backendGot[p.frameEnd:]
	}
	vs, skipped = judge(&worker{good: w.backend}, h, fo)
	if skipped != "" || !p.ok {
		return vs, skipped
	}
	wit := func(dir string, got, want []byte) map[string]any {
		m := streamWitness(got, want)
		m["direction"], m["case"] = dir, c
		m["client_address"], m["tries"] = o.clientAddr, o.tries
		m["client_bytes_written"], m["client_write_error"] = o.clientWritten, o.clientWriteErr
		m["backend_read_ended_with"], m["client_read_ended_with"] = fmt.Sprint(o.backendEnd), fmt.Sprint(o.clientEnd)
		m["backend_wrote_all_its_bytes_without_error"] = o.backendWroteAll
		m["client_bytes_written_before_backend_half_close"] = o.sentAtHalfClose
		return m
	}
	// client -> backend: every byte, in every class
	rest := o.backendGot[p.frameEnd:]
	if d := firstDiff(rest, o.clientSent); d >= 0 {
		switch {
		case d == len(rest) && !o.backendEnded:
			return vs, "backend-stream-short-but-not-ended"
		case d == len(rest) && c.Kind == "client-half-close" && c.BackendSends == "concurrently" && (o.backendEnd != io.EOF || !o.backendWroteAll):
			// The backend was still sending when the client's stream ended and Gate closed the
			// backend connection (reading above): its next segment is answered with a TCP reset,
			// and a reset discards whatever the kernel had not delivered yet. All client bytes
			// had been handed to the connection before; the loss is TCP's, not the pipe's, and
			// the statement says nothing about an orderly shutdown. Not judged; counted.
			// (The socket reports the reset ONCE, to whichever call comes first: when the
			// backend's Write got it, its Read ends with a plain EOF after the truncated data —
			// hence both conditions.)
			return vs, "client-half-close: backend connection reset while the backend was still sending"
		case d == len(rest) && c.Kind == "backend-half-close":
			vs = append(vs, verdict{sig: "client-bytes-lost-after-backend-half-close", what: "the backend ended only its own sending direction and kept reading, yet its connection ended before it had received every byte the client sent", wit: wit("client->backend", rest, o.clientSent)})
		case d == len(rest) && c.Kind == "client-half-close":
			vs = append(vs, verdict{sig: "client-bytes-lost-at-client-half-close", what: "the client sent all its bytes and then ended its stream, yet the backend's connection ended before it had received every one of them", wit: wit("client->backend", rest, o.clientSent)})
		case d == len(rest):
			vs = append(vs, verdict{sig: "client-bytes-lost", what: "the backend received only a prefix of the client's bytes", wit: wit("client->backend", rest, o.clientSent)})
		case d < c.Pipelined:
			vs = append(vs, verdict{sig: "pipelined-client-bytes-corrupted", what: "client bytes that arrived in the same segment as the handshake did not reach the backend unchanged", wit: wit("client->backend", rest, o.clientSent)})
		default:
			vs = append(vs, verdict{sig: "client-bytes-corrupted", what: "client bytes after the handshake did not reach the backend unchanged", wit: wit("client->backend", rest, o.clientSent)})
		}
	}
	// backend -> client
	want := o.down
	if d := firstDiff(o.clientGot, want); d >= 0 {
		prefix := d == len(o.clientGot)
		switch {
		case prefix && c.Kind == "client-half-close" && c.BackendSends != "concurrently-finishing-first":
			// the client ended its stream; see the reading at the top of this file
		case prefix && c.Kind == "client-half-close":
			vs = append(vs, verdict{sig: "backend-bytes-lost-before-client-half-close", what: "the backend sent all its bytes while the client's stream was still open (the client ends it only once it has them all), yet the client's connection ended before it had received them", wit: wit("backend->client", o.clientGot, want)})
		case prefix && !o.clientEnded:
			return vs, "client-stream-short-but-not-ended"
		case prefix && c.Kind == "backend-half-close":
			vs = append(vs, verdict{sig: "backend-bytes-lost-before-backend-half-close", what: "the backend sent its bytes and then half-closed, the client had not ended its stream, yet the client's connection ended before it had received them all", wit: wit("backend->client", o.clientGot, want)})
		case prefix:
			vs = append(vs, verdict{sig: "backend-bytes-lost-at-backend-close", what: "the backend sent its bytes and closed, yet the client's connection ended before it had received them all", wit: wit("backend->client", o.clientGot, want)})
		default:
			vs = append(vs, verdict{sig: "backend-bytes-corrupted", what: "backend bytes did not reach the client unchanged", wit: wit("backend->client", o.clientGot, want)})
		}
	}
	return vs, ""
}

func endOfStream(r *lib.Run) {
	n := r.N(72, 2400)
	workers := 4
	st := &eosStats{byKind: map[string]int{}, byTransport: map[string]int{}, skipped: map[string]int{}, backendEndErr: map[string]int{}, sampled: map[string]int{}}
	var wg sync.WaitGroup
	for wi := 0; wi < workers; wi++ {
		wg.Add(1)
		go func(wi int) {
			defer wg.Done()
			w, err := newEOSWorker()
			if err != nil {
				r.Inconclusive("cannot set up loopback listeners: " + err.Error())
				return
			}
			defer w.close()
			rng := r.Rng(fmt.Sprintf("eos%d", wi))
			for i := 0; i < n/workers; i++ {
				c := genEOS(rng, i+wi)
				seed := rng.Int63()
				if wi == 0 {
					r.LogCase(c)
				}
				o := runEOS(w, c, seed)
				r.Eval(1)
				if o.setupErr != "" {
					r.Inconclusive("cannot set up the client connection: " + o.setupErr)
					continue
				}
				vs, skipped := judgeEOS(w, c, o)
				if o.inconclusive != "" && len(vs) == 0 {
					r.Inconclusive("end-of-stream case (" + c.Kind + "): " + o.inconclusive)
					st.mu.Lock()
					st.inconclusive++
					st.mu.Unlock()
					continue
				}
				for _, v := range vs {
					r.Violation(v.sig, v.what+" [end-of-stream class "+c.Kind+"]", v.wit)
				}
				st.mu.Lock()
				if skipped != "" {
					st.skipped[skipped]++
					if skipped == "backend-stream-short-but-not-ended" || skipped == "client-stream-short-but-not-ended" {
						r.Inconclusive("end-of-stream case (" + c.Kind + "): " + skipped)
					}
				} else {
					st.byKind[c.Kind]++
					if c.Kind == "backend-half-close" {
						if c.Synced {
							st.byKind["backend-half-close/synced"]++
							st.afterBackendHC += int64(c.Late + c.Up)
						} else {
							st.byKind["backend-half-close/free-running"]++
						}
						st.byKind["backend-half-close/client-ends-with-"+c.ClientEnd]++
						if c.ClientEnd == "half-close" && o.clientEnded {
							st.clientEOFAfterOwnHC++
						}
					}
					if c.Kind == "client-half-close" {
						st.byKind["client-half-close/backend-sends-"+c.BackendSends]++
						st.afterClientHC += int64(len(o.clientGot) - min(o.gotAtHalfClose, len(o.clientGot)))
						if len(o.clientGot) == c.Down {
							st.fullDownloadAfterClientHC++
						}
					}
					st.byTransport[c.Transport]++
					st.backendEndErr[c.Kind+": "+errClass(o.backendEnd)]++
					st.upTotal += int64(len(o.clientSent))
					st.downTotal += int64(len(o.clientGot))
					if len(o.clientSent) >= 1<<20 {
						st.largeUploads++
					}
				}
				st.mu.Unlock()
				if skipped == "" {
					r.Distinct(c.key())
					st.mu.Lock()
					take := st.sampled[c.Kind+c.BackendSends] == 0
					st.sampled[c.Kind+c.BackendSends]++
					st.mu.Unlock()
					if take {
						st.mu.Lock()
						st.samples = append(st.samples, map[string]any{"end_of_stream_case": c, "backend_stream_len": len(o.backendGot), "backend_stream_sha1": sha(o.backendGot), "client_stream_len": len(o.clientGot), "client_stream_sha1": sha(o.clientGot), "backend_read_ended_with": fmt.Sprint(o.backendEnd), "client_read_ended_with": fmt.Sprint(o.clientEnd)})
						st.mu.Unlock()
					}
				}
			}
		}(wi)
	}
	wg.Wait()
	r.Set("eos_cases_judged_by_class", st.byKind)
	r.Set("eos_cases_by_client_transport", st.byTransport)
	r.Set("eos_samples_one_per_class", st.samples)
	r.Set("eos_not_judged", st.skipped)
	r.Set("eos_inconclusive_cases", st.inconclusive)
	r.Set("eos_backend_read_end_by_class", st.backendEndErr)
	r.Set("eos_client_bytes_delivered_after_backend_half_close", st.afterBackendHC)
	r.Set("eos_backend_bytes_delivered_after_client_half_close", st.afterClientHC)
	r.Set("eos_client_half_close_cases_with_complete_download", st.fullDownloadAfterClientHC)
	r.Set("eos_client_saw_eof_after_own_half_close", st.clientEOFAfterOwnHC)
	r.Set("eos_uploads_of_1MiB_or_more", st.largeUploads)
	r.Set("eos_client_to_backend_bytes_compared", st.upTotal)
	r.Set("eos_backend_to_client_bytes_compared", st.downTotal)
}

func errClass(err error) string {
	switch {
	case err == nil:
		return "still-open"
	case err == io.EOF:
		return "EOF"
	default:
		if ne, ok := err.(*net.OpError); ok && ne.Err != nil {
			return ne.Err.Error()
		}
		return err.Error()
	}
}
