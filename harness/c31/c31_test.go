// C31: Lite forwards the connection unchanged apart from configured rewrites.
//
// Every case is one client connection through the real lite.Forward (driven like the
// proxy's handshake handler does, package e2e/litefwd) to real loopback TCP backends that
// record every byte. Oracle (byte streams, compared after both directions reached EOF):
//
//	backend stream == [PROXY header iff the route enables it; parsed with go-proxyproto;
//	                   its source address must be the client's real address]
//	                  ‖ handshake frame: the client's original frame bytes, or — iff
//	                    modifyVirtualHost / tcpShieldRealIP applies — the canonical encoding
//	                    of the reference rewrite computed FROM THE ORIGINAL handshake
//	                  ‖ every further client byte
//	client stream  == every backend byte
//
// Cases include: all 8 option combinations, a first backend that refuses (second is
// dialled), a first backend that accepts and resets (so that Gate's handshake write to it
// fails after a successful dial and a second backend is dialled), client bytes pipelined in
// the same segment as the handshake, Gate-side reads in 1..k byte chunks, bodies up to 1 MiB
// each way in random chunkings, non-canonical VarInts and trailing bytes inside the
// handshake frame (must pass through untouched when no rewrite applies).
//
// eos_test.go adds the end-of-stream classes (one side ends its sending direction — half-close
// or close — while the other direction is still in use), over real loopback TCP on both sides.
package c31

import (
	"bufio"
	"bytes"
	"fmt"
	"io"
	"math/rand"
	"net"
	"strconv"
	"strings"
	"sync"
	"sync/atomic"
	"testing"
	"time"

	proxyproto "github.com/pires/go-proxyproto"
	"go.minekube.com/gate/pkg/edition/java/lite"
	"go.minekube.com/gate/pkg/edition/java/lite/config"
	"go.minekube.com/gate/pkg/edition/java/netmc"
	"go.minekube.com/gate/pkg/edition/java/proto/packet"
	"go.minekube.com/gate/pkg/edition/java/proxy/verifh/e2e/litefwd"
	"go.minekube.com/gate/pkg/edition/java/proxy/verifh/lib"
	"go.minekube.com/gate/pkg/gate/proto"
	"go.minekube.com/gate/pkg/util/configutil"
)

// ---- reference rewrites (independent of Gate's code) ------------------------------------------

func refClean(s string) string {
	cut := len(s)
	if i := strings.Index(s, "\x00"); i >= 0 && i < cut {
		cut = i
	}
	if i := strings.Index(s, "///"); i >= 0 && i < cut {
		cut = i
	}
	return strings.Trim(s[:cut], ".")
}

const tsMark = "\x01TS\x01" // placeholder for the unix timestamp Gate inserts

// refTCPShield: TCPShield real-IP format as Gate documents it in util.go: first NUL-part,
// "///", client address, "///", unix time, then the Forge part re-attached between NULs.
func refTCPShield(addr, client string) string {
	parts := strings.SplitN(addr, "\x00", 3)
	out := parts[0] + "///" + client + "///" + tsMark
	if len(parts) > 1 {
		out += "\x00" + parts[1] + "\x00"
	}
	return out
}

// refRewrite computes the address the backend must see, from the ORIGINAL address.
func refRewrite(orig string, modifyVHost, tcpShield bool, backendHost, client string) (addr string, changed bool) {
	addr = orig
	if modifyVHost {
		ch := refClean(orig)
		if !strings.EqualFold(ch, backendHost) {
			// generator guarantees ch is non-empty and occurs exactly once in orig
			addr = strings.Replace(addr, ch, backendHost, 1)
			changed = true
		}
	}
	if tcpShield && strings.Contains(addr, "///") {
		addr = refTCPShield(addr, client)
		changed = true
	}
	return
}

// matchWithTS reports whether got equals want with tsMark replaced by a decimal unix time
// within [lo, hi].
func matchWithTS(want, got string, lo, hi int64) bool {
	i := strings.Index(want, tsMark)
	if i < 0 {
		return want == got
	}
	pre, post := want[:i], want[i+len(tsMark):]
	if !strings.HasPrefix(got, pre) || !strings.HasSuffix(got, post) || len(got) < len(pre)+len(post) {
		return false
	}
	mid := got[len(pre) : len(got)-len(post)]
	ts, err := strconv.ParseInt(mid, 10, 64)
	return err == nil && ts >= lo && ts <= hi && strconv.FormatInt(ts, 10) == mid
}

// ---- client address with an injectable delay ----------------------------------------------------

// slowAddr is the client's address as Gate sees it. When armed, String() sleeps: that is
// the only suspension point between Gate's successful dial and its handshake write that a
// harness can reach from outside, and it gives a backend's RST time to arrive so that the
// write fails (dial ok, write failed => Gate moves on to the next backend).
type slowAddr struct {
	s     string
	armed *atomic.Bool
}

func (a *slowAddr) Network() string { return "tcp" }
func (a *slowAddr) String() string {
	if a.armed != nil && a.armed.Load() {
		time.Sleep(25 * time.Millisecond)
	}
	return a.s
}

// ---- recording backends -----------------------------------------------------------------------------

type caseState struct {
	mu       sync.Mutex
	got      []byte // bytes received by the good backend
	conns    int
	eof      chan struct{}
	body     []byte // backend -> client body
	chunkRng *rand.Rand
	armed    *atomic.Bool
}

func (cs *caseState) snapshot() ([]byte, int) {
	cs.mu.Lock()
	defer cs.mu.Unlock()
	return append([]byte(nil), cs.got...), cs.conns
}

// head returns a copy of the first n bytes received and the total count.
func (cs *caseState) head(n int) ([]byte, int) {
	cs.mu.Lock()
	defer cs.mu.Unlock()
	return append([]byte(nil), cs.got[:min(n, len(cs.got))]...), len(cs.got)
}

type worker struct {
	good    *litefwd.Backend
	rst     *litefwd.Backend
	refused *litefwd.RefusedPort
	cur     atomic.Pointer[caseState]
}

func newWorker() (*worker, error) {
	w := &worker{}
	var err error
	w.good, err = litefwd.Listen(0, func(c net.Conn, idx int) {
		cs := w.cur.Load()
		if cs == nil {
			_ = c.Close()
			return
		}
		cs.mu.Lock()
		cs.conns++
		first := cs.conns == 1
		cs.mu.Unlock()
		if first {
			go writeChunked(c, cs.body, cs.chunkRng)
		}
		buf := make([]byte, 32<<10)
		for {
			n, err := c.Read(buf)
			if n > 0 {
				cs.mu.Lock()
				cs.got = append(cs.got, buf[:n]...)
				cs.mu.Unlock()
			}
			if err != nil {
				break
			}
		}
		_ = c.Close()
		if first {
			close(cs.eof)
		}
	})
	if err != nil {
		return nil, err
	}
	w.rst, err = litefwd.Listen(0, func(c net.Conn, idx int) {
		if tc, ok := c.(*net.TCPConn); ok {
			_ = tc.SetLinger(0)
		}
		_ = c.Close() // RST
		if cs := w.cur.Load(); cs != nil && cs.armed != nil {
			cs.armed.Store(true)
		}
	})
	if err != nil {
		return nil, err
	}
	w.refused, err = litefwd.ReserveRefused(0)
	return w, err
}

func (w *worker) close() {
	w.good.Close()
	w.rst.Close()
	if w.refused != nil {
		w.refused.Release()
	}
}

func writeChunked(c io.Writer, b []byte, rng *rand.Rand) {
	for len(b) > 0 {
		n := chunk(rng, len(b))
		if _, err := c.Write(b[:n]); err != nil {
			return
		}
		b = b[n:]
	}
}

func chunk(rng *rand.Rand, max int) int {
	var n int
	switch rng.Intn(4) {
	case 0:
		n = 1 + rng.Intn(16)
	case 1:
		n = 1 + rng.Intn(1500)
	case 2:
		n = 1 + rng.Intn(70000)
	default:
		n = max
	}
	if n > max {
		n = max
	}
	return n
}

// ---- case generation ------------------------------------------------------------------------------------

type tcase struct {
	Protocol    int32
	Address     string
	Port        uint16
	Next        int32
	Exotic      bool // non-canonical inner VarInts and/or trailing bytes in the frame
	Frame       []byte
	PP, MVH, TS bool
	First       string // "", "refused", "rst"
	GoodHost    string // spelling of the good backend's host
	FirstHost   string
	ClientAddr  string
	SlowAddr    bool
	Pipelined   int
	ClientBody  int
	BackendBody int
	ReadChunk   int
}

func bodySize(rng *rand.Rand, big bool) int {
	switch x := rng.Intn(100); {
	case x < 15:
		return 0
	case x < 55:
		return 1 + rng.Intn(300)
	case x < 85:
		return 1 + rng.Intn(20000)
	case x < 97 || !big:
		return 60000 + rng.Intn(140000)
	default:
		return 1 << 20
	}
}

var protocols = []int32{47, 340, 754, 763, 765, 767, 775, 0, -1, 99999}
var hostNames = []string{"play.example.org", "Play.Example.ORG", "mc-7.lan", "10.1.2.3", "hub.ǆomain.test", "a", "LOCALHOST", "localhost", "127.0.0.1", "xn--bcher-kva.example"}
var forgeParts = []string{"", "", "\x00FML\x00", "\x00FML2\x00", "\x00FML3\x00", "\x00FORGE", "\x00FORGE2"}

func genCase(rng *rand.Rand, big bool) tcase {
	var c tcase
	c.Protocol = protocols[rng.Intn(len(protocols))]
	c.Port = uint16(rng.Intn(65536))
	c.Next = int32(2 + rng.Intn(2))
	host := hostNames[rng.Intn(len(hostNames))]
	if rng.Intn(3) == 0 {
		host = fmt.Sprintf("s%d.%s", rng.Intn(1000), host)
	}
	addr := host
	if rng.Intn(5) == 0 {
		addr = "." + addr
	}
	if rng.Intn(4) == 0 {
		addr += "."
	}
	if rng.Intn(2) == 0 {
		addr += fmt.Sprintf("///198.51.100.%d:%d///17%08d", 1+rng.Intn(250), 1024+rng.Intn(60000), rng.Intn(100000000))
	}
	addr += forgeParts[rng.Intn(len(forgeParts))]
	if ch := refClean(addr); ch == "" || strings.Count(addr, ch) != 1 {
		return genCase(rng, big) // the reference rewrite needs an unambiguous host part
	}
	c.Address = addr
	c.PP, c.MVH, c.TS = rng.Intn(2) == 0, rng.Intn(2) == 0, rng.Intn(2) == 0
	switch rng.Intn(5) {
	case 0, 1:
		c.First = "refused"
	case 2:
		c.First = "rst"
	}
	sp := []string{"127.0.0.1", "localhost", "LocalHost"}
	c.GoodHost = sp[rng.Intn(len(sp))]
	c.FirstHost = sp[rng.Intn(len(sp))]
	if rng.Intn(3) == 0 {
		c.ClientAddr = fmt.Sprintf("[2001:db8::%x]:%d", 1+rng.Intn(0xfffe), 1024+rng.Intn(60000))
	} else {
		c.ClientAddr = fmt.Sprintf("%d.%d.%d.%d:%d", 1+rng.Intn(222), rng.Intn(256), rng.Intn(256), 1+rng.Intn(254), 1024+rng.Intn(60000))
	}
	c.SlowAddr = c.First == "rst" || rng.Intn(3) == 0
	c.buildFrame(rng)
	c.ClientBody = bodySize(rng, big)
	c.BackendBody = bodySize(rng, big)
	if c.ClientBody > 0 && rng.Intn(3) != 0 {
		c.Pipelined = 1 + rng.Intn(min(c.ClientBody, 6000))
	}
	if rng.Intn(3) == 0 {
		c.ReadChunk = []int{1, 3, 7, 64, 1400}[rng.Intn(5)]
	}
	return c
}

// buildFrame draws the frame encoding (canonical, or non-canonical inner VarInts and/or
// trailing bytes) for the case's handshake fields.
func (c *tcase) buildFrame(rng *rand.Rand) {
	c.Exotic = rng.Intn(4) == 0
	if c.Exotic {
		p := litefwd.AppendVarIntPadded(nil, 0, 1+rng.Intn(2))
		p = litefwd.AppendVarIntPadded(p, c.Protocol, 5)
		p = litefwd.AppendVarIntPadded(p, int32(len(c.Address)), 2+rng.Intn(2))
		p = append(p, c.Address...)
		p = append(p, byte(c.Port>>8), byte(c.Port))
		p = litefwd.AppendVarIntPadded(p, c.Next, 1+rng.Intn(3))
		if rng.Intn(2) == 0 {
			tr := make([]byte, 1+rng.Intn(6))
			rng.Read(tr)
			p = append(p, tr...)
		}
		c.Frame = litefwd.FramePayload(p)
	} else {
		c.Frame = litefwd.Handshake{Protocol: c.Protocol, Address: c.Address, Port: c.Port, Next: c.Next}.Frame()
	}
}

func (c tcase) key() string {
	return fmt.Sprintf("%v|%v|%v|%s|%d|%q|%d|%d|%d|%d|%v|%d", c.PP, c.MVH, c.TS, c.First, c.Protocol, c.Address, c.Port, c.ClientBody, c.BackendBody, c.Pipelined, c.Exotic, c.ReadChunk)
}

// ---- analysis of the backend stream -------------------------------------------------------------------------

type parsed struct {
	hdr        *proxyproto.Header
	hdrErr     error
	frameStart int
	frameEnd   int
	ok         bool
}

// parseStream splits b into [header?][handshake frame][rest]. A PROXY header is looked for
// regardless of expectation (so an unexpected one is recognised as such).
func parseStream(b []byte) parsed {
	var p parsed
	br := bytes.NewReader(b)
	bufr := bufio.NewReaderSize(br, 4096)
	h, err := proxyproto.Read(bufr)
	switch {
	case err == nil:
		p.hdr = h
		p.frameStart = len(b) - br.Len() - bufr.Buffered()
	case err == proxyproto.ErrNoProxyProtocol:
		p.frameStart = 0
	default:
		p.hdrErr = err
		return p
	}
	l, n := litefwd.ReadVarInt(b[p.frameStart:])
	if n <= 0 || l < 0 || p.frameStart+n+int(l) > len(b) {
		return p
	}
	p.frameEnd = p.frameStart + n + int(l)
	p.ok = true
	return p
}

// ---- one case -------------------------------------------------------------------------------------------------

type outcome struct {
	timedOut   bool
	backendGot []byte
	clientGot  []byte
	tries      []string
	fwdTo      string
	fwd        bool
	conns      int
	t0, t1     int64
	clientBody []byte
	backBody   []byte
}

func runCase(w *worker, c tcase, seed int64, budget time.Duration) outcome {
	rng := rand.New(rand.NewSource(seed))
	cBody := make([]byte, c.ClientBody)
	rng.Read(cBody)
	bBody := make([]byte, c.BackendBody)
	rng.Read(bBody)
	armed := &atomic.Bool{}
	cs := &caseState{eof: make(chan struct{}), body: bBody, chunkRng: rand.New(rand.NewSource(seed + 1)), armed: armed}
	w.cur.Store(cs)
	defer w.cur.Store(nil)

	var backends []string
	switch c.First {
	case "refused":
		backends = append(backends, fmt.Sprintf("%s:%d", c.FirstHost, w.refused.Port))
	case "rst":
		backends = append(backends, fmt.Sprintf("%s:%d", c.FirstHost, w.rst.Port))
	}
	backends = append(backends, fmt.Sprintf("%s:%d", c.GoodHost, w.good.Port))
	routes := []config.Route{{Host: []string{"*"}, Backend: backends, ProxyProtocol: c.PP, ModifyVirtualHost: c.MVH, TCPShieldRealIP: c.TS}}

	var ca net.Addr
	if c.SlowAddr {
		ca = &slowAddr{s: c.ClientAddr, armed: armed}
	} else {
		ta, _ := net.ResolveTCPAddr("tcp", c.ClientAddr)
		ca = ta
	}
	opts := litefwd.Options{Routes: routes, SM: lite.NewStrategyManager(), ClientAddr: ca, TryLimit: 20}
	if c.ReadChunk > 0 {
		opts.ReadChunkRng, opts.ReadChunkMax = rand.New(rand.NewSource(seed+2)), c.ReadChunk
	}
	o := outcome{clientBody: cBody, backBody: bBody, t0: time.Now().Unix()}
	s := litefwd.Start(opts)

	// client writer
	go func() {
		first := append(append([]byte(nil), c.Frame...), cBody[:c.Pipelined]...)
		if _, err := s.Client.Write(first); err != nil {
			return
		}
		writeChunked(s.Client, cBody[c.Pipelined:], rand.New(rand.NewSource(seed+3)))
	}()
	// client reader
	var cmu sync.Mutex
	var cgot []byte
	cdone := make(chan struct{})
	go func() {
		defer close(cdone)
		buf := make([]byte, 32<<10)
		for {
			n, err := s.Client.Read(buf)
			if n > 0 {
				cmu.Lock()
				cgot = append(cgot, buf[:n]...)
				cmu.Unlock()
			}
			if err != nil {
				return
			}
		}
	}()

	rstAddr := ""
	if c.First == "rst" {
		rstAddr = backends[0]
	}
	deadline := time.Now().Add(budget)
	for {
		// both directions complete?
		cmu.Lock()
		cl := len(cgot)
		cmu.Unlock()
		head, total := cs.head(4096)
		p := parseStream(head)
		if p.ok && total-p.frameEnd >= len(cBody) && cl >= len(bBody) {
			break
		}
		_, fwdTo, fwd := s.Rec.Tries()
		if fwd && rstAddr != "" && fwdTo == rstAddr {
			break // Gate's write to the resetting backend happened to succeed: it is "the" backend now
		}
		select {
		case <-s.LoopReturned():
			// Gate gave up (all backends failed / closed): nothing more will come
			goto finish
		default:
		}
		if time.Now().After(deadline) {
			o.timedOut = true
			break
		}
		time.Sleep(300 * time.Microsecond)
	}
finish:
	_ = s.Client.Close()
	lib.Returns(20*time.Second, func() { <-s.LoopReturned(); <-cdone })
	_, conns := cs.snapshot()
	if conns > 0 {
		lib.Returns(20*time.Second, func() { <-cs.eof })
	}
	o.t1 = time.Now().Unix()
	o.backendGot, o.conns = cs.snapshot()
	cmu.Lock()
	o.clientGot = append([]byte(nil), cgot...)
	cmu.Unlock()
	o.tries, o.fwdTo, o.fwd = s.Rec.Tries()
	return o
}

func firstDiff(a, b []byte) int {
	n := min(len(a), len(b))
	for i := 0; i < n; i++ {
		if a[i] != b[i] {
			return i
		}
	}
	if len(a) != len(b) {
		return n
	}
	return -1
}

func hexHead(b []byte, n int) string {
	if len(b) > n {
		return fmt.Sprintf("%x…(+%d)", b[:n], len(b)-n)
	}
	return fmt.Sprintf("%x", b)
}

type verdict struct {
	sig, what string
	wit       map[string]any
	trunc     bool // only a truncation (prefix) — decide after a rerun
}

func judge(w *worker, c tcase, o outcome) (vs []verdict, skipped string) {
	wit := func(extra map[string]any) map[string]any {
		m := map[string]any{"case": c, "tries": o.tries, "forwarded_to": o.fwdTo, "frame_sent_hex": fmt.Sprintf("%x", c.Frame)}
		for k, v := range extra {
			m[k] = v
		}
		return m
	}
	goodAddr := fmt.Sprintf("%s:%d", c.GoodHost, w.good.Port)
	if !o.fwd {
		return nil, "not-forwarded"
	}
	if o.fwdTo != goodAddr {
		return nil, "forwarded-to-resetting-backend"
	}
	if o.conns != 1 {
		vs = append(vs, verdict{sig: "good-backend-dialled-more-than-once", what: fmt.Sprintf("the backend that was forwarded to accepted %d connections in one attempt", o.conns), wit: wit(nil)})
	}
	p := parseStream(o.backendGot)
	if !p.ok {
		if o.timedOut {
			return []verdict{{trunc: true, sig: "backend-stream-truncated", what: "the backend stream ended before the PROXY header / handshake frame was complete", wit: wit(map[string]any{"backend_got_hex": hexHead(o.backendGot, 96)})}}, ""
		}
		vs = append(vs, verdict{sig: "backend-stream-unparseable", what: "the backend did not receive [PROXY header] + a complete handshake frame", wit: wit(map[string]any{"backend_got_hex": hexHead(o.backendGot, 96), "header_error": fmt.Sprint(p.hdrErr)})})
		return vs, ""
	}
	// PROXY header
	switch {
	case c.PP && p.hdr == nil:
		vs = append(vs, verdict{sig: "proxy-header-missing", what: "route enables proxyProtocol but the backend stream does not start with a PROXY header", wit: wit(map[string]any{"backend_got_hex": hexHead(o.backendGot, 64)})})
	case !c.PP && p.hdr != nil:
		vs = append(vs, verdict{sig: "proxy-header-unexpected", what: "route does not enable proxyProtocol but the backend received a PROXY header", wit: wit(nil)})
	case c.PP:
		want, _ := net.ResolveTCPAddr("tcp", c.ClientAddr)
		src, _ := p.hdr.SourceAddr.(*net.TCPAddr)
		if src == nil || !src.IP.Equal(want.IP) || src.Port != want.Port || p.hdr.Command != proxyproto.PROXY {
			vs = append(vs, verdict{sig: "proxy-header-wrong-source-address", what: "the PROXY header does not carry the client's real address", wit: wit(map[string]any{"header_source": fmt.Sprint(p.hdr.SourceAddr), "header_command": fmt.Sprint(p.hdr.Command), "client": c.ClientAddr})})
		}
	}
	// handshake frame
	gotFrame := o.backendGot[p.frameStart:p.frameEnd]
	backendHost := c.GoodHost
	wantAddr, changed := refRewrite(c.Address, c.MVH, c.TS, backendHost, c.ClientAddr)
	if !changed {
		if !bytes.Equal(gotFrame, c.Frame) {
			vs = append(vs, verdict{sig: "handshake-frame-not-as-sent", what: "no rewrite applies, yet the handshake frame the backend received is not the client's frame byte for byte", wit: wit(map[string]any{"frame_got_hex": fmt.Sprintf("%x", gotFrame)})})
		}
	} else {
		gh, _, _, err := litefwd.ParseHandshakeFrame(gotFrame)
		switch {
		case err != nil:
			vs = append(vs, verdict{sig: "rewritten-handshake-undecodable", what: "the rewritten handshake frame does not decode: " + err.Error(), wit: wit(map[string]any{"frame_got_hex": fmt.Sprintf("%x", gotFrame)})})
		case gh.Protocol != c.Protocol || gh.Port != c.Port || gh.Next != c.Next:
			vs = append(vs, verdict{sig: "rewritten-handshake-changed-other-fields", what: "the rewrite changed protocol / port / next state", wit: wit(map[string]any{"got": gh})})
		case !matchWithTS(wantAddr, gh.Address, o.t0-2, o.t1+2):
			sig := "rewritten-address-differs-from-reference"
			marker := "///" + c.ClientAddr + "///"
			prevWant, _ := refRewrite(c.Address, c.MVH, c.TS, c.FirstHost, c.ClientAddr)
			if c.TS && strings.Count(gh.Address, marker) >= 2 {
				sig = "tcpshield-realip-appended-per-dial-attempt"
			} else if c.MVH && c.First != "" && matchWithTS(prevWant, gh.Address, o.t0-2, o.t1+2) {
				// the address is what the PREVIOUS (failed) backend would have been sent
				sig = "virtual-host-rewrite-keeps-previous-backends-host"
			} else if c.MVH && !c.TS {
				sig = "virtual-host-rewrite-differs-from-reference"
			}
			vs = append(vs, verdict{sig: sig, what: "the server address the backend received is not the reference rewrite of the ORIGINAL handshake", wit: wit(map[string]any{"address_got": gh.Address, "address_want": strings.ReplaceAll(wantAddr, tsMark, "<unix time>"), "address_original": c.Address})})
		case !c.Exotic && !bytes.Equal(gotFrame, litefwd.Handshake{Protocol: gh.Protocol, Address: gh.Address, Port: gh.Port, Next: gh.Next}.Frame()):
			vs = append(vs, verdict{sig: "rewritten-handshake-not-canonical", what: "the rewritten handshake frame is not the canonical encoding of its fields", wit: wit(map[string]any{"frame_got_hex": fmt.Sprintf("%x", gotFrame)})})
		}
	}
	// client bytes
	rest := o.backendGot[p.frameEnd:]
	if d := firstDiff(rest, o.clientBody); d >= 0 {
		v := verdict{wit: wit(map[string]any{"first_difference_at": d, "got_len": len(rest), "want_len": len(o.clientBody), "pipelined": c.Pipelined, "got_at_hex": hexHead(rest[min(d, len(rest)):], 24), "want_at_hex": hexHead(o.clientBody[min(d, len(o.clientBody)):], 24)})}
		switch {
		case o.timedOut && d == len(rest):
			v.trunc, v.sig, v.what = true, "client-bytes-truncated", "the backend received only a prefix of the client's bytes"
		case d < c.Pipelined:
			v.sig, v.what = "pipelined-client-bytes-corrupted", "client bytes that arrived in the same segment as the handshake did not reach the backend unchanged"
		default:
			v.sig, v.what = "client-bytes-corrupted", "client bytes after the handshake did not reach the backend unchanged"
		}
		vs = append(vs, v)
	}
	// backend bytes
	if d := firstDiff(o.clientGot, o.backBody); d >= 0 {
		v := verdict{wit: wit(map[string]any{"first_difference_at": d, "got_len": len(o.clientGot), "want_len": len(o.backBody)})}
		if o.timedOut && d == len(o.clientGot) {
			v.trunc, v.sig, v.what = true, "backend-bytes-truncated", "the client received only a prefix of the backend's bytes"
		} else {
			v.sig, v.what = "backend-bytes-corrupted", "backend bytes did not reach the client unchanged"
		}
		vs = append(vs, v)
	}
	return vs, ""
}

func TestC31(t *testing.T) {
	r := lib.Start(t, "C31")
	defer r.Finish()
	r.Rule("case = one client connection through the real lite.Forward: handshake (protocol in {47..775, 0, -1, 99999}, host spellings with optional surrounding dots, TCPShield ///ip:port///ts part, Forge part, random port, next state 2/3; a quarter with non-canonical inner VarInts and trailing frame bytes) x route options (proxyProtocol, modifyVirtualHost, tcpShieldRealIP: all 8) x first backend {none, refusing, accept-then-RST} x backend host spelling x client address (IPv4/IPv6, std or custom net.Addr type) x client body 0..1 MiB with 0..6000 bytes pipelined in the handshake's segment x backend body 0..1 MiB x Gate-side read chunking {off,1,3,7,64,1400}; random write chunkings both ways. distinct = distinct case tuple; non-trivial = all")
	r.Assume("PROXY headers are parsed by github.com/pires/go-proxyproto; only the source address and the PROXY command are judged")
	r.Assume("the TCPShield real-IP format (host///client///unixtime + re-attached Forge part) is Gate's documented format; the clause judged is that it is computed once, from the original handshake; the unix time may be any second between case start-2 and end+2")
	r.Assume("streams are compared after both sides reached EOF; a stream that is merely a prefix after the 8 s watchdog is re-run alone with a 3x budget before it counts")
	r.Rule("end-of-stream classes (eos_test.go), client side a real loopback TCP connection (3/4) or in-memory: backend-half-close = backend sends k bytes (0..1 MiB, concurrently with an early client upload 0..512 KiB), CloseWrite, keeps reading; client (synced on the half-close + settle delay, or free-running) sends a late chunk and a further upload (mostly 1-2 MiB) and ends by half-close-then-read-to-EOF or close. client-half-close = client uploads 0..2 MiB and half-closes, backend sends 1 B..4 MiB after the client's EOF / concurrently / concurrently with the client half-closing only after it has it all. backend-close = backend sends k bytes and closes. Same handshake/option/first-backend generator as above")
	r.Assume("end-of-stream reading: the end of the CLIENT's stream is the end of the forwarded connection (Gate's pipe returns when the client->backend copy ends and Forward closes both sides), so after a client half-close only 'every client byte reached the backend' and 'the client got a prefix of the backend's bytes' are judged; a short stream is judged only once the receiving connection ended (EOF/error), a watchdog expiry is inconclusive; a backend stream cut by a TCP reset because the backend was still sending when Gate closed is not judged (counted)")

	r.Assume("behind-listener class (listener_test.go): a real proxy.Proxy in Lite mode with listener option proxyProtocol on is started with Proxy.Start on a loopback port (3 proxies: trusted upstreams = Gate's default list / an explicit list containing 127.0.0.1 / a list NOT containing the fake load balancer); a fake load balancer dials it over real TCP and sends [inbound PROXY header: v1 TCP4/TCP6, v2 TCP4/TCP6 with or without TLVs, v2 LOCAL, v1 UNKNOWN, or none] + handshake + client bytes in one segment or cut header|rest, header|handshake|rest, header+handshake|rest, inside a binary header, inside the handshake; 16 routes (all 8 option combinations x refusing backend first or not) selected by a token in the virtual host. 'The client's real address' is the address the trusted upstream announced; when there is nothing to honour (no header, LOCAL/UNKNOWN, upstream not trusted and sending no header) it is the TCP peer's address. A header from an untrusted upstream is rejected by the listener (property C33) and not generated here. An inbound v1 header is always sent in one segment (go-proxyproto, like haproxy, requires that)")

	n := r.N(240, 10000)
	workers := 4
	var (
		mu                                                                               sync.Mutex
		optCombos                                                                        = map[string]int{}
		firstKinds                                                                       = map[string]int{}
		skips                                                                            = map[string]int{}
		rewritten, passthrough, exotic, pipelined, bytesC, bytesB, secondDial, ppChecked int64
		timeouts                                                                         atomic.Int64
	)
	var wg sync.WaitGroup
	for wi := 0; wi < workers; wi++ {
		wg.Add(1)
		go func(wi int) {
			defer wg.Done()
			w, err := newWorker()
			if err != nil {
				r.Inconclusive("cannot set up loopback listeners: " + err.Error())
				return
			}
			defer w.close()
			rng := r.Rng(fmt.Sprintf("w%d", wi))
			for i := 0; i < n/workers; i++ {
				if timeouts.Load() > 3 {
					r.Inconclusive("too many watchdog expiries; remaining cases of this worker skipped")
					return
				}
				c := genCase(rng, r.Thorough() || i%40 == 7)
				seed := rng.Int63()
				if wi == 0 {
					r.LogCase(c)
				}
				o := runCase(w, c, seed, 8*time.Second)
				r.Eval(1)
				vs, skipped := judge(w, c, o)
				// truncation after a watchdog expiry: re-run alone with 3x budget
				hasTrunc := false
				for _, v := range vs {
					hasTrunc = hasTrunc || v.trunc
				}
				if hasTrunc {
					timeouts.Add(1)
					o2 := runCase(w, c, seed, 24*time.Second)
					vs2, _ := judge(w, c, o2)
					still := false
					for _, v := range vs2 {
						still = still || v.trunc
					}
					if !still {
						r.Inconclusive("a stream was truncated at the watchdog but complete on re-run")
						vs = vs2
					}
				}
				for _, v := range vs {
					r.Violation(v.sig, v.what, v.wit)
				}
				mu.Lock()
				if skipped != "" {
					skips[skipped]++
				} else {
					optCombos[fmt.Sprintf("pp=%v,mvh=%v,ts=%v", c.PP, c.MVH, c.TS)]++
					firstKinds["first="+c.First]++
					if _, ch := refRewrite(c.Address, c.MVH, c.TS, c.GoodHost, c.ClientAddr); ch {
						rewritten++
					} else {
						passthrough++
						if c.Exotic {
							exotic++
						}
					}
					if c.Pipelined > 0 {
						pipelined++
					}
					if len(o.tries) > 1 {
						secondDial++
					}
					if c.PP {
						ppChecked++
					}
					bytesC += int64(c.ClientBody)
					bytesB += int64(c.BackendBody)
				}
				mu.Unlock()
				if skipped == "" {
					r.Distinct(c.key())
					if wi == 0 && r.WantSample() {
						cc := c
						r.Sample(map[string]any{"case": cc, "tries": o.tries, "backend_stream_len": len(o.backendGot), "client_stream_len": len(o.clientGot)})
					}
				}
			}
		}(wi)
	}
	wg.Wait()
	r.Set("judged_by_option_combination", optCombos)
	r.Set("judged_by_first_backend", firstKinds)
	r.Set("not_judged", skips)
	r.Set("frames_rewritten_checked", rewritten)
	r.Set("frames_passthrough_checked", passthrough)
	r.Set("frames_passthrough_exotic_encoding", exotic)
	r.Set("cases_with_pipelined_bytes", pipelined)
	r.Set("cases_second_backend_dialled", secondDial)
	r.Set("proxy_headers_parsed", ppChecked)
	r.Set("client_to_backend_bytes_compared", bytesC)
	r.Set("backend_to_client_bytes_compared", bytesB)
	r.Set("watchdog_expiries", timeouts.Load())

	statusPath(r)
	endOfStream(r)
	behindListener(r)
}

// statusPath: the other caller of dialRoute. A status request through the real
// lite.ResolveStatusResponseWithGeneration (ping cache off) with a first backend that accepts
// but never answers (or refuses), so that a second backend is asked. The second backend must
// receive [PROXY header iff enabled] + handshake frame (as sent, or the reference rewrite of
// the ORIGINAL handshake) + the status request frame. Deterministic: no reset/delay needed.
func statusPath(r *lib.Run) {
	rng := r.Rng("status")
	n := r.N(60, 2000)
	silent, err := litefwd.Listen(0, func(c net.Conn, idx int) {
		buf := make([]byte, 1024)
		_ = c.SetReadDeadline(time.Now().Add(10 * time.Second))
		_, _ = c.Read(buf)
		_ = c.Close()
	})
	if err != nil {
		r.Inconclusive("cannot listen: " + err.Error())
		return
	}
	defer silent.Close()
	refused, err := litefwd.ReserveRefused(0)
	if err != nil {
		r.Inconclusive("cannot reserve port: " + err.Error())
		return
	}
	defer refused.Release()
	var mu sync.Mutex
	var got []byte
	var eof chan struct{}
	rec, err := litefwd.Listen(0, func(c net.Conn, idx int) {
		defer c.Close()
		_ = c.SetDeadline(time.Now().Add(20 * time.Second))
		var b []byte
		tmp := make([]byte, 2048)
		answered := false
		for {
			nr, err := c.Read(tmp)
			b = append(b, tmp[:nr]...)
			if p := parseStream(b); !answered && p.ok {
				if l, k := litefwd.ReadVarInt(b[p.frameEnd:]); k > 0 && len(b) >= p.frameEnd+k+int(l) {
					js := `{"version":{"name":"ref","protocol":765},"players":{"max":1,"online":0},"description":{"text":"ok"}}`
					pl := litefwd.AppendVarInt(nil, 0)
					pl = litefwd.AppendVarInt(pl, int32(len(js)))
					pl = append(pl, js...)
					_, _ = c.Write(litefwd.FramePayload(pl))
					answered = true
				}
			}
			if err != nil {
				break
			}
		}
		mu.Lock()
		got = b
		mu.Unlock()
		close(eof)
	})
	if err != nil {
		r.Inconclusive("cannot listen: " + err.Error())
		return
	}
	defer rec.Close()
	judged, second := 0, 0
	for i := 0; i < n; i++ {
		c := genCase(rng, false)
		c.Next = 1
		c.First = []string{"", "silent", "silent", "refused"}[rng.Intn(4)]
		c.SlowAddr, c.ClientBody, c.BackendBody, c.Pipelined, c.ReadChunk = false, 0, 0, 0, 0
		if c.Exotic {
			c.Exotic = false
		}
		c.Frame = litefwd.Handshake{Protocol: c.Protocol, Address: c.Address, Port: c.Port, Next: 1}.Frame()
		var backends []string
		switch c.First {
		case "silent":
			backends = append(backends, fmt.Sprintf("%s:%d", c.FirstHost, silent.Port))
		case "refused":
			backends = append(backends, fmt.Sprintf("%s:%d", c.FirstHost, refused.Port))
		}
		backends = append(backends, fmt.Sprintf("%s:%d", c.GoodHost, rec.Port))
		routes := []config.Route{{Host: []string{"*"}, Backend: backends, ProxyProtocol: c.PP, ModifyVirtualHost: c.MVH, TCPShieldRealIP: c.TS, CachePingTTL: configutil.Duration(-1)}}
		r.LogCase(c)
		mu.Lock()
		got, eof = nil, make(chan struct{})
		mu.Unlock()
		ca, _ := net.ResolveTCPAddr("tcp", c.ClientAddr)
		sm := lite.NewStrategyManager()
		fin := make(chan struct{})
		var resErr error
		t0 := time.Now().Unix()
		s := litefwd.Start(litefwd.Options{Routes: routes, SM: sm, ClientAddr: ca, OnStatus: func(s *litefwd.Session, conn netmc.MinecraftConn, hs *packet.Handshake, pc *proto.PacketContext) {
			defer close(fin)
			req := &proto.PacketContext{Direction: proto.ServerBound, Protocol: proto.Protocol(hs.ProtocolVersion), PacketID: 0, Packet: &packet.StatusRequest{}, Payload: []byte{0x00}}
			_, _, resErr = lite.ResolveStatusResponseWithGeneration(5*time.Second, 0, routes, s.Rec.Logger(), conn, hs, pc, req, sm)
			_ = conn.Close()
		}})
		_, _ = s.Client.Write(c.Frame)
		ok, _ := lib.Returns(40*time.Second, func() { <-fin; <-eof; <-s.LoopReturned() })
		_ = s.Client.Close()
		r.Eval(1)
		if !ok {
			r.Inconclusive("status case did not complete within the watchdog")
			continue
		}
		t1 := time.Now().Unix()
		mu.Lock()
		b := got
		mu.Unlock()
		if resErr != nil {
			r.Inconclusive("status request failed although the last backend answers: " + resErr.Error())
			continue
		}
		o := outcome{backendGot: b, clientBody: litefwd.FramePayload([]byte{0x00}), t0: t0, t1: t1, fwd: true, fwdTo: fmt.Sprintf("%s:%d", c.GoodHost, rec.Port), conns: 1}
		w := &worker{good: rec}
		vs, _ := judge(w, c, o)
		for _, v := range vs {
			v.wit["path"] = "status (ResolveStatusResponseWithGeneration)"
			r.Violation(v.sig, v.what+" [status path]", v.wit)
		}
		judged++
		if c.First != "" {
			second++
		}
		r.Distinct("status|" + c.key())
	}
	r.Set("status_path_cases_judged", judged)
	r.Set("status_path_second_backend_asked", second)
}
