// C02: frame decoding matches the vanilla acceptance rules on hostile byte streams.
//
// Every case is one complete byte stream fed to the real codec.Decoder (both directions,
// thresholds off/0/1/64/256) through an in-memory reader that returns all bytes and then EOF.
// Monitors:
//  1. differential: the payloads Decode yields before its first error are compared with the
//     payloads of the hand-written reference decoder ref/frameref (which implements exactly
//     the acceptance rules of the C02 statement). Both decoders always terminate on a finite
//     stream (reject or out of bytes), so "yields exactly the payloads and rejects where it
//     rejects" is equality of the two payload lists. Only streams whose VarInt prefixes are
//     minimally encoded are judged, and only up to the point where the statement stops
//     deciding (see frameref.Result.Latitude).
//  2. panic monitor (recover around every Decode, top Gate frame becomes the signature).
//  3. block monitor: the reader has delivered every byte and EOF, so a Decode that does not
//     return is stuck by itself; a watchdog expiry is re-run alone with 3x the budget before it
//     counts (DESIGN section 4 rule 1b), otherwise it is inconclusive.
//  4. allocation monitor: in a single-goroutine phase runtime.MemStats.TotalAlloc is sampled
//     around each stream whose prefixes announce up to 2^31-1 bytes with <= 3 bytes of body;
//     the bytes allocated may exceed what the reference says a correct decoder needs (frame
//     bodies <= 2^21-1, accepted claimed sizes <= direction cap) only by a fixed slack.
//
// Reading/latitude: Decode also parses the packet id VarInt at the start of a payload, which
// is not part of the frame decoder; a payload without a well-formed id ends the judged part
// of the stream. The decoder runs with an empty state registry so that no packet body is
// decoded. Gate gives up after more than 10 consecutive empty frames; the statement says
// nothing about that, so such streams are judged only up to the 10th empty frame.
package c02

import (
	"bufio"
	"bytes"
	"encoding/hex"
	"encoding/json"
	"fmt"
	"io"
	"math/rand"
	"os"
	"regexp"
	"runtime"
	"runtime/debug"
	"strings"
	"sync"
	"sync/atomic"
	"testing"
	"time"

	"github.com/go-logr/logr"
	"go.minekube.com/gate/pkg/edition/java/proto/codec"
	"go.minekube.com/gate/pkg/edition/java/proto/state"
	"go.minekube.com/gate/pkg/edition/java/proto/state/states"
	"go.minekube.com/gate/pkg/edition/java/proxy/verifh/lib"
	"go.minekube.com/gate/pkg/edition/java/proxy/verifh/ref/frameref"
	"go.minekube.com/gate/pkg/gate/proto"
)

// emptyRegistry has no packets in either direction: Decode returns every payload raw.
var emptyRegistry = state.NewRegistry(states.PlayState)

var thresholds = []int{-1, 0, 1, 64, 256}

type streamCase struct {
	Gen       string `json:"gen"`
	Dir       string `json:"direction"` // "serverbound" (from client) | "clientbound" (from server)
	Threshold int    `json:"threshold"` // -1 = compression off
	Reader    int    `json:"reader"`    // 0 bytes.Reader, 1 bufio over chunked, 2 one byte at a time, 3 chunked
	Stream    []byte `json:"-"`
	Block     int    `json:"block"`
	Index     int    `json:"index"`
}

func (c *streamCase) cfg() frameref.Config {
	cp := frameref.CapFromServer
	if c.Dir == "serverbound" {
		cp = frameref.CapFromClient
	}
	return frameref.Config{Threshold: c.Threshold, Cap: cp}
}

func (c *streamCase) witness(extra map[string]any) map[string]any {
	w := map[string]any{
		"gen": c.Gen, "direction": c.Dir, "threshold": c.Threshold, "reader": c.Reader,
		"block": c.Block, "index": c.Index, "stream_len": len(c.Stream),
	}
	if len(c.Stream) <= 1<<16 {
		w["stream_hex"] = hex.EncodeToString(c.Stream)
	} else {
		w["stream_hex_head"] = hex.EncodeToString(c.Stream[:256])
		w["note"] = "stream too long for the replay file; regenerate from (seed, block, index)"
	}
	for k, v := range extra {
		w[k] = v
	}
	return w
}

// gateResult is what the real decoder did with one stream.
type gateResult struct {
	Payloads [][]byte
	Err      string
	Panic    string
	Stack    string
	Calls    int
}

func newReader(kind int, stream []byte, rng *rand.Rand) io.Reader {
	br := bytes.NewReader(stream)
	switch kind {
	case 1:
		return bufio.NewReaderSize(&lib.ChunkReader{R: br, Rng: rng, Max: 1 + rng.Intn(64)}, 16+rng.Intn(4096))
	case 2:
		return lib.OneByteReader{R: br}
	case 3:
		return &lib.ChunkReader{R: br, Rng: rng, Max: 1 + rng.Intn(9)}
	}
	return br
}

// runGate feeds the stream to a fresh codec.Decoder and collects payloads until the first error.
func runGate(c *streamCase, rng *rand.Rand) (g gateResult) {
	dir := proto.ClientBound
	if c.Dir == "serverbound" {
		dir = proto.ServerBound
	}
	defer func() {
		if p := recover(); p != nil {
			g.Panic = fmt.Sprint(p)
			g.Stack = string(debug.Stack())
		}
	}()
	d := codec.NewDecoder(newReader(c.Reader, c.Stream, rng), dir, logr.Discard())
	d.SetState(emptyRegistry)
	if c.Threshold >= 0 {
		d.SetCompressionThreshold(c.Threshold)
	}
	// a stream of n bytes cannot hold more than n frames; anything beyond is a decoder that
	// invents payloads, which the comparison reports
	for g.Calls = 0; g.Calls <= len(c.Stream)+1; g.Calls++ {
		ctx, err := d.Decode()
		if err != nil {
			g.Err = err.Error()
			return
		}
		if ctx == nil {
			g.Err = "nil context and nil error"
			return
		}
		g.Payloads = append(g.Payloads, append([]byte(nil), ctx.Payload...))
	}
	g.Err = "decoder kept yielding payloads beyond the length of the stream"
	return
}

var gateFrameRe = regexp.MustCompile(`go\.minekube\.com/gate/pkg/([^\s(]+)`)

func topGateFrame(stack string) string {
	for _, m := range gateFrameRe.FindAllStringSubmatch(stack, -1) {
		if !strings.Contains(m[0], "/verifh/") {
			f := m[1]
			if i := strings.LastIndex(f, "/"); i >= 0 {
				f = f[i+1:]
			}
			return f
		}
	}
	return "?"
}

// packetIDOK reports whether p starts with a VarInt of at most 5 bytes (what Decode parses
// after the frame layer).
func packetIDOK(p []byte) bool {
	_, _, _, ok, _ := frameref.VarInt(p, 5)
	return ok
}

type monitor struct {
	r *lib.Run

	mu            sync.Mutex
	byGen         map[string]int
	byRefEnd      map[string]int
	byLat         map[string]int
	byCfg         map[string]int
	judgedPl      int64
	gateErrs      int64
	gatePl        int64
	fullEqual     int64
	nonMin        int64
	nonMinClaimed int64
}

func (m *monitor) count(mp map[string]int, k string) {
	m.mu.Lock()
	mp[k]++
	m.mu.Unlock()
}

// judge compares one observed execution with the reference. Returns the reference result.
func (m *monitor) judge(c *streamCase, g gateResult) frameref.Result {
	r := m.r
	ref := frameref.Decode(c.Stream, c.cfg())
	m.count(m.byGen, c.Gen)
	m.count(m.byCfg, fmt.Sprintf("%s/thr=%d", c.Dir, c.Threshold))
	end := "need-more"
	if ref.End == frameref.Reject {
		end = "reject:" + ref.Code
	}
	m.count(m.byRefEnd, end)
	atomic.AddInt64(&m.gatePl, int64(len(g.Payloads)))
	if g.Err != "" {
		atomic.AddInt64(&m.gateErrs, 1)
	}

	if g.Panic != "" {
		r.Violation("decode-panic@"+topGateFrame(g.Stack), "Decode panicked on a peer-supplied stream: "+lib.Trunc(g.Panic, 200),
			c.witness(map[string]any{"panic": g.Panic, "stack": lib.Trunc(g.Stack, 4000)}))
		return ref
	}

	// how much of the stream does the statement decide?
	judged := ref.Payloads
	decidedAll := true
	if ref.Latitude != "" {
		judged = ref.Payloads[:ref.LatitudeAfter]
		decidedAll = false
		m.count(m.byLat, ref.Latitude)
	}
	if ref.NonMinimal {
		atomic.AddInt64(&m.nonMin, 1)
	}
	if ref.NonMinimalClaimed {
		atomic.AddInt64(&m.nonMinClaimed, 1)
	}
	for i, p := range judged {
		if !packetIDOK(p) {
			judged = judged[:i]
			decidedAll = false
			m.count(m.byLat, "payload without a well-formed packet id (Decode parses it)")
			break
		}
	}
	atomic.AddInt64(&m.judgedPl, int64(len(judged)))

	for i, want := range judged {
		if i >= len(g.Payloads) {
			kind := frameKind(c, want)
			r.Violation("valid-frame-not-yielded:"+kind,
				fmt.Sprintf("the reference yields payload #%d (%d bytes) but Decode stopped with %q", i, len(want), lib.Trunc(g.Err, 200)),
				c.witness(map[string]any{"payload_index": i, "want_len": len(want), "gate_error": g.Err, "gate_payloads": len(g.Payloads), "ref_payloads": len(ref.Payloads)}))
			return ref
		}
		if !bytes.Equal(want, g.Payloads[i]) {
			kind := frameKind(c, want)
			r.Violation("payload-differs:"+kind,
				fmt.Sprintf("payload #%d differs from the reference (got %d bytes, want %d)", i, len(g.Payloads[i]), len(want)),
				c.witness(map[string]any{"payload_index": i, "want_hex": hex.EncodeToString(head(want, 64)), "got_hex": hex.EncodeToString(head(g.Payloads[i], 64))}))
			return ref
		}
	}
	if decidedAll && len(g.Payloads) > len(ref.Payloads) {
		extra := g.Payloads[len(ref.Payloads)]
		sig := "payload-from-incomplete-frame"
		what := "the stream ends inside a frame, yet Decode yielded a payload for it"
		if ref.End == frameref.Reject {
			sig = "accepted:" + ref.Code
			what = "the reference rejects this frame (" + ref.Reason + ") but Decode yielded a payload"
		}
		r.Violation(sig, what, c.witness(map[string]any{
			"ref_reason": ref.Reason, "reject_at_offset": ref.RejectAt, "ref_payloads": len(ref.Payloads),
			"gate_payloads": len(g.Payloads), "extra_payload_len": len(extra), "extra_payload_hex": hex.EncodeToString(head(extra, 64)),
		}))
		return ref
	}
	if decidedAll {
		atomic.AddInt64(&m.fullEqual, 1)
	}
	return ref
}

func head(b []byte, n int) []byte {
	if len(b) > n {
		return b[:n]
	}
	return b
}

// frameKind names the kind of frame a (valid) payload travelled in, for signatures.
func frameKind(c *streamCase, payload []byte) string {
	switch {
	case c.Threshold < 0:
		return "plain"
	case len(payload) == c.Threshold:
		return "size-equals-threshold"
	case len(payload) < c.Threshold:
		return "below-threshold"
	}
	return "above-threshold"
}

// ---------------------------------------------------------------------------------------
// generators

type gen struct {
	rng *rand.Rand
	thr int
	cap int
}

func (g *gen) cfg() frameref.Config { return frameref.Config{Threshold: g.thr, Cap: g.cap} }

// payload returns a payload of n bytes whose first byte is a one-byte packet id.
func (g *gen) payload(n int) []byte {
	if n <= 0 {
		return nil
	}
	p := make([]byte, n)
	switch g.rng.Intn(3) {
	case 0:
		g.rng.Read(p)
	case 1:
		for i := range p {
			p[i] = byte('a' + i%3)
		}
	default:
		g.rng.Read(p)
		for i := range p {
			p[i] &= 0x03
		}
	}
	p[0] = byte(g.rng.Intn(0x80))
	return p
}

func (g *gen) size() int {
	t := g.thr
	if t < 0 {
		t = 64
	}
	opts := []int{1, 2, 3, 9, 127, 128, 129, t - 1, t, t + 1, 2 * t, 300, 1000}
	if g.rng.Intn(40) == 0 {
		opts = append(opts, 16383, 16384, 70000)
	}
	n := opts[g.rng.Intn(len(opts))]
	if n < 1 {
		n = 1
	}
	return n
}

// level: mostly the cheap levels (resetting a level >= 2 compressor clears about 1 MiB of hash
// tables per frame); the decoder under test does not care which level produced the stream.
func (g *gen) level() int { return []int{1, 1, 1, 0, 0, 1, 1, -1, 6, 9}[g.rng.Intn(10)] }

func (g *gen) validStream(maxFrames int) ([]byte, [][2]int) {
	var s []byte
	var spans [][2]int
	n := 1 + g.rng.Intn(maxFrames)
	for i := 0; i < n; i++ {
		st := len(s)
		if g.rng.Intn(12) == 0 {
			s = append(s, 0) // empty frame
		} else {
			s = frameref.EncodePayload(s, g.payload(g.size()), g.cfg(), g.level())
		}
		spans = append(spans, [2]int{st, len(s)})
	}
	return s, spans
}

var hostilePrefixes = [][]byte{
	{0x00},
	{0xff, 0xff, 0xff, 0xff, 0x0f},       // -1
	{0x80, 0x80, 0x80, 0x80, 0x08},       // min int32
	{0xff, 0xff, 0x7f},                   // 2^21-1
	{0x80, 0x80, 0x80, 0x01},             // 2^21
	{0xff, 0xff, 0xff, 0x7f},             // 2^28-1
	{0xff, 0xff, 0xff, 0xff, 0x07},       // 2^31-1
	{0x80, 0x80, 0x80, 0x80, 0x04},       // 2^30
	{0xff, 0xff, 0xff, 0xff, 0xff, 0x01}, // 6 bytes
	{0xff, 0xff, 0xff, 0xff, 0xff, 0xff, 0xff},
	{0x80, 0x00},                             // non-minimal 0
	{0x85, 0x80, 0x00},                       // non-minimal 5
	{0x85, 0x80, 0x80, 0x00},                 // non-minimal 5, 4 bytes
	{0x85, 0x80, 0x80, 0x80, 0x00},           // non-minimal 5, 5 bytes
	{0xff, 0xff, 0xff, 0xff, 0x7f},           // 5 bytes with bits above 32
	{0xff}, {0xff, 0xff}, {0xff, 0xff, 0xff}, // truncated
}

func (g *gen) hostilePrefix() []byte {
	var s []byte
	if g.rng.Intn(2) == 0 {
		s, _ = g.validStream(2)
	}
	p := hostilePrefixes[g.rng.Intn(len(hostilePrefixes))]
	s = append(s, p...)
	nb := g.rng.Intn(4)
	if bytes.Equal(p, []byte{0xff, 0xff, 0x7f}) && g.rng.Intn(8) == 0 {
		nb = frameref.MaxFrame // the largest legal frame, complete
		if g.rng.Intn(2) == 0 {
			nb--
		}
	}
	body := make([]byte, nb)
	g.rng.Read(body)
	if nb > 4 {
		// make it a decodable body: uncompressed marker irrelevant when compression is off; with
		// compression on this is "claimed = random", mostly rejected, still a legal-sized frame
		body[0] = byte(g.rng.Intn(0x80))
	}
	s = append(s, body...)
	if g.rng.Intn(3) == 0 {
		t, _ := g.validStream(2)
		s = append(s, t...)
	}
	return s
}

// claimedCase builds one compressed frame with a chosen (claimed size, body) relation.
func (g *gen) claimedCase() (string, []byte) {
	t := g.thr
	var pre []byte
	if g.rng.Intn(3) == 0 {
		pre, _ = g.validStream(2)
	}
	dataLen := []int{t, t + 1, t + 7, 2*t + 3, 300, 1000, 5000}[g.rng.Intn(7)]
	if dataLen < 1 {
		dataLen = 1
	}
	data := g.payload(dataLen)
	kind := g.rng.Intn(16)
	var body []byte
	name := ""
	switch kind {
	case 0:
		name = "claimed-negative-raw-body"
		neg := []int32{-1, -2, -int32(t) - 1, -2147483648, -300}[g.rng.Intn(5)]
		raw := g.payload([]int{0, 1, t - 1, t, t + 1, 10}[g.rng.Intn(6)])
		body = append(frameref.PutVarInt(nil, neg), raw...)
	case 1:
		name = "claimed-negative-zlib-body"
		neg := []int32{-1, -int32(len(data)), -2147483648}[g.rng.Intn(3)]
		body = append(frameref.PutVarInt(nil, neg), frameref.Zlib(data, g.level())...)
	case 2:
		name = "claimed-below-threshold"
		if t < 2 {
			name = "claimed-exact" // nothing positive is below a threshold of 0/1
			body = frameref.Compressed(int32(len(data)), data, g.level())
		} else {
			small := g.payload(1 + g.rng.Intn(t-1))
			body = frameref.Compressed(int32(len(small)), small, g.level())
		}
	case 3:
		name = "claimed-equals-threshold"
		d := g.payload(max(t, 1))
		body = frameref.Compressed(int32(len(d)), d, g.level())
	case 4:
		name = "claimed-exact"
		body = frameref.Compressed(int32(len(data)), data, g.level())
	case 5:
		name = "inflates-to-more-than-claimed"
		extra := []int{1, 2, 100, 5000}[g.rng.Intn(4)]
		more := append(append([]byte(nil), data...), g.payload(extra)...)
		body = frameref.Compressed(int32(len(data)), more, g.level())
	case 6:
		name = "inflates-to-less-than-claimed"
		less := []int{1, 2, 100}[g.rng.Intn(3)]
		body = frameref.Compressed(int32(len(data)+less), data, g.level())
	case 7:
		name = "zlib-truncated"
		z := frameref.Zlib(data, g.level())
		cut := 1 + g.rng.Intn(len(z)-1)
		body = append(frameref.PutVarInt(nil, int32(len(data))), z[:cut]...)
	case 8:
		name = "zlib-trailing-garbage"
		z := frameref.Zlib(data, g.level())
		junk := make([]byte, 1+g.rng.Intn(8))
		g.rng.Read(junk)
		body = append(append(frameref.PutVarInt(nil, int32(len(data))), z...), junk...)
	case 9:
		name = "claimed-with-garbage-body"
		junk := make([]byte, g.rng.Intn(12))
		g.rng.Read(junk)
		body = append(frameref.PutVarInt(nil, int32(len(data))), junk...)
	case 10:
		name = "claimed-above-cap"
		over := []int32{int32(g.cap) + 1, int32(g.cap) + 4096, 1<<31 - 1, 1 << 30}[g.rng.Intn(4)]
		var z []byte
		switch g.rng.Intn(16) {
		case 0:
			// a body that really inflates to the claimed size: only the direction cap refuses it
			// (expensive: 2-8 MiB, keep it rare)
			name = "claimed-above-cap-exact-body"
			over = int32(g.cap) + 1 + int32(g.rng.Intn(2))*4095
			z = frameref.Zlib(make([]byte, over), 1)
		case 1, 2, 3, 4, 5, 6, 7:
			z = frameref.Zlib(data, g.level())
		default:
			z = []byte{0x78, 0x9c, 0x01}
		}
		body = append(frameref.PutVarInt(nil, over), z...)
	case 11:
		name = "claimed-at-cap"
		if g.rng.Intn(12) != 0 { // expensive (inflates 2-8 MiB): keep it rare
			name = "claimed-exact"
			body = frameref.Compressed(int32(len(data)), data, g.level())
			break
		}
		n := g.cap
		if g.rng.Intn(3) == 0 {
			n = g.cap - 1
		}
		body = frameref.Compressed(int32(n), make([]byte, n), 1)
	case 12:
		name = "claimed-at-cap-body-too-long"
		if g.rng.Intn(12) != 0 {
			name = "inflates-to-more-than-claimed"
			body = frameref.Compressed(int32(len(data)), append(append([]byte(nil), data...), 1), g.level())
			break
		}
		body = frameref.Compressed(int32(g.cap), make([]byte, g.cap+1), 1)
	case 13:
		name = "zlib-bad-checksum"
		z := frameref.Zlib(data, g.level())
		z[len(z)-1-g.rng.Intn(4)] ^= 0x55
		body = append(frameref.PutVarInt(nil, int32(len(data))), z...)
	case 14:
		name = "claimed-varint-only"
		body = frameref.PutVarInt(nil, []int32{int32(len(data)), -1, 1 << 20}[g.rng.Intn(3)])
	default:
		name = "claimed-varint-malformed"
		body = [][]byte{{0x80}, {0xff, 0xff}, {0xff, 0xff, 0xff, 0xff, 0xff, 0x01, 1, 2}, {0x80, 0x80, 0x80, 0x80, 0x80, 0x80}}[g.rng.Intn(4)]
	}
	if kind >= 2 && kind <= 10 && g.rng.Intn(6) == 0 {
		// re-spell a well-formed claimed size non-minimally (padded to 5 bytes, or one byte
		// longer than needed); the value and therefore the verdict stay the same
		if v, n, minimal, ok, _ := frameref.VarInt(body, 5); ok && minimal && n < 5 && v >= 0 {
			pad := n + 1
			if g.rng.Intn(2) == 0 {
				pad = 5
			}
			var enc []byte
			u := uint32(v)
			for i := 0; i < pad; i++ {
				b := byte(u & 0x7f)
				u >>= 7
				if i < pad-1 {
					b |= 0x80
				}
				enc = append(enc, b)
			}
			body = append(enc, body[n:]...)
			name += "/claimed-size-non-minimal"
		}
	}
	s := frameref.Frame(pre, body)
	if g.rng.Intn(3) == 0 {
		t2, _ := g.validStream(2)
		s = append(s, t2...)
	}
	return name, s
}

func (g *gen) uncompressedInCompressed() []byte {
	t := g.thr
	var s []byte
	if g.rng.Intn(3) == 0 {
		s, _ = g.validStream(2)
	}
	n := []int{0, 1, t - 1, t, t + 1, t + 2, 2*t + 1}[g.rng.Intn(7)]
	if n < 0 {
		n = 0
	}
	if g.rng.Intn(4) == 0 {
		// the same frame with the zero "data length" spelled in 2..5 bytes (the frame's own
		// length prefix stays minimal)
		z := [][]byte{{0x80, 0x00}, {0x80, 0x80, 0x00}, {0x80, 0x80, 0x80, 0x00}, {0x80, 0x80, 0x80, 0x80, 0x00}, {0x80, 0x80, 0x80, 0x80, 0x10}}[g.rng.Intn(5)]
		s = frameref.Frame(s, append(append([]byte{}, z...), g.payload(n)...))
	} else {
		s = frameref.Frame(s, frameref.Uncompressed(g.payload(n)))
	}
	if g.rng.Intn(2) == 0 {
		t2, _ := g.validStream(2)
		s = append(s, t2...)
	}
	return s
}

func (g *gen) mutated() (string, []byte) {
	s, spans := g.validStream(5)
	if len(s) == 0 {
		return "mutated-empty", s
	}
	sp := spans[g.rng.Intn(len(spans))]
	switch g.rng.Intn(8) {
	case 0:
		i := g.rng.Intn(len(s))
		s[i] ^= 1 << uint(g.rng.Intn(8))
		return "mutated-bitflip", s
	case 1:
		return "mutated-truncated", s[:g.rng.Intn(len(s))]
	case 2:
		i := g.rng.Intn(len(s) + 1)
		b := byte(g.rng.Intn(256))
		s = append(s[:i], append([]byte{b}, s[i:]...)...)
		return "mutated-insert", s
	case 3:
		i := g.rng.Intn(len(s))
		s = append(s[:i], s[i+1:]...)
		return "mutated-delete", s
	case 4:
		// bit flip inside the header region of one frame (length prefix / claimed size)
		i := sp[0] + g.rng.Intn(min(4, sp[1]-sp[0]))
		s[i] ^= 1 << uint(g.rng.Intn(8))
		return "mutated-header-bitflip", s
	case 5:
		// duplicate a frame
		d := append([]byte(nil), s[sp[0]:sp[1]]...)
		s = append(s[:sp[1]], append(d, s[sp[1]:]...)...)
		return "mutated-duplicate-frame", s
	case 6:
		// length prefix of one frame off by one (re-encoded minimally)
		l, n, _, ok, _ := frameref.VarInt(s[sp[0]:], 3)
		if !ok {
			return "mutated-none", s
		}
		d := int32(1)
		if g.rng.Intn(2) == 0 {
			d = -1
		}
		np := frameref.PutVarInt(nil, l+d)
		s = append(append(append([]byte(nil), s[:sp[0]]...), np...), s[sp[0]+n:]...)
		return "mutated-length-off-by-one", s
	default:
		// claimed size of one frame replaced
		if g.thr < 0 {
			i := g.rng.Intn(len(s))
			s[i] = byte(g.rng.Intn(256))
			return "mutated-byte", s
		}
		l, n, _, ok, _ := frameref.VarInt(s[sp[0]:], 3)
		if !ok || l == 0 {
			return "mutated-none", s
		}
		bodyStart := sp[0] + n
		cl, cn, _, ok2, _ := frameref.VarInt(s[bodyStart:sp[1]], 5)
		if !ok2 {
			return "mutated-none", s
		}
		repl := []int32{cl + 1, cl - 1, -cl, 0, -1, int32(g.thr), int32(g.thr) - 1, int32(g.cap) + 1}[g.rng.Intn(8)]
		nc := frameref.PutVarInt(nil, repl)
		body := append(append([]byte(nil), nc...), s[bodyStart+cn:sp[1]]...)
		out := append([]byte(nil), s[:sp[0]]...)
		out = frameref.Frame(out, body)
		out = append(out, s[sp[1]:]...)
		return "mutated-claimed-size", out
	}
}

func (g *gen) emptyRun() []byte {
	var s []byte
	n := 1 + g.rng.Intn(14)
	for i := 0; i < n; i++ {
		if g.thr >= 0 && g.rng.Intn(3) == 0 {
			s = append(s, 1, 0) // uncompressed frame with empty payload
		} else {
			s = append(s, 0)
		}
	}
	t, _ := g.validStream(2)
	return append(s, t...)
}

// makeCase draws one stream case.
func makeCase(rng *rand.Rand, block, index int) *streamCase {
	c := &streamCase{Block: block, Index: index}
	c.Dir = "serverbound"
	if rng.Intn(2) == 0 {
		c.Dir = "clientbound"
	}
	c.Threshold = thresholds[rng.Intn(len(thresholds))]
	c.Reader = rng.Intn(4)
	g := &gen{rng: rng, thr: c.Threshold}
	g.cap = c.cfg().Cap
	k := rng.Intn(100)
	switch {
	case k < 10:
		c.Gen = "random"
		n := rng.Intn(48)
		if rng.Intn(10) == 0 {
			n = rng.Intn(4096)
		}
		c.Stream = make([]byte, n)
		rng.Read(c.Stream)
		if rng.Intn(2) == 0 && n > 0 {
			// small leading length so that random bytes get past the frame layer
			c.Stream[0] = byte(rng.Intn(n + 1))
		}
	case k < 22:
		c.Gen = "valid"
		c.Stream, _ = g.validStream(6)
	case k < 45:
		c.Gen, c.Stream = g.mutated()
	case k < 60:
		c.Gen = "hostile-prefix"
		c.Stream = g.hostilePrefix()
	case k < 88:
		if c.Threshold < 0 {
			c.Gen = "hostile-prefix"
			c.Stream = g.hostilePrefix()
		} else {
			c.Gen, c.Stream = g.claimedCase()
		}
	case k < 96:
		if c.Threshold < 0 {
			c.Gen, c.Stream = g.mutated()
		} else {
			c.Gen = "uncompressed-in-compressed"
			c.Stream = g.uncompressedInCompressed()
		}
	default:
		c.Gen = "empty-frames"
		c.Stream = g.emptyRun()
	}
	return c
}

// ---------------------------------------------------------------------------------------

const watchdog = 20 * time.Second

// execute runs one case under the block watchdog and judges it.
func (m *monitor) execute(c *streamCase, rng *rand.Rand) {
	r := m.r
	var g gateResult
	ok, _ := lib.Returns(watchdog, func() { g = runGate(c, rng) })
	if c.Index%25 == 24 {
		r.Eval(25) // batched: the run's bookkeeping mutex is shared by all workers
	}
	if !ok {
		// all bytes and EOF were available to the decoder: re-run alone with 3x the budget
		ok2, _ := lib.Returns(3*watchdog, func() { _ = runGate(c, rand.New(rand.NewSource(1))) })
		if !ok2 {
			r.Violation("decode-blocked-with-all-bytes-available",
				"Decode did not return although the in-memory reader had delivered every byte and EOF (reproduced when re-run alone with 3x the budget)",
				c.witness(map[string]any{"goroutines": lib.Trunc(lib.Goroutines(), 6000)}))
		} else {
			r.Inconclusive(fmt.Sprintf("watchdog expired once on block %d case %d but not when re-run alone", c.Block, c.Index))
		}
		return
	}
	ref := m.judge(c, g)
	if ref.Frames > 0 {
		key := make([]byte, 0, len(c.Stream)+8)
		key = append(key, c.Dir[0], byte(c.Threshold>>8), byte(c.Threshold))
		key = append(key, c.Stream...)
		r.DistinctBytes(key)
	}
	if c.Index%16 == 0 && r.WantSample() {
		end := "need-more"
		if ref.End == frameref.Reject {
			end = "reject: " + ref.Reason
		}
		r.Sample(map[string]any{"gen": c.Gen, "direction": c.Dir, "threshold": c.Threshold, "stream_len": len(c.Stream),
			"stream_hex_head": hex.EncodeToString(head(c.Stream, 48)), "ref_payloads": len(ref.Payloads), "ref_end": end,
			"gate_payloads": len(g.Payloads), "gate_error": lib.Trunc(g.Err, 160), "latitude": ref.Latitude})
	}
}

const allocSlack = 512 << 10 // zlib reader state, bufio, error values

// allocPhase runs hostile-length cases one at a time and samples TotalAlloc around each.
func (m *monitor) allocPhase(n int) {
	r := m.r
	rng := r.Rng("alloc")
	var ms runtime.MemStats
	var maxDelta, maxExcess int64
	maxExcess = -1 << 62
	for i := 0; i < n; i++ {
		c := &streamCase{Block: -1, Index: i, Gen: "alloc-hostile-length", Reader: rng.Intn(4)}
		c.Dir = []string{"serverbound", "clientbound"}[rng.Intn(2)]
		c.Threshold = thresholds[rng.Intn(len(thresholds))]
		g := &gen{rng: rng, thr: c.Threshold}
		g.cap = c.cfg().Cap
		var s []byte
		// announced frame length
		ann := []int32{-1, -2147483648, 1 << 21, 1<<21 + 1, 1 << 22, 1 << 24, 1 << 27, 1 << 30, 1<<31 - 1, 1<<21 - 1, 1 << 20}[rng.Intn(11)]
		s = frameref.PutVarInt(s, ann)
		if c.Threshold >= 0 && rng.Intn(2) == 0 {
			// legal small frame announcing a huge claimed size instead
			cl := []int32{int32(g.cap) + 1, 1<<31 - 1, 1 << 30, -1, -2147483648, int32(g.cap)}[rng.Intn(6)]
			body := append(frameref.PutVarInt(nil, cl), 0x78, 0x9c, 0x03)
			s = frameref.Frame(nil, body[:len(body)-rng.Intn(3)])
			c.Gen = "alloc-hostile-claimed-size"
		} else {
			body := make([]byte, rng.Intn(4))
			rng.Read(body)
			s = append(s, body...)
		}
		c.Stream = s
		r.LogCase(c.witness(nil))
		caseRng := rand.New(rand.NewSource(int64(i)))
		runtime.ReadMemStats(&ms)
		before := ms.TotalAlloc
		var gr gateResult
		ok, _ := lib.Returns(watchdog, func() { gr = runGate(c, caseRng) })
		runtime.ReadMemStats(&ms)
		delta := int64(ms.TotalAlloc - before)
		r.Eval(1)
		if !ok {
			r.Inconclusive("watchdog expired in the allocation phase")
			continue
		}
		ref := m.judge(c, gr)
		r.DistinctBytes(append([]byte{'A', c.Dir[0], byte(c.Threshold)}, c.Stream...))
		if delta > maxDelta {
			maxDelta = delta
		}
		excess := delta - ref.LegitAlloc
		if excess > maxExcess {
			maxExcess = excess
		}
		if excess > allocSlack {
			sig := "frame-allocation-beyond-announced-legal-size"
			if c.Gen == "alloc-hostile-claimed-size" {
				sig = "inflate-allocation-beyond-direction-cap"
			}
			r.Violation(sig, fmt.Sprintf("Decode allocated %d bytes on a %d-byte stream; a correct decoder needs at most %d (+%d slack)", delta, len(c.Stream), ref.LegitAlloc, allocSlack),
				c.witness(map[string]any{"allocated": delta, "legit": ref.LegitAlloc, "announced": ann}))
		}
		r.Count("alloc_cases", 1)
	}
	r.Set("alloc_max_bytes_per_stream", maxDelta)
	r.Set("alloc_max_excess_over_reference", maxExcess)
}

func TestC02(t *testing.T) {
	r := lib.Start(t, "C02")
	defer r.Finish()
	r.Rule("each case is one complete byte stream + (direction, threshold in {off,0,1,64,256}, reader kind); generators: random bytes, valid streams (reference encoder), single-field mutations of valid streams, hostile length prefixes (0, negative, 2^21-1, 2^21, 4/5/6-byte, non-minimal, truncated), hostile claimed sizes x zlib bodies (less/exact/more/truncated/trailing/garbage/bad checksum/at cap/above cap), uncompressed-in-compressed around the threshold, runs of empty frames; distinct = distinct (direction, threshold, stream bytes) with at least one frame seen by the reference")
	r.Assume("ref/frameref is a faithful transcription of the acceptance rules in the C02 statement; compress/zlib decides what a body inflates to")
	r.Assume("runtime.MemStats.TotalAlloc sampled in a single-goroutine phase measures what one Decode loop allocated")
	m := &monitor{r: r, byGen: map[string]int{}, byRefEnd: map[string]int{}, byLat: map[string]int{}, byCfg: map[string]int{}}

	if p := os.Getenv("VERIF_REPLAY"); p != "" {
		replay(m, p)
		return
	}

	// phase 1: allocation monitor, single goroutine
	m.allocPhase(r.N(1500, 20000))

	// phase 2: differential + panic + block monitors, many goroutines. Cases are drawn per
	// block from a PRNG derived from (seed, block), so the case list does not depend on the
	// scheduling of the workers.
	total := r.N(30000, 1500000)
	const blockSize = 500
	blocks := (total + blockSize - 1) / blockSize
	workers := runtime.GOMAXPROCS(0)
	if workers > 16 {
		workers = 16
	}
	var next atomic.Int64
	var wg sync.WaitGroup
	for w := 0; w < workers; w++ {
		wg.Add(1)
		go func() {
			defer wg.Done()
			for {
				b := int(next.Add(1)) - 1
				if b >= blocks {
					return
				}
				rng := r.Rng(fmt.Sprintf("block-%d", b))
				for i := 0; i < blockSize && b*blockSize+i < total; i++ {
					c := makeCase(rng, b, i)
					r.LogCase(map[string]any{"block": b, "index": i, "gen": c.Gen, "direction": c.Dir, "threshold": c.Threshold,
						"reader": c.Reader, "stream_hex_head": hex.EncodeToString(head(c.Stream, 256)), "stream_len": len(c.Stream)})
					m.execute(c, rng)
				}
			}
		}()
	}
	wg.Wait()

	r.Set("cases_by_generator", m.byGen)
	r.Set("reference_outcomes", m.byRefEnd)
	r.Set("latitude_not_judged", m.byLat)
	r.Set("cases_by_direction_threshold", m.byCfg)
	r.Set("payloads_compared_equal_or_reported", atomic.LoadInt64(&m.judgedPl))
	r.Set("gate_payloads_yielded", atomic.LoadInt64(&m.gatePl))
	r.Set("gate_streams_ended_by_error", atomic.LoadInt64(&m.gateErrs))
	r.Set("streams_fully_decided_and_equal", atomic.LoadInt64(&m.fullEqual))
	r.Set("streams_with_non_minimal_varint_not_judged_for_equality", atomic.LoadInt64(&m.nonMin))
	r.Set("streams_with_non_minimal_claimed_size_judged", atomic.LoadInt64(&m.nonMinClaimed))
	r.Set("workers", workers)
}

// replay re-runs the case stored in a replay file.
func replay(m *monitor, path string) {
	r := m.r
	b, err := os.ReadFile(path)
	if err != nil {
		fmt.Printf("REPLAY-RESULT property=C02 cannot read %s: %v\n", path, err)
		return
	}
	var rp struct {
		Signature string `json:"signature"`
		Witness   struct {
			Gen       string `json:"gen"`
			Direction string `json:"direction"`
			Threshold int    `json:"threshold"`
			Reader    int    `json:"reader"`
			StreamHex string `json:"stream_hex"`
		} `json:"witness"`
	}
	if err := json.Unmarshal(b, &rp); err != nil || rp.Witness.StreamHex == "" {
		fmt.Printf("REPLAY-RESULT property=C02 replay file has no stream_hex (%v)\n", err)
		return
	}
	s, _ := hex.DecodeString(rp.Witness.StreamHex)
	c := &streamCase{Gen: rp.Witness.Gen, Dir: rp.Witness.Direction, Threshold: rp.Witness.Threshold, Reader: rp.Witness.Reader, Stream: s}
	before := r.Violations()
	m.execute(c, rand.New(rand.NewSource(1)))
	r.Eval(1)
	r.DistinctBytes([]byte("replay-a"))
	r.DistinctBytes([]byte("replay-b"))
	if r.Violations() > before {
		fmt.Printf("REPLAY-RESULT property=C02 signature=%q reproduced\n", rp.Signature)
	} else {
		fmt.Printf("REPLAY-RESULT property=C02 signature=%q NOT reproduced (held or known finding)\n", rp.Signature)
	}
}
