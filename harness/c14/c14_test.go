// C14: packets sent during configuration are delivered after it, in order, without loss.
//
// Each case runs a real client-side netmc.MinecraftConn (protocol >= 764) over a buffered
// in-memory connection. 1-8 writer goroutines write play-only packets (SystemChat carrying
// "V<writer>:<seq>;"), packets valid in the configuration phase in both directions (KeepAlive
// carrying magic|writer|seq) and typed packets valid in the configuration phase for the
// CLIENTBOUND direction only (Disconnect, ResourcePackRequest, CookieStore, Transfer,
// ServerLinks ... carrying "cv<writer>-<seq>-", enumerated from Gate's registry per protocol,
// see cvpackets_test.go) while a controller toggles the connection config <-> play:
//
//   - the phase is entered the login way (SetState(Config)) or through the real
//     connectedPlayer.switchToConfigState (outbound state only, as on a server switch);
//   - in most phases it is entered a SECOND time without leaving it, at a PRNG-chosen moment
//     while the writers keep writing: the client's acknowledgement of a server switch
//     (SwitchSessionHandler(Config) / SetState(Config), what
//     clientPlaySessionHandler.handleFinishedUpdate does on the client connection), or on the
//     login path a redundant EnablePlayPacketQueue / SetOutboundState(Config) / SetState(Config);
//   - inside the phase the controller writes typed packets that exist in the configuration
//     phase only (RegistrySync, TagsUpdate, ActiveFeatures, DialogShow, CodeOfConduct);
//   - before leaving, the controller writes a config-valid "finish" marker, exactly where the
//     proxy writes FinishedUpdate, then SetState(Play) / SetOutboundState(Play) (followed, in
//     the real mode, by SetActiveSessionHandler(Play): the client's FinishedUpdate);
//   - a fifth of the cases end with a kick during configuration: the phase is entered once more
//     and netmc.CloseWith writes a Disconnect and closes the connection.
//
// The fake client parses the raw frames it received and an offline checker decides the run:
//
//	L  no-loss/no-dup: every write that returned nil appears exactly once in the stream
//	   (after a final kick: every config-valid write that returned before the kick began, and
//	   every play-only write that returned before the last phase was entered)
//	O  per writer, play-only packets appear in write order
//	H  held: a play-only packet whose write began after SetState(Config) returned and
//	   returned before the finish marker was written appears after that marker
//	B  before-later: a play packet whose write began after SetState(Play) returned appears
//	   after every packet held in the preceding configuration phase
//	I  immediate: a config-valid packet (either kind) whose write returned before the finish
//	   marker was written appears before the marker
//	K  kick: the Disconnect written by CloseWith during configuration is on the wire when the
//	   connection has been closed, after the config-valid packets written before it; no
//	   play-only packet of that last phase is delivered
//	Q  bounded: with more than 1024 packets held, the overflowing write reports an error
//	   and the connection is closed (never a silent drop)
//
// Call/return stamps come from one atomic counter at the client boundary. The race
// detector decides too: a report with both stacks inside bufferPacket /
// ensurePlayPacketQueue / PlayPacketQueue.* is a schedule witness (driver, checks.d).
package c14

import (
	"bytes"
	"context"
	"encoding/binary"
	"fmt"
	"io"
	"regexp"
	"runtime"
	"sort"
	"strconv"
	"sync"
	"sync/atomic"
	"testing"
	"time"

	"go.minekube.com/common/minecraft/component"
	"go.minekube.com/gate/pkg/edition/java/netmc"
	"go.minekube.com/gate/pkg/edition/java/proto/packet"
	"go.minekube.com/gate/pkg/edition/java/profile"
	"go.minekube.com/gate/pkg/edition/java/config"
	cfgpacket "go.minekube.com/gate/pkg/edition/java/proto/packet/config"
	"go.minekube.com/gate/pkg/edition/java/proxy"
	"go.minekube.com/gate/pkg/util/netutil"
	"go.minekube.com/gate/pkg/util/uuid"
	"go.minekube.com/gate/pkg/edition/java/proto/packet/chat"
	"go.minekube.com/gate/pkg/edition/java/proto/state"
	"go.minekube.com/gate/pkg/edition/java/proxy/verifh/lib"
	"go.minekube.com/gate/pkg/gate/proto"
)

const kaMagic = uint64(0x5EED) << 48

var startsSeen, writeErrs int64

type nopHandler struct{}

func (nopHandler) HandlePacket(*proto.PacketContext) {}
func (nopHandler) Disconnected()                      {}
func (nopHandler) Activated()                         {}
func (nopHandler) Deactivated()                       {}

type wrec struct {
	Writer int    `json:"w"`
	Seq    int    `json:"seq"`
	Play   bool   `json:"play_only"`
	Type   string `json:"type,omitempty"` // typed clientbound-only config packet
	Call   int64  `json:"call"`
	Ret    int64  `json:"ret"`
	Err    string `json:"err,omitempty"`
}

type phase struct {
	Real     bool   // entered through the real connectedPlayer.switchToConfigState
	CfgRet   int64  // SetState(Config) returned
	Reentry  string // the configuration phase was entered a second time without leaving it: how
	ReCall   int64  // second entry called
	ReRet    int64  // second entry returned
	MarkCall int64  // finish marker write called
	MarkSeq  int
	PlayCall int64 // SetState(Play) called
	PlayRet  int64 // SetState(Play) returned
}

// finalKick: the case ends with a kick during configuration: the connection enters the
// configuration phase once more and netmc.CloseWith writes a Disconnect (valid in the
// configuration phase, clientbound only) and closes the connection.
type finalKick struct {
	Present  bool
	Reentry  string
	CfgCall  int64
	CfgRet   int64
	KickCall int64
	KickRet  int64
}

type stats struct {
	held, direct, racing, markers int64
	heldAcrossReentry             int64
	reentries                     map[string]int64
	typedDelivered                map[string]int64 // per type: write returned nil and the client received it
	typedInConfig                 map[string]int64 // per type: written wholly inside a configuration phase, seen before its finish marker
	kicks, kickFramesSeen         int64
	cvBeforeKick                  int64
}

var playRe = regexp.MustCompile(`V(\d+):(\d+);`)

// marker of a typed config-valid packet (see cvpackets_test.go); writer 0xFFFE is the final
// Disconnect of a kick during configuration
var cvRe = regexp.MustCompile(`cv(\d+)-(\d+)-`)

const kickWriter = 0xFFFE

type item struct {
	play   bool
	marker bool
	start  bool // StartUpdate: the client enters the configuration phase when it reads this
	kick   bool // the Disconnect of a kick during configuration (CloseWith)
	w, seq int
}

func parseStream(b []byte, startID int) (items []item, ok bool) {
	for len(b) > 0 {
		l, n := binary.Uvarint(b)
		if n <= 0 || int(l) > len(b)-n {
			return items, false
		}
		body := b[n : n+int(l)]
		b = b[n+int(l):]
		if len(body) == 1 && startID >= 0 && int(body[0]) == startID {
			items = append(items, item{start: true})
			continue
		}
		if m := playRe.FindSubmatch(body); m != nil {
			w, _ := strconv.Atoi(string(m[1]))
			s, _ := strconv.Atoi(string(m[2]))
			items = append(items, item{play: true, w: w, seq: s})
			continue
		}
		if m := cvRe.FindSubmatch(body); m != nil {
			w, _ := strconv.Atoi(string(m[1]))
			s, _ := strconv.Atoi(string(m[2]))
			items = append(items, item{w: w, seq: s, kick: w == kickWriter})
			continue
		}
		if len(body) >= 9 {
			v := binary.BigEndian.Uint64(body[len(body)-8:])
			if v&(uint64(0xFFFF)<<48) == kaMagic {
				w := int(v >> 32 & 0xFFFF)
				s := int(v & 0xFFFFFFFF)
				items = append(items, item{w: w, seq: s, marker: w == 0xFFFF})
			}
		}
	}
	return items, true
}

func kaID(w, seq int) int64 { return int64(kaMagic | uint64(w)<<32 | uint64(uint32(seq))) }

func TestC14(t *testing.T) {
	r := lib.Start(t, "C14")
	defer r.Finish()
	r.Rule("one case = one real MinecraftConn (protocol 764..775, client side) with 1-8 writer goroutines mixing play-only (SystemChat), config-valid-both-directions (KeepAlive) and typed clientbound-only config-valid packets (enumerated from Gate's registry per protocol: Disconnect, ResourcePackRequest, CookieStore, Transfer, ServerLinks ...) through WritePacket/BufferPacket while a controller toggles config<->play 1-5 times with PRNG-chosen yields and a stalling client pipe; the controller enters the phase the login way (SetState) or through the real switchToConfigState, in most phases enters it a second time without leaving (the client's acknowledgement SwitchSessionHandler(Config)/SetState(Config) of a server switch; a redundant EnablePlayPacketQueue/SetOutboundState(Config) on the login path), writes config-only typed packets (RegistrySync, TagsUpdate, DialogShow ...) inside the phase, and in a fifth of the cases ends with a kick during configuration (netmc.CloseWith(Disconnect)); plus overflow cases holding 1000..1100 packets; distinct = distinct (writers, toggles, entry mode, per-phase counts of held / direct / racing packets observed)")
	r.Assume("the fake client identifies packets by markers embedded in their payload, independent of Gate's decoder")
	r.Assume("which packet types are valid in the configuration phase for the clientbound direction only is taken from Gate's registry by the workload generator; the oracle only sees markers, stamps and stream positions")
	rng := r.Rng("cases")
	n := r.N(1200, 60000)
	protos := []proto.Protocol{764, 765, 766, 767, 768, 769, 770, 771, 772, 773, 774, 775}
	st := &stats{reentries: map[string]int64{}, typedDelivered: map[string]int64{}, typedInConfig: map[string]int64{}}
	var overflowCases int64
	var realSwitchCases, realSwitches int64
	pcfg := config.DefaultConfig
	px, perr := proxy.New(proxy.Options{Config: &pcfg})
	if perr != nil {
		t.Fatalf("proxy.New: %v", perr)
	}
	sigs := map[string]struct{}{}

	// typed packets valid in the configuration phase for the clientbound direction only
	cvSets := map[proto.Protocol]cvSet{}
	typesPerProto := map[string]any{}
	noField := map[string]struct{}{}
	for _, pv := range protos {
		set, enumerated := cvTypesFor(pv)
		if enumerated == 0 || len(set.AnyPhase) == 0 || len(set.ConfigOnly) == 0 {
			// no evaluation has happened yet: the run ends with NO-OBSERVATIONS (exit 3)
			fmt.Printf("INCONCLUSIVE property=C14 protocol %d: %d clientbound-only config packet types registered, %d any-phase and %d config-only could be built: the generator does not know Gate's registry any more\n", pv, enumerated, len(set.AnyPhase), len(set.ConfigOnly))
			t.Fatalf("protocol %d: cannot build clientbound-only config packets (enumerated %d)", pv, enumerated)
		}
		cvSets[pv] = set
		var names []string
		for _, ty := range set.AnyPhase {
			names = append(names, ty.Name)
		}
		for _, ty := range set.ConfigOnly {
			names = append(names, ty.Name+"(config-only)")
		}
		typesPerProto[strconv.Itoa(int(pv))] = names
		for _, nf := range set.NoField {
			noField[nf] = struct{}{}
		}
	}

	for ci := 0; ci < n; ci++ {
		pv := protos[rng.Intn(len(protos))]
		nw := 1 + rng.Intn(8)
		toggles := 1 + rng.Intn(5)
		perWriter := 4 + rng.Intn(20)
		overflow := ci%50 == 49
		stall := rng.Intn(3) == 0
		// realSwitch: the configuration phase is entered through the real
		// connectedPlayer.switchToConfigState (what a backend's StartUpdate or a server switch
		// triggers) and left through SetOutboundState(Play) (what the client config handler does),
		// instead of the plain SetState(Config)/SetState(Play) of the login path
		realSwitch := !overflow && rng.Intn(2) == 0
		// reenter: phases of this case may enter the configuration phase a second time
		reenter := !overflow && rng.Intn(4) != 0
		// kick: the case ends with a kick during configuration
		kick := !overflow && rng.Intn(5) == 0
		desc := map[string]any{"protocol": int(pv), "writers": nw, "toggles": toggles, "per_writer": perWriter, "overflow": overflow, "stall": stall, "real_switch": realSwitch, "reenter": reenter, "kick": kick}
		r.LogCase(desc)
		cvs := cvSets[pv]

		proxyEnd, client := lib.Pipe()
		if stall {
			srng := r.Rng(fmt.Sprintf("stall%d", ci))
			var smu sync.Mutex
			proxyEnd.BeforeWrite(func(int) {
				smu.Lock()
				k := srng.Intn(4)
				smu.Unlock()
				for ; k > 0; k-- {
					runtime.Gosched()
				}
			})
		}
		conn, _ := netmc.NewMinecraftConn(context.Background(), proxyEnd, proto.ServerBound, 30*time.Second, 30*time.Second, -1, nil)
		conn.SetProtocol(pv)
		conn.SetActiveSessionHandler(state.Play, nopHandler{})
		// the client connection of a 1.20.2+ player keeps its configuration handler registered
		conn.AddSessionHandler(state.Config, nopHandler{})
		startID := -1
		var pl *proxy.VerifC11Player
		if realSwitch {
			realSwitchCases++
			if id, ok := state.Play.ClientBound.ProtocolRegistry(pv).PacketID(&cfgpacket.StartUpdate{}); ok {
				startID = int(id)
			}
			name := fmt.Sprintf("c14_%d", ci)
			pl = proxy.VerifC11NewPlayer(px, conn, &profile.GameProfile{ID: uuid.OfflinePlayerUUID(name), Name: name},
				netutil.NewAddr("play.example.com:25565", "tcp"), false, false)
		}
		var recvBuf bytes.Buffer
		recvDone := make(chan struct{})
		go func() { _, _ = io.Copy(&recvBuf, client); close(recvDone) }()

		var clock atomic.Int64
		var mu sync.Mutex
		var recs []wrec
		var phases []phase
		var fin finalKick

		if overflow {
			overflowCases++
			// single writer fills the queue past the bound while in config
			conn.SetState(state.Config)
			cfgRet := clock.Add(1)
			total := 1000 + rng.Intn(101) // 1000..1100
			firstErr := -1
			for s := 0; s < total; s++ {
				c := clock.Add(1)
				err := conn.BufferPacket(&chat.SystemChat{Type: chat.SystemMessageType, Component: &chat.ComponentHolder{Protocol: pv, Component: &component.Text{Content: fmt.Sprintf("V1:%d;", s)}}})
				rt := clock.Add(1)
				rec := wrec{Writer: 1, Seq: s, Play: true, Call: c, Ret: rt}
				if err != nil {
					rec.Err = err.Error()
					if firstErr < 0 {
						firstErr = s
					}
				}
				recs = append(recs, rec)
			}
			r.Eval(1)
			if total > 1024 {
				if firstErr != 1024 {
					r.Violation("overflow-not-reported-at-1025", fmt.Sprintf("holding %d play packets: first write error at index %d, want an error exactly for the 1025th packet", total, firstErr), desc)
				} else if !netmc.Closed(conn) {
					r.Violation("overflow-does-not-close", "the holding queue overflowed but the connection stayed open", desc)
				}
			} else if firstErr >= 0 {
				r.Violation("spurious-queue-error", fmt.Sprintf("holding %d (<=1024) play packets failed at %d", total, firstErr), desc)
			}
			if total <= 1024 {
				mc := clock.Add(1)
				_ = conn.WritePacket(&packet.KeepAlive{RandomID: kaID(0xFFFF, 0)})
				pc := clock.Add(1)
				conn.SetState(state.Play)
				pr := clock.Add(1)
				phases = append(phases, phase{CfgRet: cfgRet, MarkCall: mc, MarkSeq: 0, PlayCall: pc, PlayRet: pr})
			}
			_ = conn.Close()
			<-recvDone
			if total <= 1024 {
				checkStream(r, desc, startID, recvBuf.Bytes(), recs, phases, fin, st)
			}
			r.Distinct(fmt.Sprintf("overflow total=%d", total))
			continue
		}

		var wg sync.WaitGroup
		start := make(chan struct{})
		for w := 1; w <= nw; w++ {
			wg.Add(1)
			wrng := r.Rng(fmt.Sprintf("w%d.%d", ci, w))
			go func(w int) {
				defer wg.Done()
				<-start
				ps, cs := 0, 0
				for k := 0; k < perWriter; k++ {
					for y := wrng.Intn(5); y > 0; y-- {
						runtime.Gosched()
					}
					play := wrng.Intn(3) != 0
					var p proto.Packet
					rec := wrec{Writer: w, Play: play}
					switch {
					case play:
						rec.Seq = ps
						ps++
						p = &chat.SystemChat{Type: chat.SystemMessageType, Component: &chat.ComponentHolder{Protocol: pv, Component: &component.Text{Content: fmt.Sprintf("V%d:%d;", w, rec.Seq)}}}
					case wrng.Intn(3) == 0:
						// valid in the configuration phase in both directions
						rec.Seq = cs
						cs++
						p = &packet.KeepAlive{RandomID: kaID(w, rec.Seq)}
					default:
						// valid in the configuration phase for the clientbound direction only
						// (and in play, so it can be written at any moment)
						rec.Seq = cs
						cs++
						ty := cvs.AnyPhase[wrng.Intn(len(cvs.AnyPhase))]
						rec.Type = ty.Name
						p = ty.build(pv, w, rec.Seq)
					}
					rec.Call = clock.Add(1)
					var err error
					if wrng.Intn(2) == 0 {
						err = conn.WritePacket(p)
					} else {
						err = conn.BufferPacket(p)
					}
					rec.Ret = clock.Add(1)
					if err != nil {
						rec.Err = err.Error()
					}
					mu.Lock()
					recs = append(recs, rec)
					mu.Unlock()
				}
			}(w)
		}
		ctlDone := make(chan struct{})
		crng := r.Rng(fmt.Sprintf("ctl%d", ci))
		go func() {
			defer close(ctlDone)
			<-start
			yield := func(max int) {
				for y := crng.Intn(max); y > 0; y-- {
					runtime.Gosched()
				}
			}
			enter := func() {
				if realSwitch {
					pl.SwitchToConfigState()
					atomic.AddInt64(&realSwitches, 1)
				} else {
					conn.SetState(state.Config)
				}
			}
			// second entry into the configuration phase without leaving it
			reentry := func() string {
				var kinds []string
				if realSwitch {
					// the client acknowledged StartUpdate: what
					// clientPlaySessionHandler.handleFinishedUpdate does on the client connection
					kinds = []string{"ack:SwitchSessionHandler(Config)", "ack:SwitchSessionHandler(Config)", "ack:SetState(Config)"}
				} else {
					// the login path: SetState(Config) came first, something enables the queue again
					kinds = []string{"login:EnablePlayPacketQueue", "login:SetOutboundState(Config)", "login:SetState(Config)", "login:SwitchSessionHandler(Config)"}
				}
				k := kinds[crng.Intn(len(kinds))]
				switch k {
				case "ack:SwitchSessionHandler(Config)", "login:SwitchSessionHandler(Config)":
					if !conn.SwitchSessionHandler(state.Config) {
						panic("c14: no configuration handler registered")
					}
				case "ack:SetState(Config)", "login:SetState(Config)":
					conn.SetState(state.Config)
				case "login:EnablePlayPacketQueue":
					conn.EnablePlayPacketQueue()
				case "login:SetOutboundState(Config)":
					conn.SetOutboundState(state.Config)
				}
				return k
			}
			c0 := 0
			// a typed packet valid in the configuration phase only (clientbound), written by the
			// controller, which knows that the outbound state is Config
			writeCfgOnly := func() {
				ty := cvs.ConfigOnly[crng.Intn(len(cvs.ConfigOnly))]
				rec := wrec{Writer: 0, Seq: c0, Type: ty.Name}
				c0++
				p := ty.build(pv, 0, rec.Seq)
				rec.Call = clock.Add(1)
				var err error
				if crng.Intn(2) == 0 {
					err = conn.WritePacket(p)
				} else {
					err = conn.BufferPacket(p)
				}
				rec.Ret = clock.Add(1)
				if err != nil {
					rec.Err = err.Error()
				}
				mu.Lock()
				recs = append(recs, rec)
				mu.Unlock()
			}
			for tg := 0; tg < toggles; tg++ {
				yield(40)
				enter()
				ph := phase{CfgRet: clock.Add(1), MarkSeq: tg, Real: realSwitch}
				// inside the phase, in PRNG order: the second entry, and 0-2 config-only typed packets
				acts := make([]int, 0, 3)
				if reenter && crng.Intn(5) != 0 {
					acts = append(acts, 0)
				}
				for k := crng.Intn(3); k > 0; k-- {
					acts = append(acts, 1)
				}
				crng.Shuffle(len(acts), func(i, j int) { acts[i], acts[j] = acts[j], acts[i] })
				for _, a := range acts {
					yield(30)
					if a == 0 {
						ph.ReCall = clock.Add(1)
						ph.Reentry = reentry()
						ph.ReRet = clock.Add(1)
						continue
					}
					writeCfgOnly()
				}
				yield(30)
				ph.MarkCall = clock.Add(1)
				_ = conn.WritePacket(&packet.KeepAlive{RandomID: kaID(0xFFFF, tg)})
				ph.PlayCall = clock.Add(1)
				if realSwitch {
					conn.SetOutboundState(state.Play)
				} else {
					conn.SetState(state.Play)
				}
				ph.PlayRet = clock.Add(1)
				mu.Lock()
				phases = append(phases, ph)
				mu.Unlock()
				if realSwitch {
					// the client acknowledges the end of the configuration phase: what
					// clientConfigSessionHandler does on the client's FinishedUpdate
					yield(10)
					conn.SetActiveSessionHandler(state.Play, nopHandler{})
				}
			}
			if kick {
				yield(40)
				f := finalKick{Present: true, CfgCall: clock.Add(1)}
				enter()
				f.CfgRet = clock.Add(1)
				if reenter && crng.Intn(2) == 0 {
					yield(20)
					f.Reentry = reentry()
				}
				for k := crng.Intn(3); k > 0; k-- {
					yield(20)
					writeCfgOnly()
				}
				yield(40)
				f.KickCall = clock.Add(1)
				_ = netmc.CloseWith(conn, &packet.Disconnect{Reason: textHolder(pv, cvMarker(kickWriter, 0))})
				f.KickRet = clock.Add(1)
				mu.Lock()
				fin = f
				mu.Unlock()
			}
		}()
		close(start)
		ok, _ := lib.Returns(30*time.Second, func() { wg.Wait(); <-ctlDone })
		r.Eval(1)
		if !ok {
			r.Inconclusive(fmt.Sprintf("case %d did not quiesce within the watchdog", ci))
			continue
		}
		_ = conn.Flush()
		_ = conn.Close()
		<-recvDone
		sig := checkStream(r, desc, startID, recvBuf.Bytes(), recs, phases, fin, st)
		sigs[sig] = struct{}{}
		r.Distinct(fmt.Sprintf("w=%d t=%d real=%v kick=%v %s", nw, toggles, realSwitch, kick, sig))
		if r.WantSample() {
			r.Sample(map[string]any{"case": desc, "observed": sig, "writes": len(recs)})
		}
	}
	r.Set("play_packets_held_and_released", st.held)
	r.Set("packets_written_directly", st.direct)
	r.Set("packets_racing_a_state_change", st.racing)
	r.Set("finish_markers_seen", st.markers)
	r.Set("overflow_cases", overflowCases)
	r.Set("cases_entering_config_through_real_switchToConfigState", realSwitchCases)
	r.Set("real_switchToConfigState_calls", realSwitches)
	r.Set("StartUpdate_frames_seen_by_client", startsSeen)
	r.Set("writes_that_failed_although_the_peer_accepts_everything", writeErrs)
	r.Set("distinct_observation_signatures", len(sigs))
	r.Set("clientbound_only_config_types_per_protocol", typesPerProto)
	var nf []string
	for k := range noField {
		nf = append(nf, k)
	}
	sort.Strings(nf)
	r.Set("clientbound_only_config_types_without_a_marker_field_not_written", nf)
	r.Set("clientbound_only_config_packets_delivered_per_type", st.typedDelivered)
	r.Set("clientbound_only_config_packets_written_inside_a_config_phase_and_seen_before_its_finish_marker_per_type", st.typedInConfig)
	r.Set("phases_entering_config_a_second_time_per_kind", st.reentries)
	r.Set("play_packets_held_before_a_second_entry_and_released_after_the_phase", st.heldAcrossReentry)
	r.Set("kicks_during_configuration", st.kicks)
	r.Set("kick_disconnect_frames_seen_by_client", st.kickFramesSeen)
	r.Set("config_valid_packets_written_in_the_final_phase_seen_before_the_kick", st.cvBeforeKick)
}

// checkStream is the offline checker over one run.
func checkStream(r *lib.Run, desc map[string]any, startID int, stream []byte, recs []wrec, phases []phase, fin finalKick, st *stats) string {
	items, ok := parseStream(stream, startID)
	if !ok {
		r.Violation("client-stream-corrupt", "the client-side byte stream is not a sequence of whole frames", desc)
		return "corrupt"
	}
	pos := map[[3]int][]int{} // (class, w, seq) -> positions
	markPos := map[int]int{}
	wit := func(extra map[string]any) map[string]any {
		errs := map[string]int{}
		for _, rc := range recs {
			if rc.Err != "" {
				errs[rc.Err]++
			}
		}
		m := map[string]any{"case": desc, "phases": fmt.Sprintf("%+v", phases), "write_errors": errs, "frames_received": len(items)}
		if fin.Present {
			m["final_kick"] = fmt.Sprintf("%+v", fin)
		}
		for k, v := range extra {
			m[k] = v
		}
		return m
	}
	kindOf := func(rc wrec) string {
		switch {
		case rc.Play:
			return "play-only"
		case rc.Type != "":
			return "config-valid-clientbound-only"
		}
		return "config-valid"
	}
	// S (client's view): the client is in the configuration phase from the StartUpdate frame it
	// reads until the finish marker; a play-only packet positioned in between reaches a client
	// that cannot decode it, whatever the stamps of its write were
	inCfg := -1
	for i, it := range items {
		switch {
		case it.start:
			inCfg = i
			atomic.AddInt64(&startsSeen, 1)
		case it.marker:
			inCfg = -1
		case it.play && inCfg >= 0:
			r.Violation("play-packet-on-the-wire-between-StartUpdate-and-finish", fmt.Sprintf("play-only packet w%d#%d sits at stream position %d, after the StartUpdate at position %d and before the end of that configuration phase", it.w, it.seq, i, inCfg), wit(nil))
		}
	}
	// E: the peer accepts every byte, nothing closes the connection (before the final kick, if
	// any) and no queue overflows in these cases, so a write that reports an error was refused
	// by Gate itself (a play-only packet handed to the configuration-state encoder instead of
	// being held) and is lost
	firstErr := wrec{Ret: -1}
	for _, rc := range recs {
		if fin.Present && rc.Ret > fin.KickCall {
			continue // may have met the closed connection
		}
		if rc.Err != "" && (firstErr.Ret < 0 || rc.Ret < firstErr.Ret) {
			firstErr = rc
		}
	}
	if firstErr.Ret >= 0 && desc["overflow"] != true {
		atomic.AddInt64(&writeErrs, 1)
		kind := kindOf(firstErr)
		r.Violation("write-refused-without-fault:"+kind, fmt.Sprintf("write of %s packet w%d#%d %s failed with %q although the peer accepts everything and nothing closed the connection", kind, firstErr.Writer, firstErr.Seq, firstErr.Type, firstErr.Err), wit(map[string]any{"write": firstErr}))
	}
	kickPos := -1
	for i, it := range items {
		if it.start {
			continue
		}
		if it.marker {
			markPos[it.seq] = i
			st.markers++
			continue
		}
		if it.kick {
			kickPos = i
			st.kickFramesSeen++
			continue
		}
		c := 0
		if it.play {
			c = 1
		}
		k := [3]int{c, it.w, it.seq}
		pos[k] = append(pos[k], i)
	}
	cls := func(rc wrec) int {
		if rc.Play {
			return 1
		}
		return 0
	}
	// L: loss / duplication
	for _, rc := range recs {
		ps := pos[[3]int{cls(rc), rc.Writer, rc.Seq}]
		if rc.Err == "" && len(ps) == 0 {
			// a kick during configuration ends the connection: play-only packets that may have
			// been held in that last phase, and anything not written before the kick began,
			// have no claim to delivery
			if fin.Present && ((rc.Play && rc.Ret > fin.CfgCall) || rc.Ret > fin.KickCall) {
				continue
			}
			kind := kindOf(rc)
			r.Violation("packet-lost:"+kind, fmt.Sprintf("write of %s packet w%d#%d %s returned nil but the client never received it", kind, rc.Writer, rc.Seq, rc.Type), wit(map[string]any{"write": rc}))
		}
		if len(ps) > 1 {
			r.Violation("packet-duplicated", fmt.Sprintf("packet w%d#%d delivered %d times", rc.Writer, rc.Seq, len(ps)), wit(map[string]any{"write": rc}))
		}
		if rc.Type != "" && rc.Err == "" && len(ps) == 1 {
			st.typedDelivered[rc.Type]++
		}
	}
	// O: per-writer order of play-only packets
	last := map[int][2]int{}
	for i, it := range items {
		if !it.play {
			continue
		}
		if l, ok := last[it.w]; ok && it.seq < l[0] {
			r.Violation("play-packets-reordered", fmt.Sprintf("writer %d: packet #%d (pos %d) delivered after #%d (pos %d)", it.w, it.seq, i, l[0], l[1]), wit(nil))
		}
		last[it.w] = [2]int{it.seq, i}
	}
	// K: a kick during configuration. The Disconnect is valid in the configuration phase, so it
	// is written immediately: it is on the wire when CloseWith has closed the connection, after
	// every config-valid packet whose write returned before the kick began; no play-only packet
	// written in that last phase reaches the client
	if fin.Present {
		st.kicks++
		if kickPos < 0 {
			r.Violation("kick-during-config-disconnect-not-on-the-wire", "netmc.CloseWith(Disconnect) during the configuration phase closed the connection without the Disconnect reaching the client", wit(nil))
		}
		for _, rc := range recs {
			if rc.Err != "" || rc.Call < fin.CfgRet {
				continue
			}
			ps := pos[[3]int{cls(rc), rc.Writer, rc.Seq}]
			if rc.Play {
				if len(ps) > 0 {
					r.Violation("play-packet-delivered-during-config", fmt.Sprintf("play-only packet w%d#%d written in the final configuration phase (ended by a kick) was delivered", rc.Writer, rc.Seq), wit(map[string]any{"write": rc}))
				}
				continue
			}
			if rc.Ret < fin.KickCall && len(ps) == 1 && kickPos >= 0 {
				st.cvBeforeKick++
				if ps[0] > kickPos {
					r.Violation("config-packet-delayed", fmt.Sprintf("%s packet w%d#%d %s written during the final configuration phase appears after the kick's Disconnect", kindOf(rc), rc.Writer, rc.Seq, rc.Type), wit(map[string]any{"write": rc}))
				}
			}
		}
	}
	sort.Slice(phases, func(i, j int) bool { return phases[i].CfgRet < phases[j].CfgRet })
	var nHeld, nDirect, nRacing int
	for _, ph := range phases {
		if ph.Reentry != "" {
			st.reentries[ph.Reentry]++
		}
	}
	if fin.Reentry != "" {
		st.reentries["before-kick:"+fin.Reentry]++
	}
	for _, rc := range recs {
		if rc.Err != "" {
			continue
		}
		ps := pos[[3]int{cls(rc), rc.Writer, rc.Seq}]
		if len(ps) != 1 {
			continue
		}
		p := ps[0]
		classified := false
		for _, ph := range phases {
			mp, haveMark := markPos[ph.MarkSeq]
			if !haveMark {
				continue
			}
			if rc.Call > ph.CfgRet && rc.Ret < ph.MarkCall {
				classified = true
				if rc.Play {
					nHeld++
					if ph.Reentry != "" && rc.Ret < ph.ReCall && p > mp {
						st.heldAcrossReentry++
					}
					// H
					if p < mp {
						r.Violation("play-packet-delivered-during-config", fmt.Sprintf("play-only packet w%d#%d written while in configuration was delivered before the configuration ended", rc.Writer, rc.Seq), wit(map[string]any{"write": rc}))
					}
					// B: every play packet begun after SetState(Play) returned must come later
					for _, r2 := range recs {
						if r2.Play && r2.Err == "" && r2.Call > ph.PlayRet {
							if q := pos[[3]int{1, r2.Writer, r2.Seq}]; len(q) == 1 && q[0] < p {
								r.Violation("later-packet-overtook-held", fmt.Sprintf("play packet w%d#%d written after the return to play was delivered before held packet w%d#%d", r2.Writer, r2.Seq, rc.Writer, rc.Seq), wit(map[string]any{"held": rc, "later": r2}))
							}
						}
					}
				} else {
					nDirect++
					// I
					if p > mp {
						r.Violation("config-packet-delayed", fmt.Sprintf("%s packet w%d#%d %s written during configuration was delayed past its end", kindOf(rc), rc.Writer, rc.Seq, rc.Type), wit(map[string]any{"write": rc}))
					} else if rc.Type != "" {
						st.typedInConfig[rc.Type]++
					}
				}
			}
		}
		if !classified {
			inPlay := true
			for _, ph := range phases {
				if rc.Ret > ph.CfgRet-1 && rc.Call < ph.PlayRet+1 {
					inPlay = false
				}
			}
			if fin.Present && rc.Ret > fin.CfgCall {
				inPlay = false
			}
			if inPlay {
				nDirect++
			} else {
				nRacing++
			}
		}
	}
	st.held += int64(nHeld)
	st.direct += int64(nDirect)
	st.racing += int64(nRacing)
	b := func(n int) string {
		switch {
		case n == 0:
			return "0"
		case n < 4:
			return "few"
		case n < 20:
			return "some"
		}
		return "many"
	}
	re := 0
	for _, ph := range phases {
		if ph.Reentry != "" {
			re++
		}
	}
	return fmt.Sprintf("held=%s direct=%s racing=%s phases=%d reentered=%d", b(nHeld), b(nDirect), b(nRacing), len(phases), re)
}
