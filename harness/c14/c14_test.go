// C14: packets sent during configuration are delivered after it, in order, without loss.
//
// Each case runs a real client-side netmc.MinecraftConn (protocol >= 764) over a buffered
// in-memory connection. 1-8 writer goroutines write play-only packets (SystemChat carrying
// "V<writer>:<seq>;") and config-valid packets (KeepAlive carrying magic|writer|seq) while
// a controller toggles the connection config <-> play. Before each SetState(Play) the
// controller writes a config-valid "finish" marker, exactly where the proxy writes
// FinishedUpdate. The fake client parses the raw frames it received and an offline checker
// decides the run:
//
//	L  no-loss/no-dup: every write that returned nil appears exactly once in the stream
//	O  per writer, play-only packets appear in write order
//	H  held: a play-only packet whose write began after SetState(Config) returned and
//	   returned before the finish marker was written appears after that marker
//	B  before-later: a play packet whose write began after SetState(Play) returned appears
//	   after every packet held in the preceding configuration phase
//	I  immediate: a config-valid packet whose write returned before the finish marker was
//	   written appears before the marker
//	Q  bounded: with more than 1024 packets held, the overflowing write reports an error
//	   and the connection is closed (never a silent drop)
//
// Call/return stamps come from one atomic counter at the client boundary. The race
// detector decides too: a report with both stacks inside bufferPacket /
// ensurePlayPacketQueue / PlayPacketQueue.* is a schedule witness (driver, checks.d).
package c14

import (
	"bytes"
	"context"
	"encoding/binary"
	"fmt"
	"io"
	"regexp"
	"runtime"
	"sort"
	"strconv"
	"sync"
	"sync/atomic"
	"testing"
	"time"

	"go.minekube.com/common/minecraft/component"
	"go.minekube.com/gate/pkg/edition/java/netmc"
	"go.minekube.com/gate/pkg/edition/java/proto/packet"
	"go.minekube.com/gate/pkg/edition/java/profile"
	"go.minekube.com/gate/pkg/edition/java/config"
	cfgpacket "go.minekube.com/gate/pkg/edition/java/proto/packet/config"
	"go.minekube.com/gate/pkg/edition/java/proxy"
	"go.minekube.com/gate/pkg/util/netutil"
	"go.minekube.com/gate/pkg/util/uuid"
	"go.minekube.com/gate/pkg/edition/java/proto/packet/chat"
	"go.minekube.com/gate/pkg/edition/java/proto/state"
	"go.minekube.com/gate/pkg/edition/java/proxy/verifh/lib"
	"go.minekube.com/gate/pkg/gate/proto"
)

const kaMagic = uint64(0x5EED) << 48

var startsSeen, writeErrs int64

type nopHandler struct{}

func (nopHandler) HandlePacket(*proto.PacketContext) {}
func (nopHandler) Disconnected()                      {}
func (nopHandler) Activated()                         {}
func (nopHandler) Deactivated()                       {}

type wrec struct {
	Writer int   `json:"w"`
	Seq    int   `json:"seq"`
	Play   bool  `json:"play_only"`
	Call   int64 `json:"call"`
	Ret    int64 `json:"ret"`
	Err    string `json:"err,omitempty"`
}

type phase struct {
	Real       bool  // entered through the real connectedPlayer.switchToConfigState
	CfgRet     int64 // SetState(Config) returned
	MarkCall   int64 // finish marker write called
	MarkSeq    int
	PlayCall   int64 // SetState(Play) called
	PlayRet    int64 // SetState(Play) returned
}

var playRe = regexp.MustCompile(`V(\d+):(\d+);`)

type item struct {
	play   bool
	marker bool
	start  bool // StartUpdate: the client enters the configuration phase when it reads this
	w, seq int
}

func parseStream(b []byte, startID int) (items []item, ok bool) {
	for len(b) > 0 {
		l, n := binary.Uvarint(b)
		if n <= 0 || int(l) > len(b)-n {
			return items, false
		}
		body := b[n : n+int(l)]
		b = b[n+int(l):]
		if len(body) == 1 && startID >= 0 && int(body[0]) == startID {
			items = append(items, item{start: true})
			continue
		}
		if m := playRe.FindSubmatch(body); m != nil {
			w, _ := strconv.Atoi(string(m[1]))
			s, _ := strconv.Atoi(string(m[2]))
			items = append(items, item{play: true, w: w, seq: s})
			continue
		}
		if len(body) >= 9 {
			v := binary.BigEndian.Uint64(body[len(body)-8:])
			if v&(uint64(0xFFFF)<<48) == kaMagic {
				w := int(v >> 32 & 0xFFFF)
				s := int(v & 0xFFFFFFFF)
				items = append(items, item{w: w, seq: s, marker: w == 0xFFFF})
			}
		}
	}
	return items, true
}

func kaID(w, seq int) int64 { return int64(kaMagic | uint64(w)<<32 | uint64(uint32(seq))) }

func TestC14(t *testing.T) {
	r := lib.Start(t, "C14")
	defer r.Finish()
	r.Rule("one case = one real MinecraftConn (protocol 764..775, client side) with 1-8 writer goroutines mixing play-only (SystemChat) and config-valid (KeepAlive) packets through WritePacket/BufferPacket while a controller toggles config<->play 1-5 times with PRNG-chosen yields and a stalling client pipe; plus overflow cases holding 1000..1100 packets; distinct = distinct (writers, toggles, per-phase counts of held / direct / racing packets observed)")
	r.Assume("the fake client identifies packets by markers embedded in their payload, independent of Gate's decoder")
	rng := r.Rng("cases")
	n := r.N(1500, 60000)
	protos := []proto.Protocol{764, 765, 766, 767, 768, 769, 770, 771, 772, 773, 774, 775}
	var heldTotal, directTotal, racingTotal, overflowCases, markersSeen int64
	var realSwitchCases, realSwitches int64
	pcfg := config.DefaultConfig
	px, perr := proxy.New(proxy.Options{Config: &pcfg})
	if perr != nil {
		t.Fatalf("proxy.New: %v", perr)
	}
	sigs := map[string]struct{}{}

	for ci := 0; ci < n; ci++ {
		pv := protos[rng.Intn(len(protos))]
		nw := 1 + rng.Intn(8)
		toggles := 1 + rng.Intn(5)
		perWriter := 4 + rng.Intn(20)
		overflow := ci%50 == 49
		stall := rng.Intn(3) == 0
		// realSwitch: the configuration phase is entered through the real
		// connectedPlayer.switchToConfigState (what a backend's StartUpdate or a server switch
		// triggers) and left through SetOutboundState(Play) (what the client config handler does),
		// instead of the plain SetState(Config)/SetState(Play) of the login path
		realSwitch := !overflow && rng.Intn(2) == 0
		desc := map[string]any{"protocol": int(pv), "writers": nw, "toggles": toggles, "per_writer": perWriter, "overflow": overflow, "stall": stall, "real_switch": realSwitch}
		r.LogCase(desc)

		proxyEnd, client := lib.Pipe()
		if stall {
			srng := r.Rng(fmt.Sprintf("stall%d", ci))
			var smu sync.Mutex
			proxyEnd.BeforeWrite(func(int) {
				smu.Lock()
				k := srng.Intn(4)
				smu.Unlock()
				for ; k > 0; k-- {
					runtime.Gosched()
				}
			})
		}
		conn, _ := netmc.NewMinecraftConn(context.Background(), proxyEnd, proto.ServerBound, 30*time.Second, 30*time.Second, -1, nil)
		conn.SetProtocol(pv)
		conn.SetActiveSessionHandler(state.Play, nopHandler{})
		startID := -1
		var pl *proxy.VerifC11Player
		if realSwitch {
			realSwitchCases++
			if id, ok := state.Play.ClientBound.ProtocolRegistry(pv).PacketID(&cfgpacket.StartUpdate{}); ok {
				startID = int(id)
			}
			name := fmt.Sprintf("c14_%d", ci)
			pl = proxy.VerifC11NewPlayer(px, conn, &profile.GameProfile{ID: uuid.OfflinePlayerUUID(name), Name: name},
				netutil.NewAddr("play.example.com:25565", "tcp"), false, false)
		}
		var recvBuf bytes.Buffer
		recvDone := make(chan struct{})
		go func() { _, _ = io.Copy(&recvBuf, client); close(recvDone) }()

		var clock atomic.Int64
		var mu sync.Mutex
		var recs []wrec
		var phases []phase

		if overflow {
			overflowCases++
			// single writer fills the queue past the bound while in config
			conn.SetState(state.Config)
			cfgRet := clock.Add(1)
			total := 1000 + rng.Intn(101) // 1000..1100
			firstErr := -1
			for s := 0; s < total; s++ {
				c := clock.Add(1)
				err := conn.BufferPacket(&chat.SystemChat{Type: chat.SystemMessageType, Component: &chat.ComponentHolder{Protocol: pv, Component: &component.Text{Content: fmt.Sprintf("V1:%d;", s)}}})
				rt := clock.Add(1)
				rec := wrec{Writer: 1, Seq: s, Play: true, Call: c, Ret: rt}
				if err != nil {
					rec.Err = err.Error()
					if firstErr < 0 {
						firstErr = s
					}
				}
				recs = append(recs, rec)
			}
			r.Eval(1)
			if total > 1024 {
				if firstErr != 1024 {
					r.Violation("overflow-not-reported-at-1025", fmt.Sprintf("holding %d play packets: first write error at index %d, want an error exactly for the 1025th packet", total, firstErr), desc)
				} else if !netmc.Closed(conn) {
					r.Violation("overflow-does-not-close", "the holding queue overflowed but the connection stayed open", desc)
				}
			} else if firstErr >= 0 {
				r.Violation("spurious-queue-error", fmt.Sprintf("holding %d (<=1024) play packets failed at %d", total, firstErr), desc)
			}
			if total <= 1024 {
				mc := clock.Add(1)
				_ = conn.WritePacket(&packet.KeepAlive{RandomID: kaID(0xFFFF, 0)})
				pc := clock.Add(1)
				conn.SetState(state.Play)
				pr := clock.Add(1)
				phases = append(phases, phase{CfgRet: cfgRet, MarkCall: mc, MarkSeq: 0, PlayCall: pc, PlayRet: pr})
			}
			_ = conn.Close()
			<-recvDone
			if total <= 1024 {
				checkStream(r, desc, startID, recvBuf.Bytes(), recs, phases, &heldTotal, &directTotal, &racingTotal, &markersSeen)
			}
			r.Distinct(fmt.Sprintf("overflow total=%d", total))
			continue
		}

		var wg sync.WaitGroup
		start := make(chan struct{})
		for w := 1; w <= nw; w++ {
			wg.Add(1)
			wrng := r.Rng(fmt.Sprintf("w%d.%d", ci, w))
			go func(w int) {
				defer wg.Done()
				<-start
				ps, cs := 0, 0
				for k := 0; k < perWriter; k++ {
					for y := wrng.Intn(5); y > 0; y-- {
						runtime.Gosched()
					}
					play := wrng.Intn(4) != 0
					var p proto.Packet
					rec := wrec{Writer: w, Play: play}
					if play {
						rec.Seq = ps
						ps++
						p = &chat.SystemChat{Type: chat.SystemMessageType, Component: &chat.ComponentHolder{Protocol: pv, Component: &component.Text{Content: fmt.Sprintf("V%d:%d;", w, rec.Seq)}}}
					} else {
						rec.Seq = cs
						cs++
						p = &packet.KeepAlive{RandomID: kaID(w, rec.Seq)}
					}
					rec.Call = clock.Add(1)
					var err error
					if wrng.Intn(2) == 0 {
						err = conn.WritePacket(p)
					} else {
						err = conn.BufferPacket(p)
					}
					rec.Ret = clock.Add(1)
					if err != nil {
						rec.Err = err.Error()
					}
					mu.Lock()
					recs = append(recs, rec)
					mu.Unlock()
				}
			}(w)
		}
		ctlDone := make(chan struct{})
		crng := r.Rng(fmt.Sprintf("ctl%d", ci))
		go func() {
			defer close(ctlDone)
			<-start
			for tg := 0; tg < toggles; tg++ {
				for y := crng.Intn(40); y > 0; y-- {
					runtime.Gosched()
				}
				if realSwitch {
					pl.SwitchToConfigState()
					atomic.AddInt64(&realSwitches, 1)
				} else {
					conn.SetState(state.Config)
				}
				ph := phase{CfgRet: clock.Add(1), MarkSeq: tg, Real: realSwitch}
				for y := crng.Intn(60); y > 0; y-- {
					runtime.Gosched()
				}
				ph.MarkCall = clock.Add(1)
				_ = conn.WritePacket(&packet.KeepAlive{RandomID: kaID(0xFFFF, tg)})
				ph.PlayCall = clock.Add(1)
				if realSwitch {
					conn.SetOutboundState(state.Play)
				} else {
					conn.SetState(state.Play)
				}
				ph.PlayRet = clock.Add(1)
				mu.Lock()
				phases = append(phases, ph)
				mu.Unlock()
			}
		}()
		close(start)
		ok, _ := lib.Returns(30*time.Second, func() { wg.Wait(); <-ctlDone })
		r.Eval(1)
		if !ok {
			r.Inconclusive(fmt.Sprintf("case %d did not quiesce within the watchdog", ci))
			continue
		}
		_ = conn.Flush()
		_ = conn.Close()
		<-recvDone
		sig := checkStream(r, desc, startID, recvBuf.Bytes(), recs, phases, &heldTotal, &directTotal, &racingTotal, &markersSeen)
		sigs[sig] = struct{}{}
		r.Distinct(fmt.Sprintf("w=%d t=%d %s", nw, toggles, sig))
		if r.WantSample() {
			r.Sample(map[string]any{"case": desc, "observed": sig, "writes": len(recs)})
		}
	}
	r.Set("play_packets_held_and_released", heldTotal)
	r.Set("packets_written_directly", directTotal)
	r.Set("packets_racing_a_state_change", racingTotal)
	r.Set("finish_markers_seen", markersSeen)
	r.Set("overflow_cases", overflowCases)
	r.Set("cases_entering_config_through_real_switchToConfigState", realSwitchCases)
	r.Set("real_switchToConfigState_calls", realSwitches)
	r.Set("StartUpdate_frames_seen_by_client", startsSeen)
	r.Set("writes_that_failed_although_the_peer_accepts_everything", writeErrs)
	r.Set("distinct_observation_signatures", len(sigs))
}

// checkStream is the offline checker over one run.
func checkStream(r *lib.Run, desc map[string]any, startID int, stream []byte, recs []wrec, phases []phase, held, direct, racing, markers *int64) string {
	items, ok := parseStream(stream, startID)
	if !ok {
		r.Violation("client-stream-corrupt", "the client-side byte stream is not a sequence of whole frames", desc)
		return "corrupt"
	}
	pos := map[[3]int][]int{} // (class, w, seq) -> positions
	markPos := map[int]int{}
	wit := func(extra map[string]any) map[string]any {
		errs := map[string]int{}
		for _, rc := range recs {
			if rc.Err != "" {
				errs[rc.Err]++
			}
		}
		m := map[string]any{"case": desc, "phases": fmt.Sprintf("%+v", phases), "write_errors": errs, "frames_received": len(items)}
		for k, v := range extra {
			m[k] = v
		}
		return m
	}
	// S (client's view): the client is in the configuration phase from the StartUpdate frame it
	// reads until the finish marker; a play-only packet positioned in between reaches a client
	// that cannot decode it, whatever the stamps of its write were
	inCfg := -1
	for i, it := range items {
		switch {
		case it.start:
			inCfg = i
			atomic.AddInt64(&startsSeen, 1)
		case it.marker:
			inCfg = -1
		case it.play && inCfg >= 0:
			r.Violation("play-packet-on-the-wire-between-StartUpdate-and-finish", fmt.Sprintf("play-only packet w%d#%d sits at stream position %d, after the StartUpdate at position %d and before the end of that configuration phase", it.w, it.seq, i, inCfg), wit(nil))
		}
	}
	// E: the peer accepts every byte, nothing closes the connection and no queue overflows in
	// these cases, so a write that reports an error was refused by Gate itself (a play-only
	// packet handed to the configuration-state encoder instead of being held) and is lost
	firstErr := wrec{Ret: -1}
	for _, rc := range recs {
		if rc.Err != "" && (firstErr.Ret < 0 || rc.Ret < firstErr.Ret) {
			firstErr = rc
		}
	}
	if firstErr.Ret >= 0 && desc["overflow"] != true {
		atomic.AddInt64(&writeErrs, 1)
		kind := "config-valid"
		if firstErr.Play {
			kind = "play-only"
		}
		r.Violation("write-refused-without-fault:"+kind, fmt.Sprintf("write of %s packet w%d#%d failed with %q although the peer accepts everything and nothing closed the connection", kind, firstErr.Writer, firstErr.Seq, firstErr.Err), wit(map[string]any{"write": firstErr}))
	}
	for i, it := range items {
		if it.start {
			continue
		}
		if it.marker {
			markPos[it.seq] = i
			*markers++
			continue
		}
		c := 0
		if it.play {
			c = 1
		}
		k := [3]int{c, it.w, it.seq}
		pos[k] = append(pos[k], i)
	}
	// L: loss / duplication
	for _, rc := range recs {
		c := 0
		if rc.Play {
			c = 1
		}
		ps := pos[[3]int{c, rc.Writer, rc.Seq}]
		if rc.Err == "" && len(ps) == 0 {
			kind := "config-valid"
			if rc.Play {
				kind = "play-only"
			}
			r.Violation("packet-lost:"+kind, fmt.Sprintf("write of %s packet w%d#%d returned nil but the client never received it", kind, rc.Writer, rc.Seq), wit(map[string]any{"write": rc}))
		}
		if len(ps) > 1 {
			r.Violation("packet-duplicated", fmt.Sprintf("packet w%d#%d delivered %d times", rc.Writer, rc.Seq, len(ps)), wit(map[string]any{"write": rc}))
		}
	}
	// O: per-writer order of play-only packets
	last := map[int][2]int{}
	for i, it := range items {
		if !it.play {
			continue
		}
		if l, ok := last[it.w]; ok && it.seq < l[0] {
			r.Violation("play-packets-reordered", fmt.Sprintf("writer %d: packet #%d (pos %d) delivered after #%d (pos %d)", it.w, it.seq, i, l[0], l[1]), wit(nil))
		}
		last[it.w] = [2]int{it.seq, i}
	}
	sort.Slice(phases, func(i, j int) bool { return phases[i].CfgRet < phases[j].CfgRet })
	var nHeld, nDirect, nRacing int
	for _, rc := range recs {
		if rc.Err != "" {
			continue
		}
		c := 0
		if rc.Play {
			c = 1
		}
		ps := pos[[3]int{c, rc.Writer, rc.Seq}]
		if len(ps) != 1 {
			continue
		}
		p := ps[0]
		classified := false
		for _, ph := range phases {
			mp, haveMark := markPos[ph.MarkSeq]
			if !haveMark {
				continue
			}
			if rc.Call > ph.CfgRet && rc.Ret < ph.MarkCall {
				classified = true
				if rc.Play {
					nHeld++
					// H
					if p < mp {
						r.Violation("play-packet-delivered-during-config", fmt.Sprintf("play-only packet w%d#%d written while in configuration was delivered before the configuration ended", rc.Writer, rc.Seq), wit(map[string]any{"write": rc}))
					}
					// B: every play packet begun after SetState(Play) returned must come later
					for _, r2 := range recs {
						if r2.Play && r2.Err == "" && r2.Call > ph.PlayRet {
							if q := pos[[3]int{1, r2.Writer, r2.Seq}]; len(q) == 1 && q[0] < p {
								r.Violation("later-packet-overtook-held", fmt.Sprintf("play packet w%d#%d written after the return to play was delivered before held packet w%d#%d", r2.Writer, r2.Seq, rc.Writer, rc.Seq), wit(map[string]any{"held": rc, "later": r2}))
							}
						}
					}
				} else {
					nDirect++
					// I
					if p > mp {
						r.Violation("config-packet-delayed", fmt.Sprintf("config-valid packet w%d#%d written during configuration was delayed past its end", rc.Writer, rc.Seq), wit(map[string]any{"write": rc}))
					}
				}
			}
		}
		if !classified {
			inPlay := true
			for _, ph := range phases {
				if rc.Ret > ph.CfgRet-1 && rc.Call < ph.PlayRet+1 {
					inPlay = false
				}
			}
			if inPlay {
				nDirect++
			} else {
				nRacing++
			}
		}
	}
	*held += int64(nHeld)
	*direct += int64(nDirect)
	*racing += int64(nRacing)
	b := func(n int) string {
		switch {
		case n == 0:
			return "0"
		case n < 4:
			return "few"
		case n < 20:
			return "some"
		}
		return "many"
	}
	return fmt.Sprintf("held=%s direct=%s racing=%s phases=%d", b(nHeld), b(nDirect), b(nRacing), len(phases))
}
