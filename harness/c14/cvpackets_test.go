// Typed packets that are valid in the configuration phase for the CLIENTBOUND direction only.
//
// The workload generator (not the oracle) enumerates them from Gate's registry per protocol:
// every type registered in state.Config.ClientBound and not in state.Config.ServerBound. A
// type that is also registered in state.Play.ClientBound can be written by the free-running
// writers at any moment ("any-phase" types); a type registered for the configuration phase
// only is written by the controller, which knows that the outbound state is Config
// ("config-only" types). Each built packet carries the marker "cv<writer>-<seq>-" (or, for
// RemoveResourcePack, the KeepAlive magic in the low half of the UUID) in a free-form field;
// the fake client finds the marker in the raw frame, independent of Gate's decoder.
package c14

import (
	"encoding/binary"
	"fmt"
	"reflect"
	"sort"

	"github.com/Tnze/go-mc/nbt"
	"go.minekube.com/common/minecraft/component"
	"go.minekube.com/common/minecraft/key"
	"go.minekube.com/gate/pkg/edition/java/proto/packet"
	"go.minekube.com/gate/pkg/edition/java/proto/packet/chat"
	cfgpacket "go.minekube.com/gate/pkg/edition/java/proto/packet/config"
	"go.minekube.com/gate/pkg/edition/java/proto/packet/cookie"
	"go.minekube.com/gate/pkg/edition/java/proto/state"
	"go.minekube.com/gate/pkg/edition/java/proto/state/states"
	"go.minekube.com/gate/pkg/gate/proto"
	"go.minekube.com/gate/pkg/util/uuid"
)

func cvMarker(w, seq int) string { return fmt.Sprintf("cv%d-%d-", w, seq) }

func textHolder(pv proto.Protocol, s string) *chat.ComponentHolder {
	return &chat.ComponentHolder{Protocol: pv, Component: &component.Text{Content: s}}
}

func markedUUID(w, seq int) uuid.UUID {
	var u uuid.UUID
	binary.BigEndian.PutUint64(u[0:8], 0xC14C14C14C14C14C)
	binary.BigEndian.PutUint64(u[8:16], uint64(kaID(w, seq)))
	return u
}

type cvBuilder func(pv proto.Protocol, w, seq int) proto.Packet

// builders for the types that have a free-form field; keyed by the packet's struct type
var cvBuilders = map[reflect.Type]cvBuilder{
	proto.TypeOf(&packet.Disconnect{}): func(pv proto.Protocol, w, seq int) proto.Packet {
		return &packet.Disconnect{Reason: textHolder(pv, cvMarker(w, seq))}
	},
	proto.TypeOf(&packet.ResourcePackRequest{}): func(pv proto.Protocol, w, seq int) proto.Packet {
		return &packet.ResourcePackRequest{ID: markedUUID(w, seq), URL: "https://packs.example.com/" + cvMarker(w, seq) + ".zip", Hash: "", Required: seq%2 == 0}
	},
	proto.TypeOf(&packet.RemoveResourcePack{}): func(pv proto.Protocol, w, seq int) proto.Packet {
		return &packet.RemoveResourcePack{ID: markedUUID(w, seq)}
	},
	proto.TypeOf(&packet.Transfer{}): func(pv proto.Protocol, w, seq int) proto.Packet {
		return &packet.Transfer{Host: cvMarker(w, seq) + ".example.com", Port: 25565}
	},
	proto.TypeOf(&cookie.CookieRequest{}): func(pv proto.Protocol, w, seq int) proto.Packet {
		return &cookie.CookieRequest{Key: key.New("verif", cvMarker(w, seq))}
	},
	proto.TypeOf(&cookie.CookieStore{}): func(pv proto.Protocol, w, seq int) proto.Packet {
		return &cookie.CookieStore{Key: key.New("verif", "cookie"), Payload: []byte(cvMarker(w, seq))}
	},
	proto.TypeOf(&packet.CustomReportDetails{}): func(pv proto.Protocol, w, seq int) proto.Packet {
		return &packet.CustomReportDetails{Details: map[string]string{"verif": cvMarker(w, seq)}}
	},
	proto.TypeOf(&packet.ServerLinks{}): func(pv proto.Protocol, w, seq int) proto.Packet {
		return &packet.ServerLinks{ServerLinks: []*packet.ServerLink{{ID: -1, DisplayName: *textHolder(pv, cvMarker(w, seq)), URL: "https://example.com/"}}}
	},
	proto.TypeOf(&cfgpacket.ActiveFeatures{}): func(pv proto.Protocol, w, seq int) proto.Packet {
		return &cfgpacket.ActiveFeatures{ActiveFeatures: []key.Key{key.New("minecraft", "vanilla"), key.New("verif", cvMarker(w, seq))}}
	},
	proto.TypeOf(&cfgpacket.RegistrySync{}): func(pv proto.Protocol, w, seq int) proto.Packet {
		return &cfgpacket.RegistrySync{Data: []byte(cvMarker(w, seq))}
	},
	proto.TypeOf(&cfgpacket.TagsUpdate{}): func(pv proto.Protocol, w, seq int) proto.Packet {
		return &cfgpacket.TagsUpdate{Tags: map[string]map[string][]int{"verif:" + cvMarker(w, seq): {"minecraft:x": {1, 2}}}}
	},
	proto.TypeOf(&cfgpacket.CodeOfConductPacket{}): func(pv proto.Protocol, w, seq int) proto.Packet {
		m := cvMarker(w, seq)
		return &cfgpacket.CodeOfConductPacket{Data: append([]byte{byte(len(m))}, m...)}
	},
	proto.TypeOf(&packet.DialogShow{}): func(pv proto.Protocol, w, seq int) proto.Packet {
		m := cvMarker(w, seq)
		data := binary.BigEndian.AppendUint16(nil, uint16(len(m)))
		return &packet.DialogShow{State: states.ConfigState, BinaryTag: nbt.RawMessage{Type: nbt.TagString, Data: append(data, m...)}}
	},
}

type cvType struct {
	Name  string
	build cvBuilder
}

type cvSet struct {
	AnyPhase   []cvType // clientbound-only in Config, also valid in Play: writable at any moment
	ConfigOnly []cvType // clientbound-only in Config, not valid in Play: written by the controller
	NoField    []string // enumerated but without a free-form field to carry a marker
}

// cvTypesFor enumerates, from Gate's registry, the packet types valid in the configuration
// phase for the clientbound direction only, for one protocol.
func cvTypesFor(pv proto.Protocol) (set cvSet, enumerated int) {
	cb := state.Config.ClientBound.ProtocolRegistry(pv)
	sb := state.Config.ServerBound.ProtocolRegistry(pv)
	play := state.Play.ClientBound.ProtocolRegistry(pv)
	if cb == nil {
		return set, 0
	}
	for ty := range cb.PacketTypes {
		if sb != nil {
			if _, both := sb.PacketTypes[ty]; both {
				continue
			}
		}
		enumerated++
		name := ty.String()
		b, ok := cvBuilders[ty]
		if !ok {
			set.NoField = append(set.NoField, name)
			continue
		}
		inPlay := false
		if play != nil {
			_, inPlay = play.PacketTypes[ty]
		}
		if inPlay {
			set.AnyPhase = append(set.AnyPhase, cvType{name, b})
		} else {
			set.ConfigOnly = append(set.ConfigOnly, cvType{name, b})
		}
	}
	sort.Slice(set.AnyPhase, func(i, j int) bool { return set.AnyPhase[i].Name < set.AnyPhase[j].Name })
	sort.Slice(set.ConfigOnly, func(i, j int) bool { return set.ConfigOnly[i].Name < set.ConfigOnly[j].Name })
	sort.Strings(set.NoField)
	return set, enumerated
}
