// Package mcrec is a recording netmc.MinecraftConn for unit-level monitors: it has no
// socket, accepts every packet and reports each WritePacket / BufferPacket / Flush / Close to
// callbacks at the boundary (after an optional stall), so that a monitor can keep its own
// event log. It contains no Gate logic.
package mcrec

import (
	"context"
	"net"
	"sync"

	"go.minekube.com/gate/pkg/edition/java/netmc"
	"go.minekube.com/gate/pkg/edition/java/proto/state"
	"go.minekube.com/gate/pkg/edition/java/proxy/phase"
	"go.minekube.com/gate/pkg/gate/proto"
)

// Conn implements netmc.MinecraftConn.
type Conn struct {
	Proto proto.Protocol
	// Stall, if set, is called at the start of WritePacket/BufferPacket/Flush (may yield or sleep).
	Stall func()
	// OnPacket is called for every packet; buffered tells BufferPacket from WritePacket.
	OnPacket func(p proto.Packet, buffered bool)
	// OnFlush is called for Flush and after every WritePacket (which flushes the buffer).
	OnFlush func()
	// OnClose is called on the first Close.
	OnClose func()

	mu      sync.Mutex
	ctx     context.Context
	cancel  context.CancelFunc
	typ     phase.ConnectionType
	st      *state.Registry
	handler netmc.SessionHandler
	closes  int
}

// New returns a connection that reports protocol p and the Play state.
func New(p proto.Protocol) *Conn {
	ctx, cancel := context.WithCancel(context.Background())
	return &Conn{Proto: p, ctx: ctx, cancel: cancel, st: state.Play, typ: phase.Vanilla}
}

var _ netmc.MinecraftConn = (*Conn)(nil)

func (c *Conn) Context() context.Context { return c.ctx }

func (c *Conn) Close() error {
	c.mu.Lock()
	c.closes++
	first := c.closes == 1
	f := c.OnClose
	c.mu.Unlock()
	if first {
		c.cancel()
		if f != nil {
			f()
		}
	}
	return nil
}

// Closes returns how often Close was called.
func (c *Conn) Closes() int { c.mu.Lock(); defer c.mu.Unlock(); return c.closes }

func (c *Conn) State() *state.Registry { c.mu.Lock(); defer c.mu.Unlock(); return c.st }
func (c *Conn) Protocol() proto.Protocol { return c.Proto }
func (c *Conn) RemoteAddr() net.Addr {
	return &net.TCPAddr{IP: net.IPv4(127, 0, 0, 1), Port: 40000}
}
func (c *Conn) LocalAddr() net.Addr {
	return &net.TCPAddr{IP: net.IPv4(127, 0, 0, 1), Port: 25565}
}
func (c *Conn) Type() phase.ConnectionType { c.mu.Lock(); defer c.mu.Unlock(); return c.typ }
func (c *Conn) SetType(t phase.ConnectionType) {
	c.mu.Lock()
	c.typ = t
	c.mu.Unlock()
}
func (c *Conn) ActiveSessionHandler() netmc.SessionHandler {
	c.mu.Lock()
	defer c.mu.Unlock()
	return c.handler
}
func (c *Conn) SetActiveSessionHandler(r *state.Registry, h netmc.SessionHandler) {
	c.mu.Lock()
	c.st, c.handler = r, h
	c.mu.Unlock()
}
func (c *Conn) SwitchSessionHandler(*state.Registry) bool               { return true }
func (c *Conn) AddSessionHandler(*state.Registry, netmc.SessionHandler) {}
func (c *Conn) SetAutoReading(bool)                                     {}
func (c *Conn) SetOutboundState(*state.Registry)                        {}
func (c *Conn) SetProtocol(proto.Protocol)                              {}
func (c *Conn) SetState(r *state.Registry)                              { c.mu.Lock(); c.st = r; c.mu.Unlock() }
func (c *Conn) SetCompressionThreshold(int) error                       { return nil }
func (c *Conn) EnableEncryption([]byte) error                           { return nil }

func (c *Conn) WritePacket(p proto.Packet) error {
	if c.Stall != nil {
		c.Stall()
	}
	if c.OnPacket != nil {
		c.OnPacket(p, false)
	}
	if c.OnFlush != nil {
		c.OnFlush()
	}
	return nil
}

func (c *Conn) BufferPacket(p proto.Packet) error {
	if c.Stall != nil {
		c.Stall()
	}
	if c.OnPacket != nil {
		c.OnPacket(p, true)
	}
	return nil
}

func (c *Conn) Flush() error {
	if c.Stall != nil {
		c.Stall()
	}
	if c.OnFlush != nil {
		c.OnFlush()
	}
	return nil
}

func (c *Conn) Write([]byte) error         { return nil }
func (c *Conn) BufferPayload([]byte) error { return nil }
func (c *Conn) Reader() netmc.Reader       { return nil }
func (c *Conn) Writer() netmc.Writer       { return nopWriter{} }
func (c *Conn) EnablePlayPacketQueue()     {}

type nopWriter struct{}

func (nopWriter) WritePacket(proto.Packet) (int, error) { return 0, nil }
func (nopWriter) Write([]byte) (int, error)             { return 0, nil }
func (nopWriter) Flush() error                          { return nil }
func (nopWriter) SetProtocol(proto.Protocol)            {}
func (nopWriter) SetState(*state.Registry)              {}
func (nopWriter) SetCompressionThreshold(int) error     { return nil }
func (nopWriter) EnableEncryption([]byte) error         { return nil }
func (nopWriter) Direction() proto.Direction            { return proto.ClientBound }
