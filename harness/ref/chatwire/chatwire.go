// Package chatwire decodes the body (without packet id) of the server-bound chat/command
// packets of the vanilla protocol, written from the wire layouts and sharing no code with
// Gate: 1.19.3+ chat_message / chat_command(_signed) / chat_command (1.20.5+ unsigned) /
// chat_ack, the 1.19-1.19.2 keyed chat_command (only its leading command string) and the
// legacy chat string. Monitors snapshot what Gate's encoder produced for a backend-bound
// packet and read it back through this package.
package chatwire

import (
	"encoding/binary"
	"errors"
	"fmt"
)

// Decoded is the part of a packet the chat monitors care about.
type Decoded struct {
	Kind        string // chat | scmd | ucmd | ack | legacy | keyed
	Text        string // message or command line
	Offset      int    // last-seen offset / ack offset
	HasLastSeen bool   // the packet carries a last-seen update
	ArgSigs     int    // number of argument signatures (scmd)
	Signed      bool   // chat: signature present
	Ack         [3]byte
}

type rd struct {
	b []byte
	p int
}

var errShort = errors.New("chatwire: short packet")

func (r *rd) varint() (int, error) {
	var v uint32
	for i := 0; i < 5; i++ {
		if r.p >= len(r.b) {
			return 0, errShort
		}
		c := r.b[r.p]
		r.p++
		v |= uint32(c&0x7f) << (7 * uint(i))
		if c&0x80 == 0 {
			return int(int32(v)), nil
		}
	}
	return 0, errors.New("chatwire: varint too long")
}

func (r *rd) take(n int) ([]byte, error) {
	if n < 0 || r.p+n > len(r.b) {
		return nil, errShort
	}
	s := r.b[r.p : r.p+n]
	r.p += n
	return s, nil
}

func (r *rd) str() (string, error) {
	n, err := r.varint()
	if err != nil {
		return "", err
	}
	s, err := r.take(n)
	return string(s), err
}

func (r *rd) i64() (int64, error) {
	s, err := r.take(8)
	if err != nil {
		return 0, err
	}
	return int64(binary.BigEndian.Uint64(s)), nil
}

func (r *rd) lastSeen(proto int, d *Decoded) error {
	off, err := r.varint()
	if err != nil {
		return err
	}
	a, err := r.take(3) // fixed bit set of 20 bits
	if err != nil {
		return err
	}
	copy(d.Ack[:], a)
	if proto >= 770 { // 1.21.5: checksum byte
		if _, err = r.take(1); err != nil {
			return err
		}
	}
	d.Offset, d.HasLastSeen = off, true
	return nil
}

func (r *rd) end(kind string) error {
	if r.p != len(r.b) {
		return fmt.Errorf("chatwire: %d trailing bytes after %s", len(r.b)-r.p, kind)
	}
	return nil
}

// SessionChat decodes a 1.19.3+ chat_message body.
func SessionChat(b []byte, proto int) (d Decoded, err error) {
	r := &rd{b: b}
	d.Kind = "chat"
	if d.Text, err = r.str(); err != nil {
		return
	}
	if _, err = r.i64(); err != nil { // timestamp
		return
	}
	if _, err = r.i64(); err != nil { // salt
		return
	}
	f, err := r.take(1)
	if err != nil {
		return
	}
	if f[0] != 0 {
		d.Signed = true
		if _, err = r.take(256); err != nil {
			return
		}
	}
	if err = r.lastSeen(proto, &d); err != nil {
		return
	}
	return d, r.end("chat_message")
}

// SessionCommand decodes a 1.19.3+ chat_command (signed flavour from 1.20.5) body.
func SessionCommand(b []byte, proto int) (d Decoded, err error) {
	r := &rd{b: b}
	d.Kind = "scmd"
	if d.Text, err = r.str(); err != nil {
		return
	}
	if _, err = r.i64(); err != nil {
		return
	}
	if _, err = r.i64(); err != nil {
		return
	}
	n, err := r.varint()
	if err != nil {
		return
	}
	if n < 0 || n > 8 {
		return d, fmt.Errorf("chatwire: %d argument signatures", n)
	}
	d.ArgSigs = n
	for i := 0; i < n; i++ {
		if _, err = r.str(); err != nil {
			return
		}
		if _, err = r.take(256); err != nil {
			return
		}
	}
	if err = r.lastSeen(proto, &d); err != nil {
		return
	}
	return d, r.end("chat_command")
}

// UnsignedCommand decodes the 1.20.5+ chat_command body (command string only).
func UnsignedCommand(b []byte) (d Decoded, err error) {
	r := &rd{b: b}
	d.Kind = "ucmd"
	if d.Text, err = r.str(); err != nil {
		return
	}
	return d, r.end("chat_command(unsigned)")
}

// Ack decodes a chat_ack body.
func Ack(b []byte) (d Decoded, err error) {
	r := &rd{b: b}
	d.Kind = "ack"
	if d.Offset, err = r.varint(); err != nil {
		return
	}
	return d, r.end("chat_ack")
}

// LegacyChat decodes the server-bound chat string of <= 1.18.2.
func LegacyChat(b []byte) (d Decoded, err error) {
	r := &rd{b: b}
	d.Kind = "legacy"
	if d.Text, err = r.str(); err != nil {
		return
	}
	return d, r.end("chat")
}

// KeyedCommand decodes the leading command string of the 1.19-1.19.2 chat_command body.
func KeyedCommand(b []byte) (d Decoded, err error) {
	r := &rd{b: b}
	d.Kind = "keyed"
	d.Text, err = r.str()
	return
}
