// Package rfc7396 is an independent reference implementation of JSON Merge Patch
// (RFC 7396, section 2) on decoded JSON trees (`any` built from map[string]any, []any,
// string, bool, nil and any number representation). It shares no code with Gate.
//
//	define MergePatch(Target, Patch):
//	  if Patch is an Object:
//	    if Target is not an Object:
//	      Target = {} # Ignore the contents and set it to an empty Object
//	    for each Name/Value pair in Patch:
//	      if Value is null:
//	        if Name exists in Target:
//	          remove the Name/Value pair from Target
//	      else:
//	        Target[Name] = MergePatch(Target[Name], Value)
//	    return Target
//	  else:
//	    return Patch
//
// The implementation is purely functional: neither argument is modified and the result
// shares no mutable structure with them.
package rfc7396

import (
	"encoding/json"
	"fmt"
	"sort"
	"strings"
)

// MergePatch returns the document RFC 7396 defines for applying patch to target.
func MergePatch(target, patch any) any {
	po, isObj := patch.(map[string]any)
	if !isObj {
		return Clone(patch)
	}
	out := map[string]any{}
	if to, ok := target.(map[string]any); ok {
		for k, v := range to {
			out[k] = Clone(v)
		}
	}
	for name, value := range po {
		if value == nil {
			delete(out, name)
			continue
		}
		var sub any // absent member: MergePatch(undefined, Value)
		if cur, ok := out[name]; ok {
			sub = cur
		}
		out[name] = MergePatch(sub, value)
	}
	return out
}

// Clone deep-copies a JSON tree.
func Clone(v any) any {
	switch x := v.(type) {
	case map[string]any:
		m := make(map[string]any, len(x))
		for k, e := range x {
			m[k] = Clone(e)
		}
		return m
	case []any:
		a := make([]any, len(x))
		for i, e := range x {
			a[i] = Clone(e)
		}
		return a
	default:
		return v
	}
}

// Equal compares two JSON trees structurally. Scalars are compared with ==, so callers
// must use one number representation on both sides.
func Equal(a, b any) bool { return FirstDiff(a, b) == nil }

// Diff describes the first structural difference between two trees.
type Diff struct {
	Path []string // object member names and "[i]" array positions
	Kind string   // "kind", "value", "len", "only-left", "only-right"
	L, R any
}

func (d *Diff) String() string {
	return fmt.Sprintf("%s at /%s: left=%s right=%s", d.Kind, strings.Join(d.Path, "/"), Show(d.L), Show(d.R))
}

// KindOf names the JSON kind of a decoded value.
func KindOf(v any) string {
	switch v.(type) {
	case nil:
		return "null"
	case map[string]any:
		return "object"
	case []any:
		return "array"
	case string:
		return "string"
	case bool:
		return "bool"
	default:
		return "number"
	}
}

// FirstDiff returns the first difference in a deterministic (sorted-key) walk, or nil.
func FirstDiff(a, b any) *Diff { return firstDiff(a, b, nil) }

func firstDiff(a, b any, path []string) *Diff {
	ka, kb := KindOf(a), KindOf(b)
	if ka != kb {
		return &Diff{Path: append([]string(nil), path...), Kind: "kind", L: a, R: b}
	}
	switch x := a.(type) {
	case map[string]any:
		y := b.(map[string]any)
		keys := map[string]struct{}{}
		for k := range x {
			keys[k] = struct{}{}
		}
		for k := range y {
			keys[k] = struct{}{}
		}
		sorted := make([]string, 0, len(keys))
		for k := range keys {
			sorted = append(sorted, k)
		}
		sort.Strings(sorted)
		for _, k := range sorted {
			xv, xo := x[k]
			yv, yo := y[k]
			p := append(append([]string(nil), path...), k)
			switch {
			case xo && !yo:
				return &Diff{Path: p, Kind: "only-left", L: xv}
			case !xo && yo:
				return &Diff{Path: p, Kind: "only-right", R: yv}
			}
			if d := firstDiff(xv, yv, p); d != nil {
				return d
			}
		}
		return nil
	case []any:
		y := b.([]any)
		if len(x) != len(y) {
			return &Diff{Path: append([]string(nil), path...), Kind: "len", L: a, R: b}
		}
		for i := range x {
			if d := firstDiff(x[i], y[i], append(append([]string(nil), path...), fmt.Sprintf("[%d]", i))); d != nil {
				return d
			}
		}
		return nil
	default:
		if a != b {
			return &Diff{Path: append([]string(nil), path...), Kind: "value", L: a, R: b}
		}
		return nil
	}
}

// Show renders a tree as compact JSON for witnesses.
func Show(v any) string {
	b, err := json.Marshal(v)
	if err != nil {
		return fmt.Sprintf("%#v", v)
	}
	return string(b)
}

// Vector is one fixed test case.
type Vector struct{ Target, Patch, Want string }

// AppendixA lists the test vectors of RFC 7396 Appendix A, followed by the worked example
// of section 3.
var AppendixA = []Vector{
	{`{"a":"b"}`, `{"a":"c"}`, `{"a":"c"}`},
	{`{"a":"b"}`, `{"b":"c"}`, `{"a":"b","b":"c"}`},
	{`{"a":"b"}`, `{"a":null}`, `{}`},
	{`{"a":"b","b":"c"}`, `{"a":null}`, `{"b":"c"}`},
	{`{"a":["b"]}`, `{"a":"c"}`, `{"a":"c"}`},
	{`{"a":"c"}`, `{"a":["b"]}`, `{"a":["b"]}`},
	{`{"a":{"b":"c"}}`, `{"a":{"b":"d","c":null}}`, `{"a":{"b":"d"}}`},
	{`{"a":[{"b":"c"}]}`, `{"a":[1]}`, `{"a":[1]}`},
	{`["a","b"]`, `["c","d"]`, `["c","d"]`},
	{`{"a":"b"}`, `["c"]`, `["c"]`},
	{`{"a":"foo"}`, `null`, `null`},
	{`{"a":"foo"}`, `"bar"`, `"bar"`},
	{`{"e":null}`, `{"a":1}`, `{"e":null,"a":1}`},
	{`[1,2]`, `{"a":"b","c":null}`, `{"a":"b"}`},
	{`{}`, `{"a":{"bb":{"ccc":null}}}`, `{"a":{"bb":{}}}`},
	// section 3 example
	{`{"title":"Goodbye!","author":{"givenName":"John","familyName":"Doe"},"tags":["example","sample"],"content":"This will be unchanged"}`,
		`{"title":"Hello!","phoneNumber":"+01-123-456-7890","author":{"familyName":null},"tags":["example"]}`,
		`{"title":"Hello!","author":{"givenName":"John"},"tags":["example"],"content":"This will be unchanged","phoneNumber":"+01-123-456-7890"}`},
}

// Decode parses one JSON document into a tree (numbers as float64).
func Decode(s string) (any, error) {
	var v any
	err := json.Unmarshal([]byte(s), &v)
	return v, err
}
