// Package bungeeref is an independent reference model of the BungeeCord plugin-messaging
// channel ("BungeeCord" / "bungeecord:main") as a proxy has to answer it.
//
// It is a transcription FROM MEMORY of two sources and imports no Gate code:
//
//   - the BungeeCord plugin-messaging channel specification (SpigotMC wiki "Bukkit & BungeeCord
//     plugin messaging channel") and BungeeCord's DownstreamBridge.handle(PluginMessage),
//   - Velocity's port, com.velocitypowered.proxy.connection.backend.BungeeCordMessageResponder
//     (GetPlayerServer only exists with Velocity's semantics here).
//
// Wire layout is java.io.DataInput/DataOutput: writeUTF = unsigned 16-bit big-endian byte
// length followed by *modified* UTF-8, writeInt = 32-bit big-endian, writeShort = 16-bit
// big-endian. A Forward / ForwardToPlayer payload is  UTF(channel) short(len) bytes[len].
//
// Where the two sources are known to disagree, or where I cannot corroborate one single
// behaviour from the documented wire examples, Respond returns SEVERAL acceptable outcomes
// (Expect.Outcomes, any of them is fine) or marks the case NotCompared (only "does not crash"
// is checked by the monitor). Every such decision is listed in Adjudication.
package bungeeref

import (
	"encoding/hex"
	"encoding/json"
	"sort"
	"strings"
	"unicode/utf16"
	"unicode/utf8"
)

// Channel identifiers.
const (
	LegacyChannel = "BungeeCord"
	ModernChannel = "bungeecord:main"
	// first protocol that uses namespaced channel ids (Minecraft 1.13)
	protocol113 = 393
)

// Adjudication lists the sub-cases in which the reference deliberately does not insist on
// one behaviour. The monitor copies it into the evidence.
var Adjudication = []string{
	"Forward/ForwardToPlayer with trailing bytes after the declared payload: BungeeCord re-frames (channel, len, len bytes; trailing bytes dropped), Velocity copies the remainder verbatim -> either accepted",
	"Forward/ForwardToPlayer with a negative declared length, a declared length larger than the remaining bytes, or a missing channel/length: BungeeCord raises (nothing is forwarded), Velocity copies the remainder verbatim -> either accepted; never a crash",
	"Forward target spelled in another case than ALL / ONLINE: not compared (both sources use a case-sensitive equals, Gate folds case; nothing documented)",
	"Forward ALL vs ONLINE: BungeeCord queues ALL for empty servers, Velocity does not; indistinguishable at the responder boundary -> both mean every server but the requester's",
	"identifier used for forwards (LegacyChannelIdentifier BungeeCord vs bungeecord:main): either accepted, the packet encoder maps it per protocol",
	"order of names in PlayerList / GetServers: provider iteration order is unspecified -> compared as multisets",
	"IPv6 host strings in IP/IPOther/ServerIP: Java prints the uncompressed form -> only IPv4 hosts are generated for comparison",
	"MessageRaw / KickPlayerRaw with invalid JSON and Message/KickPlayer with formatting codes: only the plain text of well-formed input is compared",
	"request cut in the middle of a 2-byte big-endian field: the outcome hinges on util.ReadUint16 (judged by C03) -> not compared, never a crash",
	"requester without a backend connection: no response expected, side effects still compared",
	"GetPlayerServer for an unknown player: Velocity sends nothing, BungeeCord answers with an empty server name; the property text sides with Velocity (no response)",
	"string lengths: readUTF/writeUTF carry an UNSIGNED 16-bit byte length, so strings of 32768..65535 bytes are ordinary strings (compared like any other); a RESPONSE that would need a string of more than 65535 bytes cannot be written (Java raises UTFDataFormatException) -> not compared, never a crash",
	"characters outside what UTF-8 and Java's modified UTF-8 encode identically (U+0000 as C0 80, supplementary characters as two 3-byte surrogates): Gate's ReadUTF/WriteUTF copy the bytes without transcoding, so such a request string reaches players as invalid UTF-8 (replacement characters) where BungeeCord delivers the character; generated for survival only, not compared (reported to the coordinator as a deviation, see DESIGN)",
}

// Server is a registered backend server.
type Server struct {
	Name string
	Host string
	Port int
}

// Player is an online player. Server is the name of the server the player is currently
// connected to ("" = none); ConnProtocol is the protocol of that backend connection.
type Player struct {
	Name         string
	UUID         [16]byte
	Host         string
	Port         int
	Server       string
	ConnProtocol int
}

// State is the proxy state a request is answered in.
type State struct {
	Servers []Server
	Players []Player
}

// Message is a plugin message written on the backend connection of player Conn.
type Message struct {
	Conn    string
	Channel string
	Data    []byte
}

// Forward is a payload handed to a server (once).
type Forward struct {
	Server  string
	Payload []byte
}

// Connect is a connection request of Player to Server.
type Connect struct{ Player, Server string }

// Text is a chat message / kick reason. Target is the player name, or "ALL" for a
// proxy-wide broadcast. Plain is the text without formatting.
type Text struct{ Target, Plain string }

// Outcome is everything a request may cause.
type Outcome struct {
	Responses      []Message
	Forwards       []Forward
	Connects       []Connect
	Kicks          []Text
	PlayerMessages []Text
	Broadcasts     []Text
}

// Expect is the reference verdict for one request.
type Expect struct {
	// Handled is false when the message is not on a BungeeCord channel (then nothing happens).
	Handled bool
	// Outcomes has at least one element; observing any of them is correct. Outcomes[0] is the
	// behaviour both sources agree on where they agree.
	Outcomes []Outcome
	// NotCompared, when non-empty, says why only "no crash" is checked for this request.
	NotCompared string
	// Class labels the sub-case for coverage accounting (sub-channel + argument classes).
	Class string
	// Sub is the decoded sub-channel ("" if unreadable).
	Sub string
	// MaxUTF is the byte length of the longest writeUTF field read from the request.
	MaxUTF int
	// NonPortableUTF: a request string contains U+0000 or a supplementary character (or bytes
	// that are not modified UTF-8), which modified UTF-8 and UTF-8 encode differently.
	NonPortableUTF bool
}

// ---- DataOutput --------------------------------------------------------------------------

// AppendUTF appends DataOutput.writeUTF(s): modified UTF-8 (U+0000 as C0 80, supplementary
// characters as two 3-byte surrogates) with an unsigned 16-bit big-endian byte length.
func AppendUTF(b []byte, s string) []byte {
	enc := modifiedUTF8(s)
	b = append(b, byte(len(enc)>>8), byte(len(enc)))
	return append(b, enc...)
}

func modifiedUTF8(s string) []byte {
	out := make([]byte, 0, len(s))
	for _, r := range s {
		switch {
		case r == 0:
			out = append(out, 0xC0, 0x80)
		case r < 0x80:
			out = append(out, byte(r))
		case r < 0x800:
			out = append(out, 0xC0|byte(r>>6), 0x80|byte(r&0x3F))
		case r < 0x10000:
			out = append(out, 0xE0|byte(r>>12), 0x80|byte((r>>6)&0x3F), 0x80|byte(r&0x3F))
		default:
			hi, lo := utf16.EncodeRune(r)
			for _, u := range []rune{hi, lo} {
				out = append(out, 0xE0|byte(u>>12), 0x80|byte((u>>6)&0x3F), 0x80|byte(u&0x3F))
			}
		}
	}
	return out
}

// AppendInt appends DataOutput.writeInt.
func AppendInt(b []byte, v int32) []byte {
	return append(b, byte(uint32(v)>>24), byte(uint32(v)>>16), byte(uint32(v)>>8), byte(v))
}

// AppendShort appends DataOutput.writeShort (low 16 bits).
func AppendShort(b []byte, v int) []byte { return append(b, byte(v>>8), byte(v)) }

// ---- DataInput ---------------------------------------------------------------------------

type input struct {
	b         []byte
	off       int
	halfShort bool // a 2-byte field had exactly one byte left
	maxUTF    int  // longest string field read
	nonPort   bool // a string field that UTF-8 and modified UTF-8 encode differently
}

func (in *input) rest() []byte { return in.b[in.off:] }

func (in *input) short() (int, bool) {
	if len(in.b)-in.off < 2 {
		if len(in.b)-in.off == 1 {
			in.halfShort = true
		}
		return 0, false
	}
	v := int(in.b[in.off])<<8 | int(in.b[in.off+1])
	in.off += 2
	return v, true
}

func (in *input) utf() (string, bool) {
	n, ok := in.short()
	if !ok {
		return "", false
	}
	if len(in.b)-in.off < n {
		return "", false
	}
	raw := in.b[in.off : in.off+n]
	in.off += n
	if n > in.maxUTF {
		in.maxUTF = n
	}
	if !portableUTF(raw) {
		in.nonPort = true
	}
	return decodeModifiedUTF8(raw), true
}

// portableUTF reports whether the bytes are valid UTF-8 without U+0000 and without
// supplementary characters, i.e. a string that modified UTF-8 and UTF-8 encode identically.
func portableUTF(raw []byte) bool {
	for i := 0; i < len(raw); {
		c := raw[i]
		if c == 0 {
			return false
		}
		if c < 0x80 {
			i++
			continue
		}
		r, size := utf8.DecodeRune(raw[i:])
		if r == utf8.RuneError && size <= 1 || r >= 0x10000 {
			return false // includes C0 80 and the surrogate halves ED A0..BF xx
		}
		i += size
	}
	return true
}

func decodeModifiedUTF8(raw []byte) string {
	// ASCII fast path; the monitor's names are ASCII or BMP, for which modified UTF-8 and
	// UTF-8 coincide (apart from NUL).
	plain := true
	for _, c := range raw {
		if c >= 0x80 {
			plain = false
			break
		}
	}
	if plain {
		return string(raw)
	}
	var units []uint16
	for i := 0; i < len(raw); {
		c := raw[i]
		switch {
		case c < 0x80:
			units = append(units, uint16(c))
			i++
		case c&0xE0 == 0xC0 && i+1 < len(raw):
			units = append(units, uint16(c&0x1F)<<6|uint16(raw[i+1]&0x3F))
			i += 2
		case c&0xF0 == 0xE0 && i+2 < len(raw):
			units = append(units, uint16(c&0x0F)<<12|uint16(raw[i+1]&0x3F)<<6|uint16(raw[i+2]&0x3F))
			i += 3
		default:
			units = append(units, utf8.RuneError)
			i++
		}
	}
	return string(utf16.Decode(units))
}

// ---- lookups -----------------------------------------------------------------------------

// Both BungeeCord (CaseInsensitiveMap) and Velocity (lower-cased keys) look players and
// servers up case-insensitively and answer with the registered spelling.
func (st *State) server(name string) *Server {
	for i := range st.Servers {
		if strings.EqualFold(st.Servers[i].Name, name) {
			return &st.Servers[i]
		}
	}
	return nil
}

func (st *State) player(name string) *Player {
	for i := range st.Players {
		if strings.EqualFold(st.Players[i].Name, name) {
			return &st.Players[i]
		}
	}
	return nil
}

func (st *State) playersOn(server string) []string {
	var out []string
	for _, p := range st.Players {
		if p.Server != "" && p.Server == server {
			out = append(out, p.Name)
		}
	}
	return out
}

// ResponseChannel is the channel id used on a backend connection of the given protocol.
func ResponseChannel(connProtocol int) string {
	if connProtocol >= protocol113 {
		return ModernChannel
	}
	return LegacyChannel
}

// IsBungeeChannel reports whether a plugin message channel is the BungeeCord channel.
func IsBungeeChannel(ch string) bool { return ch == LegacyChannel || ch == ModernChannel }

// Undashed renders a UUID the way BungeeCord's getUUID() / Velocity's toUndashed do.
func Undashed(u [16]byte) string { return hex.EncodeToString(u[:]) }

// PlainLegacy strips section-sign formatting codes.
func PlainLegacy(s string) string {
	var b strings.Builder
	rs := []rune(s)
	for i := 0; i < len(rs); i++ {
		if rs[i] == '§' && i+1 < len(rs) {
			i++
			continue
		}
		b.WriteRune(rs[i])
	}
	return b.String()
}

// PlainJSON returns the concatenated "text" of a JSON chat component; ok=false if the
// input is not a JSON object/string/array the chat format allows.
func PlainJSON(s string) (string, bool) {
	var v any
	if err := json.Unmarshal([]byte(s), &v); err != nil {
		return "", false
	}
	var b strings.Builder
	var walk func(v any) bool
	walk = func(v any) bool {
		switch t := v.(type) {
		case string:
			b.WriteString(t)
		case map[string]any:
			tx, has := t["text"]
			if !has {
				return false
			}
			ts, isStr := tx.(string)
			if !isStr {
				return false
			}
			b.WriteString(ts)
			if ex, has := t["extra"]; has {
				arr, isArr := ex.([]any)
				if !isArr {
					return false
				}
				for _, e := range arr {
					if !walk(e) {
						return false
					}
				}
			}
		default:
			return false
		}
		return true
	}
	// only plain objects are generated for comparison; strings/arrays are legal chat JSON
	// but their handling differs between codec versions
	if _, isObj := v.(map[string]any); !isObj {
		return "", false
	}
	if !walk(v) {
		return "", false
	}
	return b.String(), true
}

// ---- the responder -----------------------------------------------------------------------

// Respond computes what a BungeeCord-compatible proxy does for one plugin message that the
// backend connection of player `requester` delivered.
func Respond(st State, requester string, channel string, data []byte) Expect {
	if !IsBungeeChannel(channel) {
		return Expect{Handled: false, Outcomes: []Outcome{{}}, Class: "other-channel"}
	}
	ex := respond(st, requester, data)
	return ex
}

func respond(st State, requester string, data []byte) (ex Expect) {
	ex = Expect{Handled: true}
	self := st.player(requester)
	in := &input{b: data}
	none := []Outcome{{}}
	overflow := false
	// responses are assembled with writeUTF: a string of more than 65535 bytes cannot be written
	AppendUTF := func(b []byte, s string) []byte {
		if len(s) > 21845 && len(modifiedUTF8(s)) > 0xFFFF { // 3 bytes per UTF-16 unit at most
			overflow = true
		}
		return AppendUTF(b, s)
	}
	defer func() {
		ex.MaxUTF, ex.NonPortableUTF = in.maxUTF, in.nonPort
		if overflow && ex.NotCompared == "" {
			ex.NotCompared = "a response string exceeds 65535 bytes"
		}
		if in.nonPort && ex.NotCompared == "" {
			ex.NotCompared = "request string with U+0000 / supplementary characters"
		}
	}()

	sub, ok := in.utf()
	if !ok {
		ex.Outcomes, ex.Class = none, "unreadable-subchannel"
		if in.halfShort {
			ex.NotCompared = "cut inside a 2-byte field"
		}
		return ex
	}
	ex.Sub = sub

	// respond builds the single-response outcome on the requester's connection.
	respond := func(payload []byte) []Outcome {
		if self == nil || self.Server == "" {
			return none
		}
		return []Outcome{{Responses: []Message{{Conn: self.Name, Channel: ResponseChannel(self.ConnProtocol), Data: payload}}}}
	}
	truncated := func(class string) Expect {
		ex.Outcomes, ex.Class = none, sub+"/"+class
		if in.halfShort {
			ex.NotCompared = "cut inside a 2-byte field"
		}
		return ex
	}
	playerClass := func(name string, p *Player) string {
		switch {
		case p == nil:
			return "player-unknown"
		case self != nil && p.Name == self.Name:
			return "player-self"
		case p.Name != name:
			return "player-othercase"
		default:
			return "player-known"
		}
	}
	serverClass := func(name string, s *Server) string {
		switch {
		case s == nil:
			return "server-unknown"
		case self != nil && s.Name == self.Server:
			return "server-current"
		case s.Name != name:
			return "server-othercase"
		default:
			return "server-known"
		}
	}

	switch sub {
	case "Connect":
		name, ok := in.utf()
		if !ok {
			return truncated("truncated")
		}
		s := st.server(name)
		ex.Class = sub + "/" + serverClass(name, s)
		ex.Outcomes = none
		if s != nil && self != nil {
			ex.Outcomes = []Outcome{{Connects: []Connect{{self.Name, s.Name}}}}
		}

	case "ConnectOther":
		pn, ok := in.utf()
		if !ok {
			return truncated("truncated")
		}
		p := st.player(pn)
		// Velocity reads both strings before looking anything up; BungeeCord likewise.
		sn, ok := in.utf()
		if !ok {
			return truncated("truncated")
		}
		s := st.server(sn)
		ex.Class = sub + "/" + playerClass(pn, p) + "/" + serverClass(sn, s)
		ex.Outcomes = none
		if p != nil && s != nil {
			ex.Outcomes = []Outcome{{Connects: []Connect{{p.Name, s.Name}}}}
		}

	case "IP":
		ex.Class = sub
		ex.Outcomes = none
		if self != nil {
			b := AppendUTF(nil, "IP")
			b = AppendUTF(b, self.Host)
			b = AppendInt(b, int32(self.Port))
			ex.Outcomes = respond(b)
		}

	case "IPOther":
		pn, ok := in.utf()
		if !ok {
			return truncated("truncated")
		}
		p := st.player(pn)
		ex.Class = sub + "/" + playerClass(pn, p)
		ex.Outcomes = none
		if p != nil {
			b := AppendUTF(nil, "IPOther")
			b = AppendUTF(b, p.Name)
			b = AppendUTF(b, p.Host)
			b = AppendInt(b, int32(p.Port))
			ex.Outcomes = respond(b)
		}

	case "PlayerCount":
		target, ok := in.utf()
		if !ok {
			return truncated("truncated")
		}
		ex.Outcomes = none
		if target == "ALL" {
			ex.Class = sub + "/ALL"
			b := AppendUTF(nil, "PlayerCount")
			b = AppendUTF(b, "ALL")
			b = AppendInt(b, int32(len(st.Players)))
			ex.Outcomes = respond(b)
		} else if strings.EqualFold(target, "ALL") {
			ex.Class = sub + "/all-othercase"
			ex.NotCompared = "ALL spelled in another case"
		} else {
			s := st.server(target)
			ex.Class = sub + "/" + serverClass(target, s)
			if s != nil {
				b := AppendUTF(nil, "PlayerCount")
				b = AppendUTF(b, s.Name)
				b = AppendInt(b, int32(len(st.playersOn(s.Name))))
				ex.Outcomes = respond(b)
			}
		}

	case "PlayerList":
		target, ok := in.utf()
		if !ok {
			return truncated("truncated")
		}
		ex.Outcomes = none
		if target == "ALL" {
			ex.Class = sub + "/ALL"
			names := make([]string, 0, len(st.Players))
			for _, p := range st.Players {
				names = append(names, p.Name)
			}
			b := AppendUTF(nil, "PlayerList")
			b = AppendUTF(b, "ALL")
			b = AppendUTF(b, strings.Join(names, ", "))
			ex.Outcomes = respond(b)
		} else if strings.EqualFold(target, "ALL") {
			ex.Class = sub + "/all-othercase"
			ex.NotCompared = "ALL spelled in another case"
		} else {
			s := st.server(target)
			ex.Class = sub + "/" + serverClass(target, s)
			if s != nil {
				b := AppendUTF(nil, "PlayerList")
				b = AppendUTF(b, s.Name)
				b = AppendUTF(b, strings.Join(st.playersOn(s.Name), ", "))
				ex.Outcomes = respond(b)
			}
		}

	case "GetServers":
		ex.Class = sub
		names := make([]string, 0, len(st.Servers))
		for _, s := range st.Servers {
			names = append(names, s.Name)
		}
		b := AppendUTF(nil, "GetServers")
		b = AppendUTF(b, strings.Join(names, ", "))
		ex.Outcomes = respond(b)

	case "Message", "MessageRaw":
		target, ok := in.utf()
		if !ok {
			return truncated("truncated")
		}
		msg, ok := in.utf()
		if !ok {
			return truncated("truncated")
		}
		var plain string
		if sub == "Message" {
			plain = PlainLegacy(msg)
		} else {
			var valid bool
			plain, valid = PlainJSON(msg)
			if !valid {
				ex.Class = sub + "/invalid-json"
				ex.Outcomes = none
				ex.NotCompared = "invalid JSON component"
				return ex
			}
		}
		ex.Outcomes = none
		if target == "ALL" {
			ex.Class = sub + "/ALL"
			ex.Outcomes = []Outcome{{Broadcasts: []Text{{"ALL", plain}}}}
		} else {
			// the argument is a PLAYER name ("Send a message to the specified player")
			p := st.player(target)
			ex.Class = sub + "/" + playerClass(target, p)
			if p == nil && st.server(target) != nil {
				ex.Class = sub + "/target-is-a-server-name"
			}
			if p != nil {
				ex.Outcomes = []Outcome{{PlayerMessages: []Text{{p.Name, plain}}}}
			}
		}

	case "GetServer":
		ex.Class = sub
		ex.Outcomes = none
		if self != nil && self.Server != "" {
			b := AppendUTF(nil, "GetServer")
			b = AppendUTF(b, self.Server)
			ex.Outcomes = respond(b)
		}

	case "GetPlayerServer":
		pn, ok := in.utf()
		if !ok {
			return truncated("truncated")
		}
		p := st.player(pn)
		ex.Class = sub + "/" + playerClass(pn, p)
		ex.Outcomes = none
		if p != nil && p.Server != "" {
			b := AppendUTF(nil, "GetPlayerServer")
			b = AppendUTF(b, p.Name)
			b = AppendUTF(b, p.Server)
			ex.Outcomes = respond(b)
		} else if p != nil {
			ex.Class += "/no-server"
		}

	case "UUID":
		ex.Class = sub
		ex.Outcomes = none
		if self != nil {
			b := AppendUTF(nil, "UUID")
			b = AppendUTF(b, Undashed(self.UUID))
			ex.Outcomes = respond(b)
		}

	case "UUIDOther":
		pn, ok := in.utf()
		if !ok {
			return truncated("truncated")
		}
		p := st.player(pn)
		ex.Class = sub + "/" + playerClass(pn, p)
		ex.Outcomes = none
		if p != nil {
			b := AppendUTF(nil, "UUIDOther")
			b = AppendUTF(b, p.Name)
			b = AppendUTF(b, Undashed(p.UUID))
			ex.Outcomes = respond(b)
		}

	case "ServerIP":
		sn, ok := in.utf()
		if !ok {
			return truncated("truncated")
		}
		s := st.server(sn)
		ex.Class = sub + "/" + serverClass(sn, s)
		ex.Outcomes = none
		if s != nil {
			b := AppendUTF(nil, "ServerIP")
			b = AppendUTF(b, s.Name)
			b = AppendUTF(b, s.Host)
			b = AppendShort(b, s.Port) // writeShort: low 16 bits, read back as unsigned
			ex.Outcomes = respond(b)
		}

	case "KickPlayer", "KickPlayerRaw":
		pn, ok := in.utf()
		if !ok {
			return truncated("truncated")
		}
		p := st.player(pn)
		if p == nil {
			// the reason is only read for a known player
			ex.Class = sub + "/player-unknown"
			ex.Outcomes = none
			return ex
		}
		reason, ok := in.utf()
		if !ok {
			return truncated("truncated")
		}
		ex.Class = sub + "/" + playerClass(pn, p)
		var plain string
		if sub == "KickPlayer" {
			plain = PlainLegacy(reason)
		} else {
			var valid bool
			plain, valid = PlainJSON(reason)
			if !valid {
				ex.Class = sub + "/invalid-json"
				ex.Outcomes = none
				ex.NotCompared = "invalid JSON component"
				return ex
			}
		}
		ex.Outcomes = []Outcome{{Kicks: []Text{{p.Name, plain}}}}

	case "Forward":
		target, ok := in.utf()
		if !ok {
			return truncated("truncated")
		}
		var targets []string
		switch {
		case target == "ALL" || target == "ONLINE":
			ex.Class = sub + "/" + target
			for _, s := range st.Servers {
				if self != nil && self.Server != "" && s.Name == self.Server {
					continue // never back to the server the request came from
				}
				targets = append(targets, s.Name)
			}
		case strings.EqualFold(target, "ALL") || strings.EqualFold(target, "ONLINE"):
			ex.Class = sub + "/all-othercase"
			ex.NotCompared = "ALL/ONLINE spelled in another case"
			ex.Outcomes = none
			return ex
		default:
			s := st.server(target)
			ex.Class = sub + "/" + serverClass(target, s)
			if s != nil {
				targets = []string{s.Name}
			}
		}
		payloads, pclass := forwardPayloads(in)
		ex.Class += "/" + pclass
		if in.halfShort {
			ex.NotCompared = "cut inside a 2-byte field"
		}
		for _, pl := range payloads {
			var o Outcome
			if pl != nil {
				for _, t := range targets {
					o.Forwards = append(o.Forwards, Forward{Server: t, Payload: pl.b})
				}
			}
			ex.Outcomes = append(ex.Outcomes, o)
		}

	case "ForwardToPlayer":
		pn, ok := in.utf()
		if !ok {
			return truncated("truncated")
		}
		p := st.player(pn)
		ex.Class = sub + "/" + playerClass(pn, p)
		if p == nil {
			ex.Outcomes = none
			return ex
		}
		if p.Server == "" {
			ex.Class += "/no-server"
		}
		payloads, pclass := forwardPayloads(in)
		ex.Class += "/" + pclass
		if in.halfShort {
			ex.NotCompared = "cut inside a 2-byte field"
		}
		for _, pl := range payloads {
			var o Outcome
			// delivered over the NAMED player's backend connection (target.getServer().sendData)
			if pl != nil && p.Server != "" && len(pl.b) > 0 {
				o.Responses = []Message{{Conn: p.Name, Channel: ResponseChannel(p.ConnProtocol), Data: pl.b}}
			}
			ex.Outcomes = append(ex.Outcomes, o)
		}
		// an empty remainder: Velocity would write an empty plugin message, BungeeCord raises
		if pclass == "payload-missing" && p.Server != "" {
			ex.Outcomes = append(ex.Outcomes, Outcome{Responses: []Message{{Conn: p.Name, Channel: ResponseChannel(p.ConnProtocol), Data: []byte{}}}})
		}

	default:
		ex.Class = "unknown-subchannel"
		ex.Outcomes = none
	}
	return ex
}

type payload struct{ b []byte }

// forwardPayloads returns the acceptable forwarded byte strings for the remainder of a
// Forward/ForwardToPlayer request; a nil element means "nothing is forwarded".
func forwardPayloads(in *input) (alts []*payload, class string) {
	rest := append([]byte(nil), in.rest()...)
	verbatim := &payload{rest}
	if len(rest) == 0 {
		return []*payload{nil, verbatim}, "payload-missing"
	}
	ch, ok := in.utf()
	if !ok {
		return []*payload{nil, verbatim}, "payload-channel-truncated"
	}
	n, ok := in.short()
	if !ok {
		return []*payload{nil, verbatim}, "payload-length-truncated"
	}
	if n >= 0x8000 { // readShort is signed
		return []*payload{nil, verbatim}, "payload-length-negative"
	}
	if len(in.rest()) < n {
		return []*payload{nil, verbatim}, "payload-shorter-than-declared"
	}
	body := in.rest()[:n]
	reframed := AppendUTF(nil, ch)
	reframed = AppendShort(reframed, n)
	reframed = append(reframed, body...)
	if len(in.rest()) > n {
		return []*payload{{reframed}, verbatim}, "payload-trailing-bytes"
	}
	class = "payload-ok"
	if n == 0 {
		class = "payload-empty"
	}
	// well-formed: re-framed == verbatim; both sources agree
	return []*payload{{reframed}}, class
}

// SplitNames splits a ", "-joined list (PlayerList / GetServers) into a sorted multiset.
func SplitNames(s string) []string {
	if s == "" {
		return nil
	}
	parts := strings.Split(s, ", ")
	sort.Strings(parts)
	return parts
}

// utfFields is the number of leading writeUTF fields of each response layout; what follows
// is binary (int / short / forwarded bytes).
var utfFields = map[string]int{
	"IP": 2, "IPOther": 3, "PlayerCount": 2, "PlayerList": 3, "GetServers": 2, "GetServer": 2,
	"GetPlayerServer": 3, "UUID": 2, "UUIDOther": 3, "ServerIP": 3,
}

// DecodeFields decodes the leading writeUTF fields of a response (as many as the layout of
// its sub-channel has, or as many as decode for an unknown first field) and returns them plus
// the undecoded binary tail; used by the monitor to say WHICH part of a response is off.
func DecodeFields(b []byte) (fields []string, tail []byte) {
	in := &input{b: b}
	max := -1
	for max < 0 || len(fields) < max {
		save := in.off
		s, ok := in.utf()
		if !ok {
			in.off = save
			break
		}
		if max < 0 {
			// a "string" that is not printable is more likely a binary tail
			printable := true
			for _, r := range s {
				if r < 0x20 {
					printable = false
				}
			}
			if !printable {
				in.off = save
				break
			}
		}
		fields = append(fields, s)
		if len(fields) == 1 {
			if n, known := utfFields[s]; known {
				max = n
			}
		}
	}
	return fields, in.rest()
}
