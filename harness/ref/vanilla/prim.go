// Package vanilla is an INDEPENDENT decoder of the vanilla Minecraft wire layouts of the
// packets that Gate constructs itself (property C07) and a reference vanilla tab-list
// client (property C28).
//
// It is written over github.com/Tnze/go-mc/net/packet primitives (VarInt, Long, UUID, ...)
// and hand-written code; it imports NOTHING from go.minekube.com/gate. The layouts are
// transcriptions from memory of the vanilla protocol (wiki.vg era); where go-mc v1.20.2
// carries its own definition (login packets and player-info update at protocol 764) the
// transcription agrees with it (see the "corroboration" notes next to each decoder).
package vanilla

import (
	"bytes"
	"errors"
	"fmt"
	"io"

	pk "github.com/Tnze/go-mc/net/packet"
)

// R is a cursor over one packet body (without the packet id). The first error sticks.
type R struct {
	r   *bytes.Reader
	err error
}

func NewR(b []byte) *R { return &R{r: bytes.NewReader(b)} }

func (r *R) Err() error { return r.err }

func (r *R) fail(err error) {
	if r.err == nil {
		r.err = err
	}
}

// Remaining returns the number of unread bytes.
func (r *R) Remaining() int { return r.r.Len() }

// Done returns the sticky error, or an error if bytes are left over: a vanilla peer
// rejects a packet that is larger than what its decoder consumed.
func (r *R) Done() error {
	if r.err != nil {
		return r.err
	}
	if n := r.r.Len(); n != 0 {
		return fmt.Errorf("%d trailing byte(s) after the last field", n)
	}
	return nil
}

func (r *R) read(f io.ReaderFrom, what string) {
	if r.err != nil {
		return
	}
	if _, err := f.ReadFrom(r.r); err != nil {
		r.fail(fmt.Errorf("%s: %w", what, err))
	}
}

func (r *R) VarInt() int32 {
	var v pk.VarInt
	r.read(&v, "VarInt")
	return int32(v)
}

func (r *R) Bool() bool {
	var v pk.Boolean
	r.read(&v, "Boolean")
	return bool(v)
}

func (r *R) Byte() byte {
	var v pk.UnsignedByte
	r.read(&v, "UnsignedByte")
	return byte(v)
}

func (r *R) Short() int16 {
	var v pk.Short
	r.read(&v, "Short")
	return int16(v)
}

func (r *R) UShort() uint16 {
	var v pk.UnsignedShort
	r.read(&v, "UnsignedShort")
	return uint16(v)
}

func (r *R) Int() int32 {
	var v pk.Int
	r.read(&v, "Int")
	return int32(v)
}

func (r *R) Long() int64 {
	var v pk.Long
	r.read(&v, "Long")
	return int64(v)
}

func (r *R) Float() float32 {
	var v pk.Float
	r.read(&v, "Float")
	return float32(v)
}

func (r *R) Double() float64 {
	var v pk.Double
	r.read(&v, "Double")
	return float64(v)
}

func (r *R) UUID() [16]byte {
	var v pk.UUID
	r.read(&v, "UUID")
	return [16]byte(v)
}

// Bytes reads exactly n bytes.
func (r *R) Bytes(n int, what string) []byte {
	if r.err != nil {
		return nil
	}
	if n < 0 {
		r.fail(fmt.Errorf("%s: negative length %d", what, n))
		return nil
	}
	if n > r.r.Len() {
		r.fail(fmt.Errorf("%s: length %d exceeds the %d byte(s) left in the packet", what, n, r.r.Len()))
		return nil
	}
	b := make([]byte, n)
	if _, err := io.ReadFull(r.r, b); err != nil {
		r.fail(fmt.Errorf("%s: %w", what, err))
		return nil
	}
	return b
}

// String is a VarInt byte length followed by UTF-8.
func (r *R) String() string {
	n := r.VarInt()
	return string(r.Bytes(int(n), "String"))
}

// ByteArray is a VarInt length followed by that many bytes.
func (r *R) ByteArray() []byte {
	n := r.VarInt()
	return r.Bytes(int(n), "ByteArray")
}

// Rest consumes everything that is left ("remaining bytes" fields).
func (r *R) Rest() []byte {
	return r.Bytes(r.r.Len(), "rest")
}

// ShortArray17 is the pre-1.8 array: a signed big-endian 16-bit length, then the bytes.
func (r *R) ShortArray17() []byte {
	n := r.Short()
	if r.err == nil && n < 0 {
		r.fail(errors.New("1.7 array: negative 16-bit length"))
		return nil
	}
	return r.Bytes(int(n), "1.7 array")
}

// ForgeVarShort is FML 1.7.10's ByteBufUtils.readVarShort: an unsigned 16-bit value whose
// top bit says that one more byte with bits 15..22 follows.
func (r *R) ForgeVarShort() int {
	low := int(r.UShort())
	high := 0
	if low&0x8000 != 0 {
		low &= 0x7FFF
		high = int(r.Byte())
	}
	return (high&0xFF)<<15 | low
}

// ForgeArray17 is a 1.7 array whose length is a Forge var-short (plugin message payload).
func (r *R) ForgeArray17() []byte {
	n := r.ForgeVarShort()
	return r.Bytes(n, "1.7 (forge) array")
}

// Property is a signed game-profile property.
type Property struct {
	Name, Value string
	Signed      bool
	Signature   string
}

// Properties: VarInt count, then {String name, String value, Boolean signed, [String signature]}.
func (r *R) Properties() []Property {
	n := r.VarInt()
	if r.err == nil && (n < 0 || int(n) > r.r.Len()) {
		r.fail(fmt.Errorf("properties: count %d impossible with %d byte(s) left", n, r.r.Len()))
		return nil
	}
	out := make([]Property, 0, n)
	for i := 0; i < int(n) && r.err == nil; i++ {
		var p Property
		p.Name = r.String()
		p.Value = r.String()
		p.Signed = r.Bool()
		if p.Signed {
			p.Signature = r.String()
		}
		out = append(out, p)
	}
	return out
}

// W is the matching (tiny) writer, used only to produce the bytes a vanilla *backend*
// would send (C28) - never to judge Gate's encoders.
type W struct{ bytes.Buffer }

func (w *W) put(f io.WriterTo)  { _, _ = f.WriteTo(&w.Buffer) }
func (w *W) VarInt(v int32)     { w.put(pk.VarInt(v)) }
func (w *W) Bool(v bool)        { w.put(pk.Boolean(v)) }
func (w *W) Long(v int64)       { w.put(pk.Long(v)) }
func (w *W) UUID(v [16]byte)    { w.put(pk.UUID(v)) }
func (w *W) String(s string)    { w.put(pk.String(s)) }
func (w *W) ByteArray(b []byte) { w.put(pk.ByteArray(b)) }
func (w *W) Raw(b []byte)       { w.Buffer.Write(b) }
func (w *W) Properties(p []Property) {
	w.VarInt(int32(len(p)))
	for _, x := range p {
		w.String(x.Name)
		w.String(x.Value)
		w.Bool(x.Signed)
		if x.Signed {
			w.String(x.Signature)
		}
	}
}
