package vanilla

import "fmt"

// Protocol numbers at which a layout of one of the packets below changes.
const (
	P1_7_2  = 4
	P1_7_6  = 5
	P1_8    = 47
	P1_12_2 = 340
	P1_13   = 393
	P1_16   = 735
	P1_19   = 759
	P1_19_1 = 760
	P1_19_3 = 761
	P1_20_2 = 764
	P1_20_3 = 765
	P1_20_5 = 766
	P1_21   = 767
	P1_21_2 = 768
	P1_21_4 = 769
	PNewest = 774 // newest protocol (1.21.11) whose layouts this transcription vouches for
)

// ---- handshake -------------------------------------------------------------------------

// Handshake (serverbound, every version): VarInt protocol, String address, Unsigned Short
// port, VarInt next state.
type Handshake struct {
	Protocol  int32
	Address   string
	Port      uint16
	NextState int32
}

func DecodeHandshake(b []byte) (*Handshake, error) {
	r := NewR(b)
	h := &Handshake{}
	h.Protocol = r.VarInt()
	h.Address = r.String()
	h.Port = r.UShort()
	h.NextState = r.VarInt()
	return h, r.Done()
}

// ---- login -----------------------------------------------------------------------------

// PublicKeyData is the 1.19-1.19.2 "sig data" / the chat-session key: Long expiry (epoch
// millis), ByteArray X.509 key, ByteArray signature.
type PublicKeyData struct {
	ExpiresAt int64
	Key       []byte
	Signature []byte
}

func (r *R) publicKeyData() *PublicKeyData {
	k := &PublicKeyData{}
	k.ExpiresAt = r.Long()
	k.Key = r.ByteArray()
	k.Signature = r.ByteArray()
	return k
}

// LoginStart (serverbound).
//
//	< 759        String name
//	759          String name, Boolean hasSigData, [sig data]
//	760          String name, Boolean hasSigData, [sig data], Boolean hasUUID, [UUID]
//	761..763     String name, Boolean hasUUID, [UUID]
//	>= 764       String name, UUID              (corroborated by go-mc bot/login.go)
type LoginStart struct {
	Name    string
	Key     *PublicKeyData
	HasUUID bool
	UUID    [16]byte
}

func DecodeLoginStart(protocol int, b []byte) (*LoginStart, error) {
	r := NewR(b)
	l := &LoginStart{}
	l.Name = r.String()
	if protocol >= P1_19 && protocol < P1_19_3 {
		if r.Bool() {
			l.Key = r.publicKeyData()
		}
	}
	switch {
	case protocol >= P1_20_2:
		l.HasUUID = true
		l.UUID = r.UUID()
	case protocol >= P1_19_1:
		if l.HasUUID = r.Bool(); l.HasUUID {
			l.UUID = r.UUID()
		}
	}
	return l, r.Done()
}

// LoginSuccess (clientbound).
//
//	4            String uuid without dashes, String name
//	5..734       String uuid with dashes, String name
//	735..758     UUID (four big-endian ints = the same 16 bytes), String name
//	>= 759       UUID, String name, properties
//	766, 767     ... + Boolean strictErrorHandling (1.20.5 - 1.21.1 only)
type LoginSuccess struct {
	UUIDText            string // protocol < 735
	UUID                [16]byte
	Name                string
	Properties          []Property
	HasStrict           bool
	StrictErrorHandling bool
}

func DecodeLoginSuccess(protocol int, b []byte) (*LoginSuccess, error) {
	r := NewR(b)
	l := &LoginSuccess{}
	if protocol >= P1_16 {
		l.UUID = r.UUID()
	} else {
		l.UUIDText = r.String()
	}
	l.Name = r.String()
	if protocol >= P1_19 {
		l.Properties = r.Properties()
	}
	if protocol == P1_20_5 || protocol == P1_21 {
		l.HasStrict = true
		l.StrictErrorHandling = r.Bool()
	}
	return l, r.Done()
}

// EncryptionRequest (clientbound).
//
//	< 47         String serverId, Short len + key, Short len + token
//	>= 47        String serverId, ByteArray key, ByteArray token
//	>= 766       ... + Boolean shouldAuthenticate
type EncryptionRequest struct {
	ServerID           string
	PublicKey          []byte
	VerifyToken        []byte
	HasAuthenticate    bool
	ShouldAuthenticate bool
}

func DecodeEncryptionRequest(protocol int, b []byte) (*EncryptionRequest, error) {
	r := NewR(b)
	e := &EncryptionRequest{}
	e.ServerID = r.String()
	if protocol < P1_8 {
		e.PublicKey = r.ShortArray17()
		e.VerifyToken = r.ShortArray17()
	} else {
		e.PublicKey = r.ByteArray()
		e.VerifyToken = r.ByteArray()
		if protocol >= P1_20_5 {
			e.HasAuthenticate = true
			e.ShouldAuthenticate = r.Bool()
		}
	}
	return e, r.Done()
}

// EncryptionResponse (serverbound).
//
//	< 47         Short len + secret, Short len + token
//	47..758      ByteArray secret, ByteArray token
//	759, 760     ByteArray secret, Boolean hasVerifyToken, then either ByteArray token or
//	             Long salt + ByteArray message signature
//	>= 761       ByteArray secret, ByteArray token   (764 corroborated by go-mc bot/login.go)
type EncryptionResponse struct {
	SharedSecret []byte
	HasToken     bool
	VerifyToken  []byte
	Salt         int64
	Signature    []byte
}

func DecodeEncryptionResponse(protocol int, b []byte) (*EncryptionResponse, error) {
	r := NewR(b)
	e := &EncryptionResponse{HasToken: true}
	if protocol < P1_8 {
		e.SharedSecret = r.ShortArray17()
		e.VerifyToken = r.ShortArray17()
		return e, r.Done()
	}
	e.SharedSecret = r.ByteArray()
	if protocol >= P1_19 && protocol < P1_19_3 {
		e.HasToken = r.Bool()
		if !e.HasToken {
			e.Salt = r.Long()
			e.Signature = r.ByteArray()
			return e, r.Done()
		}
	}
	e.VerifyToken = r.ByteArray()
	return e, r.Done()
}

// SetCompression (clientbound, login, >= 47): VarInt threshold.
func DecodeSetCompression(b []byte) (int32, error) {
	r := NewR(b)
	v := r.VarInt()
	return v, r.Done()
}

// LoginPluginRequest (clientbound, >= 393): VarInt id, Identifier channel, rest.
type LoginPluginRequest struct {
	ID      int32
	Channel string
	Data    []byte
}

func DecodeLoginPluginRequest(b []byte) (*LoginPluginRequest, error) {
	r := NewR(b)
	l := &LoginPluginRequest{}
	l.ID = r.VarInt()
	l.Channel = r.String()
	l.Data = r.Rest()
	return l, r.Done()
}

// LoginPluginResponse (serverbound, >= 393): VarInt id, Boolean successful, rest.
type LoginPluginResponse struct {
	ID      int32
	Success bool
	Data    []byte
}

func DecodeLoginPluginResponse(b []byte) (*LoginPluginResponse, error) {
	r := NewR(b)
	l := &LoginPluginResponse{}
	l.ID = r.VarInt()
	l.Success = r.Bool()
	l.Data = r.Rest()
	return l, r.Done()
}

// ---- plugin message (play, both directions; config >= 764) --------------------------------

// < 47         String channel, Short length (FML 1.7.10: var-short), bytes
// >= 47        String channel, rest
type PluginMessage struct {
	Channel string
	Data    []byte
}

func DecodePluginMessage(protocol int, b []byte) (*PluginMessage, error) {
	r := NewR(b)
	p := &PluginMessage{}
	p.Channel = r.String()
	if protocol < P1_8 {
		p.Data = r.ForgeArray17()
	} else {
		p.Data = r.Rest()
	}
	return p, r.Done()
}

// ---- disconnect ----------------------------------------------------------------------------

// DecodeDisconnect: login state: String JSON in every version (it is still JSON after
// 1.20.3); config (>= 764) and play: String JSON before 765, network NBT from 765 on.
func DecodeDisconnect(loginState bool, protocol int, b []byte) (*Comp, error) {
	r := NewR(b)
	var c *Comp
	if loginState {
		c = r.ReadJSONComponent(protocol)
	} else {
		c = r.ReadComponent(protocol)
	}
	return c, r.Done()
}

// ---- keep alive ------------------------------------------------------------------------------

// DecodeKeepAlive: Int before 47, VarInt 47..339, Long from 340 (1.12.2) on; the config
// state (>= 764) uses Long.
func DecodeKeepAlive(protocol int, b []byte) (int64, error) {
	r := NewR(b)
	var v int64
	switch {
	case protocol >= P1_12_2:
		v = r.Long()
	case protocol >= P1_8:
		v = int64(r.VarInt())
	default:
		v = int64(r.Int())
	}
	return v, r.Done()
}

// ---- status ------------------------------------------------------------------------------------

func DecodeStatusResponse(b []byte) (string, error) {
	r := NewR(b)
	s := r.String()
	return s, r.Done()
}

func DecodeStatusPing(b []byte) (int64, error) {
	r := NewR(b)
	v := r.Long()
	return v, r.Done()
}

// ---- transfer (clientbound, config + play, >= 766): String host, VarInt port ---------------------

type Transfer struct {
	Host string
	Port int32
}

func DecodeTransfer(b []byte) (*Transfer, error) {
	r := NewR(b)
	t := &Transfer{}
	t.Host = r.String()
	t.Port = r.VarInt()
	return t, r.Done()
}

// ---- player info (>= 761) ---------------------------------------------------------------------------

// Action indexes = ordinals of vanilla's ClientboundPlayerInfoUpdatePacket.Action. The bit
// of an action in the leading fixed bitset AND the position of its data inside every entry
// are both given by this ordinal (EnumSet iteration order). go-mc's bot/playerlist decodes
// protocol 764 in exactly this order (actions 0..5).
const (
	ActAddPlayer = iota
	ActInitChat
	ActGameMode
	ActListed
	ActLatency
	ActDisplayName
	ActListOrder // >= 768 (1.21.2)
	ActHat       // >= 769 (1.21.4)
	NumActions
)

var ActionNames = [NumActions]string{"ADD_PLAYER", "INITIALIZE_CHAT", "UPDATE_GAME_MODE", "UPDATE_LISTED", "UPDATE_LATENCY", "UPDATE_DISPLAY_NAME", "UPDATE_LIST_ORDER", "UPDATE_HAT"}

// ActionsIn returns how many actions the enum has in the given protocol.
func ActionsIn(protocol int) int {
	switch {
	case protocol >= P1_21_4:
		return 8
	case protocol >= P1_21_2:
		return 7
	default:
		return 6
	}
}

type ChatSession struct {
	SessionID [16]byte
	Key       PublicKeyData
}

type InfoEntry struct {
	ID          [16]byte
	Name        string     // ADD_PLAYER
	Properties  []Property // ADD_PLAYER
	HasChat     bool       // INITIALIZE_CHAT
	Chat        ChatSession
	GameMode    int32 // UPDATE_GAME_MODE (raw wire value)
	Listed      bool  // UPDATE_LISTED
	Latency     int32 // UPDATE_LATENCY
	HasDisplay  bool  // UPDATE_DISPLAY_NAME
	DisplayName *Comp
	ListOrder   int32 // UPDATE_LIST_ORDER
	ShowHat     bool  // UPDATE_HAT
}

type PlayerInfoUpdate struct {
	Actions uint8 // bit i = action i
	Entries []*InfoEntry
}

func (u *PlayerInfoUpdate) Has(a int) bool { return u.Actions&(1<<uint(a)) != 0 }

func DecodePlayerInfoUpdate(protocol int, b []byte) (*PlayerInfoUpdate, error) {
	r := NewR(b)
	u := &PlayerInfoUpdate{}
	n := ActionsIn(protocol)
	// fixed bitset of ceil(n/8) = 1 byte
	u.Actions = r.Byte()
	if r.err == nil && int(u.Actions)>>uint(n) != 0 {
		return nil, fmt.Errorf("action bitset %08b has bits beyond the %d actions of protocol %d", u.Actions, n, protocol)
	}
	cnt := r.VarInt()
	if r.err == nil && (cnt < 0 || int(cnt)*16 > r.Remaining()) {
		return nil, fmt.Errorf("entry count %d impossible with %d byte(s) left", cnt, r.Remaining())
	}
	for i := 0; i < int(cnt) && r.err == nil; i++ {
		e := &InfoEntry{}
		e.ID = r.UUID()
		for a := 0; a < n; a++ {
			if !u.Has(a) {
				continue
			}
			switch a {
			case ActAddPlayer:
				e.Name = r.String()
				if r.err == nil && len([]rune(e.Name)) > 16 {
					r.fail(fmt.Errorf("ADD_PLAYER name longer than 16 characters (%d)", len([]rune(e.Name))))
				}
				e.Properties = r.Properties()
			case ActInitChat:
				if e.HasChat = r.Bool(); e.HasChat {
					e.Chat.SessionID = r.UUID()
					e.Chat.Key = *r.publicKeyData()
				}
			case ActGameMode:
				e.GameMode = r.VarInt()
			case ActListed:
				e.Listed = r.Bool()
			case ActLatency:
				e.Latency = r.VarInt()
			case ActDisplayName:
				if e.HasDisplay = r.Bool(); e.HasDisplay {
					e.DisplayName = r.ReadComponent(protocol)
				}
			case ActListOrder:
				e.ListOrder = r.VarInt()
			case ActHat:
				e.ShowHat = r.Bool()
			}
		}
		u.Entries = append(u.Entries, e)
	}
	return u, r.Done()
}

type PlayerInfoRemove struct{ IDs [][16]byte }

func DecodePlayerInfoRemove(b []byte) (*PlayerInfoRemove, error) {
	r := NewR(b)
	p := &PlayerInfoRemove{}
	n := r.VarInt()
	if r.err == nil && (n < 0 || int(n)*16 > r.Remaining()) {
		return nil, fmt.Errorf("remove count %d impossible with %d byte(s) left", n, r.Remaining())
	}
	for i := 0; i < int(n) && r.err == nil; i++ {
		p.IDs = append(p.IDs, r.UUID())
	}
	return p, r.Done()
}

// ---- encoders used for what a vanilla BACKEND sends (C28 only) -------------------------------------------

// EncodePlayerInfoUpdate writes u in the vanilla layout. Display names are written as JSON
// (< 765) or as a TAG_String / TAG_Compound NBT holding only what Comp's first-class fields
// can carry.
func EncodePlayerInfoUpdate(protocol int, u *PlayerInfoUpdate) []byte {
	w := &W{}
	w.Raw([]byte{u.Actions})
	w.VarInt(int32(len(u.Entries)))
	n := ActionsIn(protocol)
	for _, e := range u.Entries {
		w.UUID(e.ID)
		for a := 0; a < n; a++ {
			if !u.Has(a) {
				continue
			}
			switch a {
			case ActAddPlayer:
				w.String(e.Name)
				w.Properties(e.Properties)
			case ActInitChat:
				w.Bool(e.HasChat)
				if e.HasChat {
					w.UUID(e.Chat.SessionID)
					w.Long(e.Chat.Key.ExpiresAt)
					w.ByteArray(e.Chat.Key.Key)
					w.ByteArray(e.Chat.Key.Signature)
				}
			case ActGameMode:
				w.VarInt(e.GameMode)
			case ActListed:
				w.Bool(e.Listed)
			case ActLatency:
				w.VarInt(e.Latency)
			case ActDisplayName:
				w.Bool(e.HasDisplay)
				if e.HasDisplay {
					writeComponent(w, protocol, e.DisplayName)
				}
			case ActListOrder:
				w.VarInt(e.ListOrder)
			case ActHat:
				w.Bool(e.ShowHat)
			}
		}
	}
	return w.Bytes()
}

func EncodePlayerInfoRemove(p *PlayerInfoRemove) []byte {
	w := &W{}
	w.VarInt(int32(len(p.IDs)))
	for _, id := range p.IDs {
		w.UUID(id)
	}
	return w.Bytes()
}
