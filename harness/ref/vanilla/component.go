package vanilla

import (
	"encoding/json"
	"fmt"
	"sort"
	"strings"
)

// ---- hand-written NBT reader (independent of go-mc's nbt package, which Gate uses to
// produce these bytes) -------------------------------------------------------------------

const (
	tagEnd = iota
	tagByte
	tagShort
	tagInt
	tagLong
	tagFloat
	tagDouble
	tagByteArray
	tagString
	tagList
	tagCompound
	tagIntArray
	tagLongArray
)

// NBTByte keeps TAG_Byte distinguishable from other integers (booleans are bytes).
type NBTByte int8

func (r *R) nbtString() string {
	n := r.UShort()
	return string(r.Bytes(int(n), "NBT string"))
}

func (r *R) nbtPayload(tag byte, depth int) any {
	if r.err != nil {
		return nil
	}
	if depth > 64 {
		r.fail(fmt.Errorf("NBT nested deeper than 64"))
		return nil
	}
	switch tag {
	case tagByte:
		return NBTByte(int8(r.Byte()))
	case tagShort:
		return int64(r.Short())
	case tagInt:
		return int64(r.Int())
	case tagLong:
		return r.Long()
	case tagFloat:
		return float64(r.Float())
	case tagDouble:
		return r.Double()
	case tagByteArray:
		n := r.Int()
		return r.Bytes(int(n), "NBT byte array")
	case tagString:
		return r.nbtString()
	case tagList:
		et := r.Byte()
		n := r.Int()
		if r.err == nil && (n < 0 || int(n) > r.Remaining() || (et == tagEnd && n > 0)) {
			r.fail(fmt.Errorf("NBT list of type %d: length %d impossible with %d byte(s) left", et, n, r.Remaining()))
			return nil
		}
		if r.err != nil {
			return nil
		}
		out := make([]any, 0, n)
		for i := 0; i < int(n) && r.err == nil; i++ {
			out = append(out, r.nbtPayload(et, depth+1))
		}
		return out
	case tagCompound:
		out := map[string]any{}
		for r.err == nil {
			t := r.Byte()
			if r.err != nil || t == tagEnd {
				break
			}
			name := r.nbtString()
			out[name] = r.nbtPayload(t, depth+1)
		}
		return out
	case tagIntArray:
		n := r.Int()
		if r.err == nil && (n < 0 || int(n)*4 > r.Remaining()) {
			r.fail(fmt.Errorf("NBT int array: length %d impossible", n))
			return nil
		}
		out := make([]any, 0, n)
		for i := 0; i < int(n) && r.err == nil; i++ {
			out = append(out, int64(r.Int()))
		}
		return out
	case tagLongArray:
		n := r.Int()
		if r.err == nil && (n < 0 || int(n)*8 > r.Remaining()) {
			r.fail(fmt.Errorf("NBT long array: length %d impossible", n))
			return nil
		}
		out := make([]any, 0, n)
		for i := 0; i < int(n) && r.err == nil; i++ {
			out = append(out, r.Long())
		}
		return out
	default:
		r.fail(fmt.Errorf("NBT: unknown tag type %d", tag))
		return nil
	}
}

// NetworkNBT reads one tag in network form: type byte, (before 1.20.2 also a name), payload.
// Since 1.20.2 (764) the root tag carries no name.
func (r *R) NetworkNBT(protocol int) any {
	t := r.Byte()
	if r.err != nil {
		return nil
	}
	if t == tagEnd {
		return nil
	}
	if protocol < 764 {
		_ = r.nbtString()
	}
	return r.nbtPayload(t, 0)
}

// ---- text components ------------------------------------------------------------------

// Comp is the normal form of a text component: what a client ends up rendering. Only the
// parts the workloads generate are first-class; everything else a wire form carries is
// kept in Other so that it still takes part in the comparison.
type Comp struct {
	Text      string            `json:"text"`
	Translate string            `json:"translate,omitempty"`
	Color     string            `json:"color,omitempty"`
	Deco      map[string]bool   `json:"deco,omitempty"` // bold, italic, underlined, strikethrough, obfuscated
	Extra     []*Comp           `json:"extra,omitempty"`
	With      []*Comp           `json:"with,omitempty"`
	Other     map[string]string `json:"other,omitempty"`
}

var decoNames = []string{"bold", "italic", "underlined", "strikethrough", "obfuscated"}

// Key is a canonical string of the normal form; two components are equal iff their keys are.
func (c *Comp) Key() string {
	if c == nil {
		return "<nil>"
	}
	var sb strings.Builder
	c.key(&sb)
	return sb.String()
}

func (c *Comp) key(sb *strings.Builder) {
	fmt.Fprintf(sb, "{t=%q", c.Text)
	if c.Translate != "" {
		fmt.Fprintf(sb, " tr=%q", c.Translate)
	}
	if c.Color != "" {
		fmt.Fprintf(sb, " c=%s", c.Color)
	}
	for _, d := range decoNames {
		if v, ok := c.Deco[d]; ok {
			fmt.Fprintf(sb, " %s=%v", d, v)
		}
	}
	if len(c.Other) > 0 {
		ks := make([]string, 0, len(c.Other))
		for k := range c.Other {
			ks = append(ks, k)
		}
		sort.Strings(ks)
		for _, k := range ks {
			fmt.Fprintf(sb, " ?%s=%s", k, c.Other[k])
		}
	}
	if len(c.With) > 0 {
		sb.WriteString(" with[")
		for _, e := range c.With {
			e.key(sb)
		}
		sb.WriteString("]")
	}
	if len(c.Extra) > 0 {
		sb.WriteString(" extra[")
		for _, e := range c.Extra {
			e.key(sb)
		}
		sb.WriteString("]")
	}
	sb.WriteString("}")
}

// CompFromJSON parses the JSON form of a component (string, array or object).
func CompFromJSON(s string) (*Comp, error) {
	dec := json.NewDecoder(strings.NewReader(s))
	dec.UseNumber()
	var v any
	if err := dec.Decode(&v); err != nil {
		return nil, fmt.Errorf("component JSON: %w", err)
	}
	if dec.More() {
		return nil, fmt.Errorf("component JSON: trailing data")
	}
	return compFromTree(v)
}

// CompFromNBT turns a decoded NBT tree into the normal form.
func CompFromNBT(v any) (*Comp, error) { return compFromTree(v) }

func asBool(v any) (bool, bool) {
	switch x := v.(type) {
	case bool:
		return x, true
	case NBTByte:
		return x != 0, true
	case int64: // vanilla's Codec.BOOL over NbtOps accepts any numeric tag (byteValue() != 0)
		return int8(x) != 0, true
	case string: // old JSON serialisers emitted "true"/"false"
		if x == "true" {
			return true, true
		}
		if x == "false" {
			return false, true
		}
	}
	return false, false
}

func compFromTree(v any) (*Comp, error) {
	switch x := v.(type) {
	case string:
		return &Comp{Text: x}, nil
	case []any:
		if len(x) == 0 {
			return nil, fmt.Errorf("component: empty list")
		}
		head, err := compFromTree(x[0])
		if err != nil {
			return nil, err
		}
		for _, e := range x[1:] {
			c, err := compFromTree(e)
			if err != nil {
				return nil, err
			}
			head.Extra = append(head.Extra, c)
		}
		return head, nil
	case map[string]any:
		c := &Comp{}
		for k, val := range x {
			switch k {
			case "text":
				s, ok := val.(string)
				if !ok {
					return nil, fmt.Errorf("component: text is %T", val)
				}
				c.Text = s
			case "translate":
				s, ok := val.(string)
				if !ok {
					return nil, fmt.Errorf("component: translate is %T", val)
				}
				c.Translate = s
			case "type":
				// optional discriminator since 1.20.3; carries no content of its own
				if s, _ := val.(string); s != "text" && s != "translatable" {
					c.other(k, val)
				}
			case "color":
				s, ok := val.(string)
				if !ok {
					return nil, fmt.Errorf("component: color is %T", val)
				}
				c.Color = s
			case "bold", "italic", "underlined", "strikethrough", "obfuscated":
				b, ok := asBool(val)
				if !ok {
					return nil, fmt.Errorf("component: %s is %T", k, val)
				}
				if c.Deco == nil {
					c.Deco = map[string]bool{}
				}
				c.Deco[k] = b
			case "extra", "with":
				l, ok := val.([]any)
				if !ok {
					return nil, fmt.Errorf("component: %s is %T", k, val)
				}
				for _, e := range l {
					cc, err := compFromTree(e)
					if err != nil {
						return nil, err
					}
					if k == "extra" {
						c.Extra = append(c.Extra, cc)
					} else {
						c.With = append(c.With, cc)
					}
				}
			default:
				c.other(k, val)
			}
		}
		return c, nil
	default:
		return nil, fmt.Errorf("component: unexpected root %T", v)
	}
}

func (c *Comp) other(k string, v any) {
	if c.Other == nil {
		c.Other = map[string]string{}
	}
	c.Other[k] = fmt.Sprintf("%v", v)
}

// vanilla's 16 named colours (ChatFormatting) and their RGB values.
var namedColours = map[string]string{
	"black": "#000000", "dark_blue": "#0000aa", "dark_green": "#00aa00", "dark_aqua": "#00aaaa",
	"dark_red": "#aa0000", "dark_purple": "#aa00aa", "gold": "#ffaa00", "gray": "#aaaaaa",
	"dark_gray": "#555555", "blue": "#5555ff", "green": "#55ff55", "aqua": "#55ffff",
	"red": "#ff5555", "light_purple": "#ff55ff", "yellow": "#ffff55", "white": "#ffffff",
}

// Canon rewrites the component in place to what a client of the given protocol makes of its
// colours and returns it. From 1.16 (735) on TextColor.parseColor accepts a name or "#rrggbb"
// and both denote an RGB value, so names are replaced by their value. Before 1.16 the colour
// is an enum looked up by name: anything else (a hex string) is not a colour and is dropped
// by the client; that is kept visible as "<not-a-colour:...>".
func (c *Comp) Canon(protocol int) *Comp {
	if c == nil {
		return nil
	}
	if c.Color != "" {
		hexv, named := namedColours[c.Color]
		switch {
		case protocol >= P1_16 && named:
			c.Color = hexv
		case protocol >= P1_16:
			c.Color = strings.ToLower(c.Color)
		case !named && c.Color != "reset":
			c.Color = "<not-a-colour:" + c.Color + ">"
		}
	}
	for _, e := range c.Extra {
		e.Canon(protocol)
	}
	for _, e := range c.With {
		e.Canon(protocol)
	}
	return c
}

// ReadComponent reads a text component as it appears in play/config packets: a JSON string
// before 1.20.3 (765), network NBT from 1.20.3 on. The result is what a client of that
// protocol makes of it (see Canon).
func (r *R) ReadComponent(protocol int) *Comp {
	if protocol >= 765 {
		t := r.NetworkNBT(protocol)
		if r.err != nil {
			return nil
		}
		c, err := CompFromNBT(t)
		if err != nil {
			r.fail(err)
			return nil
		}
		return c.Canon(protocol)
	}
	return r.ReadJSONComponent(protocol)
}

// ReadJSONComponent reads a String holding component JSON (login disconnect in every
// version; everything before 1.20.3).
func (r *R) ReadJSONComponent(protocol int) *Comp {
	s := r.String()
	if r.err != nil {
		return nil
	}
	c, err := CompFromJSON(s)
	if err != nil {
		r.fail(err)
		return nil
	}
	return c.Canon(protocol)
}
