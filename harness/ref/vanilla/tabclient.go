package vanilla

import (
	"encoding/binary"
	"encoding/json"
	"fmt"
	"sort"
)

// ---- component writer (backend side only) ---------------------------------------------------

func compJSONTree(c *Comp) map[string]any {
	m := map[string]any{"text": c.Text}
	if c.Color != "" {
		m["color"] = c.Color
	}
	for k, v := range c.Deco {
		m[k] = v
	}
	if len(c.Extra) > 0 {
		l := make([]any, 0, len(c.Extra))
		for _, e := range c.Extra {
			l = append(l, compJSONTree(e))
		}
		m["extra"] = l
	}
	return m
}

func nbtStr(w *W, s string) {
	var l [2]byte
	binary.BigEndian.PutUint16(l[:], uint16(len(s)))
	w.Raw(l[:])
	w.Raw([]byte(s))
}

func nbtCompoundPayload(w *W, c *Comp) {
	w.Raw([]byte{tagString})
	nbtStr(w, "text")
	nbtStr(w, c.Text)
	if c.Color != "" {
		w.Raw([]byte{tagString})
		nbtStr(w, "color")
		nbtStr(w, c.Color)
	}
	ks := make([]string, 0, len(c.Deco))
	for k := range c.Deco {
		ks = append(ks, k)
	}
	sort.Strings(ks)
	for _, k := range ks {
		w.Raw([]byte{tagByte})
		nbtStr(w, k)
		if c.Deco[k] {
			w.Raw([]byte{1})
		} else {
			w.Raw([]byte{0})
		}
	}
	if len(c.Extra) > 0 {
		w.Raw([]byte{tagList})
		nbtStr(w, "extra")
		w.Raw([]byte{tagCompound})
		var n [4]byte
		binary.BigEndian.PutUint32(n[:], uint32(len(c.Extra)))
		w.Raw(n[:])
		for _, e := range c.Extra {
			nbtCompoundPayload(w, e)
		}
	}
	w.Raw([]byte{tagEnd})
}

// writeComponent writes c the way a vanilla server does: JSON string before 765; from 765 on
// nameless network NBT - a bare TAG_String for an unstyled, childless text (vanilla's
// serialiser does that), a TAG_Compound otherwise.
func writeComponent(w *W, protocol int, c *Comp) {
	if protocol < P1_20_3 {
		b, _ := json.Marshal(compJSONTree(c))
		w.String(string(b))
		return
	}
	if c.Color == "" && len(c.Deco) == 0 && len(c.Extra) == 0 {
		w.Raw([]byte{tagString})
		nbtStr(w, c.Text)
		return
	}
	w.Raw([]byte{tagCompound})
	nbtCompoundPayload(w, c)
}

// ---- reference vanilla tab-list client --------------------------------------------------------
//
// Semantics of ClientPacketListener.handlePlayerInfoUpdate / handlePlayerInfoRemove
// (1.19.3+), from memory:
//
//	for each entry, if ADD_PLAYER is among the actions: playerInfoMap.putIfAbsent(id, new
//	    PlayerInfo(profile))          -- an existing entry keeps its old profile;
//	for each entry: info = playerInfoMap.get(id); unknown id => ignored; otherwise every
//	    action of the packet is applied to info (INITIALIZE_CHAT, UPDATE_GAME_MODE,
//	    UPDATE_LISTED add/remove in listedPlayers, UPDATE_LATENCY, UPDATE_DISPLAY_NAME,
//	    UPDATE_LIST_ORDER, UPDATE_HAT);
//	remove: playerInfoMap.remove(id) and listedPlayers.remove(info).
//
// A fresh PlayerInfo has game mode SURVIVAL (GameType.DEFAULT_MODE), latency 0, no display
// name, list order 0, showHat true, and is not listed. The packet decoder maps a game-mode
// id outside 0..3 to SURVIVAL (GameType.byId, out-of-bounds strategy ZERO).

type TabEntry struct {
	ID          [16]byte
	Name        string
	Properties  []Property
	GameMode    int32 // 0..3
	Listed      bool
	Latency     int32
	DisplayName *Comp
	ListOrder   int32
	ShowHat     bool
	HasChat     bool
	ChatSession [16]byte
}

type TabClient struct {
	Protocol int
	Entries  map[[16]byte]*TabEntry
	// Ignored counts updates for unknown ids (vanilla logs "Ignoring player info update
	// for unknown player").
	Ignored int
}

func NewTabClient(protocol int) *TabClient {
	return &TabClient{Protocol: protocol, Entries: map[[16]byte]*TabEntry{}}
}

// NormGameMode is GameType.byId(id).getId().
func NormGameMode(id int32) int32 {
	if id < 0 || id > 3 {
		return 0
	}
	return id
}

func (c *TabClient) ApplyUpdate(u *PlayerInfoUpdate) {
	if u.Has(ActAddPlayer) {
		for _, e := range u.Entries {
			if _, ok := c.Entries[e.ID]; !ok {
				c.Entries[e.ID] = &TabEntry{ID: e.ID, Name: e.Name, Properties: e.Properties, ShowHat: true}
			}
		}
	}
	for _, e := range u.Entries {
		info, ok := c.Entries[e.ID]
		if !ok {
			c.Ignored++
			continue
		}
		for a := 0; a < NumActions; a++ {
			if !u.Has(a) {
				continue
			}
			switch a {
			case ActInitChat:
				info.HasChat = e.HasChat
				info.ChatSession = e.Chat.SessionID
			case ActGameMode:
				info.GameMode = NormGameMode(e.GameMode)
			case ActListed:
				info.Listed = e.Listed
			case ActLatency:
				info.Latency = e.Latency
			case ActDisplayName:
				if e.HasDisplay {
					info.DisplayName = e.DisplayName
				} else {
					info.DisplayName = nil
				}
			case ActListOrder:
				info.ListOrder = e.ListOrder
			case ActHat:
				info.ShowHat = e.ShowHat
			}
		}
	}
}

func (c *TabClient) ApplyRemove(p *PlayerInfoRemove) {
	for _, id := range p.IDs {
		delete(c.Entries, id)
	}
}

// Feed decodes one clientbound packet body and applies it. kind is "update" or "remove".
func (c *TabClient) Feed(kind string, body []byte) error {
	switch kind {
	case "update":
		u, err := DecodePlayerInfoUpdate(c.Protocol, body)
		if err != nil {
			return err
		}
		c.ApplyUpdate(u)
	case "remove":
		p, err := DecodePlayerInfoRemove(body)
		if err != nil {
			return err
		}
		c.ApplyRemove(p)
	default:
		return fmt.Errorf("unknown packet kind %q", kind)
	}
	return nil
}
