package pktgen

import (
	"bytes"
	"fmt"
	"reflect"
	"runtime/debug"

	"go.minekube.com/gate/pkg/gate/proto"
)

// Encode runs pk.Encode on a fresh context and buffer; panics become errors (with stack).
func Encode(row Row, pk proto.Packet) (b []byte, err error) {
	defer func() {
		if r := recover(); r != nil {
			err = fmt.Errorf("panic in Encode: %v\n%s", r, trimStack(debug.Stack()))
		}
	}()
	var buf bytes.Buffer
	if e := pk.Encode(row.Ctx(), &buf); e != nil {
		return nil, e
	}
	return buf.Bytes(), nil
}

// Decode runs Decode of a new instance (made like the decoder makes it) on b; it returns the
// packet, the number of bytes left unread, and the error (panics become errors).
func Decode(row Row, b []byte) (pk proto.Packet, left int, err error) {
	defer func() {
		if r := recover(); r != nil {
			err = fmt.Errorf("panic in Decode: %v\n%s", r, trimStack(debug.Stack()))
		}
	}()
	pk = row.New()
	rd := bytes.NewReader(b)
	ctx := row.Ctx()
	ctx.Packet = pk
	ctx.Payload = b
	err = pk.Decode(ctx, rd)
	return pk, rd.Len(), err
}

func trimStack(s []byte) string {
	if len(s) > 1800 {
		s = s[:1800]
	}
	return string(s)
}

// Unordered reports whether the encoding of row's type has no defined entry order: the type
// iterates a Go map in Encode, or it carries a chat component for a 1.20.3+ protocol (Gate
// converts component JSON to NBT through a Go map, so compound keys come out in random order).
func Unordered(row Row, spec *Spec) bool {
	if spec != nil && spec.MapOrder {
		return true
	}
	return row.Protocol >= 765 && HasComponent(row.Type)
}

// SameBytes compares two encodings; with unordered=true the comparison is order-insensitive
// (same length and same multiset of bytes).
func SameBytes(unordered bool, a, b []byte) bool {
	if bytes.Equal(a, b) {
		return true
	}
	if !unordered || len(a) != len(b) {
		return false
	}
	var h [256]int
	for _, c := range a {
		h[c]++
	}
	for _, c := range b {
		h[c]--
	}
	for _, n := range h {
		if n != 0 {
			return false
		}
	}
	return true
}

// Masked applies the wall-clock mask of the spec, if any.
func Masked(spec *Spec, pk proto.Packet, b []byte) []byte {
	if spec == nil || spec.Mask == nil {
		return b
	}
	return spec.Mask(pk, b)
}

// Elem returns the struct value behind a packet pointer.
func Elem(pk proto.Packet) reflect.Value { return reflect.ValueOf(pk).Elem() }

// SafeEq is Eq with panics (values reached through unexported fields) reported as incomparable.
func SafeEq(a, b reflect.Value, protocol proto.Protocol) (ok bool, why string, comparable bool) {
	defer func() {
		if r := recover(); r != nil {
			ok, why, comparable = true, fmt.Sprint("incomparable: ", r), false
		}
	}()
	ok, why = Eq(a, b, protocol)
	return ok, why, true
}
