package pktgen

import (
	"encoding/hex"
	"fmt"
	"math"
	"math/rand"
	"reflect"
	"strings"
	"time"

	"github.com/Tnze/go-mc/nbt"
	"go.minekube.com/common/minecraft/color"
	"go.minekube.com/common/minecraft/component"
	"go.minekube.com/common/minecraft/key"
	"go.minekube.com/gate/pkg/edition/java/profile"
	"go.minekube.com/gate/pkg/edition/java/proto/packet/chat"
	"go.minekube.com/gate/pkg/edition/java/proto/state/states"
	"go.minekube.com/gate/pkg/edition/java/proxy/crypto"
	"go.minekube.com/gate/pkg/edition/java/proxy/crypto/keyrevision"
	"go.minekube.com/gate/pkg/gate/proto"
	"go.minekube.com/gate/pkg/util/favicon"
	"go.minekube.com/gate/pkg/util/uuid"
)

// Class is the value class of one generated packet.
type Class int

const (
	ClassSmall  Class = iota // short strings, one list entry, optionals present
	ClassLarge               // strings at their limit, >127 / >16383 byte bodies, many entries, deep nesting
	ClassRandom              // everything PRNG-chosen incl. empty/absent
)

func (c Class) String() string { return [...]string{"small", "large", "random"}[c] }

// G is the state of one packet generation.
type G struct {
	R     *rand.Rand
	Row   Row
	P     proto.Protocol
	Class Class
	// K is the value index within the row (Class == K%3). Generators use it to cycle through
	// small enumerations deterministically, so that every run covers every choice in every
	// protocol (signatures then do not depend on the seed).
	K int
	// Variant is set by a generator that deliberately produced a legal but unusual
	// representation (e.g. a permuted action set); it becomes part of a violation signature.
	Variant string
	bigUsed bool
	// Shallow is set while generating the entries of a long list: components there stay flat
	// (the deep ones are exercised by the single-component packets).
	Shallow bool
	Gaps    []string // things the generator could not build (reported loudly)
}

func (g *G) ge(p proto.Protocol) bool { return g.P >= p }
func (g *G) lt(p proto.Protocol) bool { return g.P < p }

func (g *G) Bool() bool { return g.R.Intn(2) == 0 }

// present decides optional fields: small = present, large = present, random = coin.
func (g *G) present() bool {
	if g.Class == ClassRandom {
		return g.Bool()
	}
	return true
}

var int32Bounds = []int{0, 1, -1, 2, 127, 128, 255, 256, 16383, 16384, 32767, 32768, 65535, 65536, 2097151, 2097152, math.MaxInt32, math.MinInt32, -128, -129}

// Int32 is a boundary-biased value in the int32 range (VarInt / Int fields).
func (g *G) Int32() int {
	switch g.Class {
	case ClassSmall:
		return g.R.Intn(100)
	case ClassLarge:
		return int32Bounds[g.R.Intn(len(int32Bounds))]
	}
	if g.R.Intn(3) == 0 {
		return int32Bounds[g.R.Intn(len(int32Bounds))]
	}
	return int(int32(g.R.Uint32()))
}

// NonNeg is a boundary-biased non-negative int32.
func (g *G) NonNeg() int {
	v := g.Int32()
	if v < 0 {
		v = -(v + 1)
	}
	return v
}

func (g *G) Range(lo, hi int) int { return lo + g.R.Intn(hi-lo+1) }

var int64Bounds = []int64{0, 1, -1, math.MaxInt32, math.MinInt32, math.MaxInt32 + 1, math.MaxInt64, math.MinInt64, 1 << 40, -(1 << 40)}

func (g *G) Int64() int64 {
	switch g.Class {
	case ClassSmall:
		return int64(g.R.Intn(100000))
	case ClassLarge:
		return int64Bounds[g.R.Intn(len(int64Bounds))]
	}
	if g.R.Intn(3) == 0 {
		return int64Bounds[g.R.Intn(len(int64Bounds))]
	}
	return int64(g.R.Uint64())
}

func (g *G) Float32() float32 {
	switch g.R.Intn(6) {
	case 0:
		return 0
	case 1:
		return 1
	case 2:
		return -0.5
	case 3:
		return math.MaxFloat32
	}
	return float32(g.R.NormFloat64() * 100)
}

const identChars = "abcdefghijklmnopqrstuvwxyz0123456789_"

func (g *G) ident(n int) string {
	b := make([]byte, n)
	for i := range b {
		b[i] = identChars[g.R.Intn(len(identChars))]
	}
	return string(b)
}

var runePool = []rune("abcdefghijklmnopqrstuvwxyzABCDEFGHIJKLMNOPQRSTUVWXYZ0123456789 _-.:/!?\"\\{}[]<>&éüßñЖя日本語中文한글")

// Str returns a string of minRunes..maxRunes runes (runes of the Basic Multilingual Plane, so
// the rune count equals Java's UTF-16 length the vanilla limits are expressed in).
// maxRunes <= 0 means "no protocol limit below the 32767 default".
func (g *G) Str(minRunes, maxRunes int) string {
	unbounded := maxRunes <= 0
	if unbounded {
		maxRunes = 32767
	}
	var n int
	switch g.Class {
	case ClassSmall:
		n = 3 + g.R.Intn(8)
	case ClassLarge:
		switch {
		case maxRunes <= 300:
			n = maxRunes
		case !g.bigUsed && maxRunes >= 20000:
			g.bigUsed = true
			n = 16400 + g.R.Intn(100) // > 16383 bytes: 3-byte VarInt length prefix
		default:
			n = 130 + g.R.Intn(100) // > 127 bytes: 2-byte VarInt length prefix
		}
	default:
		switch g.R.Intn(5) {
		case 0:
			n = 0
		case 1:
			n = 1
		default:
			n = g.R.Intn(40)
		}
	}
	if n < minRunes {
		n = minRunes
	}
	if n > maxRunes {
		n = maxRunes
	}
	ascii := g.Class == ClassSmall || g.R.Intn(2) == 0
	rs := make([]rune, n)
	for i := range rs {
		if ascii {
			rs[i] = runePool[g.R.Intn(62)]
		} else {
			rs[i] = runePool[g.R.Intn(len(runePool))]
		}
	}
	return string(rs)
}

// Bytes returns min..max random bytes.
func (g *G) Bytes(min, max int) []byte {
	var n int
	switch g.Class {
	case ClassSmall:
		n = 4 + g.R.Intn(12)
	case ClassLarge:
		switch {
		case max <= 1024:
			n = max
		case !g.bigUsed && max >= 20000:
			g.bigUsed = true
			n = 16400 + g.R.Intn(100)
		default:
			n = 256 + g.R.Intn(100)
		}
	default:
		switch g.R.Intn(4) {
		case 0:
			n = 0
		case 1:
			n = 1
		default:
			n = g.R.Intn(64)
		}
	}
	if n < min {
		n = min
	}
	if n > max {
		n = max
	}
	b := make([]byte, n)
	g.R.Read(b)
	return b
}

// Count returns a list length for the class (max is the protocol/decoder limit).
func (g *G) Count(max int) int {
	var n int
	switch g.Class {
	case ClassSmall:
		n = 1
	case ClassLarge:
		n = 130 // > 127 entries: 2-byte VarInt count
	default:
		n = g.R.Intn(4)
	}
	if n > max {
		n = max
	}
	return n
}

func (g *G) UUID() uuid.UUID {
	var u uuid.UUID
	g.R.Read(u[:])
	if u == uuid.Nil {
		u[0] = 1
	}
	return u
}

// UUIDMaybeNil is Nil sometimes (random class only).
func (g *G) UUIDMaybeNil() uuid.UUID {
	if g.Class == ClassRandom && g.R.Intn(4) == 0 {
		return uuid.Nil
	}
	return g.UUID()
}

// Key returns a valid resource location; the namespace is "minecraft" or a custom one.
func (g *G) Key() key.Key {
	ns := "minecraft"
	if g.Class != ClassSmall && g.Bool() {
		ns = g.ident(1 + g.R.Intn(6))
	}
	val := g.ident(1 + g.R.Intn(10))
	if g.Class != ClassSmall && g.Bool() {
		val += "/" + g.ident(1+g.R.Intn(5)) + ".x-y"
	}
	return key.New(ns, val)
}

// Time has millisecond precision (all the wire carries).
func (g *G) Time() time.Time {
	ms := int64(1_600_000_000_000) + g.R.Int63n(200_000_000_000)
	return time.UnixMilli(ms)
}

func (g *G) Props() []profile.Property {
	n := g.Count(16)
	if g.Class == ClassLarge {
		n = 3
	}
	ps := make([]profile.Property, n)
	for i := range ps {
		ps[i] = profile.Property{Name: g.Str(1, 64), Value: g.Str(0, 0)}
		if g.present() {
			ps[i].Signature = g.Str(1, 1024)
		}
	}
	return ps
}

var pubKeys = func() [][]byte {
	var out [][]byte
	for _, h := range []string{
		"30819f300d06092a864886f70d010101050003818d0030818902818100ccbcacfb21694dc889f7b7dbcb840dbe620861a16adbf679d6d83116eb0f076112df6d6e4e8fcd37dcb6af5729f91464d771a128a220dd791c96b8e399e0eb3c8eae8695401d8198746762184bcdf4af126734776d34294a980ca79e06b94d206fd2ce6b6a56bf736081579378864560fb1a6b9cfab206cb44c16ff90a72f2f10203010001",
		"30819f300d06092a864886f70d010101050003818d0030818902818100c39578c917a156427ded0a82dcf1e65c08cfad2e4a7cbd44b111587d6f7d92594be1ca4080e414d88425f01bb040360b979535c018e170cc50756c537e626373491c0080cc50915afce3dd9d2cf58a20bbbc2f0cb5bff82605f71b0b25e58ae41285394f8cc1ac6b266bd9325944c6132c5d84f3e8cfa3f067834774b6a056ff0203010001",
	} {
		b, err := hex.DecodeString(h)
		if err != nil {
			panic(err)
		}
		out = append(out, b)
	}
	return out
}()

// IDKey returns a player key over one of two fixed RSA public keys with random expiry and
// signature bytes (the codec does not verify signatures).
func (g *G) IDKey() crypto.IdentifiedKey {
	rev := keyrevision.LinkedV2
	if g.P == 759 {
		rev = keyrevision.GenericV1
	}
	sig := make([]byte, 256+g.R.Intn(2)*256)
	g.R.Read(sig)
	k, err := crypto.NewIdentifiedKey(rev, pubKeys[g.R.Intn(len(pubKeys))], g.Time().UnixMilli(), sig)
	if err != nil {
		panic(err)
	}
	return k
}

// ---- components -----------------------------------------------------------------------------

var yamlWords = map[string]bool{"null": true, "true": true, "false": true, "yes": true, "no": true, "on": true, "off": true, "y": true, "n": true, "nan": true, "inf": true}

// RiskyNBTText reports whether a component string is in one of the classes that Gate's
// JSON<->NBT component conversion (nbtconv, via SNBT text and a YAML parser) is known to
// mishandle: empty, containing a backslash or a line break, or looking like a YAML scalar
// (number, date, null, boolean). Those classes are exercised by C04's dedicated component
// sub-check with one signature per class; the per-packet generators avoid them for 1.20.3+
// so that one conversion defect does not surface once per packet type.
func RiskyNBTText(s string) bool {
	if s == "" || strings.ContainsAny(s, "\\\n\r") || (strings.Contains(s, `"`) && strings.Contains(s, "'")) {
		return true
	}
	if strings.ContainsAny(s[:1], "+-.0123456789~") {
		return true
	}
	return yamlWords[strings.ToLower(strings.Trim(s, ". "))]
}

// cstr is a string that goes into a chat component.
func (g *G) cstr(min, max int) string {
	s := g.Str(min, max)
	if g.P >= 765 && RiskyNBTText(s) {
		s = strings.NewReplacer("\\", "/", "\n", " ", "\r", " ").Replace(s)
		s = "T" + s
	}
	return s
}

func (g *G) style(depth int) component.Style {
	var s component.Style
	if g.Class == ClassSmall {
		return s
	}
	if g.Bool() {
		if g.ge(735) && g.Bool() { // 1.16+: hex colours exist
			s.Color = color.HexInt(g.R.Intn(1 << 24))
		} else {
			s.Color = color.NamesOrder[g.R.Intn(len(color.NamesOrder))]
		}
	}
	st := func() component.State { return component.State(g.R.Intn(3)) }
	s.Bold, s.Italic, s.Underlined = st(), st(), st()
	if g.R.Intn(3) == 0 {
		s.Strikethrough, s.Obfuscated = st(), st()
	}
	if g.R.Intn(3) == 0 {
		ins := g.cstr(1, 40)
		s.Insertion = &ins
	}
	if g.R.Intn(3) == 0 {
		s.ClickEvent = component.RunCommand("/" + g.ident(5))
	}
	if depth > 0 && g.R.Intn(3) == 0 {
		s.HoverEvent = component.ShowText(&component.Text{Content: g.cstr(1, 30)})
	}
	return s
}

// Comp returns a text or translation component with nested children.
func (g *G) Comp(depth int) component.Component {
	kids := 0
	if depth > 0 {
		switch g.Class {
		case ClassLarge:
			kids = 2
		case ClassRandom:
			kids = g.R.Intn(3)
		}
	}
	if g.Class != ClassSmall && g.R.Intn(3) == 0 {
		t := &component.Translation{Key: g.ident(4) + "." + g.ident(6), S: g.style(depth)}
		for i := 0; i < kids; i++ {
			t.With = append(t.With, g.Comp(depth-1))
		}
		return t
	}
	t := &component.Text{Content: g.cstr(0, 60), S: g.style(depth)}
	for i := 0; i < kids; i++ {
		t.Extra = append(t.Extra, g.Comp(depth-1))
	}
	return t
}

func (g *G) compDepth() int {
	if g.Shallow {
		return g.R.Intn(2)
	}
	switch g.Class {
	case ClassLarge:
		return 3
	case ClassRandom:
		return g.R.Intn(3)
	}
	return 0
}

// Holder returns a component holder built from a component (the way Gate's own code builds them).
func (g *G) Holder() *chat.ComponentHolder {
	return &chat.ComponentHolder{Protocol: g.P, Component: g.Comp(g.compDepth())}
}

// ---- reflective default generator -------------------------------------------------------------

var (
	tUUID      = reflect.TypeOf(uuid.UUID{})
	tTime      = reflect.TypeOf(time.Time{})
	tHolder    = reflect.TypeOf(chat.ComponentHolder{})
	tRawNBT    = reflect.TypeOf(nbt.RawMessage{})
	tKey       = reflect.TypeOf((*key.Key)(nil)).Elem()
	tComponent = reflect.TypeOf((*component.Component)(nil)).Elem()
	tIDKey     = reflect.TypeOf((*crypto.IdentifiedKey)(nil)).Elem()
	tFavicon   = reflect.TypeOf(favicon.Favicon(""))
	tState     = reflect.TypeOf(states.State(0))
	tProps     = reflect.TypeOf([]profile.Property(nil))
)

// Fill sets v (addressable) to a generated value by reflection. path is "Type.Field" used for
// per-field overrides.
func (g *G) Fill(v reflect.Value, path string, over map[string]func(*G) any) {
	if f, ok := over[path]; ok {
		x := f(g)
		if x == nil {
			v.Set(reflect.Zero(v.Type()))
		} else {
			v.Set(reflect.ValueOf(x).Convert(v.Type()))
		}
		return
	}
	t := v.Type()
	switch t {
	case tUUID:
		v.Set(reflect.ValueOf(g.UUIDMaybeNil()))
		return
	case tTime:
		v.Set(reflect.ValueOf(g.Time()))
		return
	case tHolder:
		v.Set(reflect.ValueOf(*g.Holder()))
		return
	case tRawNBT:
		v.Set(reflect.ValueOf(g.Compound()))
		return
	case tKey:
		v.Set(reflect.ValueOf(g.Key()))
		return
	case tComponent:
		v.Set(reflect.ValueOf(g.Comp(g.compDepth())))
		return
	case tIDKey:
		if g.present() {
			v.Set(reflect.ValueOf(g.IDKey()))
		}
		return
	case tFavicon:
		if g.present() {
			v.Set(reflect.ValueOf(favicon.FromBytes(g.Bytes(1, 4096))))
		}
		return
	case tState:
		return // set by CreatePacket/SetState
	case tProps:
		v.Set(reflect.ValueOf(g.Props()))
		return
	}
	switch t.Kind() {
	case reflect.Bool:
		v.SetBool(g.Bool())
	case reflect.Int, reflect.Int32:
		v.SetInt(int64(g.Int32()))
	case reflect.Int64:
		v.SetInt(g.Int64())
	case reflect.Int16:
		v.SetInt(int64(g.R.Intn(128)))
	case reflect.Int8:
		v.SetInt(int64(g.R.Intn(128)))
	case reflect.Uint8:
		v.SetUint(uint64(g.R.Intn(256)))
	case reflect.Uint16, reflect.Uint32, reflect.Uint, reflect.Uint64:
		v.SetUint(uint64(g.R.Intn(1 << 15)))
	case reflect.Float32, reflect.Float64:
		v.SetFloat(float64(g.Float32()))
	case reflect.String:
		v.SetString(g.Str(0, 0))
	case reflect.Slice:
		if t.Elem().Kind() == reflect.Uint8 {
			v.SetBytes(g.Bytes(0, 30000))
			return
		}
		n := g.Count(1 << 20)
		s := reflect.MakeSlice(t, n, n)
		was := g.Shallow
		g.Shallow = g.Shallow || n > 8
		for i := 0; i < n; i++ {
			g.Fill(s.Index(i), path+"[]", over)
		}
		g.Shallow = was
		v.Set(s)
	case reflect.Array:
		for i := 0; i < v.Len(); i++ {
			g.Fill(v.Index(i), path+"[]", over)
		}
	case reflect.Map:
		n := g.Count(8)
		if g.Class == ClassLarge {
			n = 3
		}
		m := reflect.MakeMapWithSize(t, n)
		for i := 0; i < n; i++ {
			k := reflect.New(t.Key()).Elem()
			g.Fill(k, path+"{key}", over)
			if k.Kind() == reflect.String {
				k.SetString(k.String() + fmt.Sprint(i)) // distinct keys
			}
			e := reflect.New(t.Elem()).Elem()
			g.Fill(e, path+"{}", over)
			m.SetMapIndex(k, e)
		}
		v.Set(m)
	case reflect.Ptr:
		if !g.present() {
			return
		}
		p := reflect.New(t.Elem())
		g.Fill(p.Elem(), path, over)
		v.Set(p)
	case reflect.Struct:
		for i := 0; i < t.NumField(); i++ {
			f := t.Field(i)
			if !f.IsExported() {
				continue
			}
			fp := path + "." + f.Name
			if f.Anonymous {
				fp = path
			}
			g.Fill(v.Field(i), fp, over)
		}
	default:
		g.Gaps = append(g.Gaps, fmt.Sprintf("%s: no generator for kind %s (%s)", path, t.Kind(), t))
	}
}

func shortType(t reflect.Type) string { return strings.TrimPrefix(t.String(), "*") }
