package pktgen

import (
	"bytes"
	"encoding/json"
	"fmt"
	"math"
	"reflect"
	"time"

	"go.minekube.com/brigodier"
	"go.minekube.com/common/minecraft/component"
	"go.minekube.com/common/minecraft/key"
	"go.minekube.com/gate/pkg/edition/java/proto/packet/chat"
	"go.minekube.com/gate/pkg/edition/java/proto/packet/tablist/playerinfo"
	"go.minekube.com/gate/pkg/edition/java/proto/util"
	"go.minekube.com/gate/pkg/edition/java/proxy/crypto"
	"go.minekube.com/gate/pkg/gate/proto"
)

// An independent structural equality over packet values. It does not call Encode/Decode of
// the packet; opaque members are compared through their public accessors:
//   - component holders / components: the component tree rendered to canonical JSON;
//   - keys: String(); identified keys: public key bytes, expiry, signature;
//   - time: Equal; floats: by bits; nil and empty slices/maps are the same;
//   - command trees: DescribeTree.

var tRootNode = reflect.TypeOf((*brigodier.RootCommandNode)(nil))

// tActionSet is a set written as a slice (Velocity: EnumSet): compared without order.
var tActionSet = reflect.TypeOf([]playerinfo.UpsertAction(nil))

// Eq reports whether a and b are equal; why names the first difference.
func Eq(a, b reflect.Value, protocol proto.Protocol) (ok bool, why string) {
	return eq(a, b, protocol, "")
}

func canonJSON(b []byte) (string, error) {
	var v any
	dec := json.NewDecoder(bytes.NewReader(b))
	dec.UseNumber()
	if err := dec.Decode(&v); err != nil {
		return "", err
	}
	out, err := json.Marshal(v) // map keys sorted
	return string(out), err
}

func compJSON(c component.Component, protocol proto.Protocol) (string, error) {
	if c == nil || (reflect.ValueOf(c).Kind() == reflect.Ptr && reflect.ValueOf(c).IsNil()) {
		return "null", nil
	}
	b, err := util.Marshal(protocol, c)
	if err != nil {
		return "", err
	}
	return canonJSON(b)
}

func holderJSON(h chat.ComponentHolder, protocol proto.Protocol) (string, error) {
	if h.Component == nil && len(h.JSON) == 0 && len(h.BinaryTag.Data) == 0 {
		return "empty", nil
	}
	cp := h // do not cache into the value under comparison
	c, err := cp.AsComponent()
	if err != nil {
		return "", err
	}
	return compJSON(c, protocol)
}

func eq(a, b reflect.Value, pr proto.Protocol, path string) (bool, string) {
	if !a.IsValid() || !b.IsValid() {
		if a.IsValid() == b.IsValid() {
			return true, ""
		}
		return false, path + ": one side invalid"
	}
	if a.Type() != b.Type() {
		return false, fmt.Sprintf("%s: type %s vs %s", path, a.Type(), b.Type())
	}
	t := a.Type()
	switch t {
	case tTime:
		x, y := rvTime(a), rvTime(b)
		if !x.Equal(y) {
			return false, fmt.Sprintf("%s: time %s vs %s", path, x.UTC(), y.UTC())
		}
		return true, ""
	case tHolder:
		x, e1 := holderJSON(a.Interface().(chat.ComponentHolder), pr)
		y, e2 := holderJSON(b.Interface().(chat.ComponentHolder), pr)
		if e1 != nil || e2 != nil {
			return false, fmt.Sprintf("%s: component not renderable: %v / %v", path, e1, e2)
		}
		if x != y {
			return false, fmt.Sprintf("%s: component %s vs %s", path, trunc(x), trunc(y))
		}
		return true, ""
	case tActionSet:
		seen := map[reflect.Type]int{}
		for i := 0; i < a.Len(); i++ {
			seen[a.Index(i).Elem().Type()] |= 1
		}
		for i := 0; i < b.Len(); i++ {
			seen[b.Index(i).Elem().Type()] |= 2
		}
		for t, m := range seen {
			if m != 3 {
				return false, fmt.Sprintf("%s: action %s only on one side", path, t)
			}
		}
		return true, ""
	case tRootNode:
		x, y := DescribeTree(a.Interface().(*brigodier.RootCommandNode)), DescribeTree(b.Interface().(*brigodier.RootCommandNode))
		if a.IsNil() || b.IsNil() {
			if a.IsNil() == b.IsNil() {
				return true, ""
			}
			return false, path + ": nil root node"
		}
		if x != y {
			return false, fmt.Sprintf("%s: command tree differs at %s", path, firstDiff(x, y))
		}
		return true, ""
	}
	switch t.Kind() {
	case reflect.Interface:
		if a.IsNil() || b.IsNil() {
			if a.IsNil() == b.IsNil() {
				return true, ""
			}
			return false, fmt.Sprintf("%s: nil vs non-nil (%v / %v)", path, a.IsNil(), b.IsNil())
		}
		switch t {
		case tKey:
			x, y := a.Interface().(key.Key).String(), b.Interface().(key.Key).String()
			if x != y {
				return false, fmt.Sprintf("%s: key %q vs %q", path, x, y)
			}
			return true, ""
		case tComponent:
			x, e1 := compJSON(a.Interface().(component.Component), pr)
			y, e2 := compJSON(b.Interface().(component.Component), pr)
			if e1 != nil || e2 != nil {
				return false, fmt.Sprintf("%s: component not renderable: %v / %v", path, e1, e2)
			}
			if x != y {
				return false, fmt.Sprintf("%s: component %s vs %s", path, trunc(x), trunc(y))
			}
			return true, ""
		case tIDKey:
			x, y := a.Interface().(crypto.IdentifiedKey), b.Interface().(crypto.IdentifiedKey)
			if !bytes.Equal(x.SignedPublicKeyBytes(), y.SignedPublicKeyBytes()) || !x.ExpiryTemporal().Equal(y.ExpiryTemporal()) || !bytes.Equal(x.Signature(), y.Signature()) {
				return false, path + ": identified key differs"
			}
			return true, ""
		}
		return eq(a.Elem(), b.Elem(), pr, path)
	case reflect.Ptr:
		if a.IsNil() || b.IsNil() {
			if a.IsNil() == b.IsNil() {
				return true, ""
			}
			return false, fmt.Sprintf("%s: nil vs non-nil pointer (%v / %v)", path, a.IsNil(), b.IsNil())
		}
		if a.Pointer() == b.Pointer() {
			return true, ""
		}
		return eq(a.Elem(), b.Elem(), pr, path)
	case reflect.Struct:
		for i := 0; i < t.NumField(); i++ {
			if ok, why := eq(a.Field(i), b.Field(i), pr, path+"."+t.Field(i).Name); !ok {
				return false, why
			}
		}
		return true, ""
	case reflect.Slice, reflect.Array:
		if a.Len() != b.Len() {
			return false, fmt.Sprintf("%s: length %d vs %d", path, a.Len(), b.Len())
		}
		if t.Elem().Kind() == reflect.Uint8 && t.Kind() == reflect.Slice {
			if !bytes.Equal(a.Bytes(), b.Bytes()) {
				return false, fmt.Sprintf("%s: bytes differ (len %d)", path, a.Len())
			}
			return true, ""
		}
		for i := 0; i < a.Len(); i++ {
			if ok, why := eq(a.Index(i), b.Index(i), pr, fmt.Sprintf("%s[%d]", path, i)); !ok {
				return false, why
			}
		}
		return true, ""
	case reflect.Map:
		if a.Len() != b.Len() {
			return false, fmt.Sprintf("%s: map size %d vs %d", path, a.Len(), b.Len())
		}
		it := a.MapRange()
		for it.Next() {
			bv := b.MapIndex(it.Key())
			if !bv.IsValid() {
				return false, fmt.Sprintf("%s: key %v missing", path, it.Key())
			}
			if ok, why := eq(it.Value(), bv, pr, fmt.Sprintf("%s[%v]", path, it.Key())); !ok {
				return false, why
			}
		}
		return true, ""
	case reflect.Bool:
		if a.Bool() != b.Bool() {
			return false, fmt.Sprintf("%s: %v vs %v", path, a.Bool(), b.Bool())
		}
	case reflect.Int, reflect.Int8, reflect.Int16, reflect.Int32, reflect.Int64:
		if a.Int() != b.Int() {
			return false, fmt.Sprintf("%s: %d vs %d", path, a.Int(), b.Int())
		}
	case reflect.Uint, reflect.Uint8, reflect.Uint16, reflect.Uint32, reflect.Uint64, reflect.Uintptr:
		if a.Uint() != b.Uint() {
			return false, fmt.Sprintf("%s: %d vs %d", path, a.Uint(), b.Uint())
		}
	case reflect.Float32, reflect.Float64:
		if math.Float64bits(a.Float()) != math.Float64bits(b.Float()) {
			return false, fmt.Sprintf("%s: %v vs %v", path, a.Float(), b.Float())
		}
	case reflect.String:
		if a.String() != b.String() {
			return false, fmt.Sprintf("%s: %q vs %q", path, trunc(a.String()), trunc(b.String()))
		}
	case reflect.Func, reflect.Chan, reflect.UnsafePointer:
		// not data
	}
	return true, ""
}

func rvTime(v reflect.Value) time.Time {
	if v.CanInterface() {
		return v.Interface().(time.Time)
	}
	return time.Time{}
}

func trunc(s string) string {
	if len(s) > 160 {
		return s[:160] + "…"
	}
	return s
}

func firstDiff(x, y string) string {
	i := 0
	for i < len(x) && i < len(y) && x[i] == y[i] {
		i++
	}
	lo := i - 40
	if lo < 0 {
		lo = 0
	}
	return fmt.Sprintf("offset %d: …%s | …%s", i, trunc(x[lo:]), trunc(y[lo:]))
}

// ---- leaf paths -------------------------------------------------------------------------------

// Path is a sequence of steps inside a value: a struct field index (>= 0), or element i of a
// slice encoded as -(i+1).
type Path []int

// How a leaf is compared / what "changing it" means.
const (
	ModeWhole = iota // whole value (basic kinds, opaque members, maps, slices of basic/opaque values, pointers to basic values)
	ModeNil          // nil-ness of a pointer to a struct (its fields are leaves of their own)
	ModeLen          // length of a slice of structs (the elements' fields are leaves of their own)
)

type Leaf struct {
	Path Path
	Mode int
}

func structLike(t reflect.Type) bool { return t.Kind() == reflect.Struct && !opaque(t) }

// Leaves lists the exported leaf fields of a packet struct value, recursively through nested
// structs, structs behind non-nil pointers and the first three elements of slices of structs.
func Leaves(v reflect.Value) []Leaf {
	var out []Leaf
	var walk func(v reflect.Value, p Path, depth int)
	walk = func(v reflect.Value, p Path, depth int) {
		t := v.Type()
		for i := 0; i < t.NumField(); i++ {
			f := t.Field(i)
			if !f.IsExported() || f.Type == tState {
				continue
			}
			fp := append(append(Path{}, p...), i)
			fv := v.Field(i)
			ft := f.Type
			switch {
			case structLike(ft):
				if depth < 4 {
					walk(fv, fp, depth+1)
				}
			case ft.Kind() == reflect.Ptr && structLike(ft.Elem()):
				out = append(out, Leaf{fp, ModeNil})
				if !fv.IsNil() && depth < 4 {
					walk(fv.Elem(), fp, depth+1)
				}
			case ft.Kind() == reflect.Slice && (structLike(ft.Elem()) || (ft.Elem().Kind() == reflect.Ptr && structLike(ft.Elem().Elem()))):
				out = append(out, Leaf{fp, ModeLen})
				for k := 0; k < fv.Len() && k < 3 && depth < 4; k++ {
					e := fv.Index(k)
					if e.Kind() == reflect.Ptr {
						if e.IsNil() {
							continue
						}
						e = e.Elem()
					}
					walk(e, append(append(Path{}, fp...), -(k + 1)), depth+1)
				}
			default:
				out = append(out, Leaf{fp, ModeWhole})
			}
		}
	}
	walk(v, nil, 0)
	return out
}

func opaque(t reflect.Type) bool {
	switch t {
	case tUUID, tTime, tHolder, tRawNBT, tRootNode:
		return true
	}
	if t.Kind() == reflect.Ptr {
		return opaque(t.Elem())
	}
	return false
}

// Get resolves a path; ok is false if a pointer on the way is nil or a slice is too short.
func Get(v reflect.Value, p Path) (reflect.Value, bool) {
	for _, s := range p {
		for v.Kind() == reflect.Ptr {
			if v.IsNil() {
				return reflect.Value{}, false
			}
			v = v.Elem()
		}
		if s < 0 {
			k := -s - 1
			if v.Kind() != reflect.Slice || v.Len() <= k {
				return reflect.Value{}, false
			}
			v = v.Index(k)
			continue
		}
		if v.Kind() != reflect.Struct || s >= v.NumField() {
			return reflect.Value{}, false
		}
		v = v.Field(s)
	}
	return v, true
}

// SameLeaf compares two values of a leaf according to its mode.
func SameLeaf(mode int, a, b reflect.Value, protocol proto.Protocol) (same bool, why string, comparable bool) {
	switch mode {
	case ModeNil:
		if a.IsNil() != b.IsNil() {
			return false, fmt.Sprintf("nil=%v vs nil=%v", a.IsNil(), b.IsNil()), true
		}
		return true, "", true
	case ModeLen:
		if a.Len() != b.Len() {
			return false, fmt.Sprintf("length %d vs %d", a.Len(), b.Len()), true
		}
		return true, "", true
	}
	return SafeEq(a, b, protocol)
}

// Name renders a path as Field.Field[i].Field for a struct type; with generic=true element
// indexes are rendered as [] (for signatures).
func (p Path) Name(t reflect.Type, generic bool) string {
	s := ""
	for _, st := range p {
		for t.Kind() == reflect.Ptr {
			t = t.Elem()
		}
		if st < 0 {
			if generic {
				s += "[]"
			} else {
				s += fmt.Sprintf("[%d]", -st-1)
			}
			t = t.Elem()
			continue
		}
		f := t.Field(st)
		if s != "" {
			s += "."
		}
		s += f.Name
		t = f.Type
	}
	return s
}

// HasComponent reports whether values of t can contain a chat component (whose NBT form has
// no defined key order).
func HasComponent(t reflect.Type) bool {
	seen := map[reflect.Type]bool{}
	var rec func(t reflect.Type) bool
	rec = func(t reflect.Type) bool {
		if t == tHolder || t == tComponent {
			return true
		}
		if seen[t] {
			return false
		}
		seen[t] = true
		switch t.Kind() {
		case reflect.Ptr, reflect.Slice, reflect.Array:
			return rec(t.Elem())
		case reflect.Map:
			return rec(t.Key()) || rec(t.Elem())
		case reflect.Struct:
			for i := 0; i < t.NumField(); i++ {
				if rec(t.Field(i).Type) {
					return true
				}
			}
		}
		return false
	}
	return rec(t)
}
