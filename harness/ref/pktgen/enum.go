// Package pktgen enumerates Gate's packet registry at run time and generates packet values
// for every registered (state, direction, protocol, type). It is shared by the C04 (round
// trip) and C05 (hostile decode) monitors.
//
// The generators necessarily import Gate's packet types (they build values of them); the
// oracles built on top (byte equality, independent deep equality, allocation accounting) do
// not call the code they judge.
package pktgen

import (
	"fmt"
	"reflect"
	"sort"

	"go.minekube.com/gate/pkg/edition/java/proto/state"
	"go.minekube.com/gate/pkg/edition/java/proto/version"
	"go.minekube.com/gate/pkg/gate/proto"
)

// Row is one registered (state, direction, protocol, id, type).
type Row struct {
	StateName string
	State     *state.Registry
	Dir       proto.Direction
	Protocol  proto.Protocol
	ID        proto.PacketID
	Type      reflect.Type // struct type
	TypeName  string       // "<pkg>.<Type>"
	Reg       *state.ProtocolRegistry
}

func (r Row) Key() string {
	return fmt.Sprintf("%s/%s/%d/%s", r.StateName, r.Dir, int(r.Protocol), r.TypeName)
}

// Table is "<State>/<Direction>".
func (r Row) Table() string { return r.StateName + "/" + r.Dir.String() }

// New creates the packet instance exactly like the decoder does (CreatePacket, which also
// calls SetState on stateful packets).
func (r Row) New() proto.Packet { return r.Reg.CreatePacket(r.ID) }

// Ctx builds a fresh packet context (Encode of some packets mutates the context).
func (r Row) Ctx() *proto.PacketContext {
	return &proto.PacketContext{Direction: r.Dir, Protocol: r.Protocol, PacketID: r.ID}
}

type namedState struct {
	Name string
	Reg  *state.Registry
}

// States lists the five state registries.
func States() []namedState {
	return []namedState{
		{"Handshake", state.Handshake}, {"Status", state.Status}, {"Login", state.Login},
		{"Config", state.Config}, {"Play", state.Play},
	}
}

// Supported returns the supported protocols in ascending order.
func Supported() []proto.Protocol {
	var ps []proto.Protocol
	for _, v := range version.Versions {
		if v.Protocol >= 0 {
			ps = append(ps, v.Protocol)
		}
	}
	sort.Slice(ps, func(i, j int) bool { return ps[i] < ps[j] })
	return ps
}

// Rows enumerates every registered row of every table, in a deterministic order.
func Rows() []Row {
	var out []Row
	for _, s := range States() {
		for _, d := range []proto.Direction{proto.ServerBound, proto.ClientBound} {
			pr := s.Reg.ServerBound
			if d == proto.ClientBound {
				pr = s.Reg.ClientBound
			}
			for _, p := range Supported() {
				reg := pr.Protocols[p]
				if reg == nil {
					continue
				}
				ids := make([]int, 0, len(reg.PacketIDs))
				for id := range reg.PacketIDs {
					ids = append(ids, int(id))
				}
				sort.Ints(ids)
				for _, id := range ids {
					t := reg.PacketIDs[proto.PacketID(id)]
					out = append(out, Row{
						StateName: s.Name, State: s.Reg, Dir: d, Protocol: p, ID: proto.PacketID(id),
						Type: t, TypeName: t.String(), Reg: reg,
					})
				}
			}
		}
	}
	return out
}

// Era buckets protocols by major game version (used to qualify signatures).
func Era(p proto.Protocol) string {
	switch {
	case p <= 5:
		return "1.7"
	case p <= 47:
		return "1.8"
	case p <= 340:
		return "1.9-1.12"
	case p <= 573:
		return "1.13-1.15"
	case p <= 758:
		return "1.16-1.18"
	case p <= 762:
		return "1.19"
	case p <= 766:
		return "1.20"
	case p <= 774:
		return "1.21"
	default:
		return "26"
	}
}
