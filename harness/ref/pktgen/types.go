package pktgen

import (
	"bytes"
	"context"
	"encoding/binary"
	"fmt"
	"math/rand"
	"reflect"
	"strings"

	"go.minekube.com/brigodier"
	"go.minekube.com/common/minecraft/key"
	"go.minekube.com/gate/pkg/edition/java/profile"
	p "go.minekube.com/gate/pkg/edition/java/proto/packet"
	"go.minekube.com/gate/pkg/edition/java/proto/packet/bossbar"
	brig "go.minekube.com/gate/pkg/edition/java/proto/packet/brigadier"
	"go.minekube.com/gate/pkg/edition/java/proto/packet/chat"
	"go.minekube.com/gate/pkg/edition/java/proto/packet/config"
	"go.minekube.com/gate/pkg/edition/java/proto/packet/plugin"
	"go.minekube.com/gate/pkg/edition/java/proto/packet/tablist/legacytablist"
	"go.minekube.com/gate/pkg/edition/java/proto/packet/tablist/playerinfo"
	"go.minekube.com/gate/pkg/edition/java/proto/packet/title"
	"go.minekube.com/gate/pkg/edition/java/proxy/crypto"
	"go.minekube.com/gate/pkg/gate/proto"
	"go.minekube.com/gate/pkg/internal/mathutil"
	"go.minekube.com/gate/pkg/util/favicon"
)

type ov = map[string]func(*G) any

// Spec describes how values of one packet type are generated.
type Spec struct {
	// Gen builds the packet by hand (pk is the instance made by CreatePacket). nil = reflective.
	Gen func(g *G, pk proto.Packet)
	// Over are per-field constraints for the reflective generator, keyed "pkg.Type.Field".
	Over ov
	// Post adjusts a reflectively generated packet (cross-field / per-version constraints).
	Post func(g *G, pk proto.Packet)
	// MapOrder: the encoding iterates a Go map, so byte order of entries is not stable.
	MapOrder bool
	// Mask blanks bytes that Encode fills from the wall clock.
	Mask func(pk proto.Packet, b []byte) []byte
	// Note documents the constraints (goes into the evidence).
	Note string
}

func str(min, max int) func(*G) any { return func(g *G) any { return g.Str(min, max) } }
func byts(min, max int) func(*G) any {
	return func(g *G) any { return g.Bytes(min, max) }
}
func rng(lo, hi int) func(*G) any { return func(g *G) any { return g.Range(lo, hi) } }
func someUUID(g *G) any           { return g.UUID() }
func holderPtr(g *G) any          { return g.Holder() }

// Specs lists every packet type this generator has been reviewed for. A registered type that
// is missing here is still generated reflectively, but reported as "unreviewed".
var Specs = map[string]*Spec{
	// ---- empty packets ----
	"packet.StatusRequest":             {},
	"packet.LoginAcknowledged":         {},
	"packet.BundleDelimiter":           {},
	"packet.DialogClear":               {},
	"config.FinishedUpdate":            {},
	"config.StartUpdate":               {},
	"config.CodeOfConductAcceptPacket": {},

	// ---- plain packets ----
	"packet.Handshake": {Over: ov{
		"packet.Handshake.ServerAddress": str(0, 255),
		"packet.Handshake.Port": func(g *G) any {
			// unsigned short on the wire
			return []int{25565, 40000, g.R.Intn(65536), 65535, 0, 32768}[g.K%6]
		},
		"packet.Handshake.NextStatus": rng(1, 3),
	}, Note: "Port in 0..65535 (unsigned short)"},
	"packet.StatusPing":     {},
	"packet.StatusResponse": {},
	"packet.ClientSettings": {Over: ov{"packet.ClientSettings.Locale": str(0, 16)}},
	"packet.KeepAlive": {Post: func(g *G, pk proto.Packet) {
		k := pk.(*p.KeepAlive)
		if g.lt(340) { // VarInt (1.8-1.12.1) or Int (1.7): 32 bit on the wire
			k.RandomID = int64(int32(k.RandomID))
		}
	}, Note: "id is 32 bit before 1.12.2"},
	"packet.PingIdentify":            {},
	"packet.ResourcePackResponse":    {Over: ov{"packet.ResourcePackResponse.Hash": str(0, 40)}},
	"packet.CustomClickActionPacket": {},
	"config.CodeOfConductPacket":     {},
	"config.RegistrySync":            {},
	"packet.Disconnect":              {Over: ov{"packet.Disconnect.Reason": holderPtr}},
	"packet.RemoveResourcePack":      {},
	"packet.ResourcePackRequest": {Over: ov{
		"packet.ResourcePackRequest.ID":   someUUID,
		"packet.ResourcePackRequest.URL":  str(1, 0),
		"packet.ResourcePackRequest.Hash": str(0, 40),
	}},
	"packet.Transfer":            {},
	"packet.CustomReportDetails": {MapOrder: true},
	"packet.ServerLinks":         {Gen: genServerLinks, Note: "ID is -1 (custom label) or a known-type ordinal >= 0"},
	"packet.DialogShow":          {Gen: genDialogShow},
	"packet.ServerLogin":         {Gen: genServerLogin},
	"packet.EncryptionResponse": {Gen: func(g *G, pk proto.Packet) {
		e := pk.(*p.EncryptionResponse)
		e.SharedSecret = g.Bytes(1, 128)
		lim := 128
		if g.ge(759) {
			lim = 256
		}
		e.VerifyToken = g.Bytes(1, lim) // an RSA block or a signature, never empty
		if g.P == 759 || g.P == 760 {
			if g.present() {
				s := g.Int64()
				e.Salt = &s
			}
		}
	}},
	"packet.LoginPluginResponse": {},
	"packet.EncryptionRequest": {Over: ov{
		"packet.EncryptionRequest.ServerID":    str(0, 20),
		"packet.EncryptionRequest.PublicKey": func(g *G) any {
			if g.lt(47) {
				return g.Bytes(1, 200) // 1.7 length prefix; a DER RSA-1024 key is 162 bytes
			}
			return g.Bytes(1, 256)
		},
		"packet.EncryptionRequest.VerifyToken": byts(1, 16),
	}},
	"packet.ServerLoginSuccess": {Over: ov{
		"packet.ServerLoginSuccess.Username": str(1, 16),
	}},
	"packet.SetCompression":     {},
	"packet.LoginPluginMessage": {},
	"packet.TabCompleteRequest": {Over: ov{"packet.TabCompleteRequest.Command": str(1, 2048)}},
	"packet.JoinGame":           {Gen: genJoinGame, Note: "game modes as unsigned wire bytes (-1 is 255); MaxPlayers 0..255 before 1.16.2"},
	"packet.Respawn":            {Gen: genRespawn},
	"packet.HeaderAndFooter":    {},
	"packet.TabCompleteResponse": {Over: ov{
		"packet.TabCompleteResponse.Offers[].Tooltip": func(g *G) any {
			if g.Class == ClassSmall || g.Bool() { // mixed present/absent tooltips in one packet
				return g.Holder()
			}
			return nil
		},
	}},
	"packet.AvailableCommands":    {Gen: genAvailableCommands},
	"packet.PlayerChatCompletion": {},
	"packet.ServerData":           {Gen: genServerData},
	"packet.SoundEntityPacket":    {Gen: genSoundEntity, Note: "Seed != 0 (Gate's API reads 0 as 'pick a random seed')"},
	"packet.StopSoundPacket":      {Gen: genStopSound},
	"plugin.Message":              {Gen: genPluginMessage},
	"config.KnownPacks": {Over: ov{"config.KnownPacks.Packs": func(g *G) any {
		n := g.Count(64)
		ps := make([]config.KnownPack, n)
		for i := range ps {
			ps[i] = config.KnownPack{Namespace: g.Str(0, 0), Id: g.Str(0, 0), Version: g.Str(0, 0)}
		}
		return ps
	}}},
	"config.ActiveFeatures": {},
	"config.TagsUpdate":     {MapOrder: true},
	"cookie.CookieRequest":  {},
	"cookie.CookieResponse": {Over: ov{"cookie.CookieResponse.Payload": byts(0, 5120)}},
	"cookie.CookieStore": {Over: ov{"cookie.CookieStore.Payload": func(g *G) any {
		if g.K%6 == 2 {
			return []byte{} // "store an empty cookie" is a legal request
		}
		return g.Bytes(1, 5120)
	}}},
	"chat.LegacyChat": {Over: ov{"chat.LegacyChat.Message": func(g *G) any {
		max := 100
		if g.Row.Dir == proto.ClientBound {
			max = 262144
		} else if g.ge(315) {
			max = 256
		}
		return g.Str(0, max)
	}}},
	"chat.ChatAcknowledgement":   {},
	"chat.KeyedPlayerCommand":    {Gen: genKeyedCommand, MapOrder: true},
	"chat.KeyedPlayerChat":       {Gen: genKeyedChat, Mask: maskKeyedChat, Note: "unsigned messages: Encode stamps time.Now(); those 8 bytes are masked"},
	"chat.SessionPlayerCommand":  {Gen: genSessionCommand},
	"chat.UnsignedPlayerCommand": {Gen: func(g *G, pk proto.Packet) { pk.(*chat.UnsignedPlayerCommand).Command = g.Str(0, 32767) }},
	"chat.SessionPlayerChat":     {Gen: genSessionChat},
	"chat.SystemChat": {Over: ov{
		"chat.SystemChat.Component": holderPtr,
		"chat.SystemChat.Type":      func(g *G) any { return chat.MessageType(g.Range(1, 2)) },
	}},
	"bossbar.BossBar": {Over: ov{
		"bossbar.BossBar.ID":      someUUID,
		"bossbar.BossBar.Action":  func(g *G) any { return bossbar.Action(g.Range(0, 5)) },
		"bossbar.BossBar.Name":    holderPtr,
		"bossbar.BossBar.Color":   func(g *G) any { return bossbar.Color(g.Range(0, 6)) },
		"bossbar.BossBar.Overlay": func(g *G) any { return bossbar.Overlay(g.Range(0, 4)) },
	}},
	"legacytablist.PlayerListItem": {Gen: genLegacyTabList},
	"title.Legacy": {Gen: func(g *G, pk proto.Packet) {
		l := pk.(*title.Legacy)
		acts := []title.Action{title.SetTitle, title.SetSubtitle, title.SetTimes, title.Hide, title.Reset}
		if g.ge(315) { // action bar exists since 1.11
			acts = append(acts, title.SetActionBar)
		}
		l.Action = acts[g.R.Intn(len(acts))]
		l.Component = g.Holder()
		l.FadeIn, l.Stay, l.FadeOut = g.Int32(), g.Int32(), g.Int32()
	}},
	"title.Subtitle":  {},
	"title.Text":      {},
	"title.Actionbar": {},
	"title.Times":     {},
	"title.Clear": {Over: ov{"title.Clear.Action": func(g *G) any {
		return []title.Action{title.Hide, title.Reset}[g.R.Intn(2)]
	}}},
	"playerinfo.Remove": {},
	"playerinfo.Upsert": {Gen: genUpsert},
}

// Generate builds value number k of row, deterministically from seed (class = k mod 3).
func Generate(row Row, seed int64, k int) (proto.Packet, *G, *Spec) {
	g := &G{R: rand.New(rand.NewSource(seed)), Row: row, P: row.Protocol, Class: Class(k % 3), K: k}
	pk := row.New()
	spec := Specs[row.TypeName]
	reviewed := spec != nil
	if spec == nil {
		spec = &Spec{}
	}
	if spec.Gen != nil {
		spec.Gen(g, pk)
	} else {
		g.Fill(reflect.ValueOf(pk).Elem(), row.TypeName, spec.Over)
		if spec.Post != nil {
			spec.Post(g, pk)
		}
	}
	if !reviewed {
		return pk, g, nil
	}
	return pk, g, spec
}

// ---- hand-written generators ------------------------------------------------------------------

func genServerLinks(g *G, pk proto.Packet) {
	s := pk.(*p.ServerLinks)
	n := g.Count(128)
	g.Shallow = n > 8
	for i := 0; i < n; i++ {
		l := &p.ServerLink{URL: g.Str(0, 0)}
		if g.Bool() {
			l.ID = g.Range(0, 9)
		} else {
			l.ID = -1
			l.DisplayName = *g.Holder()
		}
		s.ServerLinks = append(s.ServerLinks, l)
	}
}

func genDialogShow(g *G, pk proto.Packet) {
	d := pk.(*p.DialogShow)
	// registered in the Config state only: the dialog is always inline NBT there
	d.ID = 0
	d.BinaryTag = g.Compound()
}

func genServerLogin(g *G, pk proto.Packet) {
	s := pk.(*p.ServerLogin)
	s.Username = g.Str(1, 16)
	switch {
	case g.P == 759: // 1.19: optional key
		if g.present() {
			s.PlayerKey = g.IDKey()
		}
	case g.P == 760: // 1.19.1: optional key, optional holder
		if g.present() {
			s.PlayerKey = g.IDKey()
		}
		if g.present() {
			s.HolderID = g.UUID()
		}
	case g.P >= 761 && g.P <= 763:
		if g.present() {
			s.HolderID = g.UUID()
		}
	case g.P >= 764:
		s.HolderID = g.UUIDMaybeNil()
	}
}

func strp(s string) *string { return &s }

func (g *G) gamemode() int16 { return int16(g.R.Intn(4)) }
func (g *G) prevGamemode() int16 {
	// the wire byte; vanilla's "none" (-1) is 0xFF, which Gate holds as 255
	return []int16{0, 1, 2, 3, 255}[g.R.Intn(5)]
}

func (g *G) dimInfo() *p.DimensionInfo {
	return &p.DimensionInfo{
		RegistryIdentifier: "minecraft:" + g.ident(1+g.R.Intn(10)),
		LevelName:          strp("minecraft:" + g.ident(1+g.R.Intn(10))),
		Flat:               g.Bool(),
		DebugType:          g.Bool(),
	}
}

func (g *G) deathPos() *p.DeathPosition {
	if !g.present() {
		return nil
	}
	return &p.DeathPosition{Key: "minecraft:" + g.ident(6), Value: g.Int64()}
}

func (g *G) dimension() int {
	switch {
	case g.P >= 766: // registry id VarInt
		return g.R.Intn(8)
	default: // 1.7-1.15: -1 nether, 0 overworld, 1 end (byte before 1.9.1, int after)
		return []int{-1, 0, 1}[g.K%3]
	}
}

func genJoinGame(g *G, pk proto.Packet) {
	j := pk.(*p.JoinGame)
	j.EntityID = g.Int32()
	j.Gamemode = g.gamemode()
	j.Hardcore = g.Bool()
	j.Dimension = g.dimension()
	j.PartialHashedSeed = g.Int64()
	j.Difficulty = int16(g.R.Intn(4))
	if g.lt(751) {
		j.MaxPlayers = g.R.Intn(256) // unsigned byte on the wire
	} else {
		j.MaxPlayers = g.NonNeg()
	}
	j.LevelType = strp(g.Str(0, 16))
	j.ViewDistance = g.R.Intn(33)
	j.ReducedDebugInfo = g.Bool()
	j.ShowRespawnScreen = g.Bool()
	j.DoLimitedCrafting = g.Bool()
	n := g.Count(1000)
	for i := 0; i < n; i++ {
		j.LevelNames = append(j.LevelNames, "minecraft:"+g.ident(1+g.R.Intn(12)))
	}
	j.Registry = g.Compound()
	j.DimensionInfo = g.dimInfo()
	j.CurrentDimensionData = g.Compound()
	j.PreviousGamemode = g.prevGamemode()
	j.SimulationDistance = g.R.Intn(33)
	j.LastDeathPosition = g.deathPos()
	j.PortalCooldown = g.NonNeg()
	j.SeaLevel = g.Int32()
	j.OnlineMode = g.Bool()
	j.EnforcesSecureChat = g.Bool()
}

func genRespawn(g *G, pk proto.Packet) {
	r := pk.(*p.Respawn)
	if g.P >= 766 {
		r.Dimension = g.R.Intn(8)
	} else {
		r.Dimension = []int{-1, 0, 1, g.Int32()}[g.R.Intn(4)] // int32 before 1.16
	}
	r.PartialHashedSeed = g.Int64()
	r.Difficulty = int16(g.R.Intn(4))
	r.Gamemode = g.gamemode()
	r.LevelType = g.Str(0, 16)
	if g.lt(761) {
		r.DataToKeep = byte(g.R.Intn(2)) // a boolean before 1.19.3
	} else {
		r.DataToKeep = byte(g.R.Intn(4))
	}
	r.DimensionInfo = g.dimInfo()
	r.PreviousGamemode = g.prevGamemode()
	r.CurrentDimensionData = g.Compound()
	r.LastDeathPosition = g.deathPos()
	r.PortalCooldown = g.NonNeg()
	r.SeaLevel = g.Int32()
}

func genServerData(g *G, pk proto.Packet) {
	s := pk.(*p.ServerData)
	if g.ge(762) || g.present() { // mandatory since 1.19.4
		s.Description = g.Holder()
	}
	if g.present() {
		s.Favicon = favicon.FromBytes(g.Bytes(1, 4096))
	}
	s.SecureChatEnforced = g.Bool()
}

func (g *G) soundSource() p.SoundSource {
	max := 9
	if g.ge(770) { // UI source exists since 1.21.5
		max = 10
	}
	return p.SoundSource(g.R.Intn(max + 1))
}

func genSoundEntity(g *G, pk proto.Packet) {
	s := pk.(*p.SoundEntityPacket)
	if g.K%2 == 1 || g.Class == ClassLarge {
		s.SoundID = 0
		s.SoundName = g.Key()
		if g.Class == ClassLarge { // a resource-pack sound in its own namespace
			s.SoundName = key.New("mypack", "sfx/"+g.ident(5))
		}
		if g.present() {
			f := g.Float32()
			s.FixedRange = &f
		}
	} else {
		s.SoundID = 1 + g.R.Intn(2000)
	}
	s.SoundSource = g.soundSource()
	s.EntityID = g.Int32()
	s.Volume, s.Pitch = g.Float32(), g.Float32()
	s.Seed = g.Int64()
	if s.Seed == 0 {
		s.Seed = 1
	}
}

func genStopSound(g *G, pk proto.Packet) {
	s := pk.(*p.StopSoundPacket)
	if g.present() {
		src := g.soundSource()
		s.Source = &src
	}
	if g.present() {
		s.SoundName = g.Key()
	}
}

func genPluginMessage(g *G, pk proto.Packet) {
	m := pk.(*plugin.Message)
	switch {
	case g.ge(393) || g.Bool(): // 1.13+: namespaced identifiers only
		m.Channel = g.ident(1+g.R.Intn(8)) + ":" + g.ident(1+g.R.Intn(10))
	default:
		m.Channel = []string{"MC|Brand", "REGISTER", "UNREGISTER", "BungeeCord", "FML|HS", "WECUI"}[g.R.Intn(6)]
	}
	max := 30000
	if g.Row.Dir == proto.ServerBound && g.ge(47) {
		max = plugin.MaxServerboundPayloadSize
	}
	m.Data = g.Bytes(0, max)
	if !g.ge(47) && g.R.Intn(3) == 0 {
		// 1.7.x: the byte array carries a short length with Forge's extended form (a third
		// byte) from 32768 bytes on; legal up to ForgeMaxArrayLength
		n := []int{32767, 32768, 32769, 40000, 65535, 65536, 70001}[g.R.Intn(7)]
		m.Data = make([]byte, n)
		g.R.Read(m.Data)
	}
}

func (g *G) sigPairs() ([]*crypto.SignaturePair, *crypto.SignaturePair) {
	var prev []*crypto.SignaturePair
	n := g.Count(chat.MaxPreviousMessageCount)
	for i := 0; i < n; i++ {
		prev = append(prev, &crypto.SignaturePair{Signer: g.UUID(), Signature: g.Bytes(1, 256)})
	}
	var last *crypto.SignaturePair
	if g.present() {
		last = &crypto.SignaturePair{Signer: g.UUID(), Signature: g.Bytes(1, 256)}
	}
	return prev, last
}

func genKeyedChat(g *G, pk proto.Packet) {
	c := pk.(*chat.KeyedPlayerChat)
	c.Message = g.Str(0, 256)
	if g.Class == ClassSmall || g.Bool() { // signed
		salt := g.Int64()
		if salt == 0 {
			salt = 7
		}
		c.Salt = make([]byte, 8)
		binary.BigEndian.PutUint64(c.Salt, uint64(salt))
		c.Signature = g.Bytes(1, 256)
		c.Expiry = g.Time()
		c.SignedPreview = g.Bool()
	} else {
		c.Unsigned = true
	}
	if g.P >= 760 {
		c.PreviousMessages, c.LastMessage = g.sigPairs()
	}
}

// maskKeyedChat zeroes the timestamp of an unsigned message: Encode writes time.Now() there.
func maskKeyedChat(pk proto.Packet, b []byte) []byte {
	c, ok := pk.(*chat.KeyedPlayerChat)
	if !ok || !c.Unsigned {
		return b
	}
	// VarInt length + message, then 8 bytes of time
	n, l := 0, 0
	for i := 0; i < 5 && i < len(b); i++ {
		l |= int(b[i]&0x7f) << (7 * i)
		n++
		if b[i]&0x80 == 0 {
			break
		}
	}
	off := n + l
	if off+8 > len(b) {
		return b
	}
	out := append([]byte(nil), b...)
	for i := 0; i < 8; i++ {
		out[off+i] = 0
	}
	return out
}

func genKeyedCommand(g *G, pk proto.Packet) {
	c := pk.(*chat.KeyedPlayerCommand)
	c.Command = g.Str(0, 256)
	c.Timestamp = g.Time()
	c.SignedPreview = g.Bool()
	n := g.Count(8)
	c.Arguments = map[string][]byte{}
	signed := g.Class == ClassSmall || g.Bool()
	for i := 0; i < n; i++ {
		name := g.Str(0, 14) + fmt.Sprint(i)
		if signed {
			c.Arguments[name] = g.Bytes(1, 256)
		} else {
			c.Arguments[name] = []byte{}
		}
	}
	if signed {
		c.Salt = g.Int64()
		if c.Salt == 0 {
			c.Salt = 9
		}
		if g.P >= 760 {
			c.PreviousMessages, c.LastMessage = g.sigPairs()
		}
	} else {
		c.Unsigned = true
		c.SignedPreview = false
	}
}

func (g *G) lastSeen() chat.LastSeenMessages {
	b := make([]byte, 3) // 20 bits
	g.R.Read(b)
	b[2] &= 0x0f
	return chat.LastSeenMessages{Offset: g.NonNeg(), Acknowledged: mathutil.BitSet{Bytes: b}, Checksum: byte(g.R.Intn(256))}
}

func (g *G) sig256() []byte {
	b := make([]byte, 256)
	g.R.Read(b)
	return b
}

func genSessionChat(g *G, pk proto.Packet) {
	c := pk.(*chat.SessionPlayerChat)
	c.Message = g.Str(0, 256)
	c.Timestamp = g.Time()
	c.Salt = g.Int64()
	c.Signed = g.present()
	if c.Signed {
		c.Signature = g.sig256()
	}
	c.LastSeenMessages = g.lastSeen()
}

func genSessionCommand(g *G, pk proto.Packet) {
	c := pk.(*chat.SessionPlayerCommand)
	max := 256
	if g.ge(766) {
		max = 32767
	}
	c.Command = g.Str(0, max)
	c.Timestamp = g.Time()
	c.Salt = g.Int64()
	n := g.Count(8)
	for i := 0; i < n; i++ {
		c.ArgumentSignatures.Entries = append(c.ArgumentSignatures.Entries, chat.ArgumentSignature{Name: g.Str(0, 16), Signature: g.sig256()})
	}
	c.LastSeenMessages = g.lastSeen()
}

func genLegacyTabList(g *G, pk proto.Packet) {
	l := pk.(*legacytablist.PlayerListItem)
	if g.lt(47) {
		// 1.7: one entry, name + online flag + short ping
		l.Action = []legacytablist.PlayerListItemAction{legacytablist.AddPlayerListItemAction, legacytablist.RemovePlayerListItemAction}[g.R.Intn(2)]
		l.Items = []legacytablist.PlayerListItemEntry{{Name: g.Str(1, 16), Latency: g.R.Intn(32768)}}
		return
	}
	l.Action = legacytablist.PlayerListItemAction(g.R.Intn(5))
	if g.Class == ClassSmall {
		l.Action = legacytablist.AddPlayerListItemAction
	}
	n := g.Count(1000)
	if g.Class == ClassLarge {
		n = 20
	}
	g.Shallow = n > 8
	for i := 0; i < n; i++ {
		it := legacytablist.PlayerListItemEntry{
			ID: g.UUID(), Name: g.Str(1, 16), Properties: g.Props(), GameMode: g.R.Intn(4), Latency: g.Int32(),
		}
		if g.present() {
			it.DisplayName = g.Comp(g.compDepth())
		}
		if g.ge(759) && g.present() {
			it.PlayerKey = g.IDKey()
		}
		l.Items = append(l.Items, it)
	}
}

func genUpsert(g *G, pk proto.Packet) {
	u := pk.(*playerinfo.Upsert)
	allowed := 6
	if g.ge(768) {
		allowed = 7 // list order, 1.21.2
	}
	if g.ge(769) {
		allowed = 8 // hat, 1.21.4
	}
	for i := 0; i < allowed; i++ {
		if g.Class != ClassRandom || g.Bool() {
			u.ActionSet = append(u.ActionSet, playerinfo.UpsertActions[i])
		}
	}
	if g.K%6 == 5 {
		// the same set in another slice order (a set has no order; Velocity uses an EnumSet)
		for len(u.ActionSet) < 2 {
			u.ActionSet = append([]playerinfo.UpsertAction{}, playerinfo.UpsertActions[:3]...)
		}
		for i, j := 0, len(u.ActionSet)-1; i < j; i, j = i+1, j-1 {
			u.ActionSet[i], u.ActionSet[j] = u.ActionSet[j], u.ActionSet[i]
		}
		canonical := true
		idx := func(a playerinfo.UpsertAction) int {
			for k, x := range playerinfo.UpsertActions {
				if x == a {
					return k
				}
			}
			return -1
		}
		for i := 1; i < len(u.ActionSet); i++ {
			if idx(u.ActionSet[i-1]) > idx(u.ActionSet[i]) {
				canonical = false
			}
		}
		if !canonical {
			g.Variant = "actionset-not-in-canonical-order"
		}
	}
	n := g.Count(1000)
	if g.Class == ClassLarge {
		n = 10
	}
	g.Shallow = n > 8
	for i := 0; i < n; i++ {
		id := g.UUID()
		e := &playerinfo.Entry{
			ProfileID: id,
			Profile:   profile.GameProfile{ID: id, Name: g.Str(1, 16), Properties: g.Props()},
			Listed:    g.Bool(), Latency: g.Int32(), GameMode: g.R.Intn(4), ShowHat: g.Bool(), ListOrder: g.Int32(),
		}
		if g.present() {
			e.DisplayName = g.Holder()
		}
		if g.present() {
			e.RemoteChatSession = &chat.RemoteChatSession{ID: g.UUID(), Key: g.IDKey()}
		}
		u.Entries = append(u.Entries, e)
	}
}

// ---- brigadier ----------------------------------------------------------------------------------

type askServer struct{}

func (askServer) Suggestions(_ *brigodier.CommandContext, b *brigodier.SuggestionsBuilder) *brigodier.Suggestions {
	return b.Build()
}

var passthroughNames = []string{
	"minecraft:game_profile", "minecraft:block_pos", "minecraft:vec3", "minecraft:item_stack", "minecraft:color",
	"minecraft:component", "minecraft:message", "minecraft:nbt_path", "minecraft:objective", "minecraft:score_holder",
	"minecraft:swizzle", "minecraft:team", "minecraft:item_slot", "minecraft:resource_location", "minecraft:function",
	"minecraft:int_range", "minecraft:dimension", "minecraft:time", "minecraft:uuid", "minecraft:nbt",
	"minecraft:resource_or_tag", "minecraft:resource",
}

func varint(v int) []byte {
	var b []byte
	u := uint32(v)
	for u >= 0x80 {
		b = append(b, byte(u)|0x80)
		u >>= 7
	}
	return append(b, byte(u))
}

// decodedArg obtains an argument type that only Gate's decoder can construct (pass-through
// properties and mod arguments have unexported constructors), by decoding a minimal wire form.
func (g *G) decodedArg() brigodier.ArgumentType {
	for try := 0; try < 8; try++ {
		var b []byte
		if g.ge(759) {
			// (crossstitch mod arguments, id -256, are not generated: the proxy deliberately
			// re-writes them unwrapped for the client, they are a one-way type)
			b = varint(g.R.Intn(58))
			if g.Bool() {
				b = append(b, byte(len("minecraft:worldgen/biome")))
				b = append(b, "minecraft:worldgen/biome"...)
			} else {
				b = append(b, byte(g.R.Intn(4)), 0, 0, byte(g.R.Intn(200)), 0, 0, 0, 0)
			}
		} else {
			name := passthroughNames[g.R.Intn(len(passthroughNames))]
			b = append(varint(len(name)), name...)
			b = append(b, byte(len("minecraft:worldgen/biome")))
			b = append(b, "minecraft:worldgen/biome"...)
		}
		t, err := brig.Decode(bytes.NewReader(b), g.P)
		if _, mod := t.(*brig.ModArgumentProperty); err == nil && t != nil && !mod {
			return t
		}
	}
	return nil
}

func (g *G) argType() brigodier.ArgumentType {
	for try := 0; try < 10; try++ {
		var t brigodier.ArgumentType
		switch g.R.Intn(12) {
		case 0:
			t = brigodier.Bool
		case 1:
			t = &brigodier.Float32ArgumentType{Min: brigodier.MinFloat32, Max: brigodier.MaxFloat32}
			if g.Bool() {
				t = &brigodier.Float32ArgumentType{Min: -g.Float32(), Max: brigodier.MaxFloat32}
			}
		case 2:
			t = &brigodier.Float64ArgumentType{Min: -1.5, Max: float64(g.R.Intn(1000))}
		case 3:
			t = &brigodier.Int32ArgumentType{Min: brigodier.MinInt32, Max: int32(g.R.Intn(1000))}
			if g.Bool() {
				t = brigodier.Int
			}
		case 4:
			t = &brigodier.Int64ArgumentType{Min: -int64(g.R.Intn(1000)) - 1, Max: 1 << 40}
		case 5:
			t = brigodier.StringType(g.R.Intn(3))
		case 6:
			t = &brig.EntityArgumentType{SingleEntity: g.Bool(), OnlyPlayers: g.Bool()}
		case 7:
			t = &brig.RegistryKeyArgumentType{Identifier: "minecraft:" + g.ident(6)}
		case 8:
			t = &brig.ResourceOrTagKeyArgumentType{Identifier: "minecraft:" + g.ident(6)}
		case 9:
			t = &brig.ResourceKeyArgumentType{Identifier: "minecraft:" + g.ident(6)}
		case 10:
			t = &brig.ResourceSelectorArgumentType{Identifier: "minecraft:" + g.ident(6)}
		default:
			if g.Class != ClassSmall {
				t = g.decodedArg()
			}
		}
		if t == nil {
			continue
		}
		// keep only what this protocol version can express (Gate's encoder knows the id tables)
		if err := brig.Encode(new(bytes.Buffer), t, g.P); err == nil {
			return t
		}
	}
	return brigodier.Bool
}

func genAvailableCommands(g *G, pk proto.Packet) {
	a := pk.(*p.AvailableCommands)
	root := &brigodier.RootCommandNode{}
	cmd := brigodier.CommandFunc(func(*brigodier.CommandContext) error { return nil })
	req := brigodier.RequireFn(func(context.Context) bool { return true })
	nLit := 1
	switch g.Class {
	case ClassLarge:
		nLit = 40
	case ClassRandom:
		nLit = g.R.Intn(5)
	}
	var lits []*brigodier.LiteralCommandNode
	for i := 0; i < nLit; i++ {
		lb := brigodier.Literal(g.ident(1+g.R.Intn(8)) + fmt.Sprint(i))
		if g.Bool() {
			lb.Executes(cmd)
		}
		if g.R.Intn(4) == 0 {
			lb.Requires(req)
		}
		if len(lits) > 0 && g.R.Intn(4) == 0 {
			lb.Redirect(lits[g.R.Intn(len(lits))]) // alias of an earlier literal
		} else {
			// a chain of 0..3 arguments, possibly a second branch
			depth := g.R.Intn(4)
			var chain brigodier.ArgumentNodeBuilder
			for d := depth; d > 0; d-- {
				ab := brigodier.Argument(g.ident(1+g.R.Intn(6))+fmt.Sprint(d), g.argType())
				if g.Bool() {
					ab.Executes(cmd)
				}
				if g.R.Intn(4) == 0 {
					ab.Suggests(askServer{})
				}
				if g.R.Intn(6) == 0 {
					ab.Requires(req)
				}
				if chain != nil {
					ab.Then(chain)
				}
				chain = ab
			}
			if chain != nil {
				lb.Then(chain)
			}
			if g.R.Intn(3) == 0 {
				lb.Then(brigodier.Literal("sub" + g.ident(3)).Executes(cmd))
			}
		}
		n := lb.BuildLiteral()
		lits = append(lits, n)
		root.AddChild(n)
	}
	if len(lits) > 0 && g.R.Intn(3) == 0 {
		// "execute run"-style redirect to the root
		root.AddChild(brigodier.Literal("run" + g.ident(2)).Redirect(root).BuildLiteral())
	}
	a.RootNode = root
}

// DescribeTree renders a command graph independently of Gate's encoder: depth-first, ids in
// discovery order, children in registration order.
func DescribeTree(root brigodier.CommandNode) string {
	if root == nil || reflect.ValueOf(root).IsNil() {
		return "<nil>"
	}
	ids := map[brigodier.CommandNode]int{}
	var sb strings.Builder
	var walk func(n brigodier.CommandNode)
	walk = func(n brigodier.CommandNode) {
		if id, ok := ids[n]; ok {
			fmt.Fprintf(&sb, "#%d", id)
			return
		}
		ids[n] = len(ids)
		switch t := n.(type) {
		case *brigodier.RootCommandNode:
			sb.WriteString("root")
		case *brigodier.LiteralCommandNode:
			fmt.Fprintf(&sb, "lit(%q)", t.Name())
		case *brigodier.ArgumentCommandNode:
			fmt.Fprintf(&sb, "arg(%q,%s,sugg=%v)", t.Name(), DescribeArg(t.Type()), t.CustomSuggestions() != nil)
		default:
			fmt.Fprintf(&sb, "?%T", n)
		}
		fmt.Fprintf(&sb, "[x=%v,r=%v]", n.Command() != nil, n.Requirement() != nil)
		if rd := n.Redirect(); rd != nil {
			sb.WriteString("->(")
			walk(rd)
			sb.WriteString(")")
		}
		sb.WriteString("{")
		n.ChildrenOrdered().Range(func(_ string, c brigodier.CommandNode) bool {
			walk(c)
			sb.WriteString(",")
			return true
		})
		sb.WriteString("}")
	}
	walk(root)
	return sb.String()
}

// DescribeArg renders an argument type with all its properties.
func DescribeArg(t brigodier.ArgumentType) string {
	switch v := t.(type) {
	case *brig.ModArgumentProperty:
		return fmt.Sprintf("mod(%s,%x)", v.Identifier, v.Data)
	}
	rv := reflect.ValueOf(t)
	for rv.Kind() == reflect.Ptr && !rv.IsNil() {
		rv = rv.Elem()
	}
	var parts []string
	if rv.Kind() == reflect.Struct {
		for i := 0; i < rv.NumField(); i++ {
			f := rv.Field(i)
			name := rv.Type().Field(i).Name
			switch f.Kind() {
			case reflect.Ptr, reflect.Func, reflect.Interface:
				if name == "result" && f.Kind() == reflect.Interface && !f.IsNil() {
					parts = append(parts, fmt.Sprintf("%s=%v", name, f.Elem()))
				} else if name == "identifier" && !f.IsNil() {
					parts = append(parts, fmt.Sprintf("%s=%v", name, f.Elem().FieldByName("id")))
				}
			default:
				parts = append(parts, fmt.Sprintf("%s=%v", name, f))
			}
		}
	} else {
		parts = append(parts, fmt.Sprintf("%v", rv))
	}
	return fmt.Sprintf("%T(%s)", t, strings.Join(parts, ","))
}
