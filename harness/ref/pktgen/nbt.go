package pktgen

import (
	"bytes"
	"encoding/binary"
	"math"

	"github.com/Tnze/go-mc/nbt"
)

// A tiny NBT writer, independent of go-mc's encoder: it only produces the raw payload bytes
// that nbt.RawMessage carries (the payload of the root tag, without type byte and name).

const (
	tagEnd       = 0
	tagByte      = 1
	tagShort     = 2
	tagInt       = 3
	tagLong      = 4
	tagFloat     = 5
	tagDouble    = 6
	tagByteArray = 7
	tagString    = 8
	tagList      = 9
	tagCompound  = 10
	tagIntArray  = 11
	tagLongArray = 12
)

func nbtString(b *bytes.Buffer, s string) {
	_ = binary.Write(b, binary.BigEndian, uint16(len(s)))
	b.WriteString(s)
}

// nbtPayload writes a random payload of the given tag type, depth-limited.
func (g *G) nbtPayload(b *bytes.Buffer, typ byte, depth int) {
	switch typ {
	case tagByte:
		b.WriteByte(byte(g.R.Intn(256)))
	case tagShort:
		_ = binary.Write(b, binary.BigEndian, int16(g.R.Intn(65536)))
	case tagInt:
		_ = binary.Write(b, binary.BigEndian, int32(g.R.Uint32()))
	case tagLong:
		_ = binary.Write(b, binary.BigEndian, int64(g.R.Uint64()))
	case tagFloat:
		_ = binary.Write(b, binary.BigEndian, math.Float32bits(float32(g.R.NormFloat64())))
	case tagDouble:
		_ = binary.Write(b, binary.BigEndian, math.Float64bits(g.R.NormFloat64()))
	case tagByteArray:
		n := g.R.Intn(9)
		_ = binary.Write(b, binary.BigEndian, int32(n))
		for i := 0; i < n; i++ {
			b.WriteByte(byte(g.R.Intn(256)))
		}
	case tagString:
		nbtString(b, g.ident(1+g.R.Intn(12)))
	case tagList:
		et := []byte{tagByte, tagInt, tagString, tagCompound, tagDouble}[g.R.Intn(5)]
		n := g.R.Intn(4)
		if depth <= 0 && et == tagCompound {
			et = tagInt
		}
		if n == 0 {
			et = tagEnd
		}
		b.WriteByte(et)
		_ = binary.Write(b, binary.BigEndian, int32(n))
		for i := 0; i < n; i++ {
			g.nbtPayload(b, et, depth-1)
		}
	case tagCompound:
		n := g.R.Intn(5)
		if depth <= 0 {
			n = g.R.Intn(2)
		}
		for i := 0; i < n; i++ {
			types := []byte{tagByte, tagShort, tagInt, tagLong, tagFloat, tagDouble, tagByteArray, tagString, tagList, tagCompound, tagIntArray, tagLongArray}
			t := types[g.R.Intn(len(types))]
			if depth <= 0 && (t == tagCompound || t == tagList) {
				t = tagString
			}
			b.WriteByte(t)
			nbtString(b, g.ident(1+g.R.Intn(8))+string(rune('a'+i)))
			g.nbtPayload(b, t, depth-1)
		}
		b.WriteByte(tagEnd)
	case tagIntArray:
		n := g.R.Intn(5)
		_ = binary.Write(b, binary.BigEndian, int32(n))
		for i := 0; i < n; i++ {
			_ = binary.Write(b, binary.BigEndian, int32(g.R.Uint32()))
		}
	case tagLongArray:
		n := g.R.Intn(4)
		_ = binary.Write(b, binary.BigEndian, int32(n))
		for i := 0; i < n; i++ {
			_ = binary.Write(b, binary.BigEndian, int64(g.R.Uint64()))
		}
	}
}

// Compound returns a random compound tag (depth by value class).
func (g *G) Compound() nbt.RawMessage {
	var b bytes.Buffer
	depth := 1
	if g.Class == ClassLarge {
		depth = 4
	} else if g.Class == ClassRandom {
		depth = g.R.Intn(4)
	}
	g.nbtPayload(&b, tagCompound, depth)
	return nbt.RawMessage{Type: tagCompound, Data: b.Bytes()}
}

// DeepCompound nests compounds n levels (used by the hostile-payload generator too).
func DeepCompound(n int) []byte {
	var b bytes.Buffer
	for i := 0; i < n; i++ {
		b.WriteByte(tagCompound)
		nbtString(&b, "")
	}
	for i := 0; i < n; i++ {
		b.WriteByte(tagEnd)
	}
	b.WriteByte(tagEnd)
	return b.Bytes()
}
