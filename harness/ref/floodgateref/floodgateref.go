// Package floodgateref is an independent reference implementation of the Floodgate
// (GeyserMC) identity-data codec, used as the oracle of check C39.
//
// It is a transcription (from memory, marked TRUSTED in DESIGN.md §5) of
//
//	org.geysermc.floodgate.crypto.FloodgateCipher   (IDENTIFIER, VERSION, HEADER, checkHeader, version)
//	org.geysermc.floodgate.crypto.AesCipher         (encrypt / decrypt: AES/GCM/NoPadding, 12 byte IV,
//	                                                 128 bit tag, HEADER + topping(iv) + 0x21 + topping(ct))
//	org.geysermc.floodgate.crypto.Base64Topping     (java.util.Base64.getEncoder()/getDecoder())
//	org.geysermc.floodgate.util.BedrockData         (12 NUL separated fields, String.split semantics)
//
// and of java.util.Base64.Decoder#decode0 (the "basic" RFC 4648 decoder of the JDK). It uses the
// standard library only and never imports Gate's floodgate package.
package floodgateref

import (
	"crypto/aes"
	"crypto/cipher"
	"errors"
	"strconv"
	"strings"
)

const (
	// Identifier is FloodgateCipher.IDENTIFIER.
	Identifier = "^Floodgate^"
	// Version is FloodgateCipher.VERSION.
	Version = 0
	// Magic is the constant added to the version in the header byte.
	Magic = 0x3E
	// Splitter separates topping(iv) from topping(ciphertext).
	Splitter = 0x21
	// IVLength is AesCipher.IV_LENGTH.
	IVLength = 12
	// ExpectedFields is BedrockData.EXPECTED_LENGTH.
	ExpectedFields = 12
)

// Header is FloodgateCipher.HEADER: IDENTIFIER followed by (char)(VERSION + 0x3E).
var Header = []byte(Identifier + string(rune(Version+Magic)))

const alphabet = "ABCDEFGHIJKLMNOPQRSTUVWXYZabcdefghijklmnopqrstuvwxyz0123456789+/"

var fromBase64 [256]int

func init() {
	for i := range fromBase64 {
		fromBase64[i] = -1
	}
	for i := 0; i < len(alphabet); i++ {
		fromBase64[alphabet[i]] = i
	}
	fromBase64['='] = -2
}

// JavaBase64Encode is java.util.Base64.getEncoder().encode: RFC 4648 alphabet, '=' padding,
// no line breaks, unused trailing bits zero.
func JavaBase64Encode(src []byte) []byte {
	out := make([]byte, 0, (len(src)+2)/3*4)
	for i := 0; i+3 <= len(src); i += 3 {
		v := uint(src[i])<<16 | uint(src[i+1])<<8 | uint(src[i+2])
		out = append(out, alphabet[v>>18&63], alphabet[v>>12&63], alphabet[v>>6&63], alphabet[v&63])
	}
	switch len(src) % 3 {
	case 1:
		v := uint(src[len(src)-1]) << 16
		out = append(out, alphabet[v>>18&63], alphabet[v>>12&63], '=', '=')
	case 2:
		v := uint(src[len(src)-2])<<16 | uint(src[len(src)-1])<<8
		out = append(out, alphabet[v>>18&63], alphabet[v>>12&63], alphabet[v>>6&63], '=')
	}
	return out
}

// ErrBase64 is returned where the JDK decoder throws IllegalArgumentException.
var ErrBase64 = errors.New("java.util.Base64: IllegalArgumentException")

// JavaBase64Decode follows java.util.Base64.Decoder#decode0 for the basic (non-URL, non-MIME)
// decoder:
//   - any byte outside the alphabet (including CR, LF, space) is rejected,
//   - padding is optional ("QQ" and "QQ==" both decode to "A") but, if present, must be
//     complete and final ("QQ=" and "QQ==Q" are rejected),
//   - a dangling single character is rejected,
//   - the unused low bits of the last unit are NOT checked ("QR==" decodes to "A" as well).
func JavaBase64Decode(src []byte) ([]byte, error) {
	if len(src) == 1 {
		// decodedOutLength: "Input byte[] should at least have 2 bytes for base64 bytes"
		return nil, ErrBase64
	}
	dst := make([]byte, 0, len(src)/4*3+3)
	sp, sl := 0, len(src)
	bits, shiftto := 0, 18
	for sp < sl {
		b := fromBase64[src[sp]]
		sp++
		if b < 0 {
			if b == -2 {
				// '=': "=" (shiftto 18) unnecessary padding; "xx=" without second '=';
				// "x=" is caught below as a dangling unit.
				if shiftto == 18 {
					return nil, ErrBase64
				}
				if shiftto == 6 {
					if sp == sl {
						return nil, ErrBase64
					}
					c := src[sp]
					sp++
					if c != '=' {
						return nil, ErrBase64
					}
				}
				break
			}
			return nil, ErrBase64 // "Illegal base64 character"
		}
		bits |= b << shiftto
		shiftto -= 6
		if shiftto < 0 {
			dst = append(dst, byte(bits>>16), byte(bits>>8), byte(bits))
			shiftto = 18
			bits = 0
		}
	}
	switch shiftto {
	case 6:
		dst = append(dst, byte(bits>>16))
	case 0:
		dst = append(dst, byte(bits>>16), byte(bits>>8))
	case 12:
		return nil, ErrBase64 // "Last unit does not have enough valid bits"
	}
	if sp < sl {
		return nil, ErrBase64 // "Input byte array has incorrect ending byte"
	}
	return dst, nil
}

// Errors of Decrypt; each names the step of AesCipher.decrypt / the handshake handler that
// would refuse the data.
var (
	ErrKey      = errors.New("floodgateref: key must be 16, 24 or 32 bytes")
	ErrHeader   = errors.New("floodgateref: InvalidFormatException (header)")
	ErrVersion  = errors.New("floodgateref: data version is not FloodgateCipher.VERSION")
	ErrSplitter = errors.New("floodgateref: no 0x21 splitter")
	ErrIV       = errors.New("floodgateref: empty IV")
	ErrTag      = errors.New("floodgateref: AEADBadTagException")
)

// Encrypt is AesCipher.encrypt with a caller supplied IV (Floodgate draws 12 bytes from a
// SecureRandom): HEADER + base64(iv) + 0x21 + base64(AES-GCM(key, iv, data)).
func Encrypt(key, iv, data []byte) ([]byte, error) {
	if len(key) != 16 && len(key) != 24 && len(key) != 32 {
		return nil, ErrKey
	}
	blk, err := aes.NewCipher(key)
	if err != nil {
		return nil, err
	}
	gcm, err := cipher.NewGCMWithNonceSize(blk, len(iv))
	if err != nil {
		return nil, err
	}
	ct := gcm.Seal(nil, iv, data, nil)
	out := append([]byte{}, Header...)
	out = append(out, JavaBase64Encode(iv)...)
	out = append(out, Splitter)
	out = append(out, JavaBase64Encode(ct)...)
	return out, nil
}

// Decrypt is what a Floodgate installation does with the data item of a hostname:
// FloodgateCipher.version(data) must equal VERSION (HandshakeHandlerImpl), checkHeader, then
// AesCipher.decrypt with the Base64 topping: the IV is everything up to the first 0x21, the
// ciphertext everything after it, both decoded with the JDK basic decoder, then
// AES/GCM/NoPadding with a 128 bit tag (javax.crypto accepts any non-empty IV length).
func Decrypt(key, blob []byte) ([]byte, error) {
	if len(key) != 16 && len(key) != 24 && len(key) != 32 {
		return nil, ErrKey
	}
	if len(blob) <= len(Header) {
		return nil, ErrHeader
	}
	for i := 0; i < len(Identifier); i++ {
		if blob[i] != Identifier[i] {
			return nil, ErrHeader
		}
	}
	if int(blob[len(Identifier)])-Magic != Version {
		return nil, ErrVersion
	}
	rest := blob[len(Header):]
	split := -1
	for i, c := range rest {
		if c == Splitter {
			split = i
			break
		}
	}
	if split < 0 {
		// AesCipher would take everything but the last byte as IV and an empty ciphertext,
		// which can never authenticate.
		return nil, ErrSplitter
	}
	iv, err := JavaBase64Decode(rest[:split])
	if err != nil {
		return nil, err
	}
	ct, err := JavaBase64Decode(rest[split+1:])
	if err != nil {
		return nil, err
	}
	if len(iv) == 0 {
		return nil, ErrIV
	}
	blk, err := aes.NewCipher(key)
	if err != nil {
		return nil, err
	}
	gcm, err := cipher.NewGCMWithNonceSize(blk, len(iv))
	if err != nil {
		return nil, err
	}
	if len(ct) < gcm.Overhead() {
		return nil, ErrTag
	}
	pt, err := gcm.Open(nil, iv, ct, nil)
	if err != nil {
		return nil, ErrTag
	}
	return pt, nil
}

// Record is the 12 field BedrockData record in wire order, every field as the string that
// BedrockData.toString() writes.
type Record [ExpectedFields]string

// Field indexes of Record.
const (
	FVersion = iota
	FUsername
	FXuid
	FDeviceOS
	FLanguage
	FUIProfile
	FInputMode
	FIP
	FLinkedPlayer
	FFromProxy
	FSubscribeID
	FVerifyCode
)

// String is BedrockData.toString(): the fields joined by NUL.
func (r Record) String() string { return strings.Join(r[:], "\x00") }

// ErrRecord is returned where BedrockData.fromString yields emptyData(..) or throws.
var ErrRecord = errors.New("floodgateref: not a 12 field BedrockData record")

// javaSplitNUL is String.split("\0"): trailing empty strings are removed (limit 0); an input
// without the separator yields the input itself.
func javaSplitNUL(s string) []string {
	parts := strings.Split(s, "\x00")
	for len(parts) > 0 && parts[len(parts)-1] == "" {
		parts = parts[:len(parts)-1]
	}
	if len(parts) == 0 {
		// "".split(..) is [""], "\0\0".split(..) is []: neither has 12 items.
		return nil
	}
	return parts
}

func javaParseInt(s string) bool {
	// Integer.parseInt: optional sign, decimal digits, 32 bit range.
	if s == "" {
		return false
	}
	_, err := strconv.ParseInt(s, 10, 32)
	return err == nil
}

// ParseRecord is BedrockData.fromString: String.split("\0") must give exactly 12 items and the
// numeric fields (deviceOs, uiProfile, inputMode, subscribeId) must pass Integer.parseInt.
func ParseRecord(plain string) (Record, error) {
	var r Record
	parts := javaSplitNUL(plain)
	if len(parts) != ExpectedFields {
		return r, ErrRecord
	}
	copy(r[:], parts)
	for _, i := range []int{FDeviceOS, FUIProfile, FInputMode, FSubscribeID} {
		if !javaParseInt(r[i]) {
			return r, ErrRecord
		}
	}
	return r, nil
}

// HasTrailingEmpty reports whether String.split would shorten the record (an empty last
// field cannot be carried by Floodgate's own format).
func (r Record) HasTrailingEmpty() bool { return r[ExpectedFields-1] == "" }
