// Package frameref is the reference frame decoder the C02 monitor compares Gate against.
//
// It is written from the acceptance rules spelled out in property C02 (a transcription of
// Velocity's MinecraftVarintFrameDecoder + MinecraftCompressDecoder) and deliberately shares
// no code with Gate: its own VarInt reader, its own framing loop, compress/zlib from the
// standard library. It imports nothing from go.minekube.com/gate.
//
// Rules implemented (and nothing more):
//
//	frame layer     length prefix is a VarInt of at most 21 bits (3 bytes); a longer prefix or a
//	                negative value is rejected; length 0 is an empty frame and is skipped;
//	                otherwise exactly `length` bytes form the frame body (an incomplete frame at
//	                the end of the stream is "need more", never a payload).
//	compression off the frame body is the payload.
//	compression on  the body starts with the claimed uncompressed size (VarInt, <= 5 bytes).
//	                claimed == 0: the rest is an uncompressed payload; rejected if it is larger
//	                than the threshold (exactly threshold is tolerated, as vanilla does).
//	                claimed != 0: rejected if negative, below the threshold or above the direction
//	                cap; the rest must be a zlib stream that inflates to exactly `claimed` bytes.
//	empty payloads  are skipped (they carry no packet id).
//
// Where the statement is silent the result carries a Latitude flag instead of a verdict
// (non-minimal VarInts, bytes after the end of the zlib stream, a zlib stream that delivers
// exactly the claimed bytes and then turns out corrupt, > 10 consecutive empty frames).
package frameref

import (
	"bytes"
	"compress/zlib"
	"errors"
	"fmt"
	"io"
	"sync"
)

const (
	// MaxFrame is the largest frame body a 21-bit length prefix can announce.
	MaxFrame = 1<<21 - 1
	// CapFromClient / CapFromServer are the direction caps on the claimed uncompressed size.
	CapFromClient = 2 * 1024 * 1024
	CapFromServer = 8 * 1024 * 1024
)

// Config selects the decoder's settings.
type Config struct {
	Threshold int // < 0: compression off
	Cap       int // direction cap for the claimed uncompressed size
}

// End says how the reference stopped.
type End int

const (
	// NeedMore: the stream ended cleanly or in the middle of a frame; nothing was rejected.
	NeedMore End = iota
	// Reject: the frame at Result.RejectAt is refused; the stream is dead.
	Reject
)

// Result is the reference outcome for one byte stream.
type Result struct {
	Payloads [][]byte // non-empty payloads in order
	End      End
	Reason   string // for Reject: which rule (human readable)
	Code     string // for Reject: stable slug of the rule
	RejectAt int    // byte offset of the rejected frame
	// Latitude is non-empty when the statement does not decide this stream beyond the frames
	// already yielded; LatitudeAfter is the number of payloads that are decided.
	Latitude      string
	LatitudeAfter int
	// Diagnostics for the monitor
	NonMinimalClaimed bool  // a claimed-size VarInt was not minimally encoded (decided all the same)
	NonMinimal        bool  // some VarInt prefix was not minimally encoded
	Frames            int   // frames seen (including empty and rejected ones)
	EmptyRunMax       int   // longest run of consecutive empty payloads
	MaxFrameAlloc     int   // largest frame body a correct decoder has to allocate
	MaxInflate        int   // largest claimed size a correct decoder has to allocate
	LegitAlloc        int64 // sum of frame bodies and accepted claimed sizes: what a correct decoder may allocate
	SawCompressed     bool
	SawUncompInCmp    bool
}

// VarInt reads a VarInt of at most max bytes. ok=false, need=true: ran out of bytes;
// ok=false, need=false: too long. minimal reports whether the encoding was the shortest one.
func VarInt(b []byte, max int) (v int32, n int, minimal, ok, need bool) {
	var u uint32
	for i := 0; i < max; i++ {
		if i >= len(b) {
			return 0, i, false, false, true
		}
		c := b[i]
		u |= uint32(c&0x7f) << (7 * uint(i))
		if c&0x80 == 0 {
			n = i + 1
			minimal = n == 1 || c != 0
			if n == 5 && c > 0x0f {
				minimal = false // bits above 32 set: not a canonical encoding
			}
			return int32(u), n, minimal, true, false
		}
	}
	return 0, max, false, false, false
}

// PutVarInt appends the minimal encoding of v.
func PutVarInt(dst []byte, v int32) []byte {
	u := uint32(v)
	for u >= 0x80 {
		dst = append(dst, byte(u)|0x80)
		u >>= 7
	}
	return append(dst, byte(u))
}

// VarIntLen is the length of the minimal encoding.
func VarIntLen(v int32) int { return len(PutVarInt(nil, v)) }

// Decode runs the reference decoder over a complete byte stream.
func Decode(stream []byte, cfg Config) Result {
	var res Result
	pos := 0
	emptyRun := 0
	lat := func(why string) {
		if res.Latitude == "" {
			res.Latitude = why
			res.LatitudeAfter = len(res.Payloads)
		}
	}
	reject := func(at int, code, reason string) Result {
		res.End, res.Code, res.Reason, res.RejectAt = Reject, code, reason, at
		return res
	}
	empty := func() {
		emptyRun++
		if emptyRun > res.EmptyRunMax {
			res.EmptyRunMax = emptyRun
		}
		if emptyRun > 10 {
			lat("more than 10 consecutive empty frames")
		}
	}
	for pos < len(stream) {
		start := pos
		length, n, minimal, ok, need := VarInt(stream[pos:], 3)
		if !ok {
			if need {
				res.End = NeedMore
				return res
			}
			res.Frames++
			// whether the over-long prefix itself was minimal only matters for the diagnostics
			if _, _, m5, ok5, _ := VarInt(stream[pos:], 5); ok5 && !m5 {
				res.NonMinimal = true
				lat("non-minimal length prefix")
			}
			return reject(start, "length-prefix-longer-than-21-bits", "length prefix longer than 21 bits")
		}
		if !minimal {
			res.NonMinimal = true
			lat("non-minimal length prefix")
		}
		pos += n
		res.Frames++
		if length == 0 {
			empty()
			continue
		}
		// length is 1..2^21-1 here (3 bytes of 7 bits, non-negative)
		if int(length) > res.MaxFrameAlloc {
			res.MaxFrameAlloc = int(length) // a decoder may allocate the announced body
		}
		res.LegitAlloc += int64(length)
		if len(stream)-pos < int(length) {
			res.End = NeedMore
			return res
		}
		body := stream[pos : pos+int(length)]
		pos += int(length)

		var payload []byte
		if cfg.Threshold < 0 {
			payload = body
		} else {
			claimed, cn, cmin, cok, cneed := VarInt(body, 5)
			if !cok {
				if cneed {
					return reject(start, "claimed-size-varint-truncated", "claimed-size VarInt truncated by the frame end")
				}
				return reject(start, "claimed-size-varint-too-long", "claimed-size VarInt longer than 5 bytes")
			}
			if !cmin {
				// The statement's restriction to minimal encodings is about the frame's length
				// prefix (Velocity's frame decoder reads that one with its own 3-byte routine).
				// The claimed size is read with the ordinary VarInt reader, which takes any
				// encoding of up to five bytes at its value; the data starts behind it.
				res.NonMinimalClaimed = true
			}
			rest := body[cn:]
			if claimed == 0 {
				res.SawUncompInCmp = true
				if len(rest) > cfg.Threshold {
					return reject(start, "uncompressed-frame-larger-than-threshold",
						fmt.Sprintf("uncompressed frame of %d bytes is larger than threshold %d", len(rest), cfg.Threshold))
				}
				payload = rest
			} else {
				res.SawCompressed = true
				switch {
				case claimed < 0:
					return reject(start, "claimed-size-negative", fmt.Sprintf("claimed size %d is negative", claimed))
				case int(claimed) < cfg.Threshold:
					return reject(start, "claimed-size-below-threshold", fmt.Sprintf("claimed size %d below threshold %d", claimed, cfg.Threshold))
				case int(claimed) > cfg.Cap:
					return reject(start, "claimed-size-above-direction-cap", fmt.Sprintf("claimed size %d above direction cap %d", claimed, cfg.Cap))
				}
				if int(claimed) > res.MaxInflate {
					res.MaxInflate = int(claimed)
				}
				res.LegitAlloc += int64(claimed)
				out, verdict, code, why := inflateExactly(rest, int(claimed))
				switch verdict {
				case inflateReject:
					return reject(start, code, why)
				case inflateLatitude:
					lat(why)
					// undecided: stop here, the monitor only judges what came before
					return reject(start, "undecided", "undecided: "+why)
				}
				payload = out
			}
		}
		if len(payload) == 0 {
			empty()
			continue
		}
		emptyRun = 0
		res.Payloads = append(res.Payloads, payload)
	}
	res.End = NeedMore
	return res
}

type inflateVerdict int

const (
	inflateOK inflateVerdict = iota
	inflateReject
	inflateLatitude
)

// inflateExactly inflates a zlib stream and accepts it only if it yields exactly want bytes.
func inflateExactly(z []byte, want int) ([]byte, inflateVerdict, string, string) {
	src := bytes.NewReader(z)
	zr, err := zlib.NewReader(src)
	if err != nil {
		return nil, inflateReject, "body-not-a-zlib-stream", "body is not a zlib stream: " + err.Error()
	}
	var out bytes.Buffer
	out.Grow(min(want+1, 1<<20) + bytes.MinRead)
	n, err := io.CopyN(&out, zr, int64(want)+1)
	switch {
	case n > int64(want):
		return nil, inflateReject, "body-inflates-to-more-than-claimed", "body inflates to more than the claimed size"
	case n < int64(want):
		if err == nil || errors.Is(err, io.EOF) {
			return nil, inflateReject, "body-inflates-to-less-than-claimed", "body inflates to less than the claimed size"
		}
		return nil, inflateReject, "body-truncated-or-corrupt-zlib", "body is a truncated or corrupt zlib stream (short of the claimed size): " + err.Error()
	}
	// exactly want bytes delivered
	if !errors.Is(err, io.EOF) {
		// delivered the claimed bytes, then the stream turned out corrupt/truncated/bad checksum
		_ = err // corrupt data, bad checksum or a missing trailer after the last claimed byte
		return nil, inflateLatitude, "", "zlib stream delivers exactly the claimed size but then fails (corrupt tail, bad checksum or missing trailer)"
	}
	if src.Len() > 0 {
		return out.Bytes(), inflateLatitude, "", "bytes after the end of the zlib stream inside the frame"
	}
	return out.Bytes(), inflateOK, "", ""
}

// ---------------------------------------------------------------------------------------
// Reference encoder (to build valid streams that are then mutated).

// Frame wraps body with its minimal length prefix.
func Frame(dst, body []byte) []byte {
	dst = PutVarInt(dst, int32(len(body)))
	return append(dst, body...)
}

// Compressed builds the body of a compressed frame: claimed size + zlib(data).
func Compressed(claimed int32, data []byte, level int) []byte {
	return append(PutVarInt(nil, claimed), Zlib(data, level)...)
}

// zlib writers are expensive to create (about 1 MiB of state each): keep them per level in a
// free list that the garbage collector does not empty.
var zfree struct {
	mu sync.Mutex
	w  [11][]*zlib.Writer
}

// Zlib returns zlib(data) at the given level (-1..9; anything else is the default level).
func Zlib(data []byte, level int) []byte {
	if level < -1 || level > 9 {
		level = -1
	}
	var z bytes.Buffer
	var zw *zlib.Writer
	zfree.mu.Lock()
	if l := zfree.w[level+1]; len(l) > 0 {
		zw = l[len(l)-1]
		zfree.w[level+1] = l[:len(l)-1]
	}
	zfree.mu.Unlock()
	if zw != nil {
		zw.Reset(&z)
	} else {
		zw, _ = zlib.NewWriterLevel(&z, level)
	}
	_, _ = zw.Write(data)
	_ = zw.Close()
	zfree.mu.Lock()
	if len(zfree.w[level+1]) < 32 {
		zfree.w[level+1] = append(zfree.w[level+1], zw)
	}
	zfree.mu.Unlock()
	return z.Bytes()
}

// Uncompressed builds the body of an uncompressed frame inside a compressed stream.
func Uncompressed(data []byte) []byte { return append([]byte{0}, data...) }

// EncodePayload encodes one payload the way a correct peer would under cfg.
func EncodePayload(dst, payload []byte, cfg Config, level int) []byte {
	if cfg.Threshold < 0 {
		return Frame(dst, payload)
	}
	if len(payload) < cfg.Threshold {
		return Frame(dst, Uncompressed(payload))
	}
	return Frame(dst, Compressed(int32(len(payload)), payload, level))
}
