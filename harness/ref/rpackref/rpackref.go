// Package rpackref is the reference queue model of a proxy's resource-pack prompt handling,
// one model per client family, written from the property statement (C27) and from memory of
// Velocity's LegacyResourcePackHandler / Legacy117ResourcePackHandler /
// ModernResourcePackHandler. It imports no Gate code and works on plain data.
//
//   - before 1.20.3 (Legacy): one FIFO queue; only the front pack is ever prompted, so at most
//     one prompt is outstanding; a terminal (non-intermediate) response pops the front and the
//     next pack is prompted; once the client has DECLINED a prompt (and until it accepts one)
//     queued packs are answered DECLINED on its behalf without prompting - except that on
//     1.17+ a forced pack is prompted regardless. Before the client has answered anything,
//     nothing is auto-declined.
//   - 1.20.3+ (Modern): one queue per pack id; ids are independent of each other; applied and
//     pending packs are tracked per id.
//   - both: a response that belongs to a pack the PROXY (a plugin) queued is consumed
//     (handled=true, nothing is written to the backend); any other response - backend pack or
//     nothing outstanding - is reported to the backend (handled=false so the caller relays it,
//     and it is written to the in-flight backend connection if there is one).
package rpackref

import "sort"

// Status uses the protocol's numbering.
type Status int

const (
	Successful Status = iota
	Declined
	FailedDownload
	Accepted
	Downloaded
	InvalidURL
	FailedReload
	Discarded
)

var statusNames = []string{"SUCCESSFUL", "DECLINED", "FAILED_DOWNLOAD", "ACCEPTED", "DOWNLOADED", "INVALID_URL", "FAILED_RELOAD", "DISCARDED"}

func (s Status) String() string {
	if s >= 0 && int(s) < len(statusNames) {
		return statusNames[s]
	}
	return "?"
}

// Intermediate statuses do not end a prompt.
func (s Status) Intermediate() bool { return s == Accepted || s == Downloaded }

// Pack is one queued resource pack. Key is unique per queue operation (the monitor uses the URL).
type Pack struct {
	Key     string
	ID      string // pack id (1.20.3+), "" = none
	Forced  bool
	Backend bool // origin: true = sent by the backend server, false = by a plugin on the proxy
}

// Report is a response written to the in-flight backend connection.
type Report struct {
	ID     string
	Status Status
}

// Effects is what one operation must cause.
type Effects struct {
	Prompts []string // keys of the packs prompted by this operation, in order
	// NextPromptAnyOf, when set, replaces Prompts: exactly one prompt, for any of these keys
	// (1.20.3+: order among packs that share an id is not part of the statement).
	NextPromptAnyOf []string
	Reports         []Report // must be written to the in-flight backend (if there is one)
	OptionalReports []Report // may be written (synthesised DECLINED of an auto-declined backend pack)
	Handled         *bool    // return value of a response operation
	Removed         *bool    // return value of a remove operation
	AutoDeclined    []string // keys answered DECLINED on the client's behalf
	Why             string   // which rule produced the prompts (for diagnostics)
}

func boolp(b bool) *bool { return &b }

// ---- before 1.20.3 ---------------------------------------------------------------------------

type answer int

const (
	noAnswerYet answer = iota
	lastAccepted
	lastDeclined
)

// Legacy models the 1.8 - 1.20.2 families; Is117 selects the 1.17+ rule for forced packs.
type Legacy struct {
	Is117 bool
	queue []Pack
	prev  answer
}

// Outstanding returns the key of the prompted pack ("" if none).
func (m *Legacy) Outstanding() string {
	if len(m.queue) == 0 {
		return ""
	}
	return m.queue[0].Key
}

// QueueLen returns the number of queued packs (including the prompted one).
func (m *Legacy) QueueLen() int { return len(m.queue) }

// EverDeclined reports whether auto-declining is currently armed.
func (m *Legacy) EverDeclined() bool { return m.prev == lastDeclined }

// Answered reports whether the client has accepted or declined anything yet.
func (m *Legacy) Answered() bool { return m.prev != noAnswerYet }

func (m *Legacy) tick(e *Effects) {
	if len(m.queue) == 0 {
		return
	}
	e.Why = "front of the queue is prompted"
	if m.prev == lastDeclined {
		e.Why = "the client declined before: queued packs are declined on its behalf"
		for len(m.queue) > 0 {
			f := m.queue[0]
			if f.Forced && m.Is117 {
				e.Why = "forced pack on 1.17+ is prompted although the client declined before"
				break
			}
			m.queue = m.queue[1:]
			e.AutoDeclined = append(e.AutoDeclined, f.Key)
			if f.Backend {
				e.OptionalReports = append(e.OptionalReports, Report{ID: f.ID, Status: Declined})
			}
		}
		if len(m.queue) == 0 {
			return
		}
	}
	e.Prompts = append(e.Prompts, m.queue[0].Key)
}

// Queue appends a pack; it is prompted right away only if nothing else is queued.
func (m *Legacy) Queue(p Pack) Effects {
	var e Effects
	m.queue = append(m.queue, p)
	if len(m.queue) == 1 {
		m.tick(&e)
	} else {
		e.Why = "another pack is outstanding: queued only"
	}
	return e
}

// Response processes a client response (legacy clients do not name a pack: it is for the front).
func (m *Legacy) Response(st Status, id string) Effects {
	var e Effects
	var q *Pack
	if len(m.queue) > 0 {
		f := m.queue[0]
		q = &f
		if !st.Intermediate() {
			m.queue = m.queue[1:]
		}
	}
	switch st {
	case Accepted:
		m.prev = lastAccepted
	case Declined:
		m.prev = lastDeclined
	}
	if !st.Intermediate() {
		m.tick(&e)
	}
	handled := q != nil && !q.Backend
	e.Handled = boolp(handled)
	if !handled {
		e.Reports = append(e.Reports, Report{ID: id, Status: st})
	}
	return e
}

// Clear is ClearAppliedResourcePacks: it does not touch the queue.
func (m *Legacy) Clear() Effects { return Effects{} }

// ---- 1.20.3+ -----------------------------------------------------------------------------------

// Modern models the per-id handler.
type Modern struct {
	out     map[string][]Pack // per id; element 0 is the prompted one
	pending map[string]Pack
	applied map[string]Pack
}

// NewModern returns an empty model.
func NewModern() *Modern {
	return &Modern{out: map[string][]Pack{}, pending: map[string]Pack{}, applied: map[string]Pack{}}
}

// Queue appends to the id's queue; prompts if it is the only one for that id.
func (m *Modern) Queue(p Pack) Effects {
	var e Effects
	m.out[p.ID] = append(m.out[p.ID], p)
	if len(m.out[p.ID]) == 1 {
		e.Prompts = []string{p.Key}
		e.Why = "no other pack with this id is outstanding"
	} else {
		e.Why = "a pack with the same id is outstanding: queued only"
	}
	return e
}

// Response processes a response for pack id.
func (m *Modern) Response(st Status, id string) Effects {
	var e Effects
	var q *Pack
	if l := m.out[id]; len(l) > 0 {
		f := l[0]
		q = &f
		if !st.Intermediate() {
			m.out[id] = l[1:]
			if len(m.out[id]) == 0 {
				delete(m.out, id)
			}
		}
	}
	switch st {
	case Accepted:
		if q != nil {
			m.pending[id] = *q
		}
	case Successful:
		delete(m.pending, id)
		if q != nil {
			m.applied[id] = *q
		} else if a, ok := m.applied[id]; ok {
			// a repeated SUCCESSFUL for an applied pack is attributed to that pack
			handled := !a.Backend
			e.Handled = boolp(handled)
			if !handled {
				e.Reports = append(e.Reports, Report{ID: id, Status: st})
			}
			return e
		}
	case Discarded:
		delete(m.pending, id)
		delete(m.applied, id)
	}
	if !st.Intermediate() {
		if l := m.out[id]; len(l) > 0 {
			for _, p := range l {
				e.NextPromptAnyOf = append(e.NextPromptAnyOf, p.Key)
			}
			e.Why = "next pack with the same id is prompted"
		}
	}
	handled := q != nil && !q.Backend
	e.Handled = boolp(handled)
	if !handled {
		e.Reports = append(e.Reports, Report{ID: id, Status: st})
	}
	return e
}

// Prompted tells the model which of NextPromptAnyOf was chosen; it becomes the id's front.
// fifo reports whether the choice was the oldest one.
func (m *Modern) Prompted(id, key string) (fifo bool) {
	l := m.out[id]
	for i, p := range l {
		if p.Key == key {
			nl := append([]Pack{p}, l[:i]...)
			nl = append(nl, l[i+1:]...)
			m.out[id] = nl
			return i == 0
		}
	}
	return false
}

// Remove forgets everything about id.
func (m *Modern) Remove(id string) Effects {
	_, a := m.applied[id]
	_, p := m.pending[id]
	delete(m.out, id)
	delete(m.applied, id)
	delete(m.pending, id)
	return Effects{Removed: boolp(a || p)}
}

// Clear forgets everything.
func (m *Modern) Clear() Effects {
	m.out, m.pending, m.applied = map[string][]Pack{}, map[string]Pack{}, map[string]Pack{}
	return Effects{}
}

func keys(mm map[string]Pack) []string {
	out := make([]string, 0, len(mm))
	for _, p := range mm {
		out = append(out, p.Key)
	}
	sort.Strings(out)
	return out
}

// Applied returns the sorted keys of the applied packs.
func (m *Modern) Applied() []string { return keys(m.applied) }

// Pending returns the sorted keys of the pending (accepted, downloading) packs.
func (m *Modern) Pending() []string { return keys(m.pending) }

// OutstandingFor returns the number of packs queued under id (the first one is prompted).
func (m *Modern) OutstandingFor(id string) int { return len(m.out[id]) }

// OutstandingPrompts returns the number of ids with a prompted pack.
func (m *Modern) OutstandingPrompts() int { return len(m.out) }
