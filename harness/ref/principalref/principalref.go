// Package principalref is the reference side of check C41: what a protobuf parser that knows
// the frozen Bedrock-principal-v2 Session contract reads from an encoded session proposal, and
// which proposals the property statement says must be rejected.
//
// Two independent readers are combined:
//
//   - Parse: google.golang.org/protobuf (dynamicpb) over a descriptor built at run time. The
//     v2 fields are typed as the frozen contract says (principal.go / connect SDK
//     descriptorprivacy): 6 enum SessionProtocol, 7 string endpoint_id, 8 string
//     organization_id, 9 bytes connect_session_nonce, 10 int32 source_protocol_version,
//     11 int64 policy_revision, 12 bytes signed_bedrock_principal_v2. Proto3, so scalars
//     are "last value wins" and strings must be valid UTF-8. The legacy fields 1..4 are
//     typed `bytes` (wire compatible with their real string/message types): their inner
//     validity is decided by protobuf-go when the real Session is unmarshalled, before any
//     Gate code runs, and is not part of the property. 5 and 13..15 are not declared.
//   - Scan: a hand written wire-format scanner (no protowire) that lists the top-level
//     fields, decides well-formedness, and evaluates the statement's rejection rules.
//
// This package imports no Gate code.
package principalref

import (
	"fmt"
	"unicode/utf8"

	"google.golang.org/protobuf/proto"
	"google.golang.org/protobuf/reflect/protodesc"
	"google.golang.org/protobuf/reflect/protoreflect"
	"google.golang.org/protobuf/types/descriptorpb"
	"google.golang.org/protobuf/types/dynamicpb"
)

// MaxEnvelopeBytes is the bound on the signed principal envelope (the Connect SDK's
// bedrockprincipal.MaxEnvelopeBytes); the check asserts they are equal.
const MaxEnvelopeBytes = 16 << 10

// Fields is what a reader extracts from a proposal.
type Fields struct {
	Protocol              int32
	EndpointID            string
	OrganizationID        string
	Nonce                 []byte
	SourceProtocolVersion int32
	PolicyRevision        int64
	Envelope              []byte
	// AnyPresent is true if at least one field 6..12 occurred with its contract wire type.
	AnyPresent bool
}

var sessionDesc protoreflect.MessageDescriptor

func init() {
	opt := descriptorpb.FieldDescriptorProto_LABEL_OPTIONAL.Enum()
	f := func(name string, num int32, t descriptorpb.FieldDescriptorProto_Type) *descriptorpb.FieldDescriptorProto {
		return &descriptorpb.FieldDescriptorProto{Name: proto.String(name), Number: proto.Int32(num), Label: opt, Type: t.Enum()}
	}
	protoF := f("protocol", 6, descriptorpb.FieldDescriptorProto_TYPE_ENUM)
	protoF.TypeName = proto.String(".verif.c41.SessionProtocol")
	fd := &descriptorpb.FileDescriptorProto{
		Name:    proto.String("verif/c41/session.proto"),
		Package: proto.String("verif.c41"),
		Syntax:  proto.String("proto3"),
		EnumType: []*descriptorpb.EnumDescriptorProto{{
			Name: proto.String("SessionProtocol"),
			Value: []*descriptorpb.EnumValueDescriptorProto{
				{Name: proto.String("SESSION_PROTOCOL_UNSPECIFIED"), Number: proto.Int32(0)},
				{Name: proto.String("SESSION_PROTOCOL_JAVA"), Number: proto.Int32(1)},
				{Name: proto.String("SESSION_PROTOCOL_BEDROCK"), Number: proto.Int32(2)},
			},
		}},
		MessageType: []*descriptorpb.DescriptorProto{{
			Name: proto.String("Session"),
			Field: []*descriptorpb.FieldDescriptorProto{
				f("id", 1, descriptorpb.FieldDescriptorProto_TYPE_BYTES),
				f("tunnel_service_addr", 2, descriptorpb.FieldDescriptorProto_TYPE_BYTES),
				f("player", 3, descriptorpb.FieldDescriptorProto_TYPE_BYTES),
				f("auth", 4, descriptorpb.FieldDescriptorProto_TYPE_BYTES),
				protoF,
				f("endpoint_id", 7, descriptorpb.FieldDescriptorProto_TYPE_STRING),
				f("organization_id", 8, descriptorpb.FieldDescriptorProto_TYPE_STRING),
				f("connect_session_nonce", 9, descriptorpb.FieldDescriptorProto_TYPE_BYTES),
				f("source_protocol_version", 10, descriptorpb.FieldDescriptorProto_TYPE_INT32),
				f("policy_revision", 11, descriptorpb.FieldDescriptorProto_TYPE_INT64),
				f("signed_bedrock_principal_v2", 12, descriptorpb.FieldDescriptorProto_TYPE_BYTES),
			},
		}},
	}
	file, err := protodesc.NewFile(fd, nil)
	if err != nil {
		panic(fmt.Sprintf("principalref: descriptor: %v", err))
	}
	sessionDesc = file.Messages().ByName("Session")
}

// Parse reads b with google.golang.org/protobuf over the contract descriptor.
func Parse(b []byte) (*Fields, error) {
	m := dynamicpb.NewMessage(sessionDesc)
	if err := proto.Unmarshal(b, m); err != nil {
		return nil, err
	}
	fs := sessionDesc.Fields()
	get := func(n protoreflect.FieldNumber) protoreflect.Value { return m.Get(fs.ByNumber(n)) }
	return &Fields{
		Protocol:              int32(get(6).Enum()),
		EndpointID:            get(7).String(),
		OrganizationID:        get(8).String(),
		Nonce:                 append([]byte(nil), get(9).Bytes()...),
		SourceProtocolVersion: int32(get(10).Int()),
		PolicyRevision:        get(11).Int(),
		Envelope:              append([]byte(nil), get(12).Bytes()...),
	}, nil
}

// Wire types.
const (
	WtVarint     = 0
	WtFixed64    = 1
	WtBytes      = 2
	WtStartGroup = 3
	WtEndGroup   = 4
	WtFixed32    = 5
)

// TopField is one top-level field occurrence.
type TopField struct {
	Num    uint64
	Wt     int
	Varint uint64 // WtVarint
	Bytes  []byte // WtBytes
}

// Malformation reasons of Scan.
const (
	OK                = ""
	TruncatedVarint   = "truncated-varint"
	VarintOverflow    = "varint-overflow"
	FieldNumberZero   = "field-number-zero"
	FieldNumberRange  = "field-number-out-of-range" // > 2^29-1: outside the property's quantifier (fields 1..15)
	ReservedWireType  = "reserved-wire-type"
	TruncatedValue    = "truncated-value"
	StrayEndGroup     = "stray-end-group"
	UnterminatedGroup = "unterminated-group"
	MismatchedGroup   = "mismatched-end-group"
)

func varint(b []byte) (v uint64, n int, why string) {
	for i := 0; i < len(b); i++ {
		c := b[i]
		if i == 9 {
			if c > 1 {
				return 0, 0, VarintOverflow
			}
			return v | uint64(c)<<63, 10, OK
		}
		v |= uint64(c&0x7f) << (7 * uint(i))
		if c < 0x80 {
			return v, i + 1, OK
		}
	}
	return 0, 0, TruncatedVarint
}

// skip consumes one field value of the given wire type (groups recursively) and returns its
// length.
func skip(num uint64, wt int, b []byte) (n int, why string) {
	switch wt {
	case WtVarint:
		_, n, why := varint(b)
		return n, why
	case WtFixed64:
		if len(b) < 8 {
			return 0, TruncatedValue
		}
		return 8, OK
	case WtFixed32:
		if len(b) < 4 {
			return 0, TruncatedValue
		}
		return 4, OK
	case WtBytes:
		l, n, why := varint(b)
		if why != OK {
			return 0, why
		}
		if l > uint64(len(b)-n) {
			return 0, TruncatedValue
		}
		return n + int(l), OK
	case WtStartGroup:
		n0 := len(b)
		for {
			if len(b) == 0 {
				return 0, UnterminatedGroup
			}
			t, n, why := varint(b)
			if why != OK {
				return 0, why
			}
			num2, wt2 := t>>3, int(t&7)
			if why := checkNum(num2); why != OK {
				return 0, why
			}
			b = b[n:]
			if wt2 == WtEndGroup {
				if num2 != num {
					return 0, MismatchedGroup
				}
				return n0 - len(b), OK
			}
			n, why = skip(num2, wt2, b)
			if why != OK {
				return 0, why
			}
			b = b[n:]
		}
	case WtEndGroup:
		return 0, StrayEndGroup
	}
	return 0, ReservedWireType
}

func checkNum(num uint64) string {
	if num == 0 {
		return FieldNumberZero
	}
	if num > 1<<29-1 {
		return FieldNumberRange
	}
	return OK
}

// Scan lists the top-level fields of b or says why b is not a well-formed protobuf message.
func Scan(b []byte) (fields []TopField, why string) {
	for len(b) > 0 {
		t, n, why := varint(b)
		if why != OK {
			return nil, why
		}
		num, wt := t>>3, int(t&7)
		if why := checkNum(num); why != OK {
			return nil, why
		}
		b = b[n:]
		n, why = skip(num, wt, b)
		if why != OK {
			return nil, why
		}
		f := TopField{Num: num, Wt: wt}
		switch wt {
		case WtVarint:
			f.Varint, _, _ = varint(b)
		case WtBytes:
			_, ln, _ := varint(b)
			f.Bytes = b[ln:n]
		}
		fields = append(fields, f)
		b = b[n:]
	}
	return fields, OK
}

// ContractWireType returns the wire type the frozen contract gives field num (6..12).
func ContractWireType(num uint64) (wt int, principal bool) {
	switch num {
	case 6, 10, 11:
		return WtVarint, true
	case 7, 8, 9, 12:
		return WtBytes, true
	}
	return 0, false
}

// Rejection rules of the property statement, in reporting priority.
const (
	RuleMalformed      = "malformed-encoding"
	RuleWireType       = "principal-field-wrong-wire-type"
	RuleSecondEnvelope = "second-envelope"
	RuleEmptyEnvelope  = "empty-envelope"
	RuleOversized      = "oversized-envelope"
	RuleNonce          = "envelope-without-16-byte-nonce"
	RuleUTF8           = "invalid-utf8-in-string-field"
)

// Judge evaluates the statement on a well-formed field list: the rules that demand rejection
// and, independently of dynamicpb, the values a last-value-wins reader extracts.
func Judge(fields []TopField) (rules []string, got Fields) {
	seen := map[string]bool{}
	add := func(r string) {
		if !seen[r] {
			seen[r] = true
		}
	}
	envelopes := 0
	haveNonce := false
	for _, f := range fields {
		want, principal := ContractWireType(f.Num)
		if !principal {
			continue
		}
		if f.Wt != want {
			add(RuleWireType)
			continue
		}
		got.AnyPresent = true
		switch f.Num {
		case 6:
			got.Protocol = int32(f.Varint)
		case 7:
			got.EndpointID = string(f.Bytes)
			if !utf8.Valid(f.Bytes) {
				add(RuleUTF8)
			}
		case 8:
			got.OrganizationID = string(f.Bytes)
			if !utf8.Valid(f.Bytes) {
				add(RuleUTF8)
			}
		case 9:
			got.Nonce = append([]byte(nil), f.Bytes...)
			haveNonce = true
		case 10:
			got.SourceProtocolVersion = int32(f.Varint)
		case 11:
			got.PolicyRevision = int64(f.Varint)
		case 12:
			envelopes++
			got.Envelope = append([]byte(nil), f.Bytes...)
			if len(f.Bytes) == 0 {
				add(RuleEmptyEnvelope)
			}
			if len(f.Bytes) > MaxEnvelopeBytes {
				add(RuleOversized)
			}
		}
	}
	if envelopes > 1 {
		add(RuleSecondEnvelope)
	}
	if envelopes > 0 && (!haveNonce || len(got.Nonce) != 16) {
		add(RuleNonce)
	}
	for _, r := range []string{RuleWireType, RuleSecondEnvelope, RuleEmptyEnvelope, RuleOversized, RuleNonce, RuleUTF8} {
		if seen[r] {
			rules = append(rules, r)
		}
	}
	return rules, got
}
