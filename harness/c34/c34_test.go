// C34: rate limiters enforce exactly their configured windows and buckets.
//
// Everything runs inside testing/synctest bubbles: time.Now() seen by x/time/rate (addrquota)
// and by packetlimiter.Limiter.Account is the bubble's fake clock, which advances exactly by the
// time.Sleep calls of the (single-goroutine) workload. No clock hook, no wall-clock verdicts.
//
//	A. addrquota grouping, decided through the public API only: fresh Quota(burst 1, rate 1e-6/s),
//	   Blocked(a) must be false (fresh bucket), Blocked(b) right after is true <=> a and b are in
//	   the same group by the reference (IPv4 /24 incl. IPv4-mapped IPv6, IPv6 /64).
//	B. addrquota rate bound: for timestamped event sequences from several addresses of several
//	   groups, the events allowed to one group in any interval never exceed burst + rate x elapsed.
//	C. packetlimiter.Limiter vs an O(n) recount of the trailing window over the event list.
package c34

import (
	"fmt"
	"math/big"
	"math/rand"
	"runtime"
	"strings"
	"sync"
	"sync/atomic"
	"testing"
	"testing/synctest"
	"time"

	"go.minekube.com/gate/pkg/edition/java/proxy/verifh/lib"
	"go.minekube.com/gate/pkg/internal/addrquota"
	"go.minekube.com/gate/pkg/internal/packetlimiter"
)

// ---- addresses by construction (ground truth is the byte value, not a parse) --------------------

type addr struct {
	b    [16]byte
	is4  bool
	zone string
}

func a4(a, b, c, d byte) addr { return addr{b: [16]byte{a, b, c, d}, is4: true} }

func (a addr) flip(bit int) addr { a.b[bit/8] ^= 0x80 >> (bit % 8); return a }

// group is the reference bucket: "4/a.b.c" or "6/<first 8 bytes>".
func (a addr) group() string {
	if a.is4 {
		return fmt.Sprintf("4/%d.%d.%d", a.b[0], a.b[1], a.b[2])
	}
	mapped := a.b[10] == 0xff && a.b[11] == 0xff
	for i := 0; i < 10; i++ {
		mapped = mapped && a.b[i] == 0
	}
	if mapped {
		return fmt.Sprintf("4/%d.%d.%d", a.b[12], a.b[13], a.b[14])
	}
	return fmt.Sprintf("6/%x", a.b[:8])
}

// text renders the address in one of several valid textual forms.
func (a addr) text(form int) (string, string) {
	if a.is4 {
		v4 := fmt.Sprintf("%d.%d.%d.%d", a.b[0], a.b[1], a.b[2], a.b[3])
		switch form % 4 {
		case 0, 1:
			return v4, "v4"
		case 2:
			return "::ffff:" + v4, "v4-mapped-dotted"
		default:
			return fmt.Sprintf("::ffff:%x:%x", uint16(a.b[0])<<8|uint16(a.b[1]), uint16(a.b[2])<<8|uint16(a.b[3])), "v4-mapped-hex"
		}
	}
	g := make([]string, 8)
	for i := range g {
		g[i] = fmt.Sprintf("%x", uint16(a.b[2*i])<<8|uint16(a.b[2*i+1]))
	}
	s, kind := strings.Join(g, ":"), "v6-full"
	switch form % 3 {
	case 1:
		for i := range g {
			g[i] = fmt.Sprintf("%04X", uint16(a.b[2*i])<<8|uint16(a.b[2*i+1]))
		}
		s, kind = strings.Join(g, ":"), "v6-padded-upper"
	case 2:
		for i := 0; i < 8; i++ {
			if g[i] != "0" {
				continue
			}
			j := i
			for j < 8 && g[j] == "0" {
				j++
			}
			s, kind = strings.Join(g[:i], ":")+"::"+strings.Join(g[j:], ":"), "v6-compressed"
			break
		}
	}
	if a.zone != "" {
		s += "%" + a.zone
		kind += "-zoned"
	}
	return s, kind
}

func randAddr(rng *rand.Rand) addr {
	if rng.Intn(2) == 0 {
		return a4(byte(1+rng.Intn(223)), byte(rng.Intn(256)), byte(rng.Intn(256)), byte(rng.Intn(256)))
	}
	var a addr
	rng.Read(a.b[:])
	a.b[0] = 0x20 | a.b[0]&0x0f
	if rng.Intn(4) == 0 {
		for i := 8 + rng.Intn(6); i < 15; i++ {
			a.b[i] = 0
		}
	}
	return a
}

// ---- A: grouping -------------------------------------------------------------------------------

type pairObs struct {
	firstBlocked, secondBlocked, repeatBlocked, secondRepeatBlocked bool
}

func groupingProbe(t *testing.T, x, y string) (o pairObs) {
	synctest.Test(t, func(t *testing.T) {
		q := addrquota.NewQuota(1e-6, 1, 64)
		o.firstBlocked = q.Blocked(x)
		o.secondBlocked = q.Blocked(y)
		time.Sleep(time.Second)
		o.repeatBlocked = q.Blocked(x)       // one token per ~11.5 days: still empty
		o.secondRepeatBlocked = q.Blocked(y) // same for y, whichever bucket it is in
	})
	return
}

// ---- C: reference sliding window -------------------------------------------------------------------

type event struct {
	T    int64 // virtual ns since the start of the sequence
	Size int
}

// recount returns packets/bytes among events[0..i] with T in the trailing window ending at
// events[i].T; incl counts an event exactly `window` old, excl does not.
func recount(ev []event, i int, window int64) (pIncl, bIncl, pExcl, bExcl int64) {
	now := ev[i].T
	for k := i; k >= 0; k-- {
		age := now - ev[k].T
		if age > window {
			break // timestamps are non-decreasing
		}
		pIncl++
		bIncl += int64(ev[k].Size)
		if age < window {
			pExcl++
			bExcl += int64(ev[k].Size)
		}
	}
	return
}

// exceeds reports count > perSecond x window exactly (integers: count*1e9 > perSecond*windowNs).
func exceeds(count int64, perSecond int, windowNs int64) bool {
	if perSecond <= 0 {
		return false // dimension disabled
	}
	l := new(big.Int).Mul(big.NewInt(count), big.NewInt(1e9))
	r := new(big.Int).Mul(big.NewInt(int64(perSecond)), big.NewInt(windowNs))
	return l.Cmp(r) > 0
}

type limCase struct {
	PPS, BPS int
	Window   time.Duration
	Gaps     []time.Duration // sleep before event i
	Sizes    []int
	Shape    string
}

func genLimCase(rng *rand.Rand, long bool) limCase {
	windows := []time.Duration{time.Millisecond, 10 * time.Millisecond, 100 * time.Millisecond, 250 * time.Millisecond, 300 * time.Millisecond, 700 * time.Millisecond,
		time.Second, 1500 * time.Millisecond, 3 * time.Second, 7 * time.Second, 7*time.Second + 1, 999999937 * time.Nanosecond, 60 * time.Second}
	c := limCase{Window: windows[rng.Intn(len(windows))]}
	switch rng.Intn(5) {
	case 0:
		c.PPS, c.BPS = 1+rng.Intn(50), -1
	case 1:
		c.PPS, c.BPS = 0, 100+rng.Intn(100000)
	case 2:
		c.PPS, c.BPS = 500, -1 // Gate's default
	default:
		c.PPS, c.BPS = 1+rng.Intn(2000), 1+rng.Intn(2000000)
	}
	n := 20 + rng.Intn(200)
	c.Shape = "mixed"
	if long {
		// long runs with many live entries: ring buffer grows 8 -> 16 -> ... and wraps
		n = 600 + rng.Intn(6000)
		c.PPS, c.BPS = 1000000000, []int{-1, 1 << 40}[rng.Intn(2)]
		c.Shape = "long"
	}
	w := int64(c.Window)
	mode := rng.Intn(6)
	for i := 0; i < n; i++ {
		var g int64
		switch k := rng.Intn(12); {
		case k <= 3:
			g = 0 // equal timestamps
		case k == 4:
			g = 1
		case k == 5:
			g = w // exactly one window later
		case k == 6:
			g = w + int64(rng.Intn(3)) - 1 // w-1, w, w+1
		case k == 7:
			g = w + 1 + rng.Int63n(3*w+1) // gap longer than the window: everything expires
		case k == 8:
			g = w / int64(1+rng.Intn(16))
		default:
			g = rng.Int63n(w/4 + 2)
		}
		if long && rng.Intn(400) != 0 {
			g = rng.Int63n(w/int64(n) + 2) // dense: most of the run stays inside the window
			if mode == 0 {
				g = 0
			}
		}
		if mode == 1 && !long && i%10 < 8 {
			g = 0 // bursts of 8 at one instant, then a pause
		}
		if g < 0 {
			g = 0
		}
		c.Gaps = append(c.Gaps, time.Duration(g))
		sz := 1 + rng.Intn(300)
		switch rng.Intn(20) {
		case 0:
			sz = 0
		case 1:
			sz = 1 << 21 // a maximum-size frame
		}
		c.Sizes = append(c.Sizes, sz)
	}
	return c
}

// genRamp: a steady trickle for 2.5 windows (entries expire, the ring's head advances and
// wraps), then arrivals accelerate so that the live population grows through several ring
// resizes in wrapped state until the budget is crossed: the exact event at which the limiter
// closes depends on every live entry having survived the resizes.
func genRamp(rng *rand.Rand) limCase {
	c := limCase{Window: []time.Duration{100 * time.Millisecond, 250 * time.Millisecond, time.Second, 7 * time.Second}[rng.Intn(4)], Shape: "ramp"}
	budget := 20 + rng.Intn(600)
	if rng.Intn(20) == 0 {
		budget = 1000 + rng.Intn(2000)
	}
	c.PPS = int(int64(budget) * int64(time.Second) / int64(c.Window))
	if c.PPS < 1 {
		c.PPS = 1
	}
	budget = int(int64(c.PPS) * int64(c.Window) / int64(time.Second))
	size := 1 + rng.Intn(200)
	switch rng.Intn(3) {
	case 0:
		c.BPS = -1
	case 1:
		c.BPS = c.PPS * size * 2 // bytes never the limiting dimension
	default:
		c.BPS, c.PPS = c.PPS*size*3/4, c.PPS*2 // bytes cross first
	}
	quarter := max(budget/4, 2)
	gap := float64(c.Window) / float64(quarter)
	n1 := quarter*5/2 + rng.Intn(quarter)
	for i := 0; i < n1+8*budget+50; i++ {
		g := gap * (0.9 + 0.2*rng.Float64())
		if i >= n1 {
			gap *= 0.97
			g = gap
		}
		c.Gaps = append(c.Gaps, time.Duration(g))
		c.Sizes = append(c.Sizes, size)
	}
	return c
}

func runLimiter(t *testing.T, c limCase) (got []bool, ev []event, isNil bool) {
	synctest.Test(t, func(t *testing.T) {
		l := packetlimiter.New(c.PPS, c.BPS, c.Window)
		isNil = l == nil
		start := time.Now()
		for i := range c.Gaps {
			time.Sleep(c.Gaps[i])
			ev = append(ev, event{T: int64(time.Since(start)), Size: c.Sizes[i]})
			ok := l.Account(c.Sizes[i])
			got = append(got, ok)
			if !ok {
				return // the connection is closed here; nothing is promised afterwards
			}
		}
	})
	return
}

func TestC34(t *testing.T) {
	r := lib.Start(t, "C34")
	defer r.Finish()
	r.Rule("A: address pairs (base address x every single-bit flip, v4 vs IPv4-mapped forms in dotted/hex text, several IPv6 text forms, zoned IPv6, plus random pairs) on a fresh Quota(burst 1) - distinct = distinct (text a, text b); B: random timestamped Blocked() sequences over 2-4 groups with 1-3 member addresses each for several (rate, burst) - distinct = distinct sequence; C: timestamped Account(size) sequences (equal timestamps, gaps of exactly window, window+-1ns, > window, bursts, dense runs of 600-6600 events that grow and wrap the ring buffer) for several (pps, bps, window) incl. one dimension disabled - distinct = distinct (config, sequence)")
	r.Assume("inside a synctest bubble time.Now() is the fake clock and a single goroutine's time.Sleep(d) advances it by exactly d, so event timestamps are dictated by the workload")
	r.Assume("R: an event exactly one window old may be counted or not (boundary inclusivity is not fixed by the statement): a verdict is only required when the inclusive and the exclusive recount agree; the sequence ends at the first refused packet (the connection is closed)")
	r.Assume("R: the rate bound is checked over every interval between two allowed events with a 1e-6 slack for the float64 token arithmetic of x/time/rate; the LRU of the quota is kept larger than the number of groups")

	// ================= A: grouping ===============================================================
	rngA := r.Rng("grouping")
	type pair struct {
		x, y   addr
		fx, fy int
	}
	var pairs []pair
	bases4 := []addr{a4(10, 1, 2, 3), a4(192, 168, 255, 0), a4(203, 0, 113, 255), a4(1, 0, 0, 1)}
	var bases6 []addr
	for _, s := range [][16]byte{
		{0x20, 0x01, 0x0d, 0xb8, 0, 0, 0, 1, 0, 0, 0, 0, 0, 0, 0, 1},
		{0xfe, 0x80, 0, 0, 0, 0, 0, 0, 0x02, 0x11, 0x22, 0xff, 0xfe, 0x33, 0x44, 0x55},
		{0x2a, 0x02, 0x12, 0x34, 0x56, 0x78, 0x9a, 0xff, 0xff, 0xff, 0xff, 0xff, 0xff, 0xff, 0xff, 0xff},
		{0, 0, 0, 0, 0, 0, 0, 0, 0, 0, 0, 0, 0, 0, 0, 1},
	} {
		bases6 = append(bases6, addr{b: s})
	}
	for _, b := range bases4 {
		for bit := 0; bit < 32; bit++ { // every prefix boundary of IPv4
			for f := 0; f < 4; f++ {
				pairs = append(pairs, pair{b, b.flip(bit), f, (f + bit) % 4})
			}
		}
		pairs = append(pairs, pair{b, b, 0, 2}, pair{b, b, 3, 0}, pair{b, b, 2, 3})
	}
	for _, b := range bases6 {
		for bit := 0; bit < 128; bit++ { // every prefix boundary of IPv6
			pairs = append(pairs, pair{b, b.flip(bit), bit % 3, (bit + 1) % 3})
		}
		pairs = append(pairs, pair{b, b, 0, 1}, pair{b, b, 2, 0})
		z1, z2 := b, b.flip(100)
		z1.zone, z2.zone = "eth0", "eth0"
		pairs = append(pairs, pair{z1, z2, 0, 2}, pair{z1, b, 2, 2}, pair{b, z2, 1, 0})
	}
	// IPv6 addresses that are not mapped but look similar
	compat := addr{b: [16]byte{0, 0, 0, 0, 0, 0, 0, 0, 0, 0, 0, 0, 10, 1, 2, 3}}
	pairs = append(pairs, pair{compat, a4(10, 1, 2, 3), 0, 0}, pair{compat, a4(10, 1, 2, 3), 2, 2}, pair{compat, addr{b: [16]byte{15: 1}}, 0, 2})
	nA := r.N(1500, 40000)
	for i := 0; i < nA; i++ {
		x := randAddr(rngA)
		y := randAddr(rngA)
		switch rngA.Intn(3) {
		case 0:
			y = x
			bits := 128
			if x.is4 {
				bits = 32
			}
			for k := 1 + rngA.Intn(3); k > 0; k-- {
				y = y.flip(rngA.Intn(bits))
			}
		case 1:
			y = x
			y.b[15-rngA.Intn(4)] ^= byte(1 + rngA.Intn(255)) // low bytes only
			if x.is4 {
				y = x
				y.b[3] ^= byte(1 + rngA.Intn(255))
			}
		}
		pairs = append(pairs, pair{x, y, rngA.Intn(12), rngA.Intn(12)})
	}
	kinds := map[string]int{}
	for _, p := range pairs {
		tx, kx := p.x.text(p.fx)
		ty, ky := p.y.text(p.fy)
		same := p.x.group() == p.y.group()
		o := groupingProbe(t, tx, ty)
		r.Eval(1)
		r.Distinct("A/" + tx + "|" + ty)
		kinds[kx+" vs "+ky]++
		w := map[string]any{"first": tx, "second": ty, "first_kind": kx, "second_kind": ky, "reference_group_first": p.x.group(), "reference_group_second": p.y.group(),
			"first_blocked": o.firstBlocked, "second_blocked": o.secondBlocked, "first_again_after_1s_blocked": o.repeatBlocked, "second_again_blocked": o.secondRepeatBlocked}
		switch {
		case o.firstBlocked:
			r.Violation("quota-fresh-group-blocked", "the first event of a fresh group was blocked with burst 1", w)
		case !o.repeatBlocked || !o.secondRepeatBlocked:
			// an address that is not limited at all (it has no bucket)
			who, z := tx, p.x.zone
			if o.repeatBlocked {
				who, z = ty, p.y.zone
			}
			sig := "quota-address-not-limited"
			if z != "" {
				sig = "quota-zoned-ipv6-address-not-limited"
			}
			r.Violation(sig, fmt.Sprintf("%s was allowed a second event 1 s after its first with burst 1 and rate 1e-6/s", who), w)
		case same && !o.secondBlocked:
			sig := "quota-same-group-not-sharing-bucket"
			switch {
			case p.x.is4 != p.y.is4 || strings.Contains(kx+ky, "mapped"):
				sig = "quota-v4-and-mapped-form-not-sharing-bucket"
			case p.x.is4:
				sig = "quota-same-slash24-not-sharing-bucket"
			default:
				sig = "quota-same-slash64-not-sharing-bucket"
			}
			r.Violation(sig, fmt.Sprintf("%s and %s are in one group (%s) but did not share a bucket", tx, ty, p.x.group()), w)
		case !same && o.secondBlocked:
			sig := "quota-different-slash64-sharing-bucket"
			if p.x.is4 || p.y.is4 {
				sig = "quota-different-slash24-sharing-bucket"
			}
			if p.x.is4 != p.y.is4 && !strings.Contains(kx+ky, "mapped") {
				sig = "quota-v4-and-v6-sharing-bucket"
			}
			r.Violation(sig, fmt.Sprintf("%s (%s) and %s (%s) are in different groups but shared a bucket", tx, p.x.group(), ty, p.y.group()), w)
		default:
			if same {
				r.Count("pairs_same_group_confirmed", 1)
			} else {
				r.Count("pairs_different_group_confirmed", 1)
			}
		}
	}
	r.Set("grouping_pair_kinds", kinds)

	// ================= B: rate bound =============================================================
	rngB := r.Rng("rate")
	nB := r.N(600, 20000)
	for i := 0; i < nB; i++ {
		eps := []float32{0.25, 0.5, 1, 2, 10, 100, 0.1, 3.3}[rngB.Intn(8)]
		burst := 1 + rngB.Intn(8)
		ngroups := 2 + rngB.Intn(3)
		type member struct {
			text  string
			group int
		}
		var members []member
		seenGroups := map[string]bool{}
		for g := 0; g < ngroups; g++ {
			base := randAddr(rngB)
			if seenGroups[base.group()] {
				continue
			}
			seenGroups[base.group()] = true
			for m := 1 + rngB.Intn(3); m > 0; m-- {
				x := base
				if x.is4 {
					x.b[3] = byte(rngB.Intn(256))
				} else {
					rngB.Read(x.b[8:])
				}
				tx, _ := x.text(rngB.Intn(12))
				members = append(members, member{tx, g})
			}
		}
		nev := 30 + rngB.Intn(150)
		type stamp struct {
			t       time.Duration
			group   int
			allowed bool
		}
		var hist []stamp
		var gaps []time.Duration
		var who []int
		for k := 0; k < nev; k++ {
			var g time.Duration
			switch rngB.Intn(6) {
			case 0, 1:
				g = 0
			case 2:
				g = time.Duration(float64(time.Second) / float64(eps)) // exactly one token later
			case 3:
				g = time.Duration(rngB.Int63n(int64(3 * time.Second)))
			default:
				g = time.Duration(rngB.Int63n(int64(50 * time.Millisecond)))
			}
			gaps = append(gaps, g)
			who = append(who, rngB.Intn(len(members)))
		}
		synctest.Test(t, func(t *testing.T) {
			q := addrquota.NewQuota(eps, burst, 1000)
			start := time.Now()
			for k := range gaps {
				time.Sleep(gaps[k])
				m := members[who[k]]
				blocked := q.Blocked(m.text)
				hist = append(hist, stamp{time.Since(start), m.group, !blocked})
			}
		})
		r.Eval(1)
		r.Distinct(fmt.Sprintf("B/%v/%d/%v/%v", eps, burst, gaps, who))
		rate := float64(eps)
		worst := ""
		allowedTotal := 0
		for g := 0; g < ngroups; g++ {
			var ts []time.Duration
			for _, h := range hist {
				if h.group == g && h.allowed {
					ts = append(ts, h.t)
				}
			}
			allowedTotal += len(ts)
			for a := 0; a < len(ts) && worst == ""; a++ {
				for b := a; b < len(ts); b++ {
					n := float64(b - a + 1)
					if bound := float64(burst) + rate*(ts[b]-ts[a]).Seconds(); n > bound+1e-6 {
						worst = fmt.Sprintf("group %d: %v events allowed within %v (from t=%v), bound burst %d + %g/s x elapsed = %.6f", g, n, ts[b]-ts[a], ts[a], burst, rate, bound)
						break
					}
				}
			}
		}
		r.Count("quota_events", len(hist))
		r.Count("quota_events_allowed", allowedTotal)
		if worst != "" {
			r.Violation("quota-allows-more-than-burst-plus-rate-times-elapsed", worst, map[string]any{"eps": eps, "burst": burst, "members": members, "gaps": fmt.Sprint(gaps), "who": who})
		}
		if len(hist) > 0 && allowedTotal == 0 {
			r.Violation("quota-allows-nothing", "no event at all was allowed although every bucket starts with burst tokens", map[string]any{"eps": eps, "burst": burst})
		}
	}

	// ================= C: packet limiter ============================================================
	rngC := r.Rng("limiter")
	nC := r.N(5000, 120000)
	nLong := r.N(40, 300)
	nRamp := r.N(300, 4000)
	maxLive := map[int]int{}
	closes, boundary := 0, 0
	for i := 0; i < nC+nLong+nRamp; i++ {
		var c limCase
		if i >= nC+nLong {
			c = genRamp(rngC)
		} else {
			c = genLimCase(rngC, i >= nC)
		}
		if i%97 == 0 { // disabled limiter configurations
			c.PPS, c.BPS = []int{0, -1}[rngC.Intn(2)], []int{0, -5}[rngC.Intn(2)]
			if rngC.Intn(2) == 0 {
				c.PPS, c.Window = 10, 0
			}
			c.Shape = "disabled"
		}
		r.LogCase(map[string]any{"pps": c.PPS, "bps": c.BPS, "window": c.Window.String(), "events": len(c.Gaps)})
		got, ev, isNil := runLimiter(t, c)
		r.Eval(1)
		r.Distinct(fmt.Sprintf("C/%d/%d/%d/%v/%v", c.PPS, c.BPS, c.Window, c.Gaps, c.Sizes))
		wit := func(k int) map[string]any {
			from := max(0, k-40)
			return map[string]any{"pps": c.PPS, "bps": c.BPS, "window_ns": int64(c.Window), "event_index": k, "events_tail_t_ns_size": fmt.Sprint(ev[from : k+1]), "events_before": k, "shape": c.Shape}
		}
		disabled := c.Window <= 0 || (c.PPS <= 0 && c.BPS <= 0)
		if disabled != isNil {
			r.Violation("limiter-disabled-mismatch", fmt.Sprintf("New(%d,%d,%v) nil=%v, documented disabled=%v", c.PPS, c.BPS, c.Window, isNil, disabled), wit(0))
			continue
		}
		live := 0
		for k := range got {
			if disabled {
				if !got[k] {
					r.Violation("limiter-disabled-but-refuses", "a disabled limiter refused a packet", wit(k))
					break
				}
				continue
			}
			pI, bI, pE, bE := recount(ev, k, int64(c.Window))
			if int(pI) > live {
				live = int(pI)
			}
			refI := exceeds(pI, c.PPS, int64(c.Window)) || exceeds(bI, c.BPS, int64(c.Window))
			refE := exceeds(pE, c.PPS, int64(c.Window)) || exceeds(bE, c.BPS, int64(c.Window))
			closed := !got[k]
			if refI != refE {
				boundary++ // verdict depends on an event exactly one window old: either reading passes
				if closed {
					closes++
				}
				continue
			}
			if closed != refI {
				sig := "limiter-closes-although-within-window-budget"
				if !closed {
					dim := "bytes"
					if exceeds(pI, c.PPS, int64(c.Window)) {
						dim = "packets"
					}
					sig = fmt.Sprintf("limiter-keeps-open-although-%s-exceed-window-budget", dim)
				}
				if c.Shape != "mixed" && live > 8 {
					sig += "-after-ring-growth"
				}
				w := wit(k)
				w["recount_packets"], w["recount_bytes"] = pI, bI
				w["budget_packets"], w["budget_bytes"] = float64(c.PPS)*c.Window.Seconds(), float64(c.BPS)*c.Window.Seconds()
				r.Violation(sig, fmt.Sprintf("event %d: Account returned %v; recount of the trailing %v window: %d packets, %d bytes; budget %d/s, %d/s", k, got[k], c.Window, pI, bI, c.PPS, c.BPS), w)
				break
			}
			if closed {
				closes++
			}
		}
		r.Count("limiter_events", len(got))
		b := 0
		for v := live; v > 0; v >>= 1 {
			b++
		}
		maxLive[b]++
		if r.WantSample() && i%3 == 0 {
			r.Sample(map[string]any{"part": "limiter", "pps": c.PPS, "bps": c.BPS, "window": c.Window.String(), "events": len(got), "closed": len(got) > 0 && !got[len(got)-1], "max_live_entries": live})
		}
	}
	r.Set("limiter_closes_confirmed", closes)
	r.Set("limiter_boundary_latitude_events", boundary)
	ml := map[string]int{}
	for b, n := range maxLive {
		ml[fmt.Sprintf("max_live_entries_lt_%d", 1<<b)] = n
	}
	r.Set("limiter_sequences_by_max_live_entries", ml)

	// ================= D: simultaneous first contact of one group ================================
	// "more than burst + rate x elapsed events allowed" must also hold when the events of a group
	// arrive at the same moment on different goroutines (the accept path runs one goroutine per
	// connection). Real time here: the rate is one token per ~11.5 days, so elapsed time adds
	// nothing and the bound is exactly the burst, whatever the scheduler does. Each round uses a
	// group the quota has never seen (the first-contact path), racers are released by a spin
	// barrier and use different member addresses of the group.
	rngD := r.Rng("concurrent-first-contact")
	rounds := r.N(3000, 150000)
	var overlapRounds, allowedTotal int
	for i := 0; i < rounds; i++ {
		burst := 1 + rngD.Intn(3)
		racers := burst + 1 + rngD.Intn(6)
		v6 := rngD.Intn(3) == 0
		q := addrquota.NewQuota(1e-6, burst, 8+rngD.Intn(64))
		// a few older groups so that the cache is not empty (and sometimes full: eviction path)
		for k := rngD.Intn(12); k > 0; k-- {
			q.Blocked(fmt.Sprintf("172.16.%d.1", k))
		}
		members := make([]string, racers)
		for k := range members {
			if v6 {
				members[k] = fmt.Sprintf("2001:db8:%x:%x::%x", i>>16&0xffff, i&0xffff, 1+rngD.Intn(0xfffe))
			} else {
				members[k] = fmt.Sprintf("10.%d.%d.%d", i>>8&0xff, i&0xff, 1+rngD.Intn(254))
			}
		}
		if i == 0 {
			r.LogCase(map[string]any{"part": "concurrent-first-contact", "members": members, "burst": burst})
		}
		var ready, allowed atomic.Int32
		var goFlag atomic.Bool
		var began, ended [16]atomic.Int64
		var clock atomic.Int64
		var wg sync.WaitGroup
		for k := 0; k < racers; k++ {
			wg.Add(1)
			go func(k int) {
				defer wg.Done()
				ready.Add(1)
				for !goFlag.Load() {
				}
				began[k].Store(clock.Add(1))
				if !q.Blocked(members[k]) {
					allowed.Add(1)
				}
				ended[k].Store(clock.Add(1))
			}(k)
		}
		for int(ready.Load()) < racers {
			runtime.Gosched()
		}
		goFlag.Store(true)
		wg.Wait()
		r.Eval(1)
		a := int(allowed.Load())
		allowedTotal += a
		for k := 1; k < racers; k++ {
			if began[k].Load() < ended[0].Load() && began[0].Load() < ended[k].Load() {
				overlapRounds++
				break
			}
		}
		if a > burst {
			r.Violation("quota-allows-more-than-burst-on-simultaneous-first-contact", fmt.Sprintf("%d simultaneous events of one never-seen group were allowed, burst is %d and the rate adds nothing", a, burst), map[string]any{"members": members, "burst": burst, "racers": racers})
			break
		}
		if a < burst {
			r.Violation("quota-blocks-below-burst-on-first-contact", fmt.Sprintf("only %d of %d simultaneous first events of a never-seen group were allowed, burst is %d", a, racers, burst), map[string]any{"members": members, "burst": burst, "racers": racers})
			break
		}
		r.Distinct(fmt.Sprintf("D %d %d %v %d", burst, racers, v6, i))
	}
	r.Set("concurrent_first_contact_rounds", rounds)
	r.Set("concurrent_first_contact_rounds_with_overlapping_calls", overlapRounds)
	r.Set("concurrent_first_contact_events_allowed", allowedTotal)
}
